//go:build verif

package sqlite

// C18 — restart is transparent.  A host built from the real managers is driven through a
// generated operation sequence (contracts with sector roots of both versions — grown,
// rewritten and shrunk —, renewals, volumes with stored sectors, accounts and budgets,
// settings, webhooks with scopes, registry entries, mined blocks that move the processed tip
// and expire contracts, volume data files that are moved away and brought back); at random
// points, and with preference right after an operation that wrote to the store, every
// exported getter of every manager is recorded, the host is closed (or abandoned without
// closing anything: abrupt stop) and re-constructed on the same data directory, and
// everything is recorded again.  Webhook deliveries go to a local HTTP sink.
//
// No observation depends on timing: deliveries are awaited by count (the hook list tells how
// many) under a long deadline, the indexer is awaited until its tip equals the chain's (it
// publishes the tip after its post-commit actions), background resizes are awaited through
// their result channel.

import (
	"bytes"
	"context"
	"crypto/sha256"
	"encoding/hex"
	"encoding/json"
	"errors"
	"fmt"
	"io"
	"math/rand"
	"net/http"
	"net/http/httptest"
	"os"
	"path/filepath"
	"runtime/debug"
	"sort"
	"strings"
	"sync"
	"testing"
	"time"

	rhp2 "go.sia.tech/core/rhp/v2"
	rhp3 "go.sia.tech/core/rhp/v3"
	proto4 "go.sia.tech/core/rhp/v4"
	"go.sia.tech/core/types"
	"go.sia.tech/coreutils"
	"go.sia.tech/coreutils/chain"
	rhp4 "go.sia.tech/coreutils/rhp/v4"
	"go.sia.tech/hostd/v2/host/accounts"
	"go.sia.tech/hostd/v2/host/contracts"
	"go.sia.tech/hostd/v2/host/settings"
	"go.sia.tech/hostd/v2/host/settings/pin"
	"go.sia.tech/hostd/v2/webhooks"
)

// ---- webhook sink

// Deliveries are asynchronous HTTP requests.  Every probe round carries its own event name,
// so a delivery can never be attributed to another round, and collect waits for the number
// of deliveries the registered hooks call for (generous deadline: scheduling delays on a
// loaded machine must not turn into a missing delivery) before it applies a short quiet
// period whose only purpose is to catch deliveries that should NOT have been made.
type verifDelivery struct{ event, scope, path string }

type verifSink struct {
	mu       sync.Mutex
	got      []verifDelivery
	srv      *httptest.Server
	round    int
	timeouts int
}

const verifDeliveryDeadline = 45 * time.Second

func newVerifSink() *verifSink {
	s := &verifSink{}
	s.srv = httptest.NewServer(http.HandlerFunc(func(w http.ResponseWriter, r *http.Request) {
		body, _ := io.ReadAll(r.Body)
		var ev struct {
			Event string `json:"event"`
			Scope string `json:"scope"`
		}
		json.Unmarshal(body, &ev)
		s.mu.Lock()
		s.got = append(s.got, verifDelivery{ev.Event, ev.Scope, r.URL.Path})
		s.mu.Unlock()
		w.WriteHeader(http.StatusOK)
	}))
	return s
}

// nextEvent names the next probe round
func (s *verifSink) nextEvent() string {
	s.mu.Lock()
	defer s.mu.Unlock()
	s.round++
	return fmt.Sprintf("verif%d", s.round)
}

func (s *verifSink) of(event string) []verifDelivery {
	s.mu.Lock()
	defer s.mu.Unlock()
	var out []verifDelivery
	for _, d := range s.got {
		if d.event == event {
			out = append(out, d)
		}
	}
	return out
}

// collect returns the deliveries of one probe round: it waits until want of them have
// arrived (or the long deadline has passed), then until none arrived for a short while.
func (s *verifSink) collect(event string, want int) []verifDelivery {
	deadline := time.Now().Add(verifDeliveryDeadline)
	if s.timeouts >= 3 {
		// the code under test keeps delivering less than its own hook list calls for: a
		// finding has been recorded each time, do not spend the whole budget waiting
		deadline = time.Now().Add(2 * time.Second)
	}
	for len(s.of(event)) < want {
		if time.Now().After(deadline) {
			s.timeouts++
			break
		}
		time.Sleep(500 * time.Microsecond)
	}
	last, quietSince := len(s.of(event)), time.Now()
	for time.Since(quietSince) < 8*time.Millisecond {
		time.Sleep(time.Millisecond)
		if n := len(s.of(event)); n != last {
			last, quietSince = n, time.Now()
		}
	}
	out := s.of(event)
	// forget old rounds
	s.mu.Lock()
	s.got = nil
	s.mu.Unlock()
	return out
}

// ---- the harness's picture of the host

type verifContract struct {
	id       types.FileContractID
	v2       bool
	wend     uint64
	rev      contracts.SignedRevision
	fc       types.V2FileContract
	renewed  bool // has been renewed (is a predecessor)
	num      int
	hadRoots bool
}

type verifWorld struct {
	t         *testing.T
	em        *verifEmitter
	rng       *rand.Rand
	dir       string
	hostKey   types.PrivateKey
	renterKey types.PrivateKey
	uc        types.UnlockConditions
	cm        *chain.Manager
	n         *verifNode
	sink      *verifSink

	sectors       []types.Hash256 // stored sectors (index = root number)
	data          map[types.Hash256]*[rhp2.SectorSize]byte
	cs            []*verifContract
	accts         []rhp3.Account
	accts4        []proto4.Account
	hooks         []int64 // ids handed out so far (including removed ones)
	urls          int
	vols          []int64
	volPath       map[int64]string
	hidden        map[int64]bool // volumes whose data file is moved away right now
	hiddenAtStart map[int64]bool // ... and those whose file was away when the host was last started
	regKeys       int
	budgets       map[int]*accounts.Budget
	budgetAcct    map[int]int // open budget -> index of its account in accts
	shared        bool        // accts4[i] is the same public key as accts[i]: one row of the accounts table behind both interfaces
	nextBud       int
	setValue      uint64
	noFaults      bool // directed cases: no injected faults
	armed         bool // a database fault is armed for the running operation
	pinFailed     bool // the last pin update failed in the store (its in-memory copy is ahead)
}

var verifScopeNames = map[string]int{"alerts": 1, "info": 2, "warning": 3, "wallet": 4, "test": 5, "error": 6}

func verifScopeTerm(s string) string {
	if s == "all" {
		return "[]"
	}
	var parts []string
	for _, p := range strings.Split(s, "/") {
		parts = append(parts, fmt.Sprintf("%d%%N", verifScopeNames[p]))
	}
	return "[" + strings.Join(parts, "; ") + "]"
}

func verifScopesTerm(ss []string) string {
	var l []string
	for _, s := range ss {
		l = append(l, verifScopeTerm(s))
	}
	return "[" + strings.Join(l, "; ") + "]"
}

var verifScopePool = []string{"all", "alerts", "alerts/info", "alerts/warning", "wallet", "test", "alerts/error"}
var verifProbeScopes = []string{"alerts/info", "alerts", "wallet", "test", "alerts/warning"}

func (w *verifWorld) rootNum(r types.Hash256) int {
	for i, s := range w.sectors {
		if s == r {
			return i
		}
	}
	return 9999
}

func (w *verifWorld) rootsTerm(rs []types.Hash256) string {
	var l []string
	for _, r := range rs {
		l = append(l, fmt.Sprintf("%d%%N", w.rootNum(r)))
	}
	return "[" + strings.Join(l, "; ") + "]"
}

func (w *verifWorld) height() uint64 { return w.cm.Tip().Height }

func (w *verifWorld) openBudgets() bool { return len(w.budgets) > 0 }

// snapshot of every exported getter of every manager, keyed by getter
func (w *verifWorld) snapshot(n *verifNode) map[string]string {
	out := map[string]string{}
	// contracts
	for _, c := range w.cs {
		key := fmt.Sprintf("contracts.Manager.SectorRoots(#%d)", c.num)
		out[key] = w.rootsTerm(n.contracts.SectorRoots(c.id))
		if c.v2 {
			cc, err := n.contracts.V2Contract(c.id)
			cc.V2FileContract.RenterSignature, cc.V2FileContract.HostSignature = types.Signature{}, types.Signature{}
			out[fmt.Sprintf("contracts.Manager.V2Contract(#%d)", c.num)] = verifJSON(cc) + fmt.Sprint(err)
			if rs, unlock, err := n.contracts.LockV2Contract(c.id); err != nil {
				out[fmt.Sprintf("contracts.Manager.LockV2Contract(#%d)", c.num)] = "ERR " + err.Error()
			} else {
				out[fmt.Sprintf("contracts.Manager.LockV2Contract(#%d)", c.num)] = fmt.Sprintf("roots %s renewed %v revisable %v revision %d", w.rootsTerm(rs.Roots), rs.Renewed, rs.Revisable, rs.Revision.RevisionNumber)
				unlock()
			}
		} else {
			cc, err := n.contracts.Contract(c.id)
			out[fmt.Sprintf("contracts.Manager.Contract(#%d)", c.num)] = verifJSON(cc) + fmt.Sprint(err)
		}
	}
	cl, cnt, err := n.contracts.Contracts(contracts.ContractFilter{Limit: 100})
	out["contracts.Manager.Contracts"] = fmt.Sprint(cnt, len(cl), err)
	cl2, cnt2, err := n.contracts.V2Contracts(contracts.V2ContractFilter{Limit: 100})
	out["contracts.Manager.V2Contracts"] = fmt.Sprint(cnt2, len(cl2), err)
	for i, a := range w.accts4 {
		b, err := n.contracts.AccountBalance(a)
		out[fmt.Sprintf("contracts.Manager.AccountBalance(#%d)", i)] = fmt.Sprint(b, err)
	}
	// accounts
	for i, a := range w.accts {
		b, err := n.accounts.Balance(a)
		out[fmt.Sprintf("accounts.AccountManager.Balance(#%d)", i)] = fmt.Sprint(b.ExactString(), err)
		f, err := n.accounts.AccountFunding(a)
		sort.Slice(f, func(i, j int) bool { return bytes.Compare(f[i].ContractID[:], f[j].ContractID[:]) < 0 })
		out[fmt.Sprintf("accounts.AccountManager.AccountFunding(#%d)", i)] = verifJSON(f) + fmt.Sprint(err)
	}
	al, err := n.accounts.Accounts(100, 0)
	sort.Slice(al, func(i, j int) bool { return bytes.Compare(al[i].ID[:], al[j].ID[:]) < 0 })
	out["accounts.AccountManager.Accounts"] = verifJSON(al) + fmt.Sprint(err)
	// settings
	out["settings.ConfigManager.Settings"] = verifJSON(n.settings.Settings())
	la, err := n.settings.LastAnnouncement()
	out["settings.ConfigManager.LastAnnouncement"] = verifJSON(la) + fmt.Sprint(err)
	out["settings.ConfigManager.AcceptingContracts"] = fmt.Sprint(n.settings.AcceptingContracts())
	// the EFFECTIVE bandwidth limits (what the RHP listeners are throttled with), not only the stored numbers
	if in, eg := n.settings.RHPBandwidthLimiters(); in != nil && eg != nil {
		out["settings.ConfigManager.RHPBandwidthLimiters"] = fmt.Sprintf("ingress=%v egress=%v", in.Limit(), eg.Limit())
	}
	r4 := n.settings.RHP4Settings()
	out["settings.ConfigManager.RHP4Settings"] = verifJSON(r4)
	r2, err := n.settings.RHP2Settings()
	out["settings.ConfigManager.RHP2Settings"] = verifJSON(r2) + fmt.Sprint(err)
	ps, err := n.store.PinnedSettings(context.Background())
	out["Store.PinnedSettings"] = verifJSON(ps) + fmt.Sprint(err)
	out["pin.Manager.Pinned"] = verifJSON(n.pins.Pinned(context.Background()))
	// webhooks
	hs, err := n.webhooks.Webhooks()
	sort.Slice(hs, func(i, j int) bool { return hs[i].ID < hs[j].ID })
	out["webhooks.Manager.Webhooks"] = verifJSON(hs) + fmt.Sprint(err)
	// volumes
	vs, err := n.volumes.Volumes()
	var vl []string
	for _, v := range vs {
		vl = append(vl, fmt.Sprint(v.ID))
		out[fmt.Sprintf("storage.VolumeManager.Volumes(#%d)", v.ID)] = fmt.Sprintf("{path %s ro %v total %d used %d}", filepath.Base(v.LocalPath), v.ReadOnly, v.TotalSectors, v.UsedSectors)
		out[fmt.Sprintf("storage.VolumeManager.Volumes.availability(#%d)", v.ID)] = fmt.Sprintf("{avail %v status %s}", v.Available, v.Status)
		v1, err := n.volumes.Volume(v.ID)
		out[fmt.Sprintf("storage.VolumeManager.Volume(#%d)", v.ID)] = fmt.Sprintf("{path %s ro %v total %d used %d} %v", filepath.Base(v1.LocalPath), v1.ReadOnly, v1.TotalSectors, v1.UsedSectors, err)
		out[fmt.Sprintf("storage.VolumeManager.Volume.availability(#%d)", v.ID)] = fmt.Sprintf("{avail %v status %s}", v1.Available, v1.Status)
	}
	out["storage.VolumeManager.Volumes"] = strings.Join(vl, " ") + fmt.Sprint(err)
	u, tot, err := n.volumes.Usage()
	out["storage.VolumeManager.Usage"] = fmt.Sprint(u, tot, err)
	for i, r := range w.sectors {
		has, err := n.volumes.HasSector(r)
		out[fmt.Sprintf("storage.VolumeManager.HasSector(%d)", i)] = fmt.Sprint(has, err)
		d, err := n.volumes.ReadSector(r)
		if err != nil {
			out[fmt.Sprintf("storage.VolumeManager.ReadSector(%d)", i)] = "unreadable"
		} else {
			// the harness's sectors differ in their first 64 bytes; the tail shows a misplaced read
			h := sha256.Sum256(append(append([]byte(nil), d[:4096]...), d[len(d)-4096:]...))
			out[fmt.Sprintf("storage.VolumeManager.ReadSector(%d)", i)] = hex.EncodeToString(h[:6])
		}
	}
	// registry
	rc, rl, err := n.registry.Entries()
	out["registry.Manager.Entries"] = fmt.Sprint(rc, rl, err)
	// index / wallet / metrics
	out["index.Manager.Tip"] = n.index.Tip().String()
	bal, err := n.wallet.Balance()
	out["wallet.Balance"] = verifJSON(bal) + fmt.Sprint(err)
	evs, err := n.wallet.Events(0, 100)
	out["wallet.Events"] = fmt.Sprint(len(evs), err)
	m, err := n.store.Metrics(time.Now().Add(time.Hour))
	m.Timestamp = time.Time{}
	// access counters are buffered in memory and flushed periodically and on Close
	m.Storage.Reads, m.Storage.Writes, m.Storage.SectorCacheHits, m.Storage.SectorCacheMisses = 0, 0, 0, 0
	m.Registry.Reads, m.Registry.Writes = 0, 0
	out["Store.Metrics"] = verifJSON(m) + fmt.Sprint(err)
	return out
}

// expectedDeliveries: how many deliveries the hook list the manager itself reports calls
// for, per probe scope (one per hook and distinct matching scope).  Used only to know how
// long to wait, never to judge.
func (w *verifWorld) expectedDeliveries(n *verifNode) int {
	hs, _ := n.webhooks.Webhooks()
	total := 0
	for _, sc := range verifProbeScopes {
		for _, h := range hs {
			seen := map[string]bool{}
			for _, s := range h.Scopes {
				if seen[s] {
					continue
				}
				seen[s] = true
				if s == "all" || s == sc || strings.HasPrefix(sc, s+"/") {
					total++
				}
			}
		}
	}
	return total
}

// probe broadcasts one event of every probe scope and returns, per scope, the sorted
// callback paths it was delivered to (the sink reads event name and scope from the body)
func (w *verifWorld) probe(n *verifNode) (map[string]string, map[string]error) {
	event := w.sink.nextEvent()
	want := w.expectedDeliveries(n)
	errs := map[string]error{}
	for _, sc := range verifProbeScopes {
		if err := n.webhooks.BroadcastEvent(event, sc, "x"); err != nil {
			errs[sc] = err
		}
	}
	per := map[string][]string{}
	for _, d := range w.sink.collect(event, want) {
		per[d.scope] = append(per[d.scope], d.path)
	}
	out := map[string]string{}
	for _, sc := range verifProbeScopes {
		sort.Strings(per[sc])
		out[sc] = strings.Join(per[sc], ",")
	}
	return out, errs
}

// deliveries: which hooks receive an event of each probe scope
func (w *verifWorld) deliveries(n *verifNode) map[string]string {
	got, errs := w.probe(n)
	out := map[string]string{}
	for _, sc := range verifProbeScopes {
		if err := errs[sc]; err != nil {
			out["webhooks.Manager.BroadcastEvent("+sc+")"] = "ERR " + err.Error()
			continue
		}
		out["webhooks.Manager.BroadcastEvent("+sc+")"] = got[sc]
	}
	return out
}

func (w *verifWorld) step(op, obs string) { w.em.Step(op, obs) }

// synced waits until the index manager has processed the whole chain.  The deadline only
// guards against a hang: no observation may depend on how fast the indexer is scheduled.
func (w *verifWorld) synced() {
	if !w.n.waitSynced(w.t, 3*time.Minute) {
		w.t.Fatal("index manager does not catch up with the chain")
	}
}

func (w *verifWorld) pathIDs(paths string) string {
	// "/h3,/h5" -> [3%N; 5%N]
	if paths == "" {
		return "[]"
	}
	var l []string
	for _, p := range strings.Split(paths, ",") {
		l = append(l, strings.TrimPrefix(p, "/h")+"%N")
	}
	return "[" + strings.Join(l, "; ") + "]"
}

// observe records the modelled part of the state for the Coq model.
func (w *verifWorld) observe() {
	n := w.n
	var roots []string
	for _, c := range w.cs {
		roots = append(roots, fmt.Sprintf("(%d%%N, %s)", c.num, w.rootsTerm(n.contracts.SectorRoots(c.id))))
	}
	hs, _ := n.webhooks.Webhooks()
	sort.Slice(hs, func(i, j int) bool { return hs[i].ID < hs[j].ID })
	var hooks []string
	for _, h := range hs {
		hooks = append(hooks, fmt.Sprintf("(%d%%N, (%s%%N, %s))", h.ID, strings.TrimPrefix(h.CallbackURL, w.sink.srv.URL+"/h"), verifScopesTerm(h.Scopes)))
	}
	st := n.settings.Settings()
	var bals []string
	for i, a := range w.accts {
		b, _ := n.accounts.Balance(a)
		bals = append(bals, fmt.Sprintf("(%d%%N, %s%%N)", i, b.ExactString()))
	}
	vs, _ := n.volumes.Volumes()
	var vols []string
	for _, v := range vs {
		// status is "ready" or "unavailable" between operations (a resize has finished when its call returns here)
		vols = append(vols, fmt.Sprintf("(%d%%N, (%s, %d%%N, %s, %s))", v.ID, coqBool(v.ReadOnly), v.TotalSectors, coqBool(v.Available), coqBool(v.Status == "ready")))
	}
	w.step("Observe", fmt.Sprintf("OState [%s] [%s] (%d%%N, %d%%N) [%s] [%s] %d%%N",
		strings.Join(roots, "; "), strings.Join(hooks, "; "), st.Revision, st.IngressLimit, strings.Join(bals, "; "), strings.Join(vols, "; "), n.index.Tip().Height))
	got, _ := w.probe(n)
	for _, sc := range verifProbeScopes {
		w.step("Broadcast "+verifScopeTerm(sc), "ODeliver "+w.pathIDs(got[sc]))
	}
	w.em.Count("op:Observe")
	w.checkIdleAccounts()
}

// busyAcct: an RHP3 budget is open on account i
func (w *verifWorld) busyAcct(i int) bool {
	for _, a := range w.budgetAcct {
		if a == i {
			return true
		}
	}
	return false
}

// checkIdleAccounts: the account manager keeps a balance in memory only while a budget of that
// account is open; for every other account what it reports is the row of the accounts table
// (which RHP4 credits and debits of the same key write directly).  Accounts with an open budget
// are left out: their in-memory view is outside the property's statement (no budget at the stop).
func (w *verifWorld) checkIdleAccounts() {
	for i, a := range w.accts {
		if w.busyAcct(i) {
			continue
		}
		mb, err1 := w.n.accounts.Balance(a)
		sb, err2 := w.n.store.AccountBalance(a)
		if err1 != nil || err2 != nil {
			continue
		}
		if !mb.Equals(sb) {
			w.em.Monitor("idle-account-balance-differs-from-store", fmt.Sprintf("account #%d (no budget open; RHP3 and RHP4 share the key: %v): AccountManager.Balance reports %s, the accounts table holds %s — the next start would report the table's value", i, w.shared, mb.ExactString(), sb.ExactString()))
		}
		w.em.Count("idle account compared with the store")
	}
}

// filesChanged: the volumes whose data file opens now but did not at the last start, or
// the other way round.  For those the property promises nothing across this restart
// ("available again if their files open").
func (w *verifWorld) filesChanged() map[int64]bool {
	out := map[int64]bool{}
	for _, id := range w.vols {
		if w.hidden[id] != w.hiddenAtStart[id] {
			out[id] = true
		}
	}
	return out
}

// checkVolumesAfterStart: after a start every volume is flagged available and is "ready"
// iff its data file was there to be opened; SetReadOnly is accepted iff it is ready.
func (w *verifWorld) checkVolumesAfterStart() {
	vs, err := w.n.volumes.Volumes()
	if err != nil {
		w.em.Monitor("volumes-unreadable-after-start", err.Error())
		return
	}
	for _, v := range vs {
		present := !w.hidden[v.ID]
		if v.Available != present || (v.Status == "ready") != present {
			w.em.Monitor("volume-availability-after-start", fmt.Sprintf("volume %d: data file present at this start: %v (at the start before: %v) — Volumes() reports available=%v status=%s", v.ID, present, !w.hiddenAtStart[v.ID], v.Available, v.Status))
		}
		v1, err := w.n.volumes.Volume(v.ID)
		if err != nil || v1.Available != v.Available || v1.Status != v.Status {
			w.em.Monitor("volume-getters-disagree-after-start", fmt.Sprintf("volume %d: Volumes() available=%v status=%s, Volume() available=%v status=%s err=%v", v.ID, v.Available, v.Status, v1.Available, v1.Status, err))
		}
		// writing the read-only flag it already has changes nothing and tells whether the volume is accepted
		err = w.n.volumes.SetReadOnly(v.ID, v.ReadOnly)
		if (err == nil) != present {
			w.em.Monitor("volume-acceptance-after-start", fmt.Sprintf("volume %d: data file present at this start: %v — SetReadOnly returns %v", v.ID, present, err))
		}
	}
}

// restart closes (or abandons) the host and re-constructs every manager on the same
// data directory, comparing every getter and the webhook deliveries before and after.
// It returns the two snapshots (getters and deliveries merged).
func (w *verifWorld) restart(abrupt bool) (map[string]string, map[string]string) {
	before := w.snapshot(w.n)
	beforeD := w.deliveries(w.n)
	if abrupt {
		// stop without closing anything: the new process sees the files as they are
		crash := filepath.Join(w.dir, fmt.Sprintf("crash%d", w.rng.Int()))
		os.MkdirAll(crash, 0o755)
		// (the database files; a copy of a volume's data file would read the same bytes the
		// file holds after Close, sector writes go straight to the file)
		ents, _ := os.ReadDir(w.n.dir)
		image := func(name string) bool { return !strings.HasSuffix(name, ".dat") }
		for _, e := range ents {
			if !e.IsDir() && image(e.Name()) {
				verifCopyRaw(w.t, filepath.Join(w.n.dir, e.Name()), filepath.Join(crash, e.Name()))
			}
		}
		old := w.n
		// volumes keep their recorded paths: move the crashed image in place of the original
		old.Close()
		for _, e := range ents {
			if !e.IsDir() && image(e.Name()) {
				verifCopyRaw(w.t, filepath.Join(crash, e.Name()), filepath.Join(w.n.dir, e.Name()))
			}
		}
		os.RemoveAll(crash)
		w.em.Count("restart:abrupt")
	} else {
		w.n.Close()
		w.em.Count("restart:clean")
	}
	// a plain open + close of the store must not alter a current-version database
	{
		dumpBefore, _ := verifDump(w.t, w.n.path, false)
		s, err := OpenDatabase(w.n.path, verifNopLog())
		if err != nil {
			w.t.Fatal(err)
		}
		s.Close()
		dumpAfter, _ := verifDump(w.t, w.n.path, false)
		if dumpAfter != dumpBefore {
			w.em.Monitor("open-alters-database", verifSnap{dump: dumpBefore}.diff(verifSnap{dump: dumpAfter}))
		}
	}
	changed := w.filesChanged()
	w.n = verifOpenNode(w.t, w.n.dir, w.hostKey, w.cm, true, 3)
	w.synced()
	w.checkVolumesAfterStart()
	w.hiddenAtStart = map[int64]bool{}
	for id, h := range w.hidden {
		w.hiddenAtStart[id] = h
	}
	after := w.snapshot(w.n)
	afterD := w.deliveries(w.n)
	w.budgets = map[int]*accounts.Budget{}
	w.budgetAcct = map[int]int{}
	pinFailed := w.pinFailed
	w.pinFailed = false
	var keys []string
	for k := range before {
		keys = append(keys, k)
	}
	sort.Strings(keys)
	switch {
	case len(changed) > 0:
		w.em.Count("restart:with a different set of volume files")
	case len(w.hidden) > 0:
		for _, h := range w.hidden {
			if h {
				w.em.Count("restart:with the same volume file missing as before")
				break
			}
		}
	}
	for _, k := range keys {
		if before[k] == after[k] {
			continue
		}
		if len(changed) > 0 {
			// a volume whose file went away or came back: its availability and the
			// readability of its sectors follow the file (checkVolumesAfterStart), all else must stay
			var id int64
			if _, err := fmt.Sscanf(k, "storage.VolumeManager.Volumes.availability(#%d)", &id); err == nil && changed[id] {
				continue
			}
			if _, err := fmt.Sscanf(k, "storage.VolumeManager.Volume.availability(#%d)", &id); err == nil && changed[id] {
				continue
			}
			if strings.HasPrefix(k, "storage.VolumeManager.ReadSector(") && (before[k] == "unreadable" || after[k] == "unreadable") {
				continue
			}
		}
		sig := "restart-changes:" + strings.SplitN(k, "(", 2)[0]
		// classify the root-cache findings
		if k == "pin.Manager.Pinned" && pinFailed {
			sig = "pin-update-cache-before-store"
		}
		if strings.HasPrefix(k, "contracts.Manager.LockV2Contract(#") {
			// the roots a locked contract reports come from the same cache as SectorRoots
			k2 := strings.Replace(k, "LockV2Contract", "SectorRoots", 1)
			if before[k2] != after[k2] {
				continue
			}
		}
		if strings.HasPrefix(k, "contracts.Manager.SectorRoots(#") {
			var num int
			fmt.Sscanf(k, "contracts.Manager.SectorRoots(#%d)", &num)
			c := w.cs[num]
			switch {
			case after[k] != "[]":
				// a root list appearing or changing is never the known finding
			case c.v2 && c.renewed:
				sig = "renewed-v2-predecessor-roots-stay-cached"
			case c.wend < w.height():
				sig = "expired-contract-roots-stay-cached"
			}
		}
		w.em.Monitor(sig, fmt.Sprintf("%s before the restart: %.300s — after: %.300s", k, before[k], after[k]))
	}
	for k := range beforeD {
		if beforeD[k] != afterD[k] {
			w.em.Monitor("restart-changes:webhook-delivery", fmt.Sprintf("%s delivered to [%s] before the restart and to [%s] after", k, beforeD[k], afterD[k]))
		}
		before[k], after[k] = beforeD[k], afterD[k]
	}
	w.step("Restart", "ODone true")
	return before, after
}

func verifCopyRaw(t testing.TB, src, dst string) {
	b, err := os.ReadFile(src)
	if err != nil {
		return
	}
	if err := os.WriteFile(dst, b, 0o644); err != nil {
		t.Fatal(err)
	}
}

// ---- operations

func (w *verifWorld) addVolume(sectors uint64) {
	path := filepath.Join(w.n.dir, fmt.Sprintf("vol%d.dat", len(w.vols)))
	res := make(chan error, 1)
	v, err := w.n.volumes.AddVolume(context.Background(), path, sectors, res)
	if err == nil {
		err = <-res
	}
	if err != nil {
		w.t.Fatal("AddVolume:", err)
	}
	w.vols = append(w.vols, v.ID)
	w.volPath[v.ID] = path
	w.step(fmt.Sprintf("AddVol %d%%N %d%%N", v.ID, sectors), "ODone true")
	w.em.Count("op:AddVol")
}

func (w *verifWorld) writeSector() {
	var data [rhp2.SectorSize]byte
	w.rng.Read(data[:64])
	root := rhp2.SectorRoot(&data)
	if err := w.n.volumes.Write(root, &data); err != nil {
		w.em.Count("op:WriteSector failed (volume full or read-only)")
		return
	}
	w.sectors = append(w.sectors, root)
	w.em.Count("op:WriteSector")
}

func (w *verifWorld) newContract(v2 bool, wend uint64) *verifContract {
	c := &verifContract{v2: v2, wend: wend, num: len(w.cs)}
	var idb types.Hash256
	w.rng.Read(idb[:])
	c.id = types.FileContractID(idb)
	if v2 {
		c.fc = types.V2FileContract{
			RenterPublicKey: w.renterKey.PublicKey(), HostPublicKey: w.hostKey.PublicKey(),
			ProofHeight: wend - 1, ExpirationHeight: wend, RevisionNumber: 1,
			// the contract id is derived from the contents: make every contract different
			RenterOutput: types.SiacoinOutput{Value: types.Siacoins(5).Add(types.NewCurrency64(uint64(c.num + 1)))}, HostOutput: types.SiacoinOutput{Value: types.Siacoins(3)},
			TotalCollateral: types.Siacoins(2), MissedHostValue: types.Siacoins(1),
		}
	} else {
		c.rev = contracts.SignedRevision{Revision: types.FileContractRevision{
			ParentID: c.id, UnlockConditions: w.uc,
			FileContract: types.FileContract{UnlockHash: w.uc.UnlockHash(), RevisionNumber: 1, WindowStart: wend - 1, WindowEnd: wend,
				ValidProofOutputs:  []types.SiacoinOutput{{Value: types.Siacoins(5)}, {Value: types.Siacoins(3)}},
				MissedProofOutputs: []types.SiacoinOutput{{Value: types.Siacoins(5)}, {Value: types.Siacoins(2)}, {Value: types.Siacoins(1)}}},
		}}
	}
	return c
}

func (w *verifWorld) signV2(fc *types.V2FileContract) {
	h := w.cm.TipState().ContractSigHash(*fc)
	fc.RenterSignature = w.renterKey.SignHash(h)
	fc.HostSignature = w.hostKey.SignHash(h)
}

// ---- failing operations: a store call that fails after the manager's own checks passed.
// maybeFault arms, for one operation in four, the failure of one of its next database calls.
func (w *verifWorld) maybeFault() {
	if !w.noFaults && w.rng.Intn(4) == 0 {
		w.n.ctl.Arm(w.rng.Intn(10), verifFaultHard)
		w.armed = true
	}
}

// settle disarms the injector and says whether it fired.
func (w *verifWorld) settle() bool {
	if !w.armed {
		return false
	}
	w.armed = false
	_, _, fired := w.n.ctl.Disarm()
	return fired
}

// failedOp records an operation that returned an error; whatever it was, the host must
// look (now and after a restart) as if it had not been attempted.
func (w *verifWorld) failedOp(kind string, fired bool) {
	w.step("Failed", "ODone false")
	if fired {
		w.em.Count("failed-op:" + kind + " (injected database fault)")
	} else {
		w.em.Count("failed-op:" + kind + " (store rejects it)")
	}
}

func (w *verifWorld) unknownRoot() types.Hash256 {
	var r types.Hash256
	w.rng.Read(r[:])
	return r
}

func (w *verifWorld) form(v2 bool, wend uint64) *verifContract {
	c := w.newContract(v2, wend)
	var err error
	w.maybeFault()
	if v2 {
		txn := types.V2Transaction{FileContracts: []types.V2FileContract{c.fc}}
		c.id = txn.V2FileContractID(txn.ID(), 0)
		err = w.n.contracts.AddV2Contract(rhp4.TransactionSet{Transactions: []types.V2Transaction{txn}}, proto4.Usage{RPC: types.Siacoins(1)})
	} else {
		err = w.n.contracts.AddContract(c.rev, []types.Transaction{{ArbitraryData: [][]byte{{1}}}}, types.Siacoins(2), contracts.Usage{RPCRevenue: types.Siacoins(1)})
	}
	fired := w.settle()
	if err != nil {
		w.failedOp("FormC", fired)
		return nil
	}
	w.cs = append(w.cs, c)
	w.step(fmt.Sprintf("FormC %d%%N %s %d%%N", c.num, coqBool(v2), wend), "ODone true")
	w.em.Count(fmt.Sprintf("op:FormC v2=%v", v2))
	return c
}

// pickLive picks a contract that can still be revised
func (w *verifWorld) pickLive(v2 bool) *verifContract {
	var l []*verifContract
	for _, c := range w.cs {
		// v1: the manager's guard (repaired in /repo 8fe98f6: evaluated when an updater is opened, at
		// commit and at renewal) needs tip + revisionSubmissionBuffer (5 here) <= WindowStart = wend-1
		margin := uint64(2)
		if !v2 {
			margin = 5
		}
		if c.v2 == v2 && !c.renewed && c.wend > w.height()+margin {
			l = append(l, c)
		}
	}
	if len(l) == 0 {
		return nil
	}
	return l[w.rng.Intn(len(l))]
}

// a revision: "random" draws the changes (shrinking ones are common: the rows past the new
// end must go, and only the next start shows whether they did), "append" adds n roots,
// "shrink" cuts the list down to n roots, "replace" overwrites one root, "swap" swaps two
type verifRevPlan struct {
	kind string
	n    int
}

// revise revises a random live contract; it reports whether the root list got shorter
func (w *verifWorld) revise(v2 bool) (shrank bool) {
	c := w.pickLive(v2)
	if c == nil || len(w.sectors) == 0 {
		return false
	}
	_, shrank = w.reviseC(c, verifRevPlan{kind: "random"})
	return shrank
}

func (w *verifWorld) someRoot() types.Hash256 { return w.sectors[w.rng.Intn(len(w.sectors))] }

func (w *verifWorld) reviseC(c *verifContract, plan verifRevPlan) (ok, shrank bool) {
	v2 := c.v2
	// one random revision in six refers to a sector the host does not store: every check of
	// the manager passes and the store call fails half-way
	bogus := plan.kind == "random" && !w.noFaults && w.rng.Intn(6) == 0
	cur := w.n.contracts.SectorRoots(c.id)
	kind := plan.kind
	if kind == "random" && v2 {
		switch k := w.rng.Intn(20); {
		case len(cur) == 0 || k < 9:
			kind, plan.n = "append", 1+w.rng.Intn(2)
		case k < 16:
			kind, plan.n = "shrink", w.rng.Intn(len(cur))
			if w.rng.Intn(4) == 0 {
				plan.n = len(cur) - 1 // exactly one row to remove
			}
		default:
			kind = "replace"
		}
	}
	var err error
	var fired bool
	var final []types.Hash256
	if v2 {
		final = append([]types.Hash256(nil), cur...)
		switch kind {
		case "append":
			for i := 0; i < plan.n; i++ {
				final = append(final, w.someRoot())
			}
		case "shrink":
			final = final[:plan.n]
		case "replace":
			final[w.rng.Intn(len(final))] = w.someRoot()
		case "swap":
			i, j := w.rng.Intn(len(final)), w.rng.Intn(len(final))
			final[i], final[j] = final[j], final[i]
		}
		if bogus {
			final = append(final, w.unknownRoot())
		}
		fc := c.fc
		fc.RevisionNumber++
		fc.Filesize = uint64(len(final)) * proto4.SectorSize
		fc.Capacity = fc.Filesize
		fc.FileMerkleRoot = rhp2.MetaRoot(final)
		w.signV2(&fc)
		if !bogus {
			w.maybeFault()
		}
		err = w.n.contracts.ReviseV2Contract(c.id, fc, final, proto4.Usage{Storage: types.Siacoins(1)})
		fired = w.settle()
		if err == nil {
			c.fc = fc
		}
	} else {
		u, uerr := w.n.contracts.ReviseContract(c.id)
		if uerr != nil {
			w.t.Fatal(uerr)
		}
		act := func(kind string, n int) {
			switch {
			case kind == "append" || u.SectorCount() == 0:
				for i := 0; i < n; i++ {
					u.AppendSector(w.someRoot())
				}
			case kind == "shrink":
				u.TrimSectors(u.SectorCount() - uint64(n))
			case kind == "swap":
				u.SwapSectors(uint64(w.rng.Intn(int(u.SectorCount()))), uint64(w.rng.Intn(int(u.SectorCount()))))
			default:
				u.UpdateSector(w.someRoot(), uint64(w.rng.Intn(int(u.SectorCount()))))
			}
		}
		if kind == "random" {
			for i := 0; i < 1+w.rng.Intn(3); i++ {
				switch k := w.rng.Intn(10); {
				case k < 4 || u.SectorCount() == 0:
					act("append", 1)
				case k < 5:
					act("swap", 0)
				case k < 8:
					act("shrink", w.rng.Intn(int(u.SectorCount())))
				default:
					act("replace", 0)
				}
			}
		} else {
			act(kind, plan.n)
		}
		if bogus {
			u.AppendSector(w.unknownRoot())
		}
		rev := c.rev
		rev.Revision.RevisionNumber++
		rev.Revision.Filesize = u.SectorCount() * proto4.SectorSize
		rev.Revision.FileMerkleRoot = u.MerkleRoot()
		final = u.SectorRoots()
		if !bogus {
			w.maybeFault()
		}
		err = u.Commit(rev, contracts.Usage{StorageRevenue: types.Siacoins(1)})
		fired = w.settle()
		u.Close()
		if err == nil {
			c.rev = rev
		}
	}
	if err != nil {
		w.failedOp(fmt.Sprintf("Commit v2=%v", v2), fired)
		return false, false
	}
	if len(final) > 0 {
		c.hadRoots = true
	}
	w.step(fmt.Sprintf("Commit %d%%N %s", c.num, w.rootsTerm(final)), "ODone true")
	w.em.Count(fmt.Sprintf("op:Commit v2=%v", v2))
	switch {
	case len(final) < len(cur) && len(final) == 0:
		w.em.Count(fmt.Sprintf("op:Commit v2=%v shrinks the list to nothing", v2))
	case len(final) < len(cur):
		w.em.Count(fmt.Sprintf("op:Commit v2=%v shrinks the list", v2))
	}
	return true, len(final) < len(cur)
}

func (w *verifWorld) renew(v2 bool) {
	c := w.pickLive(v2)
	if c == nil {
		return
	}
	nc := w.newContract(v2, w.height()+20+uint64(w.rng.Intn(20)))
	var err error
	if v2 {
		nfc := nc.fc
		nfc.Filesize, nfc.Capacity, nfc.FileMerkleRoot = c.fc.Filesize, c.fc.Capacity, c.fc.FileMerkleRoot
		nc.fc = nfc
		nc.id = c.id.V2RenewalID()
		set := rhp4.TransactionSet{Transactions: []types.V2Transaction{{FileContractResolutions: []types.V2FileContractResolution{{
			Parent:     types.V2FileContractElement{ID: c.id, V2FileContract: c.fc},
			Resolution: &types.V2FileContractRenewal{NewContract: nfc, FinalRenterOutput: c.fc.RenterOutput, FinalHostOutput: c.fc.HostOutput},
		}}}}}
		w.maybeFault()
		err = w.n.contracts.RenewV2Contract(set, proto4.Usage{RPC: types.Siacoins(1)})
	} else {
		roots := w.n.contracts.SectorRoots(c.id)
		// one renewal in six reuses the id of an existing contract: the store rejects it
		if others := w.cs; !w.noFaults && w.rng.Intn(6) == 0 {
			for _, o := range others {
				if !o.v2 && o != c {
					nc.rev.Revision.ParentID = o.id
					break
				}
			}
		}
		nc.id = nc.rev.Revision.ParentID
		nc.rev.Revision.Filesize = uint64(len(roots)) * proto4.SectorSize
		nc.rev.Revision.FileMerkleRoot = rhp2.MetaRoot(roots)
		clearing := c.rev
		clearing.Revision.RevisionNumber = types.MaxRevisionNumber
		clearing.Revision.Filesize = 0
		clearing.Revision.FileMerkleRoot = types.Hash256{}
		w.maybeFault()
		err = w.n.contracts.RenewContract(nc.rev, clearing, []types.Transaction{{ArbitraryData: [][]byte{{2}}}}, types.Siacoins(2), contracts.Usage{RPCRevenue: types.Siacoins(1)}, contracts.Usage{RPCRevenue: types.Siacoins(1)})
	}
	fired := w.settle()
	if err != nil {
		w.failedOp(fmt.Sprintf("RenewC v2=%v", v2), fired)
		return
	}
	c.renewed = true
	nc.hadRoots = c.hadRoots
	w.cs = append(w.cs, nc)
	w.step(fmt.Sprintf("RenewC %d%%N %d%%N %s %d%%N", c.num, nc.num, coqBool(v2), nc.wend), "ODone true")
	w.em.Count(fmt.Sprintf("op:RenewC v2=%v", v2))
}

func (w *verifWorld) mine(nb int) {
	addr := types.VoidAddress
	if w.rng.Intn(2) == 0 {
		addr = types.StandardUnlockHash(w.hostKey.PublicKey())
	}
	for i := 0; i < nb; i++ {
		// generous: finding a block of the test network takes microseconds on an idle machine
		b, ok := coreutils.MineBlock(w.cm, addr, 2*time.Minute)
		if !ok {
			w.t.Fatal("failed to mine block")
		} else if err := w.cm.AddBlocks([]types.Block{b}); err != nil {
			w.t.Fatal(err)
		}
	}
	// the indexer publishes its tip after the post-commit actions of the last batch, so
	// nothing is in flight once the tips agree
	w.synced()
	w.step(fmt.Sprintf("Mine %d%%N", nb), fmt.Sprintf("OTip %d%%N", w.n.index.Tip().Height))
	w.em.Count("op:Mine")
}

func (w *verifWorld) randScopes() []string {
	var scopes []string
	for i := 0; i < 1+w.rng.Intn(3); i++ {
		scopes = append(scopes, verifScopePool[w.rng.Intn(len(verifScopePool))])
	}
	return scopes
}

func (w *verifWorld) registerHook() {
	scopes := w.randScopes()
	w.urls++
	u := w.urls
	w.maybeFault()
	h, err := w.n.webhooks.RegisterWebhook(fmt.Sprintf("%s/h%d", w.sink.srv.URL, u), scopes)
	fired := w.settle()
	if err != nil {
		w.failedOp("RegisterHook", fired)
		return
	}
	w.hooks = append(w.hooks, h.ID)
	w.step(fmt.Sprintf("RegisterHook %d%%N %s", u, verifScopesTerm(scopes)), fmt.Sprintf("OHook %d%%N", h.ID))
	w.em.Count("op:RegisterHook")
}

func (w *verifWorld) updateHook() {
	if len(w.hooks) == 0 {
		return
	}
	id := w.hooks[w.rng.Intn(len(w.hooks))]
	scopes := w.randScopes()
	w.urls++
	u := w.urls
	var err error
	w.maybeFault()
	func() {
		defer func() {
			if r := recover(); r != nil {
				err = fmt.Errorf("panic: %v", r)
				w.em.Monitor("webhook-update-panics", fmt.Sprint(r))
			}
		}()
		_, err = w.n.webhooks.UpdateWebhook(id, fmt.Sprintf("%s/h%d", w.sink.srv.URL, u), scopes)
	}()
	if fired := w.settle(); fired && err != nil {
		w.failedOp("UpdateHook", true)
		return
	}
	w.step(fmt.Sprintf("UpdateHook %d%%N %d%%N %s", id, u, verifScopesTerm(scopes)), "ODone "+coqBool(err == nil))
	w.em.Count(fmt.Sprintf("op:UpdateHook ok=%v", err == nil))
}

func (w *verifWorld) removeHook() {
	if len(w.hooks) == 0 {
		return
	}
	id := w.hooks[w.rng.Intn(len(w.hooks))]
	w.maybeFault()
	err := w.n.webhooks.RemoveWebhook(id)
	if fired := w.settle(); fired && err != nil {
		w.failedOp("RemoveHook", true)
		return
	}
	w.step(fmt.Sprintf("RemoveHook %d%%N", id), "ODone "+coqBool(err == nil))
	w.em.Count("op:RemoveHook")
}

// setSettings changes a random subset of all fields (all of them when all is set): the
// first write of a host is an INSERT, every later one an upsert that has to carry each column
func (w *verifWorld) setSettings(all bool) {
	w.setValue++
	v := w.setValue
	flip := func() bool { return all || w.rng.Intn(2) == 0 }
	s := w.n.settings.Settings() // the API patches the current settings
	s.IngressLimit = v
	if flip() {
		s.AcceptingContracts = !s.AcceptingContracts
	}
	if flip() {
		s.NetAddress = fmt.Sprintf("host%d.example", v)
	}
	if flip() {
		s.MaxContractDuration = 1000 + v
	}
	if flip() {
		s.WindowSize = 100 + v
	}
	if flip() {
		s.ContractPrice = types.Siacoins(uint32(1 + v%7))
	}
	if flip() {
		s.BaseRPCPrice = types.NewCurrency64(1000 + v)
	}
	if flip() {
		s.SectorAccessPrice = types.NewCurrency64(2000 + v)
	}
	if flip() {
		s.CollateralMultiplier = 1.5 + float64(v%5)
	}
	if flip() {
		s.MaxCollateral = types.Siacoins(uint32(100 + v))
	}
	if flip() {
		s.StoragePrice = types.NewCurrency64(3000 + v)
	}
	if flip() {
		s.EgressPrice = types.NewCurrency64(4000 + v)
	}
	if flip() {
		s.IngressPrice = types.NewCurrency64(5000 + v)
	}
	if flip() {
		s.PriceTableValidity = time.Duration(10+v) * time.Minute
	}
	if flip() {
		s.MaxRegistryEntries = 16 + v
	}
	if flip() {
		s.AccountExpiry = time.Duration(24+v) * time.Hour
	}
	if flip() {
		s.MaxAccountBalance = types.Siacoins(uint32(10 + v))
	}
	if flip() {
		s.EgressLimit = 7000 + v
	}
	if flip() {
		s.SectorCacheSize = uint32(v % 5)
	}
	w.maybeFault()
	err := w.n.settings.UpdateSettings(s)
	fired := w.settle()
	if err != nil {
		w.failedOp("SetSettings", fired)
		return
	}
	w.step(fmt.Sprintf("SetSettings %d%%N", v), "ODone true")
	w.em.Count("op:SetSettings")
}

// pinUpdate stores new pinned settings through the pin manager; every flag and value is
// drawn independently (all flags inverted when invert is set)
func (w *verifWorld) pinUpdate(invert bool) {
	cur := w.n.pins.Pinned(context.Background())
	mk := func(old pin.Pin) pin.Pin {
		p := pin.Pin{Pinned: w.rng.Intn(2) == 0, Value: float64(1+w.rng.Intn(1000)) / 8}
		if invert {
			p.Pinned = !old.Pinned
		}
		return p
	}
	p := pin.PinnedSettings{
		Currency:      []string{"usd", "eur", "jpy"}[w.rng.Intn(3)],
		Threshold:     float64(w.rng.Intn(100)) / 100,
		Storage:       mk(cur.Storage),
		Ingress:       mk(cur.Ingress),
		Egress:        mk(cur.Egress),
		MaxCollateral: mk(cur.MaxCollateral),
	}
	w.maybeFault()
	err := w.n.pins.Update(context.Background(), p)
	fired := w.settle()
	// the exchange rate source of the harness is unreachable: the settings are stored, the prices are not refreshed
	if err != nil && !errors.Is(err, errVerifForex) {
		if fired {
			w.pinFailed = true
		}
		w.em.Count(fmt.Sprintf("failed-op:PinUpdate fired=%v", fired))
		return
	}
	w.pinFailed = false
	w.em.Count("op:PinUpdate")
}

func (w *verifWorld) credit() { w.creditTo(-1) }

func (w *verifWorld) creditTo(ai int) {
	var c *verifContract
	for _, x := range w.cs {
		if !x.v2 && !x.renewed {
			c = x
			break
		}
	}
	if c == nil {
		return
	}
	if ai < 0 {
		ai = w.rng.Intn(len(w.accts))
	}
	amt := uint64(1000 + w.rng.Intn(5000))
	rev := c.rev
	rev.Revision.RevisionNumber++
	w.maybeFault()
	_, err := w.n.accounts.Credit(accounts.FundAccountWithContract{Account: w.accts[ai], Cost: types.NewCurrency64(1), Amount: types.NewCurrency64(amt), Revision: rev, Expiration: time.Now().Add(time.Hour)}, false)
	fired := w.settle()
	if err != nil {
		w.failedOp("Credit", fired)
		return
	}
	c.rev = rev
	w.step(fmt.Sprintf("Credit %d%%N %d%%N", ai, amt), "ODone true")
	w.em.Count("op:Credit")
}

func (w *verifWorld) budgetOp() {
	switch k := w.rng.Intn(4); {
	case k < 2 && len(w.budgets) < 3:
		ai := w.rng.Intn(len(w.accts))
		amt := uint64(100 + w.rng.Intn(3000))
		w.maybeFault()
		b, err := w.n.accounts.Budget(w.accts[ai], types.NewCurrency64(amt))
		if fired := w.settle(); fired && err != nil {
			w.failedOp("OpenBudget", true)
			return
		}
		id := w.nextBud
		w.nextBud++
		if err == nil {
			w.budgets[id] = b
			w.budgetAcct[id] = ai
		}
		w.step(fmt.Sprintf("OpenBudget %d%%N %d%%N %d%%N", id, ai, amt), "ODone "+coqBool(err == nil))
		w.em.Count(fmt.Sprintf("op:OpenBudget ok=%v", err == nil))
	default:
		w.closeBudget()
	}
}

func (w *verifWorld) closeBudget() {
	// the open budget with the smallest id (not map order: a case must replay the same way)
	ids := make([]int, 0, len(w.budgets))
	for id := range w.budgets {
		ids = append(ids, id)
	}
	sort.Ints(ids)
	for _, id := range ids {
		b, ai, committed := w.budgets[id], w.budgetAcct[id], false
		if w.rng.Intn(3) == 0 {
			b.Rollback()
			w.step(fmt.Sprintf("RollbackBudget %d%%N", id), "ODone true")
			w.em.Count("op:RollbackBudget")
		} else {
			rem := b.Remaining()
			spend := uint64(0)
			if !rem.IsZero() {
				spend = uint64(w.rng.Int63n(int64(rem.Big().Uint64()) + 1))
			}
			b.Spend(accounts.Usage{RPCRevenue: types.NewCurrency64(spend)})
			w.maybeFault()
			err := b.Commit()
			fired := w.settle()
			if err != nil {
				b.Rollback()
			}
			if err != nil && fired {
				// the debit failed in the store: the RPC handler rolls the budget back
				w.step(fmt.Sprintf("RollbackBudget %d%%N", id), "ODone true")
				w.em.Count("failed-op:CommitBudget (injected database fault)")
			} else {
				w.step(fmt.Sprintf("CommitBudget %d%%N %d%%N", id, spend), "ODone "+coqBool(err == nil))
				w.em.Count(fmt.Sprintf("op:CommitBudget ok=%v", err == nil))
				committed = err == nil
			}
		}
		delete(w.budgets, id)
		delete(w.budgetAcct, id)
		if committed && w.shared && !w.busyAcct(ai) && w.rng.Intn(2) == 0 {
			// the last open budget of the account has just been committed: the same key is used through RHP4 next
			w.em.Count("RHP4 operation right after the last RHP3 budget of the same key was committed")
			w.rhp4Op(ai)
		}
		return
	}
}

// ---- RHP4 credits and debits: contracts.Manager hands them to the store, the account manager
// never sees them.  When the two protocols share keys (w.shared) account i of RHP4 is account i
// of RHP3 — the same row of the accounts table —, otherwise it is a key of its own (model
// accounts 2 and 3).  They are only issued for a key with no open RHP3 budget: while a budget is
// open the in-memory view of that account is outside what C18 states (and is recorded under C04).
func (w *verifWorld) acct4Term(i int) int {
	if w.shared {
		return i
	}
	return len(w.accts) + i
}

func (w *verifWorld) idleAcct4() (int, bool) {
	var l []int
	for i := range w.accts4 {
		if !w.shared || !w.busyAcct(i) {
			l = append(l, i)
		}
	}
	if len(l) == 0 {
		return 0, false
	}
	return l[w.rng.Intn(len(l))], true
}

func (w *verifWorld) rhp4Op(ai int) {
	if w.shared && w.busyAcct(ai) {
		return
	}
	if w.rng.Intn(2) == 0 {
		if w.credit4(ai) {
			return
		}
	}
	w.debit4(ai)
}

// credit4: CreditAccountsWithContract (RPCFundAccounts) through a live v2 contract
func (w *verifWorld) credit4(ai int) bool {
	c := w.pickLive(true)
	if c == nil {
		return false
	}
	amt := uint64(500 + w.rng.Intn(4000))
	fc := c.fc
	fc.RevisionNumber++
	w.signV2(&fc)
	w.maybeFault()
	_, err := w.n.contracts.CreditAccountsWithContract([]proto4.AccountDeposit{{Account: w.accts4[ai], Amount: types.NewCurrency64(amt)}}, c.id, fc, proto4.Usage{AccountFunding: types.NewCurrency64(amt)})
	fired := w.settle()
	if err != nil {
		w.failedOp("Credit4", fired)
		return true
	}
	c.fc = fc
	w.step(fmt.Sprintf("Credit4 %d%%N %d%%N", w.acct4Term(ai), amt), "ODone true")
	w.em.Count(fmt.Sprintf("op:Credit4 shared-key=%v", w.shared))
	return true
}

// debit4: DebitAccount (every paid RHP4 RPC); refused when the row holds less
func (w *verifWorld) debit4(ai int) {
	amt := uint64(1 + w.rng.Intn(3000))
	if w.rng.Intn(4) == 0 {
		// everything that is there (what the table says)
		if b, err := w.n.store.RHP4AccountBalance(w.accts4[ai]); err == nil && !b.IsZero() && b.Big().IsUint64() {
			amt = b.Big().Uint64()
		}
	}
	w.maybeFault()
	err := w.n.contracts.DebitAccount(w.accts4[ai], proto4.Usage{RPC: types.NewCurrency64(amt)})
	fired := w.settle()
	if err != nil && (fired || !errors.Is(err, proto4.ErrNotEnoughFunds)) {
		w.failedOp("Debit4", fired)
		return
	}
	w.step(fmt.Sprintf("Debit4 %d%%N %d%%N", w.acct4Term(ai), amt), "ODone "+coqBool(err == nil))
	w.em.Count(fmt.Sprintf("op:Debit4 shared-key=%v accepted=%v", w.shared, err == nil))
}

func (w *verifWorld) regPut() {
	w.regKeys++
	e := rhp3.RegistryEntry{RegistryKey: rhp3.RegistryKey{PublicKey: w.renterKey.PublicKey(), Tweak: types.Hash256{byte(w.regKeys)}},
		RegistryValue: rhp3.RegistryValue{Revision: 1, Type: rhp3.EntryTypeArbitrary, Data: []byte{byte(w.regKeys)}}}
	e.Signature = w.renterKey.SignHash(e.Hash())
	w.maybeFault()
	_, err := w.n.registry.Put(e, 100000)
	w.settle()
	w.em.Count(fmt.Sprintf("op:RegistryPut ok=%v", err == nil))
}

func (w *verifWorld) setReadOnly() {
	if len(w.vols) == 0 {
		return
	}
	w.setReadOnlyOf(w.vols[w.rng.Intn(len(w.vols))], w.rng.Intn(2) == 0)
}

func (w *verifWorld) setReadOnlyOf(id int64, ro bool) {
	w.maybeFault()
	err := w.n.volumes.SetReadOnly(id, ro)
	if fired := w.settle(); fired && err != nil {
		w.failedOp("SetRO", true)
		return
	}
	w.step(fmt.Sprintf("SetRO %d%%N %s", id, coqBool(ro)), "ODone "+coqBool(err == nil))
	w.em.Count(fmt.Sprintf("op:SetRO accepted=%v", err == nil))
}

// growVolume resizes a volume to one or two sectors more (no injected fault: the resize
// runs in the background and reports through a channel)
func (w *verifWorld) growVolume(id int64) {
	v, err := w.n.volumes.Volume(id)
	if err != nil {
		w.t.Fatal("Volume:", err)
	}
	total := v.TotalSectors + uint64(1+w.rng.Intn(2))
	res := make(chan error, 1)
	err = w.n.volumes.ResizeVolume(context.Background(), id, total, res)
	if err == nil {
		if err = <-res; err != nil {
			w.t.Fatal("ResizeVolume (grow) was accepted and failed:", err)
		}
		// the result is sent after the status went back to ready
	}
	w.step(fmt.Sprintf("GrowVol %d%%N %d%%N", id, total), "ODone "+coqBool(err == nil))
	w.em.Count(fmt.Sprintf("op:GrowVol accepted=%v", err == nil))
}

// ---- volume data files that cannot be opened

func (w *verifWorld) hiddenPath(id int64) string {
	return filepath.Join(w.n.dir, "away", filepath.Base(w.volPath[id]))
}

// hideVolFile moves the data file of a volume out of the way.  The running host keeps the
// file it has open; the next start will not find it.
func (w *verifWorld) hideVolFile(id int64) {
	if w.hidden[id] {
		return
	}
	os.MkdirAll(filepath.Join(w.n.dir, "away"), 0o755)
	if err := os.Rename(w.volPath[id], w.hiddenPath(id)); err != nil {
		w.t.Fatal(err)
	}
	w.hidden[id] = true
	w.step(fmt.Sprintf("HideVolFile %d%%N", id), "ODone true")
	w.em.Count("op:HideVolFile")
}

func (w *verifWorld) restoreVolFile(id int64) {
	if !w.hidden[id] {
		return
	}
	if err := os.Rename(w.hiddenPath(id), w.volPath[id]); err != nil {
		w.t.Fatal(err)
	}
	w.hidden[id] = false
	w.step(fmt.Sprintf("RestoreVolFile %d%%N", id), "ODone true")
	w.em.Count("op:RestoreVolFile")
}

func (w *verifWorld) pickVol(hidden bool) (int64, bool) {
	var l []int64
	for _, id := range w.vols {
		if w.hidden[id] == hidden {
			l = append(l, id)
		}
	}
	if len(l) == 0 {
		return 0, false
	}
	return l[w.rng.Intn(len(l))], true
}

func (w *verifWorld) closeBudgets() {
	for w.openBudgets() {
		w.closeBudget()
	}
}

// restartObserved: what the model is asked about a restart
func (w *verifWorld) restartObserved(abrupt bool) (map[string]string, map[string]string) {
	w.closeBudgets()
	if w.rng.Intn(2) == 0 {
		w.observe()
	}
	before, after := w.restart(abrupt)
	w.observe()
	return before, after
}

// fileRoundTrip: the data file of a volume is away at one start and back at the next.
// While it is away the volume is unavailable and refuses SetReadOnly / ResizeVolume; once
// it is back the host must be, getter by getter and delivery by delivery, where it was
// before the file went away (when nothing else happened in between), and a further
// restart must change nothing.
func (w *verifWorld) fileRoundTrip(id int64, abrupt bool, busy bool) {
	w.closeBudgets()
	settled := len(w.filesChanged()) == 0
	w.hideVolFile(id)
	s0, s1 := w.restartObserved(abrupt)
	w.setReadOnlyOf(id, w.rng.Intn(2) == 0)
	w.growVolume(id)
	if busy {
		// life goes on while the volume is away
		w.writeSector()
		w.revise(w.rng.Intn(2) == 0)
		w.mine(1)
		settled = false
	}
	if w.rng.Intn(3) == 0 {
		// the same file is still missing at another start: nothing may change
		w.restartObserved(false)
	}
	w.restoreVolFile(id)
	_, s2 := w.restartObserved(abrupt && w.rng.Intn(2) == 0)
	if settled {
		var keys []string
		for k := range s0 {
			keys = append(keys, k)
		}
		sort.Strings(keys)
		for _, k := range keys {
			// what the first of the two restarts changed although it does not follow the
			// file has been reported there (the recorded findings about cached roots)
			followsFile := strings.Contains(k, ".availability(#") || strings.HasPrefix(k, "storage.VolumeManager.ReadSector(")
			if s0[k] != s2[k] && (s0[k] == s1[k] || followsFile) {
				w.em.Monitor("file-restored-state-differs:"+strings.SplitN(k, "(", 2)[0], fmt.Sprintf("volume %d: file moved away, start, file moved back, start — %s was %.300s before and is %.300s now", id, k, s0[k], s2[k]))
			}
		}
		w.em.Count("file-roundtrip: compared with the state before the file went away")
	}
	w.restartObserved(false)
	w.em.Count("file-roundtrip")
}

// verifSettingsRoundTrip: settings and pinned settings written several times (every field
// different each time, every flag toggled in both directions), the store reopened after
// each write, and what it returns compared field by field with what was written last.
func verifSettingsRoundTrip(t *testing.T, em *verifEmitter, dir string) {
	path := filepath.Join(dir, "roundtrip.sqlite3")
	mkSettings := func(v uint64) settings.Settings {
		odd := v%2 == 1
		s := settings.Settings{
			AcceptingContracts: odd, NetAddress: fmt.Sprintf("rt%d.example:9982", v), MaxContractDuration: 100 + v, WindowSize: 10 + v,
			ContractPrice: types.NewCurrency64(11 + v), BaseRPCPrice: types.NewCurrency64(22 + v), SectorAccessPrice: types.NewCurrency64(33 + v),
			CollateralMultiplier: 1.25 + float64(v), MaxCollateral: types.NewCurrency64(44 + v),
			StoragePrice: types.NewCurrency64(55 + v), EgressPrice: types.NewCurrency64(66 + v), IngressPrice: types.NewCurrency64(77 + v),
			PriceTableValidity: time.Duration(v+1) * time.Minute, MaxRegistryEntries: 88 + v,
			AccountExpiry: time.Duration(v+1) * time.Hour, MaxAccountBalance: types.NewCurrency64(99 + v),
			IngressLimit: 111 + v, EgressLimit: 222 + v, SectorCacheSize: uint32(3 + v),
		}
		s.DDNS.Provider = []string{"duckdns", "noip"}[v%2]
		s.DDNS.IPv4, s.DDNS.IPv6 = odd, !odd
		s.DDNS.Options = []byte(fmt.Sprintf(`{"token":"t%d"}`, v))
		return s
	}
	mkPinned := func(v uint64) pin.PinnedSettings {
		odd := v%2 == 1
		return pin.PinnedSettings{Currency: []string{"usd", "eur"}[v%2], Threshold: float64(v+1) / 16,
			Storage: pin.Pin{Pinned: odd, Value: 1.5 + float64(v)}, Ingress: pin.Pin{Pinned: odd, Value: 2.5 + float64(v)},
			Egress: pin.Pin{Pinned: odd, Value: 3.5 + float64(v)}, MaxCollateral: pin.Pin{Pinned: odd, Value: 4.5 + float64(v)}}
	}
	fields := func(v any) map[string]string {
		var m map[string]any
		json.Unmarshal([]byte(verifJSON(v)), &m)
		out := map[string]string{}
		var walk func(prefix string, x any)
		walk = func(prefix string, x any) {
			if mm, ok := x.(map[string]any); ok {
				for k, y := range mm {
					walk(prefix+"."+k, y)
				}
				return
			}
			out[prefix] = fmt.Sprint(x)
		}
		walk("", m)
		return out
	}
	for v := uint64(0); v < 4; v++ {
		s, err := OpenDatabase(path, verifNopLog())
		if err != nil {
			t.Fatal(err)
		}
		ws, wp := mkSettings(v), mkPinned(v)
		if err := s.UpdateSettings(ws); err != nil {
			t.Fatal(err)
		} else if err := s.UpdatePinnedSettings(context.Background(), wp); err != nil {
			t.Fatal(err)
		}
		s.Close()
		s, err = OpenDatabase(path, verifNopLog())
		if err != nil {
			t.Fatal(err)
		}
		gs, err1 := s.Settings()
		gp, err2 := s.PinnedSettings(context.Background())
		s.Close()
		if err1 != nil || err2 != nil {
			em.Monitor("settings-unreadable-after-reopen", fmt.Sprint(err1, err2))
			continue
		}
		ws.Revision = v // 0 on insert, +1 per update
		want, got := fields(ws), fields(gs)
		for k, x := range want {
			if got[k] != x {
				em.Monitor("settings-field-lost-after-reopen:"+k, fmt.Sprintf("update #%d wrote %s=%s, the reopened store returns %s", v, k, x, got[k]))
			}
		}
		want, got = fields(wp), fields(gp)
		for k, x := range want {
			if got[k] != x {
				em.Monitor("pinned-settings-field-lost-after-reopen:"+k, fmt.Sprintf("update #%d wrote %s=%s, the reopened store returns %s", v, k, x, got[k]))
			}
		}
		em.Count("settings-roundtrip")
	}
}

const verifC18Directed = 10

func TestVerifC18(t *testing.T) {
	em := newVerifEmitter(t, "From HostdBase Require Import Base.\nFrom HostdRestart Require Import Model.", "case", "check")
	defer em.Close()
	sink := newVerifSink()
	defer sink.srv.Close()
	root := t.TempDir()
	n := verifN(20)
	for id := 0; id < n+verifC18Directed; id++ {
		if em.Skip(id) {
			continue
		}
		rng := verifCaseRand(id)
		dir := filepath.Join(root, fmt.Sprintf("case%d", id))
		os.MkdirAll(dir, 0o755)
		cm, _ := verifNewChain(t, true)
		w := &verifWorld{t: t, em: em, rng: rng, dir: dir, cm: cm, sink: sink,
			hostKey: verifKey(rng), renterKey: verifKey(rng), volPath: map[int64]string{}, budgets: map[int]*accounts.Budget{},
			hidden: map[int64]bool{}, hiddenAtStart: map[int64]bool{}, budgetAcct: map[int]int{},
			data: map[types.Hash256]*[rhp2.SectorSize]byte{}}
		// case 9 and every second generated history: one public key is used as rhp3.Account and as proto4.Account
		w.shared = id == 9 || (id >= verifC18Directed && id%2 == 0)
		w.uc = types.UnlockConditions{PublicKeys: []types.UnlockKey{w.renterKey.PublicKey().UnlockKey(), w.hostKey.PublicKey().UnlockKey()}, SignaturesRequired: 2}
		for i := 0; i < 2; i++ {
			w.accts = append(w.accts, rhp3.Account(verifKey(rng).PublicKey()))
			w.accts4 = append(w.accts4, proto4.Account(verifKey(rng).PublicKey()))
			if w.shared {
				w.accts4[i] = proto4.Account(w.accts[i])
			}
		}
		w.n = verifOpenNode(t, dir, w.hostKey, cm, true, 3)
		w.noFaults = id < verifC18Directed
		desc := "generated history with restarts"
		if id < verifC18Directed {
			desc = []string{
				"directed: v1 contract with roots runs past its proof window; settings round trip",
				"directed: v2 contract with roots is renewed",
				"directed: nested webhook scopes, settings revisions, v1 renewal, abrupt stop",
				"directed: v2 root list shrinks (to k>0, by one, to nothing), restart before the next append",
				"directed: v1 root list is trimmed (to k>0, by one, to nothing), restart before the next append",
				"directed: renewals with roots and shrinking the renewal, each followed by a restart",
				"directed: volume data file missing at one start, back at the next (clean stops)",
				"directed: volume data files missing at a start (abrupt stops, two volumes)",
				"directed: every write path with an in-memory copy, each followed at once by a restart",
				"directed: one account key used through RHP3 (credit, budgets) and RHP4 (credits, debits), observed and restarted while no budget is open",
			}[id]
		}
		em.BeginCase(id, desc)
		// every history starts with a volume, stored sectors and a few blocks
		w.addVolume(uint64(6 + rng.Intn(4)))
		for i := 0; i < 3+rng.Intn(3); i++ {
			w.writeSector()
		}
		w.mine(2)
		w.setSettings(false)
		// a revision of contract c followed by observe / restart / observe
		revRestart := func(c *verifContract, plan verifRevPlan, abrupt bool) {
			w.reviseC(c, plan)
			w.observe()
			w.restart(abrupt)
			w.observe()
		}
		panicked := false
		func() {
			// a panic of the code under test ends the case and is reported as a finding
			defer func() {
				if r := recover(); r != nil {
					panicked = true
					em.Monitor("host-code-panics", fmt.Sprintf("%v\n%.1500s", r, debug.Stack()))
				}
			}()
			switch id {
			case 0:
				verifSettingsRoundTrip(t, em, dir)
				// directed: a v1 contract with roots runs past its proof window (the store drops
				// its roots, the manager keeps them until the next start)
				w.form(false, w.height()+4)
				w.revise(false)
				w.observe()
				w.restart(false)
				w.observe()
				w.mine(6)
				w.observe()
				w.restart(false)
				w.observe()
			case 1:
				// directed: a v2 contract with roots is renewed
				c := w.form(true, w.height()+40)
				w.reviseC(c, verifRevPlan{"append", 2})
				w.reviseC(c, verifRevPlan{"append", 1})
				w.renew(true)
				w.observe()
				w.restart(false)
				w.observe()
			case 2:
				// directed: webhooks with nested scopes, settings revisions, a v1 renewal
				w.registerHook()
				w.registerHook()
				w.registerHook()
				w.updateHook()
				// every settings column and every pinned flag changes after the first write
				w.setSettings(true)
				w.setSettings(true)
				w.pinUpdate(false)
				w.pinUpdate(true)
				w.pinUpdate(true)
				w.form(false, w.height()+40)
				w.revise(false)
				w.renew(false)
				w.observe()
				w.restart(false)
				w.observe()
				w.updateHook()
				w.removeHook()
				w.restart(true)
				w.observe()
			case 3, 4:
				// directed: the root list of a v2 (case 3) / v1 (case 4) contract shrinks — to
				// k > 0 roots, by exactly one root, to nothing — and the host is restarted before
				// anything is appended again: the manager's cache is right either way, only the
				// start reads the rows back
				c := w.form(id == 3, w.height()+60)
				revRestart(c, verifRevPlan{"append", 5}, false)
				revRestart(c, verifRevPlan{"shrink", 3}, false)
				revRestart(c, verifRevPlan{"shrink", 2}, true)
				revRestart(c, verifRevPlan{"swap", 0}, false)
				revRestart(c, verifRevPlan{"shrink", 0}, false)
				w.reviseC(c, verifRevPlan{"append", 3})
				revRestart(c, verifRevPlan{"shrink", 1}, true)
				revRestart(c, verifRevPlan{"replace", 0}, false)
				w.reviseC(c, verifRevPlan{"append", 2})
				revRestart(c, verifRevPlan{"shrink", 0}, true)
				revRestart(c, verifRevPlan{"append", 1}, false)
			case 5:
				// directed: renewals of contracts with roots, and shrinking the renewed contract,
				// each followed by a restart
				c := w.form(false, w.height()+60)
				w.reviseC(c, verifRevPlan{"append", 4})
				w.renew(false)
				w.observe()
				w.restart(false)
				w.observe()
				nc := w.cs[len(w.cs)-1]
				revRestart(nc, verifRevPlan{"shrink", 2}, false)
				w.renew(false)
				w.restart(true)
				w.observe()
				revRestart(w.cs[len(w.cs)-1], verifRevPlan{"shrink", 0}, false)
				// a v2 contract without roots is renewed (with roots: case 1), the renewal grows and shrinks
				c2 := w.form(true, w.height()+60)
				w.renew(true)
				w.restart(false)
				w.observe()
				_ = c2
				n2 := w.cs[len(w.cs)-1]
				w.reviseC(n2, verifRevPlan{"append", 3})
				revRestart(n2, verifRevPlan{"shrink", 1}, false)
			case 6, 7:
				// directed: a volume's data file is missing at one start and back at the next
				// (case 6 clean stops, case 7 abrupt ones and two volumes away at the same time)
				abrupt := id == 7
				w.addVolume(4)
				w.writeSector()
				c := w.form(true, w.height()+60)
				w.reviseC(c, verifRevPlan{"append", 3})
				w.registerHook()
				w.observe()
				w.fileRoundTrip(w.vols[0], abrupt, false)
				w.setReadOnlyOf(w.vols[1], true)
				w.fileRoundTrip(w.vols[1], abrupt, false)
				w.fileRoundTrip(w.vols[0], abrupt, true)
				if abrupt {
					w.hideVolFile(w.vols[0])
					w.hideVolFile(w.vols[1])
					w.restartObserved(true)
					w.restoreVolFile(w.vols[0])
					w.restartObserved(false) // one back, one still away
					w.setReadOnlyOf(w.vols[0], true)
					w.setReadOnlyOf(w.vols[1], false)
					w.restoreVolFile(w.vols[1])
					w.restartObserved(true)
					w.restartObserved(false)
					w.growVolume(w.vols[1])
					w.restartObserved(false)
				}
			case 8:
				// directed: every other write path that has an in-memory copy, each followed
				// at once by a restart
				after := func(op func()) {
					op()
					w.restartObserved(w.rng.Intn(3) == 0)
				}
				c := w.form(false, w.height()+60)
				after(func() { w.registerHook() })
				after(func() { w.updateHook() })
				after(func() { w.registerHook() })
				after(func() { w.removeHook() })
				after(func() { w.setSettings(true) })
				after(func() { w.pinUpdate(true) })
				after(func() { w.credit() })
				after(func() { w.budgetOp(); w.closeBudgets() })
				after(func() { w.regPut() })
				after(func() { w.setReadOnly() })
				after(func() { w.growVolume(w.vols[0]) })
				after(func() { w.addVolume(3) })
				after(func() { w.mine(3) })
				after(func() { w.reviseC(c, verifRevPlan{"append", 2}) })
				after(func() { w.form(true, w.height()+30) })
			case 9:
				// directed: the account manager must not keep an account in memory once its last
				// budget is closed — RHP4 writes the same row behind its back
				w.form(false, w.height()+60)
				w.form(true, w.height()+60)
				w.creditTo(0)
				w.creditTo(1)
				openB := func(ai int, amt uint64) int {
					b, err := w.n.accounts.Budget(w.accts[ai], types.NewCurrency64(amt))
					id := w.nextBud
					w.nextBud++
					if err == nil {
						w.budgets[id], w.budgetAcct[id] = b, ai
					}
					w.step(fmt.Sprintf("OpenBudget %d%%N %d%%N %d%%N", id, ai, amt), "ODone "+coqBool(err == nil))
					return id
				}
				commitB := func(id int, spend uint64) {
					b := w.budgets[id]
					if b == nil {
						return
					}
					b.Spend(accounts.Usage{RPCRevenue: types.NewCurrency64(spend)})
					err := b.Commit()
					if err != nil {
						b.Rollback()
					}
					w.step(fmt.Sprintf("CommitBudget %d%%N %d%%N", id, spend), "ODone "+coqBool(err == nil))
					delete(w.budgets, id)
					delete(w.budgetAcct, id)
				}
				for ai := range w.accts {
					// a budget is committed, then RHP4 debits and credits the same key
					commitB(openB(ai, 300), 100)
					w.debit4(ai)
					w.observe()
					w.credit4(ai)
					w.observe()
					w.restart(false)
					w.observe()
					// two budgets of one account, committed one after the other; a rolled back one
					b1, b2 := openB(ai, 200), openB(ai, 100)
					commitB(b1, 50)
					commitB(b2, 100)
					w.credit4(ai)
					w.observe()
					b3 := openB(ai, 150)
					w.budgets[b3].Rollback()
					w.step(fmt.Sprintf("RollbackBudget %d%%N", b3), "ODone true")
					delete(w.budgets, b3)
					delete(w.budgetAcct, b3)
					w.debit4(ai)
					w.observe()
					w.creditTo(ai)
					w.observe()
					w.restart(ai == 1)
					w.observe()
				}
			default:
				// every generated history has contracts of both versions with roots, a funded
				// account and a hook to begin with
				for _, v2 := range []bool{false, true} {
					if c := w.form(v2, w.height()+uint64(6+rng.Intn(40))); c != nil {
						w.reviseC(c, verifRevPlan{"append", 2 + rng.Intn(3)})
					}
				}
				w.credit()
				w.registerHook()
				steps := 8 + rng.Intn(12)
				for i := 0; i < steps; i++ {
					// how likely a restart follows the operation at once: what an operation left
					// in the store shows only when the managers load it again
					restartOneIn := 4
					switch k := rng.Intn(100); {
					case k < 4:
						w.form(false, w.height()+uint64(4+rng.Intn(40)))
					case k < 8:
						w.form(true, w.height()+uint64(4+rng.Intn(40)))
					case k < 30:
						if w.revise(rng.Intn(2) == 0) {
							restartOneIn = 2
						}
					case k < 36:
						w.renew(rng.Intn(2) == 0)
						restartOneIn = 3
					case k < 41:
						w.mine(1 + rng.Intn(4))
					case k < 46:
						w.registerHook()
					case k < 51:
						w.updateHook()
						restartOneIn = 3
					case k < 54:
						w.removeHook()
						restartOneIn = 3
					case k < 58:
						w.setSettings(false)
					case k < 61:
						w.pinUpdate(w.rng.Intn(2) == 0)
					case k < 66:
						w.credit()
					case k < 73:
						w.budgetOp()
					case k < 76:
						if ai, ok := w.idleAcct4(); ok {
							w.rhp4Op(ai)
						}
					case k < 78:
						w.regPut()
					case k < 80:
						w.setReadOnly()
					case k < 82 && len(w.vols) < 3:
						w.addVolume(uint64(3 + rng.Intn(3)))
					case k < 84 && len(w.sectors) < 8:
						w.writeSector()
					case k < 86:
						w.growVolume(w.vols[rng.Intn(len(w.vols))])
					case k < 89:
						// a volume file goes away or comes back on its own
						if id, ok := w.pickVol(rng.Intn(2) == 0); ok {
							if w.hidden[id] {
								w.restoreVolFile(id)
							} else {
								w.hideVolFile(id)
							}
							restartOneIn = 2
						}
					case k < 92:
						if id, ok := w.pickVol(false); ok {
							w.fileRoundTrip(id, rng.Intn(3) == 0, rng.Intn(2) == 0)
						}
						restartOneIn = 0
					case k < 95:
						w.observe()
						restartOneIn = 0
					default:
						restartOneIn = 1
					}
					if restartOneIn > 0 && rng.Intn(restartOneIn) == 0 {
						w.restartObserved(rng.Intn(3) == 0)
					}
				}
				w.closeBudgets()
				w.observe()
				w.restart(false)
				w.observe()
			}
		}()
		if !panicked {
			// (after a panic the managers may hold locks: the host is abandoned)
			w.n.Close()
		}
		em.EndCase(len(w.cs) > 0 || len(w.hooks) > 0)
		os.RemoveAll(dir)
	}
	_ = webhooks.ScopeAll
}
