//go:build verif

package sqlite

// Store-level driver for C01 (contract chain state is a function of the best chain) and
// C05 (contract metrics equal recomputation).  It feeds synthesized contracts.StateChanges
// through the real Store.UpdateChainState(tx.RevertContracts / tx.ApplyContracts /
// tx.RejectContracts) in the order of contracts.Manager.UpdateChainState, interleaved with the
// store's usage-changing operations, records every operation with a snapshot of
// Contracts()/V2Contracts()/Metrics() for the Coq model (Contracts/Model.v) and evaluates the
// properties' own predicates (monitors).
//
// A block may carry several changes of one contract, in the combinations consensus allows: a v1
// formation whose created element carries the revisions confirmed in the same block (evForm with
// new = k >= 1), possibly resolved in that very block (an evForm and a resolution event of the same v1
// contract: the formation confirmed in the block at its window start together with a storage
// proof), a v2 contract revised and resolved (renewal / storage proof / expiration) in one block
// (an evRev and a resolution event of the same contract).  When vfBuildHook is set
// (verif_c01_hook_test.go) every well-formed block reaches the store the way it does in
// production: its changes are merged into one element diff per contract id, as core's MidState
// does, and handed to the real contracts.buildContractState, whose result goes to the store.

import (
	"fmt"
	"math/rand"
	"path/filepath"
	"sort"
	"strings"
	"testing"
	"time"

	"go.sia.tech/core/consensus"
	rhp3 "go.sia.tech/core/rhp/v3"
	proto4 "go.sia.tech/core/rhp/v4"
	"go.sia.tech/core/types"
	rhp4 "go.sia.tech/coreutils/rhp/v4"
	"go.sia.tech/hostd/v2/host/accounts"
	"go.sia.tech/hostd/v2/host/contracts"
	"go.sia.tech/hostd/v2/index"
	"go.uber.org/zap"
)

const vfHeader = "From HostdBase Require Import Base.\nFrom HostdContracts Require Import Model.\nLocal Open Scope N_scope."

// vfBuildHook is the real contracts.buildContractState when verif_c01_hook_test.go is part of the
// build, nil otherwise (the driver then feeds the StateChanges it expects directly).
var vfBuildHook func(tx contracts.UpdateStateTx, fces []consensus.FileContractElementDiff, v2Fces []consensus.V2FileContractElementDiff, revert bool) (contracts.StateChanges, error)

func TestVerifC01(t *testing.T) { vfRun(t, "C01") }
func TestVerifC05(t *testing.T) { vfRun(t, "C05") }

// ---------------------------------------------------------------- shadow data

const (
	evForm = iota
	evRev
	evProof  // storage proof / valid resolution -> successful
	evMissOK // expired, missed payout >= valid payout -> successful
	evFail   // expired, host burnt -> failed
	evRenew  // v2 renewal resolution -> renewed
)

var vfEvName = []string{"form", "revise", "proof", "missed-ok", "fail", "renew"}

type vfContract struct {
	v2     bool
	num    int
	id     types.FileContractID
	neg    uint64
	locked types.Currency
	rev    uint64 // revision number stored in the contract row
	addSeq int    // number of blocks ever applied when the contract was added
	// soundness of rejection: highest applied height processed while the contract existed
	maxApplied uint64
	hasApplied bool
}

type vfEvent struct {
	kind     int
	c        *vfContract
	old, new uint64 // revision numbers (evRev); evForm: new = revision number of the created element (v1: the revisions folded into the formation, 0 = none)
}

type vfBlock struct {
	height uint64
	bid    int
	events []vfEvent
}

func (b *vfBlock) index() types.ChainIndex {
	var id types.BlockID
	id[0] = byte(b.bid >> 8)
	id[1] = byte(b.bid)
	id[31] = 0xb1
	return types.ChainIndex{Height: b.height, ID: id}
}

// chain-derived view of one contract (reference fold used by the generator only)
type vfRef struct {
	formed      bool
	lastRev     uint64
	resolved    int // 0 none, 1 successful, 2 failed, 3 renewed
	formIdx     types.ChainIndex
	resIdx      types.ChainIndex
	folded      bool // v1: lastRev is the revision the formation carried (k >= 1)
	resWithRev  bool // resolved in a block that also revised the contract
	resWithForm bool // resolved in the block that formed the contract
}

func vfFold(chain []*vfBlock) map[*vfContract]*vfRef {
	m := map[*vfContract]*vfRef{}
	get := func(c *vfContract) *vfRef {
		if m[c] == nil {
			m[c] = &vfRef{}
		}
		return m[c]
	}
	for _, b := range chain {
		revised, created := map[*vfContract]bool{}, map[*vfContract]bool{}
		for _, e := range b.events {
			if e.kind == evRev {
				revised[e.c] = true
			}
			if e.kind == evForm {
				created[e.c] = true
			}
		}
		for _, e := range b.events {
			r := get(e.c)
			switch e.kind {
			case evForm:
				r.formed = true
				r.lastRev = e.new
				r.formIdx = b.index()
				r.folded = !e.c.v2 && e.new > 0
			case evRev:
				r.lastRev = e.new
				r.folded = false
			case evProof, evMissOK:
				r.resolved = 1
				r.resIdx = b.index()
				r.resWithRev = revised[e.c]
				r.resWithForm = created[e.c]
			case evFail:
				r.resolved = 2
				r.resIdx = b.index()
				r.resWithRev = revised[e.c]
				r.resWithForm = created[e.c]
			case evRenew:
				r.resolved = 3
				r.resIdx = b.index()
				r.resWithRev = revised[e.c]
				r.resWithForm = created[e.c]
			}
		}
	}
	return m
}

// ---------------------------------------------------------------- world

type vfWorld struct {
	t    *testing.T
	em   *verifEmitter
	mode string
	rng  *rand.Rand
	db   *Store
	dir  string
	id   int

	buffer     uint64
	v1, v2     []*vfContract
	chain      []*vfBlock // current best chain, chain[i].height == i+1
	nextBid    int
	applied    int
	orphans    [][]*vfBlock                 // reverted branches that may be re-applied (crossing the same block again)
	wellFormed bool                         // false once an ill-formed update was committed: C01 monitors off
	replay     []func(db *Store) error      // non-chain operations, for the best-chain replay
	tipSnaps   map[string]map[string]string // chain (the ids of all its blocks: the generator may reconnect an orphaned block on a different parent) -> chain columns right after its tip was applied
	nontrivial bool
	visited    map[string]bool
	prevM      string
}

func vfCur(v int64) types.Currency {
	if v < 0 {
		return types.Siacoins(uint32(-v))
	}
	return types.NewCurrency64(uint64(v))
}

func vfID(v2 bool, num int) (id types.FileContractID) {
	id[0] = 1
	if v2 {
		id[0] = 2
	}
	id[1] = byte(num >> 8)
	id[2] = byte(num)
	return
}

func vfAccount(n int) (a [32]byte) { a[0] = 0xac; a[1] = byte(n); return }

var vfRenterKey = types.NewPrivateKeyFromSeed(make([]byte, 32)).PublicKey()
var vfHostKey = types.NewPrivateKeyFromSeed(append([]byte{1}, make([]byte, 31)...)).PublicKey()
var vfUC = types.UnlockConditions{PublicKeys: []types.UnlockKey{vfRenterKey.UnlockKey(), vfHostKey.UnlockKey()}, SignaturesRequired: 2}

func (c *vfContract) signed(rev uint64) contracts.SignedRevision {
	return contracts.SignedRevision{Revision: types.FileContractRevision{
		ParentID:         c.id,
		UnlockConditions: vfUC,
		FileContract:     types.FileContract{UnlockHash: vfUC.UnlockHash(), RevisionNumber: rev, WindowStart: 1000, WindowEnd: 2000},
	}}
}

func (c *vfContract) v2fc(rev uint64) types.V2FileContract {
	return types.V2FileContract{RenterPublicKey: vfRenterKey, HostPublicKey: vfHostKey, ProofHeight: 1000,
		ExpirationHeight: 2000, RevisionNumber: rev, TotalCollateral: c.locked}
}

// ---------------------------------------------------------------- Coq terms

func vfN(c types.Currency) string { return c.ExactString() }

type vfUsage struct{ rpc, sto, ing, egr, rr, rw, fund, risk types.Currency }

func (u vfUsage) coq() string {
	return fmt.Sprintf("(mkU %s %s %s %s %s %s %s %s)", vfN(u.rpc), vfN(u.sto), vfN(u.ing), vfN(u.egr), vfN(u.rr), vfN(u.rw), vfN(u.fund), vfN(u.risk))
}
func (u vfUsage) v1() contracts.Usage {
	return contracts.Usage{RPCRevenue: u.rpc, StorageRevenue: u.sto, IngressRevenue: u.ing, EgressRevenue: u.egr,
		RegistryRead: u.rr, RegistryWrite: u.rw, AccountFunding: u.fund, RiskedCollateral: u.risk}
}
func (u vfUsage) v2() proto4.Usage {
	return proto4.Usage{RPC: u.rpc, Storage: u.sto, Ingress: u.ing, Egress: u.egr, AccountFunding: u.fund, RiskedCollateral: u.risk}
}
func (u vfUsage) isZero() bool {
	return u.rpc.IsZero() && u.sto.IsZero() && u.ing.IsZero() && u.egr.IsZero() && u.rr.IsZero() && u.rw.IsZero() && u.fund.IsZero() && u.risk.IsZero()
}

func (w *vfWorld) amount() types.Currency {
	switch r := w.rng.Intn(20); {
	case r < 8:
		return types.ZeroCurrency
	case r < 18:
		return types.NewCurrency64(uint64(1 + w.rng.Intn(30)))
	case r < 19:
		return types.Siacoins(uint32(1 + w.rng.Intn(5))) // > 2^64: exercises the high word
	default:
		return types.NewCurrency64(1)
	}
}

func (w *vfWorld) usage(v2 bool, withFund bool) vfUsage {
	u := vfUsage{rpc: w.amount(), sto: w.amount(), ing: w.amount(), egr: w.amount(), risk: w.amount()}
	if !v2 {
		u.rr, u.rw = w.amount(), w.amount()
	}
	if withFund {
		u.fund = w.amount()
	}
	return u
}

func vfIdx(i types.ChainIndex) string {
	if i == (types.ChainIndex{}) {
		return "(0, 0)"
	}
	return fmt.Sprintf("(%d, %d)", i.Height, int(i.ID[0])<<8|int(i.ID[1]))
}

var vfSt1 = map[contracts.ContractStatus]string{contracts.ContractStatusPending: "Pending", contracts.ContractStatusRejected: "Rejected",
	contracts.ContractStatusActive: "Active", contracts.ContractStatusSuccessful: "Successful", contracts.ContractStatusFailed: "Failed"}
var vfSt2 = map[contracts.V2ContractStatus]string{contracts.V2ContractStatusPending: "P2", contracts.V2ContractStatusRejected: "R2",
	contracts.V2ContractStatusActive: "A2", contracts.V2ContractStatusRenewed: "N2", contracts.V2ContractStatusSuccessful: "S2", contracts.V2ContractStatusFailed: "F2"}

// changes renders the StateChanges of a block as a Model.changes term and builds the real value
// (what buildContractState is to produce for the block's element diffs).
func (w *vfWorld) changes(b *vfBlock, revert bool) (string, contracts.StateChanges) {
	var sc contracts.StateChanges
	var conf1, rev1, succ1, fail1, conf2, rev2, succ2, ren2, fail2 []string
	for _, e := range b.events {
		n := e.new
		if revert {
			n = e.old // buildContractState: on revert the previous revision is applied
		}
		if !e.c.v2 {
			switch e.kind {
			case evForm:
				// the created element is confirmed and is the confirmed revision (reverting: back to 0)
				k := e.new
				if revert {
					k = 0
				}
				sc.Confirmed = append(sc.Confirmed, types.FileContractElement{ID: e.c.id, FileContract: types.FileContract{RevisionNumber: e.new}})
				sc.Revised = append(sc.Revised, contracts.RevisedContract{ID: e.c.id, FileContract: types.FileContract{RevisionNumber: k}})
				conf1 = append(conf1, fmt.Sprint(e.c.num))
				rev1 = append(rev1, fmt.Sprintf("(%d, %d)", e.c.num, k))
			case evRev:
				sc.Revised = append(sc.Revised, contracts.RevisedContract{ID: e.c.id, FileContract: types.FileContract{RevisionNumber: n}})
				rev1 = append(rev1, fmt.Sprintf("(%d, %d)", e.c.num, n))
			case evProof, evMissOK:
				sc.Successful = append(sc.Successful, e.c.id)
				succ1 = append(succ1, fmt.Sprint(e.c.num))
			case evFail:
				sc.Failed = append(sc.Failed, e.c.id)
				fail1 = append(fail1, fmt.Sprint(e.c.num))
			}
		} else {
			switch e.kind {
			case evForm:
				sc.ConfirmedV2 = append(sc.ConfirmedV2, types.V2FileContractElement{ID: e.c.id,
					StateElement: types.StateElement{LeafIndex: uint64(e.c.num)}, V2FileContract: e.c.v2fc(e.new)})
				conf2 = append(conf2, fmt.Sprintf("(%d, %d)", e.c.num, e.new))
			case evRev:
				sc.RevisedV2 = append(sc.RevisedV2, contracts.RevisedV2Contract{ID: e.c.id, V2FileContract: e.c.v2fc(n)})
				rev2 = append(rev2, fmt.Sprintf("(%d, %d)", e.c.num, n))
			case evProof, evMissOK:
				sc.SuccessfulV2 = append(sc.SuccessfulV2, e.c.id)
				succ2 = append(succ2, fmt.Sprint(e.c.num))
			case evRenew:
				sc.RenewedV2 = append(sc.RenewedV2, e.c.id)
				ren2 = append(ren2, fmt.Sprint(e.c.num))
			case evFail:
				sc.FailedV2 = append(sc.FailedV2, e.c.id)
				fail2 = append(fail2, fmt.Sprint(e.c.num))
			}
		}
	}
	term := fmt.Sprintf("(mkCh %s %s %s %s %s %s %s %s %s)", coqList(conf1), coqList(rev1), coqList(succ1), coqList(fail1),
		coqList(conf2), coqList(rev2), coqList(succ2), coqList(ren2), coqList(fail2))
	return term, sc
}

// diffs builds the element diffs of a block the way core's MidState does: ONE diff per contract
// id, into which every change of the contract in the block is merged (a created element carries
// the revisions confirmed with it; a revised element may be resolved as well).
func (w *vfWorld) diffs(b *vfBlock) (fces []consensus.FileContractElementDiff, v2Fces []consensus.V2FileContractElementDiff) {
	pos1, pos2 := map[*vfContract]int{}, map[*vfContract]int{}
	payout := func(v uint64) []types.SiacoinOutput {
		return []types.SiacoinOutput{{}, {Value: types.NewCurrency64(v)}}
	}
	v1fc := func(rev uint64) types.FileContract {
		return types.FileContract{RevisionNumber: rev, ValidProofOutputs: payout(10), MissedProofOutputs: payout(10)}
	}
	for pass := 0; pass < 2; pass++ { // creation and revision first: a resolution keeps the element they set
		for _, e := range b.events {
			if (e.kind == evForm || e.kind == evRev) != (pass == 0) {
				continue
			}
			if !e.c.v2 {
				i, ok := pos1[e.c]
				if !ok {
					fces = append(fces, consensus.FileContractElementDiff{FileContractElement: types.FileContractElement{ID: e.c.id, FileContract: v1fc(0)}})
					i = len(fces) - 1
					pos1[e.c] = i
				}
				d := &fces[i]
				switch e.kind {
				case evForm:
					d.Created = true
					d.FileContractElement.FileContract = v1fc(e.new)
				case evRev:
					d.FileContractElement.FileContract = v1fc(e.old)
					rev := v1fc(e.new)
					d.Revision = &rev
				case evProof:
					d.Resolved, d.Valid = true, true
				case evMissOK:
					d.Resolved = true
				case evFail:
					d.Resolved = true
					d.FileContractElement.FileContract.MissedProofOutputs = payout(5)
				}
			} else {
				i, ok := pos2[e.c]
				if !ok {
					v2Fces = append(v2Fces, consensus.V2FileContractElementDiff{V2FileContractElement: types.V2FileContractElement{ID: e.c.id,
						StateElement: types.StateElement{LeafIndex: uint64(e.c.num)}, V2FileContract: e.c.v2fc(0)}})
					i = len(v2Fces) - 1
					pos2[e.c] = i
				}
				d := &v2Fces[i]
				switch e.kind {
				case evForm:
					d.Created = true
					d.V2FileContractElement.V2FileContract = e.c.v2fc(e.new)
				case evRev:
					d.V2FileContractElement.V2FileContract = e.c.v2fc(e.old)
					rev := e.c.v2fc(e.new)
					d.Revision = &rev
				case evProof:
					d.Resolution = &types.V2StorageProof{}
				case evRenew:
					d.Resolution = &types.V2FileContractRenewal{}
				case evMissOK:
					d.Resolution = &types.V2FileContractExpiration{}
				case evFail:
					d.Resolution = &types.V2FileContractExpiration{}
					d.V2FileContractElement.V2FileContract.HostOutput.Value = types.NewCurrency64(10)
					d.V2FileContractElement.V2FileContract.MissedHostValue = types.NewCurrency64(5)
				}
			}
		}
	}
	return
}

// sameBlock lists the contracts of a block with several changes, for the histogram
func vfSameBlock(b *vfBlock) (out []string) {
	var revised []*vfContract
	for _, e := range b.events {
		if e.kind == evRev {
			revised = append(revised, e.c)
		}
		if e.kind == evForm && !e.c.v2 && e.new > 0 {
			out = append(out, "v1:form+revision")
		}
	}
	for _, e := range b.events {
		if e.kind != evForm || e.c.v2 {
			continue
		}
		for _, f := range b.events {
			if f.c == e.c && f.kind != evForm && f.kind != evRev {
				out = append(out, "v1:form+"+vfEvName[f.kind])
			}
		}
	}
	for _, e := range b.events {
		if e.kind == evForm || e.kind == evRev {
			continue
		}
		for _, c := range revised {
			if c == e.c {
				out = append(out, vfVer(c)+":revise+"+vfEvName[e.kind])
			}
		}
	}
	return
}

// ---------------------------------------------------------------- snapshot

type vfSnap struct {
	term string
	v1   []contracts.Contract
	v2   []contracts.V2Contract
	m    [19]types.Currency
}

func vfNum(id types.FileContractID) int { return int(id[1])<<8 | int(id[2]) }

func vfSnapshot(t *testing.T, db *Store) vfSnap {
	var s vfSnap
	c1, _, err := db.Contracts(contracts.ContractFilter{})
	if err != nil {
		t.Fatal(err)
	}
	c2, _, err := db.V2Contracts(contracts.V2ContractFilter{})
	if err != nil {
		t.Fatal(err)
	}
	sort.Slice(c1, func(i, j int) bool { return vfNum(c1[i].Revision.ParentID) < vfNum(c1[j].Revision.ParentID) })
	sort.Slice(c2, func(i, j int) bool { return vfNum(c2[i].ID) < vfNum(c2[j].ID) })
	m, err := db.Metrics(time.Now().Add(time.Hour))
	if err != nil {
		t.Fatal(err)
	}
	s.v1, s.v2 = c1, c2
	n := func(v uint64) types.Currency { return types.NewCurrency64(v) }
	s.m = [19]types.Currency{n(m.Contracts.Active), n(m.Contracts.Rejected), n(m.Contracts.Successful), n(m.Contracts.Failed), n(m.Contracts.Renewed),
		m.Contracts.LockedCollateral, m.Contracts.RiskedCollateral,
		m.Revenue.Potential.RPC, m.Revenue.Potential.Storage, m.Revenue.Potential.Ingress, m.Revenue.Potential.Egress, m.Revenue.Potential.RegistryRead, m.Revenue.Potential.RegistryWrite,
		m.Revenue.Earned.RPC, m.Revenue.Earned.Storage, m.Revenue.Earned.Ingress, m.Revenue.Earned.Egress, m.Revenue.Earned.RegistryRead, m.Revenue.Earned.RegistryWrite}
	var r1, r2, ms []string
	for _, c := range c1 {
		u := c.Usage
		r1 = append(r1, fmt.Sprintf("V1 %d %s %v %v %d %s [%s;%s;%s;%s;%s;%s;%s;%s]", vfNum(c.Revision.ParentID), vfSt1[c.Status], c.FormationConfirmed, c.RevisionConfirmed,
			c.ResolutionHeight, vfN(c.LockedCollateral), vfN(u.RPCRevenue), vfN(u.StorageRevenue), vfN(u.IngressRevenue), vfN(u.EgressRevenue), vfN(u.RegistryRead), vfN(u.RegistryWrite), vfN(u.AccountFunding), vfN(u.RiskedCollateral)))
	}
	for _, c := range c2 {
		u := c.Usage
		r2 = append(r2, fmt.Sprintf("V2 %d %s %s %v %s [%s;%s;%s;%s;%s;%s]", vfNum(c.ID), vfSt2[c.Status], vfIdx(c.FormationIndex), c.RevisionConfirmed, vfIdx(c.ResolutionIndex),
			vfN(u.RPC), vfN(u.Storage), vfN(u.Ingress), vfN(u.Egress), vfN(u.AccountFunding), vfN(u.RiskedCollateral)))
	}
	for _, v := range s.m {
		ms = append(ms, vfN(v))
	}
	s.term = fmt.Sprintf("(%s, %s, [%s])", coqList(r1), coqList(r2), strings.Join(ms, ";"))
	return s
}

// raw chain columns (the anchors of C01), keyed "v1/<num>" / "v2/<num>"
func vfChainCols(t *testing.T, db *Store) map[string]string {
	out := map[string]string{}
	err := db.transaction(func(tx *txn) error {
		rows, err := tx.Query(`SELECT contract_id, contract_status, formation_confirmed, confirmed_revision_number, resolution_height FROM contracts`)
		if err != nil {
			return err
		}
		for rows.Next() {
			var id types.FileContractID
			var st contracts.ContractStatus
			var formed bool
			var conf, res uint64
			if err := rows.Scan(decode(&id), &st, &formed, decodeNullable(&conf), decodeNullable(&res)); err != nil {
				rows.Close()
				return err
			}
			out[fmt.Sprintf("v1/%d", vfNum(id))] = fmt.Sprintf("status=%s formed=%v confirmedRev=%d resolution=%d", vfSt1[st], formed, conf, res)
		}
		rows.Close()
		rows, err = tx.Query(`SELECT c.contract_id, c.contract_status, c.confirmation_index, c.resolution_index, cs.revision_number FROM contracts_v2 c LEFT JOIN contract_v2_state_elements cs ON (cs.contract_id=c.id)`)
		if err != nil {
			return err
		}
		defer rows.Close()
		for rows.Next() {
			var id types.FileContractID
			var st contracts.V2ContractStatus
			var ci, ri types.ChainIndex
			var el []byte
			if err := rows.Scan(decode(&id), &st, decodeNullable(&ci), decodeNullable(&ri), &el); err != nil {
				return err
			}
			e := "none"
			if el != nil {
				e = fmt.Sprint(mustScanUint64(el))
			}
			out[fmt.Sprintf("v2/%d", vfNum(id))] = fmt.Sprintf("status=%s confirmation=%s resolution=%s element=%s", vfSt2[st], vfIdx(ci), vfIdx(ri), e)
		}
		return rows.Err()
	})
	if err != nil {
		t.Fatal(err)
	}
	return out
}

// pending and rejected are the two faces of "unconfirmed": C01 leaves rejection one-way
func vfModRej(s string) string {
	s = strings.Replace(s, "status=Rejected formed=false", "status=Pending formed=false", 1)
	s = strings.Replace(s, "status=R2 confirmation=(0, 0)", "status=P2 confirmation=(0, 0)", 1)
	return s
}

// ---------------------------------------------------------------- running operations

func vfClassify(err error, pan any) (cls string) {
	switch {
	case pan != nil:
		msg := fmt.Sprint(pan)
		switch {
		case strings.Contains(msg, "negative stat value"):
			return "CPanic PNegStat"
		case strings.Contains(msg, "underflow"):
			return "CPanic PUnderflow"
		case strings.Contains(msg, "unexpected contract stat"): // "state transition" / "status"
			return "CPanic PTransition"
		default:
			return "CPanic OTHER(" + msg + ")" // not a model term on purpose: breaks the tie visibly
		}
	case err != nil:
		return "CErr"
	}
	return "COk"
}

// do runs one store operation, records it with the snapshot taken afterwards and runs the
// per-step monitors.  expectOK: the operation is well-formed, so it must neither fail nor panic.
func (w *vfWorld) do(kind, opTerm string, expectOK bool, fn func(db *Store) error) (ok bool) {
	var err error
	var pan any
	func() {
		defer func() { pan = recover() }()
		err = fn(w.db)
	}()
	cls := vfClassify(err, pan)
	snap := vfSnapshot(w.t, w.db)
	w.em.Step(opTerm, "("+cls+", "+snap.term+")")
	w.em.Count("op:" + kind + ":" + strings.Fields(cls)[0])
	if pan != nil && strings.Contains(fmt.Sprint(pan), "negative stat value") && w.mode == "C05" {
		w.em.Monitor("negative-stat-panic", fmt.Sprintf("%s: %v", kind, pan))
	}
	if pan != nil && strings.HasPrefix(cls, "CPanic OTHER") {
		w.em.Monitor("unexpected-panic-"+w.mode, fmt.Sprintf("%s: %v", kind, pan))
	}
	if expectOK && cls != "COk" && w.wellFormed {
		if kind == "chain" && w.mode == "C01" {
			if pan != nil {
				w.em.Monitor("well-formed-chain-update-panics", fmt.Sprintf("%s: %v", opTerm, pan))
			} else {
				w.em.Monitor("well-formed-chain-update-returns-error", fmt.Sprintf("%s: %v", opTerm, err))
			}
		}
		if kind != "chain" && w.mode == "C05" {
			w.em.Monitor("usage-operation-fails", fmt.Sprintf("%s: err=%v panic=%v", opTerm, err, pan))
		}
	}
	if w.mode == "C05" {
		w.checkMetrics(kind, snap)
	}
	for _, c := range snap.v1 {
		w.visit("v1:" + vfSt1[c.Status])
	}
	for _, c := range snap.v2 {
		w.visit("v2:" + vfSt2[c.Status])
	}
	return cls == "COk"
}

func (w *vfWorld) visit(k string) {
	if !w.visited[k] {
		w.visited[k] = true
		w.em.Count("case-visits:" + k)
	}
}

// C05: metrics == recomputation from the contract lists (recalcContractMetrics' definition;
// the per-status counts are recounted).
func (w *vfWorld) checkMetrics(kind string, s vfSnap) {
	var want [19]types.Currency
	one := types.NewCurrency64(1)
	add := func(i int, v types.Currency) { want[i] = want[i].Add(v) }
	for _, c := range s.v1 {
		u := c.Usage
		switch c.Status {
		case contracts.ContractStatusActive:
			add(0, one)
			add(5, c.LockedCollateral)
			add(6, u.RiskedCollateral)
			for i, v := range []types.Currency{u.RPCRevenue, u.StorageRevenue, u.IngressRevenue, u.EgressRevenue, u.RegistryRead, u.RegistryWrite} {
				add(7+i, v)
			}
		case contracts.ContractStatusRejected:
			add(1, one)
		case contracts.ContractStatusSuccessful:
			add(2, one)
			for i, v := range []types.Currency{u.RPCRevenue, u.StorageRevenue, u.IngressRevenue, u.EgressRevenue, u.RegistryRead, u.RegistryWrite} {
				add(13+i, v)
			}
		case contracts.ContractStatusFailed:
			add(3, one)
		}
	}
	for _, c := range s.v2 {
		u := c.Usage
		switch c.Status {
		case contracts.V2ContractStatusActive:
			add(0, one)
			add(5, c.V2FileContract.TotalCollateral)
			add(6, u.RiskedCollateral)
			for i, v := range []types.Currency{u.RPC, u.Storage, u.Ingress, u.Egress} {
				add(7+i, v)
			}
		case contracts.V2ContractStatusRejected:
			add(1, one)
		case contracts.V2ContractStatusSuccessful, contracts.V2ContractStatusRenewed:
			if c.Status == contracts.V2ContractStatusRenewed {
				add(4, one)
			} else {
				add(2, one)
			}
			for i, v := range []types.Currency{u.RPC, u.Storage, u.Ingress, u.Egress} {
				add(13+i, v)
			}
		case contracts.V2ContractStatusFailed:
			add(3, one)
		}
	}
	names := []string{"active", "rejected", "successful", "failed", "renewed", "lockedCollateral", "riskedCollateral",
		"potentialRPC", "potentialStorage", "potentialIngress", "potentialEgress", "potentialRegistryRead", "potentialRegistryWrite",
		"earnedRPC", "earnedStorage", "earnedIngress", "earnedEgress", "earnedRegistryRead", "earnedRegistryWrite"}
	for i := range want {
		if !want[i].Equals(s.m[i]) {
			group := "count"
			if i >= 5 && i < 7 {
				group = "collateral"
			} else if i >= 7 && i < 13 {
				group = "potential-revenue"
			} else if i >= 13 {
				group = "earned-revenue"
			}
			w.em.Monitor("metric-differs-from-recomputation-"+group, fmt.Sprintf("after %s: %s reported %s, recomputed %s", kind, names[i], s.m[i].ExactString(), want[i].ExactString()))
			return
		}
	}
}

// ---------------------------------------------------------------- non-chain operations

func (w *vfWorld) record(fn func(db *Store) error) { w.replay = append(w.replay, fn) }

func (w *vfWorld) tipHeight() uint64 { return uint64(len(w.chain)) }

func (w *vfWorld) addContract(v2 bool, neg uint64, u vfUsage) *vfContract {
	list := &w.v1
	if v2 {
		list = &w.v2
	}
	c := &vfContract{v2: v2, num: len(*list) + 1, neg: neg, locked: w.amount(), rev: 1, addSeq: w.applied}
	c.id = vfID(v2, c.num)
	var fn func(db *Store) error
	var term string
	if !v2 {
		fn = func(db *Store) error { return db.AddContract(c.signed(1), nil, c.locked, u.v1(), neg) }
		term = fmt.Sprintf("AddV1 %d %d %s 1 %s", c.num, neg, vfN(c.locked), u.coq())
	} else {
		fn = func(db *Store) error {
			return db.AddV2Contract(contracts.V2Contract{ID: c.id, V2FileContract: c.v2fc(1), NegotiationHeight: neg, Usage: u.v2()}, rhp4.TransactionSet{})
		}
		term = fmt.Sprintf("AddV2 %d %d %s 1 %s", c.num, neg, vfN(c.locked), u.coq())
	}
	if w.do("add", term, true, fn) {
		*list = append(*list, c)
		w.record(fn)
		return c
	}
	return nil
}

func (w *vfWorld) revise(c *vfContract, u vfUsage) {
	rev := c.rev + 1 + uint64(w.rng.Intn(2))
	var fn func(db *Store) error
	var term string
	if !c.v2 {
		fn = func(db *Store) error { return db.ReviseContract(c.signed(rev), nil, u.v1(), nil) }
		term = fmt.Sprintf("Revise1 %d %d %s", c.num, rev, u.coq())
	} else {
		fn = func(db *Store) error { return db.ReviseV2Contract(c.id, c.v2fc(rev), nil, nil, u.v2()) }
		term = fmt.Sprintf("Revise2 %d %d %s", c.num, rev, u.coq())
	}
	w.countUsageOp("revise", c)
	if w.do("revise", term, true, fn) {
		c.rev = rev
		w.record(fn)
		if !u.isZero() {
			w.nontrivial = true
		}
	}
}

func (w *vfWorld) status(c *vfContract) string {
	if !c.v2 {
		r, err := w.db.Contract(c.id)
		if err != nil {
			return "?"
		}
		return vfSt1[r.Status]
	}
	r, err := w.db.V2Contract(c.id)
	if err != nil {
		return "?"
	}
	return vfSt2[r.Status]
}

func (w *vfWorld) countUsageOp(kind string, c *vfContract) {
	w.em.Count("usage-op:" + kind + ":in-status:" + w.status(c))
}

func (w *vfWorld) renew(old *vfContract, uClear, uNew vfUsage) *vfContract {
	list := &w.v1
	if old.v2 {
		list = &w.v2
	}
	neg := w.tipHeight()
	c := &vfContract{v2: old.v2, num: len(*list) + 1, neg: neg, locked: w.amount(), rev: 1, addSeq: w.applied}
	c.id = vfID(c.v2, c.num)
	var fn func(db *Store) error
	var term string
	clearRev := uint64(1<<63) + old.rev // a clearing revision carries a huge revision number
	if !old.v2 {
		fn = func(db *Store) error {
			return db.RenewContract(c.signed(1), old.signed(clearRev), nil, c.locked, uClear.v1(), uNew.v1(), neg)
		}
		term = fmt.Sprintf("Renew1 %d %d %d %s %d 1 %s %s", old.num, c.num, neg, vfN(c.locked), clearRev, uClear.coq(), uNew.coq())
	} else {
		fn = func(db *Store) error {
			return db.RenewV2Contract(contracts.V2Contract{ID: c.id, V2FileContract: c.v2fc(1), NegotiationHeight: neg, Usage: uNew.v2()}, rhp4.TransactionSet{}, old.id, nil)
		}
		term = fmt.Sprintf("Renew2 %d %d %d %s 1 %s", old.num, c.num, neg, vfN(c.locked), uNew.coq())
	}
	w.countUsageOp("renew", old)
	if w.do("renew", term, true, fn) {
		*list = append(*list, c)
		if !old.v2 {
			old.rev = clearRev
		}
		w.record(fn)
		w.nontrivial = true
		return c
	}
	return nil
}

func (w *vfWorld) fund(c *vfContract, acct int) {
	rev := c.rev + 1
	w.countUsageOp("fund", c)
	var fn func(db *Store) error
	var term string
	if !c.v2 {
		cost, amt := w.amount(), w.amount()
		fn = func(db *Store) error {
			return db.CreditAccountWithContract(accounts.FundAccountWithContract{Account: rhp3.Account(vfAccount(acct)), Cost: cost, Amount: amt,
				Revision: c.signed(rev), Expiration: time.Now().Add(time.Hour)})
		}
		term = fmt.Sprintf("Fund1 %d %d %s %s %d", c.num, acct, vfN(cost), vfN(amt), rev)
	} else {
		n := 1 + w.rng.Intn(2)
		var deps []proto4.AccountDeposit
		var dt []string
		total := types.ZeroCurrency
		for i := 0; i < n; i++ {
			a := 1 + w.rng.Intn(3)
			amt := w.amount()
			deps = append(deps, proto4.AccountDeposit{Account: proto4.Account(vfAccount(a)), Amount: amt})
			dt = append(dt, fmt.Sprintf("(%d, %s)", a, vfN(amt)))
			total = total.Add(amt)
		}
		u := vfUsage{rpc: w.amount(), fund: total}
		fn = func(db *Store) error {
			_, err := db.RHP4CreditAccounts(deps, c.id, c.v2fc(rev), u.v2())
			return err
		}
		term = fmt.Sprintf("Fund2 %d %s %d %s", c.num, coqList(dt), rev, u.coq())
	}
	if w.do("fund", term, true, fn) {
		c.rev = rev
		w.record(fn)
		w.nontrivial = true
	}
}

func (w *vfWorld) balance(acct int) types.Currency {
	b, err := w.db.AccountBalance(rhp3.Account(vfAccount(acct)))
	if err != nil {
		return types.ZeroCurrency
	}
	return b
}

// debit spends from an account; the amounts are drawn so that most debits are affordable
func (w *vfWorld) debit(acct int, v2 bool) {
	// prefer an account that holds something
	for try := 0; try < 3 && w.balance(acct).IsZero(); try++ {
		acct = 1 + w.rng.Intn(3)
	}
	bal := w.balance(acct)
	rem := bal
	pick := func() types.Currency {
		if rem.IsZero() || w.rng.Intn(3) == 0 {
			return types.ZeroCurrency
		}
		v := rem.Div64(uint64(1 + w.rng.Intn(5)))
		rem = rem.Sub(v)
		return v
	}
	u := vfUsage{rpc: pick(), sto: pick(), ing: pick(), egr: pick()}
	if !v2 {
		u.rr, u.rw = pick(), pick()
	}
	if w.rng.Intn(7) == 0 {
		u.sto = u.sto.Add(rem).Add(types.NewCurrency64(1)) // more than the account holds: the error path
	}
	total := u.rpc.Add(u.sto).Add(u.ing).Add(u.egr).Add(u.rr).Add(u.rw)
	affordable := total.Cmp(bal) <= 0 && w.hasAccount(acct)
	var fn func(db *Store) error
	var term string
	if !v2 {
		au := accounts.Usage{RPCRevenue: u.rpc, StorageRevenue: u.sto, IngressRevenue: u.ing, EgressRevenue: u.egr, RegistryRead: u.rr, RegistryWrite: u.rw}
		fn = func(db *Store) error { return db.DebitAccount(rhp3.Account(vfAccount(acct)), au) }
		term = fmt.Sprintf("Debit1 %d %s", acct, u.coq())
	} else {
		fn = func(db *Store) error { return db.RHP4DebitAccount(proto4.Account(vfAccount(acct)), u.v2()) }
		term = fmt.Sprintf("Debit2 %d %s", acct, u.coq())
	}
	w.em.Count(fmt.Sprintf("usage-op:debit:affordable=%v", affordable))
	if affordable && !total.IsZero() {
		for _, st := range w.fundingStatuses(acct, v2) {
			w.em.Count("usage-op:debit:attributed-to-contract-in-status:" + st)
		}
	}
	if w.do("debit", term, affordable, fn) {
		w.record(fn)
		if !total.IsZero() {
			w.nontrivial = true
		}
	}
}

// statuses of the contracts that funded an account (the contracts a debit is attributed to)
func (w *vfWorld) fundingStatuses(acct int, v2 bool) (out []string) {
	q := `SELECT c.contract_status FROM contract_account_funding f INNER JOIN contracts c ON (f.contract_id=c.id) INNER JOIN accounts a ON (f.account_id=a.id) WHERE a.account_id=?`
	if v2 {
		q = `SELECT c.contract_status FROM contract_v2_account_funding f INNER JOIN contracts_v2 c ON (f.contract_id=c.id) INNER JOIN accounts a ON (f.account_id=a.id) WHERE a.account_id=?`
	}
	_ = w.db.transaction(func(tx *txn) error {
		rows, err := tx.Query(q, encode(rhp3.Account(vfAccount(acct))))
		if err != nil {
			return err
		}
		defer rows.Close()
		for rows.Next() {
			if v2 {
				var st contracts.V2ContractStatus
				if rows.Scan(&st) == nil {
					out = append(out, vfSt2[st])
				}
			} else {
				var st contracts.ContractStatus
				if rows.Scan(&st) == nil {
					out = append(out, vfSt1[st])
				}
			}
		}
		return nil
	})
	return
}

func (w *vfWorld) hasAccount(acct int) bool {
	var n int
	err := w.db.transaction(func(tx *txn) error {
		return tx.QueryRow(`SELECT COUNT(*) FROM accounts WHERE account_id=?`, encode(rhp3.Account(vfAccount(acct)))).Scan(&n)
	})
	return err == nil && n > 0
}

// ---------------------------------------------------------------- chain updates

type vfApply struct {
	b      *vfBlock
	reject bool // false: skip RejectContracts for this block (height < buffer)
}

// update runs one Store.UpdateChainState transaction in the order of Manager.UpdateChainState.
func (w *vfWorld) update(reverts []*vfBlock, applies []*vfBlock, wellFormed bool) bool {
	var rt, at []string
	type rv struct {
		idx    types.ChainIndex
		sc     contracts.StateChanges
		fces   []consensus.FileContractElementDiff
		v2Fces []consensus.V2FileContractElementDiff
	}
	var rvs, aps []rv
	// a well-formed block goes through the real buildContractState when it is linked in; an
	// ill-formed one (events of unknown contracts, ...) is fed to the store directly: the relevance
	// filter would drop what these updates are there to exercise
	useBuild := vfBuildHook != nil && wellFormed
	build := func(tx index.UpdateTx, r rv, revert bool) (contracts.StateChanges, error) {
		if !useBuild {
			return r.sc, nil
		}
		return vfBuildHook(tx, r.fces, r.v2Fces, revert)
	}
	for _, b := range reverts {
		term, sc := w.changes(b, true)
		rt = append(rt, fmt.Sprintf("(%s, %s)", vfIdx(b.index()), term))
		fces, v2Fces := w.diffs(b)
		rvs = append(rvs, rv{b.index(), sc, fces, v2Fces})
	}
	for _, b := range applies {
		term, sc := w.changes(b, false)
		rj := "None"
		if b.height >= w.buffer {
			rj = fmt.Sprintf("(Some %d)", b.height-w.buffer)
		}
		at = append(at, fmt.Sprintf("(%s, %s, %s)", vfIdx(b.index()), term, rj))
		fces, v2Fces := w.diffs(b)
		aps = append(aps, rv{b.index(), sc, fces, v2Fces})
	}
	buffer := w.buffer
	// the relevance filter buildContractState applies to every element diff before a change
	// reaches RevertContracts / ApplyContracts: a contract the store holds is relevant in every
	// status (a rejected one becomes active when its formation is connected later), an unknown
	// id is not.  Asked twice: the second answer comes from the cache of the transaction.
	var relBad []string
	known := append(append([]*vfContract(nil), w.v1...), w.v2...)
	fn := func(db *Store) error {
		return db.UpdateChainState(func(tx index.UpdateTx) error {
			relBad = relBad[:0]
			for pass := 0; pass < 2; pass++ {
				for _, c := range known {
					var rel bool
					var err error
					if c.v2 {
						rel, err = tx.V2ContractRelevant(c.id)
					} else {
						rel, err = tx.ContractRelevant(c.id)
					}
					if err != nil || !rel {
						relBad = append(relBad, fmt.Sprintf("%s%d: relevant=%v err=%v (pass %d)", vfVer(c), c.num, rel, err, pass))
					}
				}
				for _, v2 := range []bool{false, true} {
					unknown := vfID(v2, 9999)
					var rel bool
					var err error
					if v2 {
						rel, err = tx.V2ContractRelevant(unknown)
					} else {
						rel, err = tx.ContractRelevant(unknown)
					}
					if err != nil || rel {
						relBad = append(relBad, fmt.Sprintf("unknown id (v2=%v): relevant=%v err=%v (pass %d)", v2, rel, err, pass))
					}
				}
			}
			for _, r := range rvs {
				if sc, err := build(tx, r, true); err != nil {
					return fmt.Errorf("build revert %v: %w", r.idx, err)
				} else if err := tx.RevertContracts(r.idx, sc); err != nil {
					return fmt.Errorf("revert %v: %w", r.idx, err)
				}
			}
			for _, a := range aps {
				if sc, err := build(tx, a, false); err != nil {
					return fmt.Errorf("build apply %v: %w", a.idx, err)
				} else if err := tx.ApplyContracts(a.idx, sc); err != nil {
					return fmt.Errorf("apply %v: %w", a.idx, err)
				}
				if a.idx.Height >= buffer {
					if _, _, err := tx.RejectContracts(a.idx.Height - buffer); err != nil {
						return fmt.Errorf("reject %v: %w", a.idx, err)
					}
				}
			}
			if len(aps) > 0 {
				return tx.SetLastIndex(aps[len(aps)-1].idx)
			}
			return nil
		})
	}
	w.em.Count(fmt.Sprintf("batch:reverts=%d,applies=%d", vfCap(len(reverts), 4), vfCap(len(applies), 4)))
	w.em.Count(fmt.Sprintf("batch:through-buildContractState=%v", useBuild))
	for _, b := range reverts {
		for _, e := range b.events {
			w.em.Count("event:revert:" + vfVer(e.c) + ":" + vfEvName[e.kind])
		}
		for _, k := range vfSameBlock(b) {
			w.em.Count("same-block:revert:" + k)
		}
	}
	for _, b := range applies {
		for _, e := range b.events {
			w.em.Count("event:apply:" + vfVer(e.c) + ":" + vfEvName[e.kind])
		}
		for _, k := range vfSameBlock(b) {
			w.em.Count("same-block:apply:" + k)
		}
	}
	ok := w.do("chain", fmt.Sprintf("Chain %s %s", coqList(rt), coqList(at)), wellFormed, fn)
	if len(relBad) > 0 {
		w.em.Monitor("relevance-filter-differs-from-known-contracts", strings.Join(relBad, "; "))
	}
	if ok && !wellFormed {
		w.wellFormed = false
	}
	return ok
}

func vfCap(n, c int) int {
	if n > c {
		return c
	}
	return n
}
func vfVer(c *vfContract) string {
	if c.v2 {
		return "v2"
	}
	return "v1"
}

// checkShadow compares what the store reports with a plain fold over the blocks of the current
// best chain (the harness's own reading of C01, independent of the code and of the Coq model).
func (w *vfWorld) checkShadow(when string) {
	if w.mode != "C01" || !w.wellFormed {
		return
	}
	ref := vfFold(w.chain)
	get := func(c *vfContract) *vfRef {
		if r := ref[c]; r != nil {
			return r
		}
		return &vfRef{}
	}
	for _, c := range w.v1 {
		r := get(c)
		got, err := w.db.Contract(c.id)
		if err != nil {
			w.t.Fatal(err)
		}
		want := contracts.ContractStatusPending
		var wantRes uint64
		switch {
		case r.formed && r.resolved == 0:
			want = contracts.ContractStatusActive
		case r.resolved == 1:
			want, wantRes = contracts.ContractStatusSuccessful, r.resIdx.Height
		case r.resolved == 2:
			want = contracts.ContractStatusFailed
		}
		det := fmt.Sprintf("%s: v1 contract %d reports {status %v formed %v revisionConfirmed %v resolution %d}; the best chain has {formed %v lastRevision %d resolved %d at %v}, stored revision %d",
			when, c.num, got.Status, got.FormationConfirmed, got.RevisionConfirmed, got.ResolutionHeight, r.formed, r.lastRev, r.resolved, r.resIdx, c.rev)
		switch {
		case got.FormationConfirmed != r.formed:
			w.em.Monitor("v1-formation-confirmed-differs-from-chain", det)
		case got.Status != want && r.resWithForm && got.Status == contracts.ContractStatusActive:
			// formed and resolved in one block: the resolution did not reach the store
			w.em.Monitor("same-block-v1-formation-and-resolution-not-both-recorded", det)
		case got.Status != want && !(want == contracts.ContractStatusPending && got.Status == contracts.ContractStatusRejected):
			w.em.Monitor("v1-status-differs-from-chain", det)
		case got.ResolutionHeight != wantRes:
			w.em.Monitor("v1-resolution-height-differs-from-chain", det)
		case got.RevisionConfirmed != (c.rev == r.lastRev) && r.folded && c.rev == r.lastRev:
			// the host's latest revision was confirmed together with the formation (core folds it
			// into the created element) and is reported unconfirmed: it would be broadcast again
			w.em.Monitor("v1-folded-revision-not-confirmed", det)
		case got.RevisionConfirmed != (c.rev == r.lastRev):
			w.em.Monitor("v1-revision-confirmed-differs-from-chain", det)
		}
	}
	for _, c := range w.v2 {
		r := get(c)
		got, err := w.db.V2Contract(c.id)
		if err != nil {
			w.t.Fatal(err)
		}
		want := contracts.V2ContractStatusPending
		switch {
		case r.formed && r.resolved == 0:
			want = contracts.V2ContractStatusActive
		case r.resolved == 1:
			want = contracts.V2ContractStatusSuccessful
		case r.resolved == 2:
			want = contracts.V2ContractStatusFailed
		case r.resolved == 3:
			want = contracts.V2ContractStatusRenewed
		}
		det := fmt.Sprintf("%s: v2 contract %d reports {status %v formation %v revisionConfirmed %v resolution %v}; the best chain has {formed at %v lastRevision %d resolved %d at %v}, stored revision %d",
			when, c.num, got.Status, got.FormationIndex, got.RevisionConfirmed, got.ResolutionIndex, r.formIdx, r.lastRev, r.resolved, r.resIdx, c.rev)
		switch {
		case got.FormationIndex != r.formIdx:
			w.em.Monitor("v2-formation-index-differs-from-chain", det)
		case got.Status != want && r.resWithRev && got.Status == contracts.V2ContractStatusActive:
			// revised and resolved in one block: the resolution did not reach the store
			w.em.Monitor("v2-same-block-resolution-lost", det)
		case got.Status != want && !(want == contracts.V2ContractStatusPending && got.Status == contracts.V2ContractStatusRejected):
			w.em.Monitor("v2-status-differs-from-chain", det)
		case got.ResolutionIndex != r.resIdx:
			w.em.Monitor("v2-resolution-index-differs-from-chain", det)
		case got.RevisionConfirmed != (r.formed && c.rev == r.lastRev):
			w.em.Monitor("v2-revision-confirmed-differs-from-chain", det)
		}
	}
}

// commit updates the shadow chain after a successful update and runs the C01 step monitors
func (w *vfWorld) commit(reverts, applies []*vfBlock) {
	for range reverts {
		w.chain = w.chain[:len(w.chain)-1]
	}
	if len(reverts) > 0 {
		w.orphans = append(w.orphans, append([]*vfBlock(nil), reverseBlocks(reverts)...))
		if len(w.orphans) > 4 {
			w.orphans = w.orphans[1:]
		}
	}
	for _, b := range applies {
		w.chain = append(w.chain, b)
		w.applied++
		for _, l := range [][]*vfContract{w.v1, w.v2} {
			for _, c := range l {
				if !c.hasApplied || b.height > c.maxApplied {
					c.maxApplied, c.hasApplied = b.height, true
				}
			}
		}
	}
	if len(reverts)+len(applies) > 0 {
		w.nontrivial = true
	}
	if w.mode != "C01" || !w.wellFormed {
		return
	}
	w.checkShadow("after update")
	cols := vfChainCols(w.t, w.db)
	// disconnecting blocks undoes what connecting them did: the chain columns are those recorded
	// when the current tip was applied (modulo one-way rejection, for contracts known back then)
	if len(reverts) > 0 && len(applies) == 0 && len(w.chain) > 0 {
		if then, ok := w.tipSnaps[vfChainKey(w.chain)]; ok {
			for k, v := range then {
				if vfModRej(cols[k]) != vfModRej(v) {
					w.em.Monitor("revert-does-not-restore-chain-state-"+k[:2], fmt.Sprintf("contract %s: after reverting to block %d: %s; when that block was the tip: %s", k, w.chain[len(w.chain)-1].bid, cols[k], v))
					break
				}
			}
		}
	}
	if len(applies) > 0 {
		w.tipSnaps[vfChainKey(w.chain)] = cols
		// rejection: complete at applied blocks, never without cause
		h := applies[len(applies)-1].height
		for _, l := range [][]*vfContract{w.v1, w.v2} {
			for _, c := range l {
				key := fmt.Sprintf("%s/%d", vfVer(c), c.num)
				col := cols[key]
				unconfirmed := strings.Contains(col, "formed=false") || strings.Contains(col, "confirmation=(0, 0)")
				rejected := strings.HasPrefix(col, "status=Rejected") || strings.HasPrefix(col, "status=R2")
				if unconfirmed && h >= w.buffer && c.neg < h-w.buffer && !rejected {
					w.em.Monitor("unconfirmed-contract-not-rejected", fmt.Sprintf("%s neg %d, applied height %d, buffer %d: %s", key, c.neg, h, w.buffer, col))
				}
				if rejected && !(c.hasApplied && c.maxApplied >= w.buffer && c.neg < c.maxApplied-w.buffer) {
					w.em.Monitor("contract-rejected-without-cause", fmt.Sprintf("%s neg %d, highest applied height %d, buffer %d", key, c.neg, c.maxApplied, w.buffer))
				}
				if rejected && !unconfirmed {
					w.em.Monitor("confirmed-contract-rejected", fmt.Sprintf("%s: %s", key, col))
				}
			}
		}
	}
}

// vfChainKey identifies a chain by the ids of all its blocks (a block id alone does not: the generator
// reconnects orphaned blocks, possibly on top of a different parent of the same height)
func vfChainKey(chain []*vfBlock) string {
	var sb strings.Builder
	for _, b := range chain {
		fmt.Fprintf(&sb, "%d,", b.bid)
	}
	return sb.String()
}

func reverseBlocks(b []*vfBlock) []*vfBlock {
	out := make([]*vfBlock, len(b))
	for i := range b {
		out[len(b)-1-i] = b[i]
	}
	return out
}

// newBlock builds a block valid on top of `chain`.
func (w *vfWorld) newBlock(chain []*vfBlock, density int) *vfBlock {
	w.nextBid++
	b := &vfBlock{height: uint64(len(chain) + 1), bid: w.nextBid}
	ref := vfFold(chain)
	for _, l := range [][]*vfContract{w.v1, w.v2} {
		for _, c := range l {
			if w.rng.Intn(10) >= density {
				continue
			}
			r := ref[c]
			if r == nil {
				r = &vfRef{}
			}
			switch {
			case !r.formed:
				n := uint64(0)
				if c.v2 {
					n = uint64(w.rng.Intn(2)) // revision number of the confirmed element
				} else if k := w.rng.Intn(6); k < 2 {
					n = c.rev // the host's latest revision is confirmed together with the formation
				} else if k == 2 {
					n = uint64(1 + w.rng.Intn(3)) // some revision is folded into the formation
				}
				b.events = append(b.events, vfEvent{kind: evForm, c: c, new: n})
				if !c.v2 && w.rng.Intn(6) == 0 {
					// ... and resolved in the same block (the formation is confirmed in the block
					// at its window start together with a storage proof; missed for completeness)
					res := []int{evProof, evProof, evProof, evMissOK, evFail}[w.rng.Intn(5)]
					b.events = append(b.events, vfEvent{kind: res, c: c})
				}
			case r.resolved == 0:
				switch k := w.rng.Intn(10); {
				case k < 5:
					n := r.lastRev + 1 + uint64(w.rng.Intn(3))
					if w.rng.Intn(3) == 0 && c.rev > r.lastRev {
						n = c.rev // the host's latest revision gets confirmed
					}
					b.events = append(b.events, vfEvent{kind: evRev, c: c, old: r.lastRev, new: n})
					if c.v2 && w.rng.Intn(3) == 0 {
						// ... and resolved in the same block (a revision and a renewal / storage
						// proof in different transactions; expiration for completeness)
						res := []int{evRenew, evRenew, evProof, evProof, evMissOK, evFail}[w.rng.Intn(6)]
						b.events = append(b.events, vfEvent{kind: res, c: c})
					}
				case k < 7:
					b.events = append(b.events, vfEvent{kind: evProof, c: c})
				case k < 8:
					b.events = append(b.events, vfEvent{kind: evMissOK, c: c})
				case k < 9:
					b.events = append(b.events, vfEvent{kind: evFail, c: c})
				default:
					if c.v2 {
						b.events = append(b.events, vfEvent{kind: evRenew, c: c})
					} else {
						b.events = append(b.events, vfEvent{kind: evFail, c: c})
					}
				}
			}
		}
	}
	w.rng.Shuffle(len(b.events), func(i, j int) { b.events[i], b.events[j] = b.events[j], b.events[i] })
	return b
}

// validOn reports whether every event of b is legal on top of chain (used when a reverted
// block is connected again)
func vfValidOn(chain []*vfBlock, b *vfBlock) bool {
	if b.height != uint64(len(chain)+1) {
		return false
	}
	ref := vfFold(chain)
	formedHere, resolvedHere := map[*vfContract]bool{}, map[*vfContract]bool{}
	for pass := 0; pass < 3; pass++ { // formations, then revisions, then resolutions
		for _, e := range b.events {
			r := ref[e.c]
			if r == nil {
				r = &vfRef{}
			}
			switch {
			case e.kind == evForm && pass == 0:
				if r.formed || formedHere[e.c] {
					return false
				}
				formedHere[e.c] = true
			case e.kind == evRev && pass == 1:
				if !r.formed || r.resolved != 0 || r.lastRev != e.old {
					return false
				}
			case e.kind != evForm && e.kind != evRev && pass == 2:
				if !(r.formed || formedHere[e.c]) || r.resolved != 0 || resolvedHere[e.c] {
					return false
				}
				resolvedHere[e.c] = true
			}
		}
	}
	return true
}

func (w *vfWorld) extend(n, density int) {
	var bs []*vfBlock
	ch := append([]*vfBlock(nil), w.chain...)
	for i := 0; i < n; i++ {
		b := w.newBlock(ch, density)
		bs = append(bs, b)
		ch = append(ch, b)
	}
	if w.update(nil, bs, true) {
		w.commit(nil, bs)
	}
}

func (w *vfWorld) reorg(depth, n, density int, revertOnly bool) {
	if depth > len(w.chain) {
		depth = len(w.chain)
	}
	var reverts []*vfBlock
	for i := 0; i < depth; i++ {
		reverts = append(reverts, w.chain[len(w.chain)-1-i])
	}
	ch := append([]*vfBlock(nil), w.chain[:len(w.chain)-depth]...)
	var bs []*vfBlock
	if !revertOnly {
		for i := 0; i < n; i++ {
			b := w.newBlock(ch, density)
			bs = append(bs, b)
			ch = append(ch, b)
		}
	}
	if w.update(reverts, bs, true) {
		w.commit(reverts, bs)
	}
}

// reconnect applies a previously reverted branch again if it fits on the current tip
func (w *vfWorld) reconnect() bool {
	for i := len(w.orphans) - 1; i >= 0; i-- {
		br := w.orphans[i]
		ch := append([]*vfBlock(nil), w.chain...)
		var bs []*vfBlock
		for _, b := range br {
			if !vfValidOn(ch, b) {
				break
			}
			bs = append(bs, b)
			ch = append(ch, b)
		}
		if len(bs) > 0 {
			w.em.Count("reconnect-same-blocks")
			if w.update(nil, bs, true) {
				w.commit(nil, bs)
			}
			return true
		}
	}
	return false
}

// rescan: ResetChainState, then the whole best chain is applied again from the first block
func (w *vfWorld) rescan() {
	fn := func(db *Store) error { return db.ResetChainState() }
	if !w.do("reset", "Reset", true, fn) {
		return
	}
	w.em.Count("rescan")
	chain := w.chain
	for i := 0; i < len(chain); {
		n := 1 + w.rng.Intn(4)
		if i+n > len(chain) {
			n = len(chain) - i
		}
		// mid-rescan states are not compared with anything (DESIGN C01, Readings)
		saved := w.mode
		if w.mode == "C01" {
			w.mode = "C01-rescan"
		}
		ok := w.update(nil, chain[i:i+n], true)
		if !ok && saved == "C01" && w.wellFormed {
			w.em.Monitor("rescan-update-fails", fmt.Sprintf("blocks %d..%d", i+1, i+n))
		}
		w.mode = saved
		if !ok {
			w.wellFormed = false // the store is behind the shadow chain now
			return
		}
		i += n
	}
	w.applied += len(chain)
	for _, l := range [][]*vfContract{w.v1, w.v2} {
		for _, c := range l {
			if h := uint64(len(chain)); len(chain) > 0 && (!c.hasApplied || h > c.maxApplied) {
				c.maxApplied, c.hasApplied = h, true
			}
		}
	}
	w.checkShadow("after rescan")
	if w.mode == "C01" && w.wellFormed && len(chain) > 0 {
		w.tipSnaps[vfChainKey(chain)] = vfChainCols(w.t, w.db)
	}
}

// rescanOnto: ResetChainState, then a DIFFERENT chain is processed from its first block (the
// consensus database was replaced by one that lacks blocks the store has processed — the case
// index.Manager resets for).  ResetChainState keeps the chain columns of the contracts and the
// "skipping rescan state transition" branches keep them during the rescan, so what the store
// reports afterwards is not a function of the new best chain: a recorded finding of C01
// (rescan-onto-different-chain-keeps-old-chain-state), stated here with the shadow fold of the new
// chain.  C05 is not affected (the metrics stay equal to the recomputation from the rows) and
// raises nothing in this case.
func (w *vfWorld) rescanOnto(chain []*vfBlock) {
	fn := func(db *Store) error { return db.ResetChainState() }
	if !w.do("reset", "Reset", true, fn) {
		return
	}
	w.em.Count("rescan-onto-different-chain")
	saved := w.mode
	if w.mode == "C01" {
		w.mode = "C01-rescan"
	}
	ok := w.update(nil, chain, true)
	w.mode = saved
	if !ok {
		if w.mode == "C01" {
			w.em.Monitor("rescan-update-fails", "rescan onto a different chain")
		}
		w.wellFormed = false
		return
	}
	w.chain = append([]*vfBlock(nil), chain...)
	w.applied += len(chain)
	w.nontrivial = true
	if w.mode == "C01" && w.wellFormed {
		ref := vfFold(w.chain)
		for _, c := range append(append([]*vfContract(nil), w.v1...), w.v2...) {
			formed := ref[c] != nil && ref[c].formed
			var gotFormed bool
			var status string
			if !c.v2 {
				got, err := w.db.Contract(c.id)
				if err != nil {
					w.t.Fatal(err)
				}
				gotFormed, status = got.FormationConfirmed, vfSt1[got.Status]
			} else {
				got, err := w.db.V2Contract(c.id)
				if err != nil {
					w.t.Fatal(err)
				}
				gotFormed, status = got.FormationIndex != (types.ChainIndex{}), vfSt2[got.Status]
			}
			if gotFormed != formed {
				w.em.Monitor("rescan-onto-different-chain-keeps-old-chain-state",
					fmt.Sprintf("%s contract %d: after ResetChainState and a rescan of a chain that does not contain its formation the store reports status %s, formation confirmed %v", vfVer(c), c.num, status, gotFormed))
				break
			}
		}
	}
	// the store no longer follows the shadow chain: the remaining C01 monitors are off for this case
	w.wellFormed = false
}

// illFormed commits or attempts an update that no chain can produce (events for unknown or
// unformed contracts, double resolution, reverting what was never applied)
func (w *vfWorld) illFormed() {
	all := append(append([]*vfContract(nil), w.v1...), w.v2...)
	w.nextBid++
	b := &vfBlock{height: w.tipHeight() + 1, bid: w.nextBid}
	ghost := &vfContract{v2: w.rng.Intn(2) == 0, num: 200 + w.rng.Intn(3)}
	ghost.id = vfID(ghost.v2, ghost.num)
	pick := func() *vfContract {
		if len(all) == 0 || w.rng.Intn(6) == 0 {
			return ghost
		}
		return all[w.rng.Intn(len(all))]
	}
	n := 1 + w.rng.Intn(2)
	seen := map[*vfContract]bool{}
	for i := 0; i < n; i++ {
		c := pick()
		if seen[c] {
			continue
		}
		seen[c] = true
		k := w.rng.Intn(6)
		if k == evRenew && !c.v2 {
			k = evFail
		}
		b.events = append(b.events, vfEvent{kind: k, c: c, old: uint64(w.rng.Intn(3)), new: uint64(w.rng.Intn(5))})
	}
	w.em.Count("ill-formed-update")
	if w.rng.Intn(2) == 0 {
		if w.update(nil, []*vfBlock{b}, false) {
			w.commit(nil, []*vfBlock{b})
		}
	} else {
		b.height = w.tipHeight()
		if w.update([]*vfBlock{b}, nil, false) && len(w.chain) > 0 {
			w.chain = w.chain[:len(w.chain)-1]
		}
	}
}

// ---------------------------------------------------------------- end of case

// C01: the state after the history equals the state of a fresh store that was given the same
// contracts and usage operations and then processed only the final best chain, block by block.
func (w *vfWorld) compareWithBestChainReplay(when string) {
	if w.mode != "C01" || !w.wellFormed {
		return
	}
	w.em.Count("best-chain-replay:" + when)
	fresh, err := OpenDatabase(filepath.Join(w.dir, fmt.Sprintf("replay_%d_%d.db", w.id, w.rng.Int63())), zap.NewNop())
	if err != nil {
		w.t.Fatal(err)
	}
	defer fresh.Close()
	for _, fn := range w.replay {
		if err := fn(fresh); err != nil {
			w.t.Fatalf("replay of a recorded operation failed: %v", err)
		}
	}
	for _, b := range w.chain {
		_, sc := w.changes(b, false)
		b := b
		var pan any
		var err error
		func() {
			defer func() { pan = recover() }()
			err = fresh.UpdateChainState(func(tx index.UpdateTx) error {
				if err := tx.ApplyContracts(b.index(), sc); err != nil {
					return err
				}
				if b.height >= w.buffer {
					_, _, err := tx.RejectContracts(b.height - w.buffer)
					return err
				}
				return nil
			})
		}()
		if err != nil || pan != nil {
			w.em.Monitor("best-chain-replay-fails", fmt.Sprintf("block %d: err=%v panic=%v", b.bid, err, pan))
			return
		}
	}
	unconf1 := func(c contracts.Contract) bool {
		return !c.FormationConfirmed && (c.Status == contracts.ContractStatusPending || c.Status == contracts.ContractStatusRejected)
	}
	for _, c := range w.v1 {
		a, err1 := w.db.Contract(c.id)
		b, err2 := fresh.Contract(c.id)
		if err1 != nil || err2 != nil {
			w.t.Fatalf("contract lookup: %v %v", err1, err2)
		}
		det := fmt.Sprintf("%s: v1 contract %d after history {status %v formed %v revisionConfirmed %v resolution %d}, after best-chain replay {status %v formed %v revisionConfirmed %v resolution %d}",
			when, c.num, a.Status, a.FormationConfirmed, a.RevisionConfirmed, a.ResolutionHeight, b.Status, b.FormationConfirmed, b.RevisionConfirmed, b.ResolutionHeight)
		switch {
		case a.Status != b.Status && !(unconf1(a) && unconf1(b)):
			w.em.Monitor("v1-status-differs-from-best-chain-replay", det)
		case a.FormationConfirmed != b.FormationConfirmed:
			w.em.Monitor("v1-formation-differs-from-best-chain-replay", det)
		case a.RevisionConfirmed != b.RevisionConfirmed:
			w.em.Monitor("v1-confirmed-revision-differs-from-best-chain-replay", det)
		case a.ResolutionHeight != b.ResolutionHeight:
			w.em.Monitor("v1-resolution-differs-from-best-chain-replay", det)
		}
	}
	unconf2 := func(c contracts.V2Contract) bool {
		return c.FormationIndex == (types.ChainIndex{}) && (c.Status == contracts.V2ContractStatusPending || c.Status == contracts.V2ContractStatusRejected)
	}
	for _, c := range w.v2 {
		a, err1 := w.db.V2Contract(c.id)
		b, err2 := fresh.V2Contract(c.id)
		if err1 != nil || err2 != nil {
			w.t.Fatalf("contract lookup: %v %v", err1, err2)
		}
		det := fmt.Sprintf("%s: v2 contract %d after history {status %v formation %v revisionConfirmed %v resolution %v}, after best-chain replay {status %v formation %v revisionConfirmed %v resolution %v}",
			when, c.num, a.Status, a.FormationIndex, a.RevisionConfirmed, a.ResolutionIndex, b.Status, b.FormationIndex, b.RevisionConfirmed, b.ResolutionIndex)
		switch {
		case a.Status != b.Status && !(unconf2(a) && unconf2(b)):
			w.em.Monitor("v2-status-differs-from-best-chain-replay", det)
		case a.FormationIndex != b.FormationIndex:
			w.em.Monitor("v2-formation-differs-from-best-chain-replay", det)
		case a.RevisionConfirmed != b.RevisionConfirmed:
			w.em.Monitor("v2-confirmed-revision-differs-from-best-chain-replay", det)
		case a.ResolutionIndex != b.ResolutionIndex:
			w.em.Monitor("v2-resolution-differs-from-best-chain-replay", det)
		}
	}
}

// C05: the maintainers' own recomputation must not change anything
func (w *vfWorld) compareWithRecalc() {
	if w.mode != "C05" {
		return
	}
	before := vfSnapshot(w.t, w.db)
	w.do("recalc", "Recalc", true, func(db *Store) error {
		return db.transaction(func(tx *txn) error { return recalcContractMetrics(tx, zap.NewNop()) })
	})
	after := vfSnapshot(w.t, w.db)
	names := []string{"", "", "", "", "", "lockedCollateral", "riskedCollateral", "potentialRPC", "potentialStorage", "potentialIngress", "potentialEgress",
		"potentialRegistryRead", "potentialRegistryWrite", "earnedRPC", "earnedStorage", "earnedIngress", "earnedEgress", "earnedRegistryRead", "earnedRegistryWrite"}
	for i := 5; i < 19; i++ {
		if !before.m[i].Equals(after.m[i]) {
			w.em.Monitor("metric-differs-from-recalcContractMetrics", fmt.Sprintf("%s: maintained %s, recalcContractMetrics %s", names[i], before.m[i].ExactString(), after.m[i].ExactString()))
			return
		}
	}
}

// ---------------------------------------------------------------- generator

func (w *vfWorld) anyContract() *vfContract {
	all := append(append([]*vfContract(nil), w.v1...), w.v2...)
	if len(all) == 0 {
		return nil
	}
	return all[w.rng.Intn(len(all))]
}

// idle lets seven weeks pass without any metric being written: every recorded data point moves
// seven weeks into the past (two steps, to stay clear of the (date_created, stat) key).  The
// reported values are the latest data points, however old.  Not a model step: the model keeps the
// latest values only.
func (w *vfWorld) idle() {
	const d = 7 * 7 * 24 * 3600
	if _, err := w.db.db.Exec(`UPDATE host_stats SET date_created=-date_created`); err != nil {
		w.t.Fatal(err)
	}
	if _, err := w.db.db.Exec(`UPDATE host_stats SET date_created=(-date_created)-$1`, int64(d)); err != nil {
		w.t.Fatal(err)
	}
	w.em.Count("op:idle-seven-weeks")
}

func (w *vfWorld) usageOp() {
	c := w.anyContract()
	switch r := w.rng.Intn(20); {
	case c == nil:
		return
	case r < 8:
		w.revise(c, w.usage(c.v2, false))
	case r < 12:
		w.fund(c, 1+w.rng.Intn(3))
	case r < 17:
		if w.balance(1).IsZero() && w.balance(2).IsZero() && w.balance(3).IsZero() && w.rng.Intn(4) != 0 {
			w.fund(c, 1+w.rng.Intn(3)) // nothing to spend yet
		} else {
			w.debit(1+w.rng.Intn(3), w.rng.Intn(2) == 0)
		}
	default:
		if len(w.v1)+len(w.v2) < 10 {
			w.renew(c, w.usage(c.v2, false), w.usage(c.v2, false))
		}
	}
}

func (w *vfWorld) generate() {
	rng := w.rng
	w.buffer = []uint64{0, 1, 2, 3, 3, 5, 18}[rng.Intn(7)]
	malformed := rng.Intn(8) == 0
	usageEvery := 6 // C01: a few revisions/renewals so that revision_confirmed moves
	if w.mode == "C05" {
		usageEvery = 2
	}
	steps := 8 + rng.Intn(28)
	ncontracts := 1 + rng.Intn(6)
	w.em.Count(fmt.Sprintf("case:contracts=%d", ncontracts))
	w.em.Count(fmt.Sprintf("case:buffer=%d", w.buffer))
	if malformed {
		w.em.Count("case:with-ill-formed-updates")
	}
	// a little chain before the first contract so that negotiation heights are not all 0
	w.extend(1+rng.Intn(3), 0)
	for i := 0; i < steps; i++ {
		if len(w.v1)+len(w.v2) < ncontracts && (rng.Intn(3) == 0 || len(w.v1)+len(w.v2) == 0) {
			neg := w.tipHeight()
			if rng.Intn(6) == 0 && neg > 0 {
				neg = uint64(rng.Intn(int(neg) + 1)) // negotiated a while ago
			}
			var u vfUsage
			if rng.Intn(2) == 0 {
				u = w.usage(rng.Intn(2) == 0, false)
			}
			v2 := rng.Intn(2) == 0
			if v2 {
				u.rr, u.rw = types.ZeroCurrency, types.ZeroCurrency
			}
			w.addContract(v2, neg, u)
			continue
		}
		if rng.Intn(usageEvery) == 0 {
			if w.mode == "C05" && rng.Intn(12) == 0 {
				w.idle() // a long quiet period before the next metric update
			}
			w.usageOp()
			continue
		}
		if malformed && rng.Intn(5) == 0 {
			w.illFormed()
			continue
		}
		density := 2 + rng.Intn(5)
		switch r := rng.Intn(20); {
		case r < 8:
			w.extend(1+rng.Intn(3), density)
		case r < 13 && len(w.chain) > 1:
			w.reorg(1+rng.Intn(3), 1+rng.Intn(4), density, false)
		case r < 15 && len(w.chain) > 1:
			w.reorg(1+rng.Intn(3), 0, 0, true)
		case r < 18:
			if !w.reconnect() {
				w.extend(1, density)
			}
		case r < 19 && len(w.chain) > 0 && rng.Intn(2) == 0:
			w.rescan()
		default:
			w.extend(1, density)
		}
		if rng.Intn(10) == 0 {
			w.compareWithBestChainReplay("mid-history")
		}
	}
}

// ---------------------------------------------------------------- directed cases

func (w *vfWorld) block(events ...vfEvent) *vfBlock {
	w.nextBid++
	return &vfBlock{height: w.tipHeight() + 1, bid: w.nextBid, events: events}
}
func (w *vfWorld) push(events ...vfEvent) *vfBlock {
	b := w.block(events...)
	if w.update(nil, []*vfBlock{b}, true) {
		w.commit(nil, []*vfBlock{b})
	}
	return b
}
func (w *vfWorld) pop(n int) {
	var reverts []*vfBlock
	for i := 0; i < n && i < len(w.chain); i++ {
		reverts = append(reverts, w.chain[len(w.chain)-1-i])
	}
	if w.update(reverts, nil, true) {
		w.commit(reverts, nil)
	}
}

var vfSmall = vfUsage{rpc: types.NewCurrency64(3), sto: types.NewCurrency64(5), ing: types.NewCurrency64(7), egr: types.NewCurrency64(11), risk: types.NewCurrency64(2)}

// a resolution of kind k is connected and disconnected again, then connected in another block
func vfDirectedResolution(v2 bool, k int) func(w *vfWorld) {
	return func(w *vfWorld) {
		w.buffer = 3
		w.push()
		c := w.addContract(v2, w.tipHeight(), vfSmall)
		w.push(vfEvent{kind: evForm, c: c})
		w.revise(c, vfSmall)
		w.push(vfEvent{kind: evRev, c: c, old: 0, new: c.rev})
		w.push(vfEvent{kind: k, c: c})
		w.pop(1)
		w.revise(c, vfSmall)
		w.push()
		w.push(vfEvent{kind: k, c: c})
		w.pop(2)
		w.pop(1) // the revision is disconnected too
		w.push(vfEvent{kind: evRev, c: c, old: 0, new: c.rev})
		w.push(vfEvent{kind: k, c: c})
	}
}

var vfDirected = []func(w *vfWorld){
	vfDirectedResolution(false, evProof),  // 0: v1 storage proof reverted
	vfDirectedResolution(false, evFail),   // 1: v1 missed resolution reverted
	vfDirectedResolution(true, evProof),   // 2: v2 storage proof reverted
	vfDirectedResolution(true, evRenew),   // 3: v2 renewal reverted
	vfDirectedResolution(true, evFail),    // 4: v2 failed expiration reverted
	vfDirectedResolution(false, evMissOK), // 5
	func(w *vfWorld) { // 6: rejected, confirmed late, formation disconnected, connected again
		w.buffer = 1
		w.push()
		a := w.addContract(false, w.tipHeight(), vfSmall)
		b := w.addContract(true, w.tipHeight(), vfSmall)
		w.push()
		w.push()
		w.push() // both rejected by now
		w.push(vfEvent{kind: evForm, c: a}, vfEvent{kind: evForm, c: b, new: 1})
		w.pop(1)
		w.push()
		w.push(vfEvent{kind: evForm, c: b, new: 1}, vfEvent{kind: evForm, c: a})
		w.pop(3)
	},
	func(w *vfWorld) { // 7: registry usage of a v1 contract in every status (fixed finding cb8ed00)
		w.buffer = 18
		w.push()
		c := w.addContract(false, w.tipHeight(), vfUsage{})
		reg := vfUsage{rr: types.NewCurrency64(4), rw: types.NewCurrency64(9)}
		w.revise(c, reg)
		w.push(vfEvent{kind: evForm, c: c})
		w.revise(c, reg)
		w.push(vfEvent{kind: evProof, c: c})
		w.revise(c, reg)
		w.pop(1)
		w.push(vfEvent{kind: evFail, c: c})
		w.revise(c, reg)
	},
	func(w *vfWorld) { // 8: the same blocks are crossed three times, then a rescan
		w.buffer = 2
		w.push()
		a := w.addContract(false, w.tipHeight(), vfSmall)
		b := w.addContract(true, w.tipHeight(), vfSmall)
		w.push(vfEvent{kind: evForm, c: a}, vfEvent{kind: evForm, c: b, new: 0})
		w.revise(a, vfSmall)
		w.revise(b, vfSmall)
		b1 := w.block(vfEvent{kind: evRev, c: a, old: 0, new: a.rev}, vfEvent{kind: evRev, c: b, old: 0, new: b.rev})
		b2 := &vfBlock{height: b1.height + 1, bid: b1.bid + 1, events: []vfEvent{{kind: evProof, c: a}, {kind: evRenew, c: b}}}
		w.nextBid++
		for i := 0; i < 3; i++ {
			if w.update(nil, []*vfBlock{b1, b2}, true) {
				w.commit(nil, []*vfBlock{b1, b2})
			}
			if w.update([]*vfBlock{b2, b1}, nil, true) {
				w.commit([]*vfBlock{b2, b1}, nil)
			}
		}
		if w.update(nil, []*vfBlock{b1, b2}, true) {
			w.commit(nil, []*vfBlock{b1, b2})
		}
		w.rescan()
		w.push()
	},
	func(w *vfWorld) { // 9: account funding and spending across a resolution and its revert
		w.buffer = 18
		w.push()
		a := w.addContract(false, w.tipHeight(), vfSmall)
		b := w.addContract(true, w.tipHeight(), vfSmall)
		w.push(vfEvent{kind: evForm, c: a}, vfEvent{kind: evForm, c: b, new: 0})
		w.fund(a, 1)
		w.fund(b, 1)
		w.fund(a, 2)
		w.debit(1, false)
		w.debit(1, true)
		w.push(vfEvent{kind: evProof, c: a}, vfEvent{kind: evProof, c: b})
		w.debit(1, false)
		w.debit(1, true)
		w.debit(2, false)
		w.pop(1)
		w.debit(1, false)
		w.debit(1, true)
		w.push(vfEvent{kind: evFail, c: a}, vfEvent{kind: evFail, c: b})
		w.debit(1, false)
		w.debit(2, false)
	},
	func(w *vfWorld) { // 10: v1 formation carrying the host's latest revision (folded by core), crossed twice, rescan
		w.buffer = 3
		w.push()
		c := w.addContract(false, w.tipHeight(), vfSmall)
		w.revise(c, vfSmall)
		w.push(vfEvent{kind: evForm, c: c, new: c.rev}) // the revision is confirmed with the formation
		w.pop(1)                                        // ... and unconfirmed again (revision 0)
		w.push()
		b1 := w.block(vfEvent{kind: evForm, c: c, new: c.rev})
		k := c.rev
		w.revise(c, vfSmall)
		b2 := &vfBlock{height: b1.height + 1, bid: b1.bid + 1, events: []vfEvent{{kind: evRev, c: c, old: k, new: c.rev}}}
		w.nextBid++
		for i := 0; i < 2; i++ {
			if w.update(nil, []*vfBlock{b1, b2}, true) {
				w.commit(nil, []*vfBlock{b1, b2})
			}
			if w.update([]*vfBlock{b2, b1}, nil, true) {
				w.commit([]*vfBlock{b2, b1}, nil)
			}
		}
		if w.update(nil, []*vfBlock{b1}, true) {
			w.commit(nil, []*vfBlock{b1})
		}
		w.rescan()
		w.push(vfEvent{kind: evProof, c: c})
		w.pop(2)
	},
	vfDirectedSameBlock(evRenew), // 11: v2 revised and renewed in one block
	vfDirectedSameBlock(evProof), // 12: v2 revised and proven in one block
	vfDirectedSameBlock(evFail),  // 13: v2 revised and expired (failed) in one block
	func(w *vfWorld) { // 14: rescan onto a different chain (known finding of C01)
		w.buffer = 18
		w.push()
		a := w.addContract(false, w.tipHeight(), vfSmall)
		b := w.addContract(true, w.tipHeight(), vfSmall)
		w.push(vfEvent{kind: evForm, c: a}, vfEvent{kind: evForm, c: b, new: 1})
		w.push()
		// the replacement chain shares the first block and lacks the formation block
		other := []*vfBlock{w.chain[0]}
		for h := uint64(2); h <= 3; h++ {
			w.nextBid++
			other = append(other, &vfBlock{height: h, bid: w.nextBid})
		}
		w.rescanOnto(other)
	},
	func(w *vfWorld) { // 15: a v1 contract formed (carrying its latest revision) AND proven in one block
		w.buffer = 2
		w.push()
		c := w.addContract(false, w.tipHeight(), vfSmall)
		d := w.addContract(false, w.tipHeight(), vfSmall)
		w.revise(c, vfSmall)
		w.push(vfEvent{kind: evForm, c: c, new: c.rev}, vfEvent{kind: evProof, c: c})
		w.pop(1) // formation, revision and resolution undone
		b1 := w.block(vfEvent{kind: evFail, c: d}, vfEvent{kind: evForm, c: d}, vfEvent{kind: evProof, c: c}, vfEvent{kind: evForm, c: c, new: c.rev})
		b2 := &vfBlock{height: b1.height + 1, bid: b1.bid + 1}
		w.nextBid++
		for i := 0; i < 2; i++ {
			if w.update(nil, []*vfBlock{b1, b2}, true) {
				w.commit(nil, []*vfBlock{b1, b2})
			}
			if w.update([]*vfBlock{b2, b1}, nil, true) {
				w.commit([]*vfBlock{b2, b1}, nil)
			}
		}
		if w.update(nil, []*vfBlock{b1, b2}, true) {
			w.commit(nil, []*vfBlock{b1, b2})
		}
		w.rescan()
		w.push()
		w.pop(3)
	},
}

// a v2 contract is revised AND resolved (kind k) in one block: connected, disconnected, crossed
// again together with the block before, rescanned
func vfDirectedSameBlock(k int) func(w *vfWorld) {
	return func(w *vfWorld) {
		w.buffer = 2
		w.push()
		c := w.addContract(true, w.tipHeight(), vfSmall)
		d := w.addContract(true, w.tipHeight(), vfSmall)
		w.push(vfEvent{kind: evForm, c: c, new: 0}, vfEvent{kind: evForm, c: d, new: 1})
		w.revise(c, vfSmall)
		w.revise(c, vfSmall)
		w.push(vfEvent{kind: evRev, c: c, old: 0, new: c.rev}, vfEvent{kind: k, c: c})
		w.pop(1)
		b1 := w.block(vfEvent{kind: evRev, c: d, old: 1, new: 4})
		b2 := &vfBlock{height: b1.height + 1, bid: b1.bid + 1, events: []vfEvent{{kind: k, c: c}, {kind: evRev, c: c, old: 0, new: c.rev}, {kind: evRev, c: d, old: 4, new: 6}, {kind: evMissOK, c: d}}}
		w.nextBid++
		for i := 0; i < 2; i++ {
			if w.update(nil, []*vfBlock{b1, b2}, true) {
				w.commit(nil, []*vfBlock{b1, b2})
			}
			if w.update([]*vfBlock{b2, b1}, nil, true) {
				w.commit([]*vfBlock{b2, b1}, nil)
			}
		}
		if w.update(nil, []*vfBlock{b1, b2}, true) {
			w.commit(nil, []*vfBlock{b1, b2})
		}
		w.rescan()
		w.push()
		w.pop(2)
	}
}

// ---------------------------------------------------------------- entry point

func vfRun(t *testing.T, mode string) {
	em := newVerifEmitter(t, vfHeader, "case", "check")
	defer em.Close()
	dir := t.TempDir()
	n := verifN(200)
	for id := 0; id < n+len(vfDirected); id++ {
		if em.Skip(id) {
			continue
		}
		rng := verifCaseRand(id)
		if mode == "C05" {
			rng.Int63() // a different stream than C01's
		}
		db, err := OpenDatabase(filepath.Join(dir, fmt.Sprintf("%s_%d.db", mode, id)), zap.NewNop())
		if err != nil {
			t.Fatal(err)
		}
		w := &vfWorld{t: t, em: em, mode: mode, rng: rng, db: db, dir: dir, id: id, wellFormed: true,
			tipSnaps: map[string]map[string]string{}, visited: map[string]bool{}}
		desc := "generated reorg history"
		if id < len(vfDirected) {
			desc = fmt.Sprintf("directed case %d", id)
		}
		em.BeginCase(id, desc)
		if id < len(vfDirected) {
			em.Count("case:directed")
			vfDirected[id](w)
		} else {
			w.generate()
		}
		w.compareWithBestChainReplay("end-of-history")
		w.compareWithRecalc()
		em.EndCase(w.nontrivial)
		db.Close()
	}
}
