//go:build verif

package sqlite

// Hookable, fault-injecting database/sql driver of the C08 batch harness (a variant of the C09
// driver in verif_c09_driver_test.go with its own identifiers).  It wraps the real sqlite3
// driver's Conn/Stmt/Tx and, while armed,
//
//   - calls onBegin(n) before the n-th BeginTx since Arm (n = number of transactions begun so
//     far, i.e. the call sits exactly BETWEEN two transactions of a batched Store method); the
//     callback may use the store itself (the pool gets a second connection for that) and may
//     return an error, which makes the BeginTx fail;
//   - fails the failCall-th database call (BeginTx, Prepare, Exec/Query, Commit) since Arm.
//
// Calls made from inside the callback are passed through uncounted.  A failed Commit rolls the
// inner transaction back first, as go-sqlite3's own Commit does when COMMIT fails.

import (
	"context"
	"database/sql"
	"database/sql/driver"
	"errors"
	"fmt"
	"sync"
	"sync/atomic"

	"github.com/mattn/go-sqlite3"
	"go.uber.org/zap"
)

var errC08Injected = errors.New("verif: injected database fault (c08)")

type c08Ctl struct {
	mu       sync.Mutex
	armed    bool
	inHook   bool
	begins   int // BeginTx calls seen since Arm
	calls    int // eligible calls seen since Arm
	failCall int // index of the call to fail; <0: none
	fired    bool
	onBegin  func(n int) error
	trace    []byte
}

// Arm starts counting. failCall >= 0 fails that call; onBegin (may be nil) runs before every BeginTx.
func (c *c08Ctl) Arm(failCall int, onBegin func(n int) error) {
	c.mu.Lock()
	defer c.mu.Unlock()
	c.armed, c.inHook, c.begins, c.calls, c.failCall, c.fired, c.onBegin = true, false, 0, 0, failCall, false, onBegin
	c.trace = c.trace[:0]
}

// Disarm stops counting; returns the trace (B P X C, lower case = failed), the number of calls and whether the fault fired.
func (c *c08Ctl) Disarm() (trace string, calls int, fired bool) {
	c.mu.Lock()
	defer c.mu.Unlock()
	c.armed, c.onBegin = false, nil
	return string(c.trace), c.calls, c.fired
}

func (c *c08Ctl) hit(ev byte) error {
	c.mu.Lock()
	if !c.armed || c.inHook {
		c.mu.Unlock()
		return nil
	}
	if ev == 'B' && c.onBegin != nil {
		n, fn := c.begins, c.onBegin
		c.inHook = true
		c.mu.Unlock()
		err := fn(n)
		c.mu.Lock()
		c.inHook = false
		if err != nil {
			c.begins++
			c.calls++
			c.fired = true
			c.trace = append(c.trace, 'b')
			c.mu.Unlock()
			return err
		}
	}
	defer c.mu.Unlock()
	if ev == 'B' {
		c.begins++
	}
	idx := c.calls
	c.calls++
	if !c.fired && c.failCall >= 0 && idx == c.failCall {
		c.fired = true
		c.trace = append(c.trace, ev+('a'-'A'))
		return errC08Injected
	}
	c.trace = append(c.trace, ev)
	return nil
}

type c08Driver struct {
	ctl   *c08Ctl
	inner *sqlite3.SQLiteDriver
}

func (d *c08Driver) Open(dsn string) (driver.Conn, error) {
	c, err := d.inner.Open(dsn)
	if err != nil {
		return nil, err
	}
	return &c08Conn{ctl: d.ctl, c: c.(*sqlite3.SQLiteConn)}, nil
}

type c08Conn struct {
	ctl *c08Ctl
	c   *sqlite3.SQLiteConn
}

func (c *c08Conn) Close() error { return c.c.Close() }

func (c *c08Conn) Begin() (driver.Tx, error) { return c.BeginTx(context.Background(), driver.TxOptions{}) }

func (c *c08Conn) BeginTx(ctx context.Context, opts driver.TxOptions) (driver.Tx, error) {
	if err := c.ctl.hit('B'); err != nil {
		return nil, err
	}
	tx, err := c.c.BeginTx(ctx, opts)
	if err != nil {
		return nil, err
	}
	return &c08Tx{ctl: c.ctl, tx: tx}, nil
}

func (c *c08Conn) Prepare(q string) (driver.Stmt, error) { return c.PrepareContext(context.Background(), q) }

func (c *c08Conn) PrepareContext(ctx context.Context, q string) (driver.Stmt, error) {
	if err := c.ctl.hit('P'); err != nil {
		return nil, err
	}
	s, err := c.c.PrepareContext(ctx, q)
	if err != nil {
		return nil, err
	}
	return &c08Stmt{ctl: c.ctl, s: s.(*sqlite3.SQLiteStmt)}, nil
}

func (c *c08Conn) ExecContext(ctx context.Context, q string, args []driver.NamedValue) (driver.Result, error) {
	if err := c.ctl.hit('X'); err != nil {
		return nil, err
	}
	return c.c.ExecContext(ctx, q, args)
}

func (c *c08Conn) QueryContext(ctx context.Context, q string, args []driver.NamedValue) (driver.Rows, error) {
	if err := c.ctl.hit('X'); err != nil {
		return nil, err
	}
	return c.c.QueryContext(ctx, q, args)
}

func (c *c08Conn) Ping(ctx context.Context) error { return c.c.Ping(ctx) }

type c08Stmt struct {
	ctl *c08Ctl
	s   *sqlite3.SQLiteStmt
}

func (s *c08Stmt) Close() error  { return s.s.Close() }
func (s *c08Stmt) NumInput() int { return s.s.NumInput() }

func (s *c08Stmt) Exec(args []driver.Value) (driver.Result, error) {
	return nil, errors.New("verif: legacy Exec not used")
}

func (s *c08Stmt) Query(args []driver.Value) (driver.Rows, error) {
	return nil, errors.New("verif: legacy Query not used")
}

func (s *c08Stmt) ExecContext(ctx context.Context, args []driver.NamedValue) (driver.Result, error) {
	if err := s.ctl.hit('X'); err != nil {
		return nil, err
	}
	return s.s.ExecContext(ctx, args)
}

func (s *c08Stmt) QueryContext(ctx context.Context, args []driver.NamedValue) (driver.Rows, error) {
	if err := s.ctl.hit('X'); err != nil {
		return nil, err
	}
	return s.s.QueryContext(ctx, args)
}

type c08Tx struct {
	ctl *c08Ctl
	tx  driver.Tx
}

func (t *c08Tx) Commit() error {
	if err := t.ctl.hit('C'); err != nil {
		t.tx.Rollback() // what go-sqlite3 does itself when COMMIT fails
		return err
	}
	return t.tx.Commit()
}

func (t *c08Tx) Rollback() error { return t.tx.Rollback() }

var c08DriverSeq atomic.Int64

// c08OpenHookStore opens the database the way OpenDatabase does, on the wrapping driver.  The
// pool is allowed a second connection: it is used only from inside the between-transactions
// callback, i.e. while the store's own connection is idle outside any transaction.
func c08OpenHookStore(fp string, log *zap.Logger) (*Store, *c08Ctl, error) {
	ctl := &c08Ctl{failCall: -1}
	name := fmt.Sprintf("sqlite3_verif_c08_%d", c08DriverSeq.Add(1))
	sql.Register(name, &c08Driver{ctl: ctl, inner: &sqlite3.SQLiteDriver{}})
	db, err := sql.Open(name, sqliteFilepath(fp))
	if err != nil {
		return nil, nil, fmt.Errorf("failed to open database: %w", err)
	}
	db.SetMaxOpenConns(2)
	store := &Store{db: db, log: log}
	if err := store.init(); err != nil {
		db.Close()
		return nil, nil, err
	}
	return store, ctl, nil
}
