//go:build verif

package sqlite

// C18, the processed chain tip across a stop BETWEEN two batches of one sync.  index.Manager
// follows the chain in batches (index.WithBatchSize); every committed batch — whether it applies
// blocks, reverts blocks, or both — must store the chain index it leaves
// (global_settings.last_scanned_index), because that is what the next start loads as the
// processed tip and what the first UpdatesSince of the restarted host starts from.
//
// A host built from the real managers (verifOpenNode) follows a real chain.Manager that is
// extended and reorganised (depth 1-4, branches mined on a second chain manager).  The wallet and
// contract managers handed to index.NewManager are wrapped by a gate that lets a chosen number of
// batches commit and refuses the next one before anything of it is written (the error ends
// syncDB exactly like a failing manager call would): the host is then stopped between two batches
// of one reorganisation.  Tip + every exported getter are recorded, the host is closed and
// re-constructed on the same directory with a gate that lets nothing through (so that what it
// starts from can be read), everything is recorded again and compared; then it goes on, is
// stopped again at further batch boundaries, and in the end lets the sync finish and is compared
// with a twin host that followed the same chain without ever being stopped.
//
// No observation depends on timing: the gate tells when it refused a batch (the batch before it
// is complete by then: syncDB publishes the tip before it asks for the next batch), a finished
// sync is recognised by the tip; deadlines only guard against hangs.

import (
	"errors"
	"fmt"
	"os"
	"path/filepath"
	"runtime/debug"
	"sort"
	"strings"
	"sync"
	"testing"
	"time"

	rhp2 "go.sia.tech/core/rhp/v2"
	proto4 "go.sia.tech/core/rhp/v4"
	"go.sia.tech/core/types"
	"go.sia.tech/coreutils"
	"go.sia.tech/coreutils/chain"
	rhp4 "go.sia.tech/coreutils/rhp/v4"
	"go.sia.tech/coreutils/wallet"
	"go.sia.tech/hostd/v2/host/accounts"
	"go.sia.tech/hostd/v2/host/contracts"
	"go.sia.tech/hostd/v2/index"
)

var errVerifIdxStopped = errors.New("verif: the host is being stopped between two batches")

// one block of a batch: its index and the index of its parent (= the tip after reverting it)
type verifIdxBlock struct{ blk, parent types.ChainIndex }

type verifIdxBatch struct {
	reverted, applied []verifIdxBlock
	index             types.ChainIndex // what ProcessActions was called with after the commit
}

func (b verifIdxBatch) kind() string {
	switch {
	case len(b.applied) == 0:
		return "reverts only"
	case len(b.reverted) == 0:
		return "applies only"
	}
	return "reverts and applies"
}

type verifIdxGate struct {
	mu              sync.Mutex
	allow           int // batches that may still commit; < 0: no limit
	refused         bool
	panicked        bool
	actionsPanicked bool
	failed          error           // a batch failed for a reason of the host's own: syncDB has given up until the next reorg notification
	cur             *verifIdxBatch  // the batch whose transaction is running
	done            []verifIdxBatch // committed batches, in order
}

func verifIdxBlocks(reverted []chain.RevertUpdate, applied []chain.ApplyUpdate) (r, a []verifIdxBlock) {
	for _, cru := range reverted {
		r = append(r, verifIdxBlock{types.ChainIndex{ID: cru.Block.ID(), Height: cru.State.Index.Height + 1}, cru.State.Index})
	}
	for _, cau := range applied {
		p := types.ChainIndex{ID: cau.Block.ParentID}
		if cau.State.Index.Height > 0 {
			p.Height = cau.State.Index.Height - 1
		}
		a = append(a, verifIdxBlock{cau.State.Index, p})
	}
	return
}

type verifIdxWallet struct {
	index.WalletManager
	g *verifIdxGate
}

// UpdateChainState is the first call of every batch, inside its transaction
func (w *verifIdxWallet) UpdateChainState(tx wallet.UpdateTx, reverted []chain.RevertUpdate, applied []chain.ApplyUpdate) error {
	w.g.mu.Lock()
	if w.g.allow == 0 {
		w.g.refused = true
		w.g.mu.Unlock()
		return errVerifIdxStopped // nothing of this batch is written
	}
	b := &verifIdxBatch{}
	b.reverted, b.applied = verifIdxBlocks(reverted, applied)
	w.g.cur = b
	w.g.mu.Unlock()
	return w.WalletManager.UpdateChainState(tx, reverted, applied)
}

type verifIdxContracts struct {
	index.ContractManager
	g *verifIdxGate
}

// ProcessActions is the first call after a batch has been committed
func (c *verifIdxContracts) ProcessActions(ci types.ChainIndex) (err error) {
	defer func() {
		// a panic of the contract manager's actions would end the process (it runs on the index
		// manager's goroutine): reported, the sync ends, the case ends
		if r := recover(); r != nil {
			err = fmt.Errorf("panic in contracts.Manager.ProcessActions(%v): %v\n%.1200s", ci, r, debug.Stack())
			c.g.mu.Lock()
			c.g.failed, c.g.actionsPanicked = err, true
			c.g.mu.Unlock()
		}
	}()
	c.g.mu.Lock()
	if c.g.cur != nil {
		c.g.cur.index = ci
		c.g.done = append(c.g.done, *c.g.cur)
		c.g.cur = nil
		if c.g.allow > 0 {
			c.g.allow--
		}
	}
	c.g.mu.Unlock()
	return c.ContractManager.ProcessActions(ci)
}

type verifIdxStore struct {
	index.Store
	g *verifIdxGate
}

// UpdateChainState runs one batch in a transaction; an error other than the gate's ends syncDB
func (s *verifIdxStore) UpdateChainState(fn func(index.UpdateTx) error) (err error) {
	defer func() {
		// a panic of the code under test inside a batch (it would end the process): reported, the case ends
		if r := recover(); r != nil {
			err = fmt.Errorf("panic: %v", r)
			s.g.mu.Lock()
			s.g.failed, s.g.panicked = err, true
			s.g.mu.Unlock()
		}
	}()
	err = s.Store.UpdateChainState(fn)
	if err != nil && !errors.Is(err, errVerifIdxStopped) {
		s.g.mu.Lock()
		s.g.failed = err
		s.g.mu.Unlock()
	}
	return err
}

// verifOpenGatedNode: the host of verifOpenNode with the gate between its index manager and
// its wallet / contract managers.
func verifOpenGatedNode(t testing.TB, dir string, hostKey types.PrivateKey, cm *chain.Manager, batch int, g *verifIdxGate) *verifNode {
	n := verifOpenNode(t, dir, hostKey, cm, false, batch)
	var err error
	n.index, err = index.NewManager(&verifIdxStore{n.store, g}, cm, &verifIdxContracts{n.contracts, g}, &verifIdxWallet{n.wallet, g}, n.settings, n.volumes, index.WithBatchSize(batch))
	if err != nil {
		t.Fatal("index:", err)
	}
	return n
}

// the harness's side of one case
type verifIdxCase struct {
	t     *testing.T
	em    *verifEmitter
	w     *verifWorld // snapshot machinery of the node-level C18 harness (w.n = the interrupted host)
	twin  *verifNode
	gate  *verifIdxGate // of the interrupted host
	gateB *verifIdxGate // of the twin (never closed: it only reports a failing batch)
	v2    bool
	root  string
	batch int
	cm    *chain.Manager
	cmB   *chain.Manager // the twin's own chain manager (own transaction pool), fed the same blocks
	dirA  string
	stuck bool // a batch failed: the case is over
	stops int  // stops between batches so far
	// contracts formed on the chain (formation transactions funded by the host's wallet and mined)
	formedAt types.ChainIndex // the tip when they were formed: below it the chain is never reorganised
	addAll   []func(n *verifNode) error
	nums     map[types.BlockID]int
	// independent ledger: the blocks whose effects the host's tables hold, oldest first
	ledger []types.ChainIndex
}

func (c *verifIdxCase) num(id types.BlockID) int {
	if id == (types.BlockID{}) {
		return 0
	}
	if n, ok := c.nums[id]; ok {
		return n
	}
	c.nums[id] = len(c.nums) + 1
	return c.nums[id]
}

// a chain index as the model sees it: (level, block number); level = height+1, (0, 0) = no block
func (c *verifIdxCase) idx(ci types.ChainIndex) string {
	if ci == (types.ChainIndex{}) {
		return "(0%N, 0%N)"
	}
	return fmt.Sprintf("(%d%%N, %d%%N)", ci.Height+1, c.num(ci.ID))
}

func (c *verifIdxCase) blocksTerm(l []verifIdxBlock) string {
	var out []string
	for _, b := range l {
		out = append(out, fmt.Sprintf("(%s, %s)", c.idx(b.blk), c.idx(b.parent)))
	}
	return "[" + strings.Join(out, "; ") + "]"
}

// settle waits until the interrupted host has either been refused a batch or processed the
// whole chain, then records the batches it committed.  Returns whether it is synced.  A batch
// that fails on its own (the host gives up until the next reorg notification) ends the case.
func (c *verifIdxCase) settle() bool {
	c.await(c.w.n, c.gate, c.cm, "the host under test")
	c.gate.mu.Lock()
	done := c.gate.done
	c.gate.done = nil
	c.gate.mu.Unlock()
	for _, b := range done {
		c.em.Step(fmt.Sprintf("IBatch %s %s", c.blocksTerm(b.reverted), c.blocksTerm(b.applied)), "OBatch "+c.idx(b.index))
		c.em.Count("batch:" + b.kind())
		// the ledger: a batch continues where the tables are — it reverts the newest block they
		// hold, then its parent, ..., and applies on top of what is left
		for _, r := range b.reverted {
			if len(c.ledger) == 0 || c.ledger[len(c.ledger)-1] != r.blk {
				top := types.ChainIndex{}
				if len(c.ledger) > 0 {
					top = c.ledger[len(c.ledger)-1]
				}
				sig := "restart-reapplies-reverted-block"
				if c.stops == 0 {
					sig = "batch-reverts-block-twice" // the host has not been stopped yet
				}
				c.em.Monitor(sig, fmt.Sprintf("a committed batch (%s) reverts block %v while the newest block the tables hold is %v: the block was reverted by an earlier committed batch already (batch size %d)", b.kind(), r.blk, top, c.batch))
				continue
			}
			c.ledger = c.ledger[:len(c.ledger)-1]
		}
		for _, a := range b.applied {
			top := types.ChainIndex{}
			if len(c.ledger) > 0 {
				top = c.ledger[len(c.ledger)-1]
			}
			if top != a.parent {
				c.em.Monitor("batch-does-not-continue-processed-chain", fmt.Sprintf("a committed batch (%s) applies block %v (parent %v) while the newest block the tables hold is %v (batch size %d)", b.kind(), a.blk, a.parent, top, c.batch))
			}
			c.ledger = append(c.ledger, a.blk)
		}
	}
	return c.stuck || c.w.n.index.Tip() == c.cm.Tip()
}

// await waits until a host has been refused a batch by its gate, has processed its whole chain,
// or has given up: a batch that fails for a reason of the host's own (an error or a panic inside
// the chain update) ends syncDB until the next reorg notification, and — the same batch being
// handed out again — every later attempt too.  That ends the case (c.stuck).
func (c *verifIdxCase) await(n *verifNode, g *verifIdxGate, cm *chain.Manager, who string) {
	deadline := time.Now().Add(3 * time.Minute)
	for {
		g.mu.Lock()
		refused, failed, panicked, actionsPanicked := g.refused, g.failed, g.panicked, g.actionsPanicked
		g.mu.Unlock()
		if failed != nil {
			sig := "indexer-does-not-converge"
			if panicked {
				sig = "chain-update-panics"
			}
			if actionsPanicked {
				sig = "contract-actions-panic-while-host-lags-behind-reorg"
			}
			c.em.Monitor(sig, fmt.Sprintf("%s: a batch fails and the sync ends: %v (processed tip %v, chain tip %v, batch size %d, stops between batches so far: %d)", who, failed, n.index.Tip(), cm.Tip(), c.batch, c.stops))
			c.stuck = true
			return
		}
		if refused || n.index.Tip() == cm.Tip() {
			return
		}
		if time.Now().After(deadline) {
			c.t.Fatal(who + ": the index manager neither stops at the gate nor catches up with the chain nor reports a failing batch")
		}
		time.Sleep(200 * time.Microsecond)
	}
}

func (c *verifIdxCase) observe(what string) {
	n := c.w.n
	tip := n.index.Tip()
	marker, err := n.store.Tip()
	if err != nil {
		c.t.Fatal(err)
	}
	c.em.Step("IObserve", fmt.Sprintf("OIdx %s %s", c.idx(tip), c.idx(marker)))
	if tip != marker {
		c.em.Monitor("stored-marker-differs-from-processed-tip", fmt.Sprintf("%s: index.Manager.Tip() = %v, Store.Tip() (what the next start loads) = %v (batch size %d)", what, tip, marker, c.batch))
	}
}

// snapshot: every getter of the node-level harness
func (c *verifIdxCase) snapshot(n *verifNode) map[string]string {
	s := c.w.snapshot(n)
	st, err := n.store.Tip()
	s["Store.Tip"] = fmt.Sprint(st, err)
	return s
}

func (c *verifIdxCase) open(allow int) {
	c.gate = &verifIdxGate{allow: allow}
	c.w.n = verifOpenGatedNode(c.t, c.dirA, c.w.hostKey, c.cm, c.batch, c.gate)
}

// stopAndRestart: the host stands between two batches.  Observe, close, start again behind a
// gate that lets nothing through, observe again, compare.
func (c *verifIdxCase) stopAndRestart(where string) {
	c.observe("stopped " + where)
	before := c.snapshot(c.w.n)
	c.w.n.Close()
	c.open(0)
	c.settle()
	c.em.Step("IRestart", "ODone true")
	c.observe("restarted " + where)
	after := c.snapshot(c.w.n)
	var keys []string
	for k := range before {
		keys = append(keys, k)
	}
	sort.Strings(keys)
	for _, k := range keys {
		// (the spendable part of the wallet balance depends on coreutils' in-memory input locks and
		// on the transaction pool: an announcement that has been mined into a block the stopped
		// host has not processed yet keeps its input locked until the process ends.  Not an
		// observable of the property; the confirmed and immature parts are.)
		if verifIdxChainPart(k, before[k]) == verifIdxChainPart(k, after[k]) {
			continue
		}
		sig := "restart-changes:" + strings.SplitN(k, "(", 2)[0]
		if k == "index.Manager.Tip" {
			sig = "processed-tip-differs-after-restart"
		}
		c.em.Monitor(sig, fmt.Sprintf("host stopped %s (batch size %d) — %s before the restart: %.300s — after: %.300s", where, c.batch, k, before[k], after[k]))
	}
	c.em.Count("stop between batches:" + where)
	c.stops++
}

// plan: the batches index.Manager will be handed from `from` on, computed with the chain
// manager the way syncDB does it
func (c *verifIdxCase) plan(from types.ChainIndex) (out []verifIdxBatch) {
	for from != c.cm.Tip() {
		rus, aus, err := c.cm.UpdatesSince(from, c.batch)
		if err != nil || len(rus)+len(aus) == 0 {
			c.t.Fatal("UpdatesSince:", err)
		}
		var b verifIdxBatch
		b.reverted, b.applied = verifIdxBlocks(rus, aus)
		if len(aus) > 0 {
			from = aus[len(aus)-1].State.Index
		} else {
			from = rus[len(rus)-1].State.Index
		}
		b.index = from
		out = append(out, b)
	}
	return
}

func (c *verifIdxCase) twinSynced() {
	c.await(c.twin, c.gateB, c.cmB, "the twin that is never stopped")
}

// extend mines n blocks on the host's chain and hands them to the twin's chain manager
// (the blocks are mined aside — with the transactions of the host's pool: announcements, contract
// formations, resolutions — and handed over in one call: one reorg notification, so the batches
// the index manager is handed do not depend on how fast it is scheduled)
func (c *verifIdxCase) extend(n int, pay func(i int) types.Address) {
	blocks := c.branch(c.v2, c.cm.Tip().Height, n, pay)
	if err := c.cm.AddBlocks(blocks); err != nil {
		c.t.Fatal(err)
	} else if err := c.cmB.AddBlocks(blocks); err != nil {
		c.t.Fatal(err)
	}
}

// what of a getter is a function of the processed chain alone: the two hosts have transaction
// pools of their own (each announces itself when it can pay for it; only the first host's
// announcement is ever mined), so the pool-dependent part of the wallet balance is left out
func verifIdxChainPart(k, v string) string {
	if k != "wallet.Balance" {
		return v
	}
	var out []string
	for _, f := range []string{"confirmed", "immature"} {
		if i := strings.Index(v, `"`+f+`":"`); i >= 0 {
			rest := v[i+len(f)+4:]
			if j := strings.Index(rest, `"`); j >= 0 {
				out = append(out, f+"="+rest[:j])
			}
		}
	}
	return strings.Join(out, " ")
}

// compareTwin: both hosts have processed the whole chain
func (c *verifIdxCase) compareTwin(after string) {
	c.twinSynced()
	if c.stuck {
		return
	}
	a, b := c.snapshot(c.w.n), c.snapshot(c.twin)
	for k := range a {
		a[k], b[k] = verifIdxChainPart(k, a[k]), verifIdxChainPart(k, b[k])
	}
	var keys []string
	for k := range a {
		keys = append(keys, k)
	}
	sort.Strings(keys)
	for _, k := range keys {
		if a[k] != b[k] {
			c.em.Monitor("interrupted-sync-differs-from-uninterrupted:"+strings.SplitN(k, "(", 2)[0], fmt.Sprintf("after %s (batch size %d): %s is %.300s on the host that was stopped between batches and %.300s on the one that was not", after, c.batch, k, a[k], b[k]))
		}
	}
	c.em.Count("compared with the uninterrupted twin")
}

// formOnChain forms a contract of the network's version for real: the formation transaction is
// funded by the host's wallet, put into the transaction pool of the host's chain manager (the
// next block mined there carries it) and the contract is handed to the contract manager of every
// host.  It is short: it runs through its proof window within a few blocks, so that formation,
// revision broadcast and resolution (successful expiry of an empty v1 contract, v2 expiration)
// are on the blocks that the reorganisations take away and bring back.
func (c *verifIdxCase) formOnChain() {
	w, n := c.w, c.w.n
	h := c.cm.Tip().Height
	cs := c.cm.TipState()
	hostAddr := types.StandardUnlockHash(w.hostKey.PublicKey())
	vc := &verifContract{v2: c.v2, num: len(w.cs)}
	var add func(n *verifNode) error
	if c.v2 {
		fc := types.V2FileContract{
			ProofHeight: h + 3, ExpirationHeight: h + 5,
			RenterOutput:    types.SiacoinOutput{Value: types.Siacoins(5), Address: types.VoidAddress},
			HostOutput:      types.SiacoinOutput{Value: types.Siacoins(3), Address: hostAddr},
			MissedHostValue: types.Siacoins(3), TotalCollateral: types.Siacoins(3),
			RenterPublicKey: w.renterKey.PublicKey(), HostPublicKey: w.hostKey.PublicKey(),
		}
		sigHash := cs.ContractSigHash(fc)
		fc.HostSignature, fc.RenterSignature = w.hostKey.SignHash(sigHash), w.renterKey.SignHash(sigHash)
		txn := types.V2Transaction{FileContracts: []types.V2FileContract{fc}}
		basis, toSign, err := n.wallet.FundV2Transaction(&txn, cs.V2FileContractTax(fc).Add(types.Siacoins(8)), false)
		if err != nil {
			c.em.Count("on-chain contract: wallet can not fund it")
			return
		}
		n.wallet.SignV2Inputs(&txn, toSign)
		set := rhp4.TransactionSet{Transactions: []types.V2Transaction{txn}, Basis: basis}
		if _, err := c.cm.AddV2PoolTransactions(set.Basis, set.Transactions); err != nil {
			c.t.Fatal("formation set refused by the pool:", err)
		}
		vc.id, vc.fc, vc.wend = txn.V2FileContractID(txn.ID(), 0), fc, fc.ExpirationHeight
		add = func(n *verifNode) error { return n.contracts.AddV2Contract(set, proto4.Usage{RPC: types.Siacoins(1)}) }
	} else {
		st, err := n.settings.RHP2Settings()
		if err != nil {
			c.t.Fatal(err)
		}
		st.WindowSize = 3
		fc := rhp2.PrepareContractFormation(w.renterKey.PublicKey(), w.hostKey.PublicKey(), types.Siacoins(5), types.Siacoins(3), h+3, st, types.VoidAddress)
		cost := rhp2.ContractFormationCost(cs, fc, st.ContractPrice)
		txn := types.Transaction{FileContracts: []types.FileContract{fc}}
		toSign, err := n.wallet.FundTransaction(&txn, cost.Add(types.Siacoins(3)), false)
		if err != nil {
			c.em.Count("on-chain contract: wallet can not fund it")
			return
		}
		n.wallet.SignTransaction(&txn, toSign, types.CoveredFields{WholeTransaction: true})
		set := append(c.cm.UnconfirmedParents(txn), txn)
		if _, err := c.cm.AddPoolTransactions(set); err != nil {
			c.t.Fatal("formation set refused by the pool:", err)
		}
		rev := types.FileContractRevision{ParentID: txn.FileContractID(0), UnlockConditions: w.uc, FileContract: txn.FileContracts[0]}
		rev.RevisionNumber = 1
		hs := types.NewHasher()
		rev.EncodeTo(hs.E)
		sr := contracts.SignedRevision{Revision: rev, HostSignature: w.hostKey.SignHash(hs.Sum()), RenterSignature: w.renterKey.SignHash(hs.Sum())}
		vc.id, vc.rev, vc.wend = rev.ParentID, sr, fc.WindowEnd
		add = func(n *verifNode) error {
			return n.contracts.AddContract(sr, set, types.Siacoins(3), contracts.Usage{RPCRevenue: st.ContractPrice})
		}
	}
	for _, nd := range []*verifNode{n, c.twin} {
		if err := add(nd); err != nil {
			c.t.Fatal("add contract:", err)
		}
	}
	c.addAll = append(c.addAll, add)
	w.cs = append(w.cs, vc)
	c.em.Count(fmt.Sprintf("on-chain contract formed v2=%v", c.v2))
}

// compareBestChainTwin: a host that has only ever seen the final best chain — the blocks up to
// the point where the contracts were handed to the managers, the same contracts, then the rest —
// must show what the host under test shows after all its reorganisations (and stops).
func (c *verifIdxCase) compareBestChainTwin() {
	cmC, _ := verifNewChain(c.t, c.v2)
	dirC := filepath.Join(c.root, "c")
	os.MkdirAll(dirC, 0o755)
	g := &verifIdxGate{allow: -1}
	nC := verifOpenGatedNode(c.t, dirC, c.w.hostKey, cmC, c.batch, g)
	defer nC.Close()
	feed := func(from, to uint64) {
		for h := from; h <= to; h++ {
			ci, ok := c.cm.BestIndex(h)
			if !ok {
				c.t.Fatal("no best index at height", h)
			}
			b, ok := c.cm.Block(ci.ID)
			if !ok {
				c.t.Fatal("missing block", ci)
			} else if err := cmC.AddBlocks([]types.Block{b}); err != nil {
				c.t.Fatal(err)
			}
		}
	}
	feed(1, c.formedAt.Height)
	if c.await(nC, g, cmC, "the twin that follows the final best chain only"); c.stuck {
		return
	}
	for _, add := range c.addAll {
		if err := add(nC); err != nil {
			c.t.Fatal("add contract (best-chain twin):", err)
		}
	}
	feed(c.formedAt.Height+1, c.cm.Tip().Height)
	if c.await(nC, g, cmC, "the twin that follows the final best chain only"); c.stuck {
		return
	}
	a, b := c.snapshot(c.w.n), c.snapshot(nC)
	var keys []string
	for k := range a {
		keys = append(keys, k)
	}
	sort.Strings(keys)
	for _, k := range keys {
		if x, y := verifIdxChainPart(k, a[k]), verifIdxChainPart(k, b[k]); x != y {
			if la, _ := c.w.n.store.LastAnnouncement(); k == "settings.ConfigManager.LastAnnouncement" && la.Index == (types.ChainIndex{}) {
				// reverting the block of the latest announcement clears the stored announcement instead of
				// going back to the one before it (the host announces again at its next opportunity)
				// This is what C16 prescribes ("cleared exactly when that block is disconnected"): an
				// empty record on the host that followed the reorganisation is not a difference.
				c.em.Count("last announcement empty after its block was disconnected (twin that saw the final chain only has the earlier one)")
				continue
			}
			c.em.Monitor("indexer-state-differs-from-best-chain-twin", fmt.Sprintf("%s (batch size %d, %d stops between batches): %.400s on the host that followed every reorganisation, %.400s on a host that has only seen the final best chain", k, c.batch, c.stops, x, y))
		}
	}
	c.em.Count("compared with a twin that followed the final best chain only")
	for _, vc := range c.w.cs {
		if vc.v2 {
			if cc, err := c.w.n.contracts.V2Contract(vc.id); err == nil {
				c.em.Count(fmt.Sprintf("final status of a v2 contract: %v", cc.Status))
			}
		} else if cc, err := c.w.n.contracts.Contract(vc.id); err == nil {
			c.em.Count(fmt.Sprintf("final status of a v1 contract: %v", cc.Status))
		}
	}
}

// branch mines n blocks on top of the block at height forkHeight of the host's best chain,
// on a chain manager of its own
func (c *verifIdxCase) branch(v2 bool, forkHeight uint64, n int, pay func(i int) types.Address) []types.Block {
	cm2, _ := verifNewChain(c.t, v2)
	for h := uint64(1); h <= forkHeight; h++ {
		ci, ok := c.cm.BestIndex(h)
		if !ok {
			c.t.Fatal("no best index at height", h)
		}
		b, ok := c.cm.Block(ci.ID)
		if !ok {
			c.t.Fatal("missing block", ci)
		}
		if err := cm2.AddBlocks([]types.Block{b}); err != nil {
			c.t.Fatal(err)
		}
	}
	if forkHeight == c.cm.Tip().Height {
		// an extension of the best chain carries what is in the host's transaction pool
		if txns := c.cm.PoolTransactions(); len(txns) > 0 {
			cm2.AddPoolTransactions(txns)
		}
		if txns := c.cm.V2PoolTransactions(); len(txns) > 0 {
			cm2.AddV2PoolTransactions(c.cm.Tip(), txns)
		}
	}
	var out []types.Block
	for i := 0; i < n; i++ {
		b, ok := coreutils.MineBlock(cm2, pay(i), 2*time.Minute)
		if !ok {
			c.t.Fatal("failed to mine block")
		} else if err := cm2.AddBlocks([]types.Block{b}); err != nil {
			c.t.Fatal(err)
		}
		out = append(out, b)
	}
	return out
}

type verifIdxEvent struct {
	depth, length int   // reorganisation: depth blocks leave the best chain, length blocks replace them (depth 0: the chain is extended)
	first         int   // batches the running host may commit before it is stopped (-1: it is not stopped before it is synced)
	stops         []int // further stops, as numbers of batches after the previous stop (directed cases; generated ones draw them)
}

const verifC18IdxDirected = 7

func TestVerifC18Index(t *testing.T) {
	em := newVerifEmitter(t, "From HostdBase Require Import Base.\nFrom HostdRestart Require Import Index.", "icase", "icheck")
	defer em.Close()
	root := t.TempDir()
	n := verifN(20)
	for id := 0; id < n+verifC18IdxDirected; id++ {
		if em.Skip(id) {
			continue
		}
		rng := verifCaseRand(id)
		dir := filepath.Join(root, fmt.Sprintf("case%d", id))
		dirA, dirB := filepath.Join(dir, "a"), filepath.Join(dir, "b")
		os.MkdirAll(dirA, 0o755)
		os.MkdirAll(dirB, 0o755)
		v2 := rng.Intn(2) == 0
		batch := []int{1, 1, 2, 2, 3, 3, 100}[rng.Intn(7)]
		// every third generated history is a plain run: the host is never stopped
		plain := id >= verifC18IdxDirected && id%3 == 2
		var events []verifIdxEvent
		desc := "generated: chain extended and reorganised, host stopped between batches"
		switch id {
		case 0:
			// the witness: two blocks leave the chain, batches of one, the host stops after the first
			// (reverts-only) batch
			batch, desc = 1, "directed: reorganisation of depth 2 in batches of 1, stop after the first reverts-only batch, then after every batch"
			events = []verifIdxEvent{{depth: 2, length: 3, first: 1, stops: []int{1, 1, 1}}}
		case 1:
			batch, desc = 2, "directed: reorganisation of depth 2 in batches of 2 (one reverts-only batch), stop after it"
			events = []verifIdxEvent{{depth: 2, length: 4, first: 1, stops: []int{1}}}
		case 2:
			batch, desc = 2, "directed: reorganisation of depth 3 in batches of 2 (reverts only, then reverts and applies), stop after each"
			events = []verifIdxEvent{{depth: 3, length: 4, first: 1, stops: []int{1, 1}}}
		case 3:
			batch, desc = 3, "directed: reorganisation of depth 1 (batch reverts and applies) and of depth 4 in batches of 3; extension stopped between applying batches"
			events = []verifIdxEvent{{depth: 1, length: 2, first: 0, stops: []int{1}}, {depth: 4, length: 5, first: 1, stops: []int{1}}, {depth: 0, length: 5, first: 1}}
		case 4:
			batch, desc = 1, "directed: the host is stopped before the first batch of a reorganisation, restarted twice at the same place, and a reorganisation back to a longer branch follows"
			events = []verifIdxEvent{{depth: 3, length: 4, first: 0, stops: []int{0, 2, 1}}, {depth: 2, length: 3, first: 2, stops: []int{1}}}
		case 5:
			batch, plain, desc = 3, true, "directed: plain run, reorganisations of depth 3, 5 and 4 in batches of 3 (a reverts-only batch of three blocks), never stopped"
			events = []verifIdxEvent{{depth: 0, length: 4, first: -1}, {depth: 3, length: 4, first: -1}, {depth: 5, length: 6, first: -1}, {depth: 4, length: 6, first: -1}}
		case 6:
			batch, plain, desc = 2, true, "directed: plain run, reorganisations of depth 2, 4 and 5 in batches of 2; then batches larger than the reorganisation"
			events = []verifIdxEvent{{depth: 0, length: 5, first: -1}, {depth: 2, length: 3, first: -1}, {depth: 4, length: 5, first: -1}, {depth: 5, length: 7, first: -1}}
		default:
			for i := 0; i < 2+rng.Intn(3); i++ {
				ev := verifIdxEvent{first: rng.Intn(4) - 1}
				if plain {
					ev.first = -1
				}
				if rng.Intn(4) > 0 {
					ev.depth = 1 + rng.Intn(5)
					ev.length = ev.depth + 1 + rng.Intn(2)
					if !plain && (ev.first < 0 || rng.Intn(2) == 0) {
						// most often right where the reverting batches are
						ev.first = rng.Intn((ev.depth+batch-1)/batch + 1)
					}
				} else {
					ev.length = 1 + rng.Intn(4)
				}
				events = append(events, ev)
			}
		}
		cm, _ := verifNewChain(t, v2)
		w := &verifWorld{t: t, em: em, rng: rng, dir: dirA, cm: cm,
			hostKey: verifKey(rng), renterKey: verifKey(rng), volPath: map[int64]string{}, budgets: map[int]*accounts.Budget{},
			hidden: map[int64]bool{}, hiddenAtStart: map[int64]bool{}, budgetAcct: map[int]int{},
			data: map[types.Hash256]*[rhp2.SectorSize]byte{}}
		w.uc = types.UnlockConditions{PublicKeys: []types.UnlockKey{w.renterKey.PublicKey().UnlockKey(), w.hostKey.PublicKey().UnlockKey()}, SignaturesRequired: 2}
		cmB, _ := verifNewChain(t, v2)
		c := &verifIdxCase{t: t, em: em, w: w, batch: batch, cm: cm, cmB: cmB, dirA: dirA, v2: v2, root: dir, nums: map[types.BlockID]int{}}
		hostAddr := types.StandardUnlockHash(w.hostKey.PublicKey())
		pay := func(int) types.Address {
			if rng.Intn(2) == 0 {
				return hostAddr
			}
			return types.VoidAddress
		}
		em.BeginCase(id, fmt.Sprintf("%s (batch size %d, v2 network %v)", desc, batch, v2))
		c.open(-1)
		c.gateB = &verifIdxGate{allow: -1}
		c.twin = verifOpenGatedNode(t, dirB, w.hostKey, cmB, batch, c.gateB)
		// prelude: enough blocks for payouts to mature, a contract of each version on both hosts
		c.extend(3, func(int) types.Address { return hostAddr })
		c.extend(6+rng.Intn(3), pay)
		if !c.settle() || c.stuck {
			t.Fatal("not synced after the prelude")
		}
		c.twinSynced()
		// two contracts formed on the chain (their formation transactions are mined with the next
		// block), next to two the chain never hears of
		c.formedAt = cm.Tip()
		{
			c1 := w.newContract(false, cm.Tip().Height+40)
			c2 := w.newContract(true, cm.Tip().Height+40)
			txn := types.V2Transaction{FileContracts: []types.V2FileContract{c2.fc}}
			c2.id = txn.V2FileContractID(txn.ID(), 0)
			add := func(nd *verifNode) error {
				if err := nd.contracts.AddContract(c1.rev, []types.Transaction{{ArbitraryData: [][]byte{{1}}}}, types.Siacoins(2), contracts.Usage{RPCRevenue: types.Siacoins(1)}); err != nil {
					return err
				}
				return nd.contracts.AddV2Contract(rhp4.TransactionSet{Transactions: []types.V2Transaction{txn}}, proto4.Usage{RPC: types.Siacoins(1)})
			}
			for _, nd := range []*verifNode{w.n, c.twin} {
				if err := add(nd); err != nil {
					t.Fatal(err)
				}
			}
			c.addAll = append(c.addAll, add)
			w.cs = append(w.cs, c1, c2)
		}
		c.formOnChain()
		c.formOnChain()
		c.extend(5, pay)
		if !c.settle() || c.stuck {
			t.Fatal("not synced after the contracts were formed")
		}
		c.twinSynced()
		c.observe("after the prelude")
		stoppedAfterRevertOnly := false
		for ei, ev := range events {
			what := fmt.Sprintf("extension by %d", ev.length)
			if ev.depth > 0 {
				// (never below the block at which the contracts were handed to the managers)
				if room := int(cm.Tip().Height - c.formedAt.Height); ev.depth > room {
					ev.depth, ev.length = room, room+1+ev.length-ev.depth
				}
			}
			if ev.depth > 0 {
				what = fmt.Sprintf("reorganisation of depth %d (%d new blocks)", ev.depth, ev.length)
			}
			from := w.n.index.Tip()
			// the running host may commit ev.first batches of what comes
			c.gate.mu.Lock()
			c.gate.allow, c.gate.refused = ev.first, false
			c.gate.mu.Unlock()
			if ev.depth > 0 {
				blocks := c.branch(v2, cm.Tip().Height-uint64(ev.depth), ev.length, pay)
				if err := cm.AddBlocks(blocks); err != nil {
					t.Fatal(err)
				} else if err := cmB.AddBlocks(blocks); err != nil {
					t.Fatal(err)
				}
			} else {
				c.extend(ev.length, pay)
			}
			plan := c.plan(from)
			em.Count("event:" + map[bool]string{true: "reorganisation", false: "extension"}[ev.depth > 0])
			pos, stops := 0, ev.stops
			for !c.settle() {
				// stopped between two batches of this event
				pos = 0
				for at := from; pos < len(plan) && at != w.n.index.Tip(); pos++ {
					at = plan[pos].index
				}
				where := fmt.Sprintf("before the first batch of a %s", what)
				if pos > 0 {
					where = fmt.Sprintf("after a batch that %s, %d of %d batches of a %s", plan[pos-1].kind(), pos, len(plan), what)
					if len(plan[pos-1].applied) == 0 {
						stoppedAfterRevertOnly = true
					}
				}
				c.stopAndRestart(where)
				// go on: the next stop
				next := -1
				if id < verifC18IdxDirected {
					if len(stops) > 0 {
						next, stops = stops[0], stops[1:]
					}
				} else if rng.Intn(3) > 0 {
					next = rng.Intn(3)
				}
				// (the stopped manager sleeps until the next reorg notification: a new start resumes the sync)
				w.n.Close()
				c.open(next)
				c.em.Step("IRestart", "ODone true")
			}
			if c.stuck {
				break
			}
			c.observe(fmt.Sprintf("synced after event %d", ei))
			c.compareTwin(what)
		}
		// one more ordinary restart of the synced host
		if !c.stuck && !plain {
			c.stopAndRestart("when it is synced")
		}
		if !c.stuck {
			c.compareBestChainTwin()
		}
		em.Count(fmt.Sprintf("case: batch size %d plain=%v", batch, plain))
		w.n.Close()
		c.twin.Close()
		em.EndCase(stoppedAfterRevertOnly)
		os.RemoveAll(dir)
	}
}
