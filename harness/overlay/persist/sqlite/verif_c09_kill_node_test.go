//go:build verif

package sqlite

// C09, process death at node level — see verif_c09_kill_test.go for the mechanism.

import (
	"context"
	"encoding/json"
	"fmt"
	"os"
	"path/filepath"
	"sort"
	"strconv"
	"strings"
	"sync"
	"testing"
	"time"

	"go.sia.tech/core/types"
	"go.sia.tech/coreutils/chain"
	"go.sia.tech/coreutils/wallet"
	"go.sia.tech/hostd/v2/host/accounts"
	"go.sia.tech/hostd/v2/host/contracts"
	"go.sia.tech/hostd/v2/host/registry"
	"go.sia.tech/hostd/v2/host/settings"
	"go.sia.tech/hostd/v2/host/settings/pin"
	"go.sia.tech/hostd/v2/host/storage"
	"go.sia.tech/hostd/v2/index"
	"go.sia.tech/hostd/v2/webhooks"
	"go.uber.org/zap"
)

// verifOpenKillNode is verifOpenNode (verif_c09_node_test.go) with two differences: the store
// may sit on the kill layer (kill != nil), and a component that does not start is returned as
// an error instead of ending the test.
func verifOpenKillNode(dir string, hostKey types.PrivateKey, cm *chain.Manager, withIndex bool, batch int, kill *verifKillCtl) (n *verifNode, err error) {
	log := zap.NewNop()
	n = &verifNode{dir: dir, path: filepath.Join(dir, "hostd.sqlite3"), hostKey: hostKey, chain: cm}
	if kill != nil {
		n.store, n.ctl, err = verifOpenKillStore(n.path, log, kill)
	} else {
		n.store, n.ctl, err = verifOpenFaultStore(n.path, log)
	}
	if err != nil {
		return nil, fmt.Errorf("open store: %w", err)
	}
	var closers []func()
	fail := func(what string, err error) (*verifNode, error) {
		for i := len(closers) - 1; i >= 0; i-- {
			closers[i]()
		}
		n.store.Close()
		return nil, fmt.Errorf("%s: %w", what, err)
	}
	if n.wallet, err = wallet.NewSingleAddressWallet(hostKey, cm, n.store); err != nil {
		return fail("wallet", err)
	}
	closers = append(closers, func() { n.wallet.Close() })
	if n.volumes, err = storage.NewVolumeManager(n.store, storage.WithPruneInterval(time.Hour)); err != nil {
		return fail("volumes", err)
	}
	closers = append(closers, func() { n.volumes.Close() })
	if n.contracts, err = contracts.NewManager(n.store, n.volumes, cm, verifSyncer{}, n.wallet, contracts.WithRejectAfter(1000000), contracts.WithRevisionSubmissionBuffer(5)); err != nil {
		return fail("contracts", err)
	}
	closers = append(closers, func() { n.contracts.Close() })
	initial := settings.DefaultSettings
	initial.AcceptingContracts = true
	initial.NetAddress = "127.0.0.1"
	initial.WindowSize = 10
	if n.settings, err = settings.NewConfigManager(hostKey, n.store, cm, verifSyncer{}, n.volumes, n.wallet,
		settings.WithAnnounceInterval(1000000), settings.WithValidateNetAddress(false), settings.WithInitialSettings(initial)); err != nil {
		return fail("settings", err)
	}
	closers = append(closers, func() { n.settings.Close() })
	n.accounts = accounts.NewManager(n.store, n.settings)
	n.registry = registry.NewManager(hostKey, n.store, log)
	closers = append(closers, func() { n.registry.Close() })
	if n.webhooks, err = webhooks.NewManager(n.store, log); err != nil {
		return fail("webhooks", err)
	}
	closers = append(closers, func() { n.webhooks.Close() })
	if n.pins, err = pin.NewManager(n.store, n.settings, verifForex{}); err != nil {
		return fail("pin", err)
	}
	closers = append(closers, func() { n.pins.Close() })
	if withIndex {
		if n.index, err = index.NewManager(n.store, cm, n.contracts, n.wallet, n.settings, n.volumes, index.WithBatchSize(batch)); err != nil {
			return fail("index", err)
		}
	}
	return n, nil
}

// verifKillCoherence: where a freshly started host's in-memory state differs from the store
// (the comparisons of verifCoherence; an account the store no longer has is skipped).
func verifKillCoherence(n *verifNode, env *verifEnv) []string {
	var out []string
	for _, l := range verifCoherence(n, &verifEnv{v1: env.v1, v2: env.v2}, nil) {
		out = append(out, l)
	}
	for _, a := range env.acct3 {
		sb, err2 := n.store.AccountBalance(a)
		if err2 != nil {
			continue
		}
		mb, err1 := n.accounts.Balance(a)
		if err1 != nil || !mb.Equals(sb) {
			out = append(out, fmt.Sprintf("accounts.AccountManager: Balance(%x) = %v (%v), the store %v", a[:4], mb, err1, sb))
		}
	}
	sort.Strings(out)
	return out
}

// ---- the node script: chain batches from a pre-mined chain file and volume operations

// verifChainFile is the pre-mined chain the child and the parent read: Main is the chain the
// child follows; Fork replaces Main above height ForkAt (len(Main[:ForkAt]) + len(Fork) is
// longer than Main, so a manager that knows both follows Fork).
type verifChainFile struct {
	Main   []types.Block
	Fork   []types.Block
	ForkAt int
}

func verifWriteChainFile(t testing.TB, path string, cf verifChainFile) {
	b, err := json.Marshal(cf)
	if err != nil {
		t.Fatal(err)
	}
	if err := os.WriteFile(path, b, 0o644); err != nil {
		t.Fatal(err)
	}
}

func verifReadChainFile(t testing.TB, path string) (cf verifChainFile) {
	b, err := os.ReadFile(path)
	if err != nil {
		t.Fatal(err)
	}
	if err := json.Unmarshal(b, &cf); err != nil {
		t.Fatal(err)
	}
	return
}

// verifMineChainFile mines a main chain of n blocks and a fork that leaves it at every height
// it is asked for; blocks pay the host at the heights in hostPays.
func verifMineChain(t testing.TB, hostAddr types.Address, prefix []types.Block, n int, paysHost func(h int) bool, other types.Address) []types.Block {
	cm, _ := verifNewChain(t, false)
	if len(prefix) > 0 {
		if err := cm.AddBlocks(prefix); err != nil {
			t.Fatal(err)
		}
	}
	var out []types.Block
	for i := 0; i < n; i++ {
		addr := other
		if paysHost(len(prefix) + i + 1) {
			addr = hostAddr
		}
		verifMine(t, cm, addr, 1)
		b, ok := cm.Block(cm.Tip().ID)
		if !ok {
			t.Fatal("mined block not found")
		}
		out = append(out, b)
	}
	return out
}

// one operation of the node script:  blocks:<n> | addvol:<name>:<sectors> | resize:<name>:<sectors> | rmvol:<name>
type verifNodeRunner struct {
	n      *verifNode
	cm     *chain.Manager
	blocks []types.Block
	next   int
	dir    string
}

func (r *verifNodeRunner) volID(name string) (int64, error) {
	vols, err := r.n.store.Volumes()
	if err != nil {
		return 0, err
	}
	for _, v := range vols {
		if v.LocalPath == filepath.Join(r.dir, name) {
			return v.ID, nil
		}
	}
	return 0, fmt.Errorf("no volume %s", name)
}

func (r *verifNodeRunner) waitSynced() error {
	if r.n.index == nil {
		return nil
	}
	deadline := time.Now().Add(60 * time.Second)
	for time.Now().Before(deadline) {
		if r.n.index.Tip() == r.cm.Tip() {
			return nil
		}
		time.Sleep(200 * time.Microsecond)
	}
	return fmt.Errorf("index manager did not reach the chain tip: index %v, chain %v", r.n.index.Tip(), r.cm.Tip())
}

func (r *verifNodeRunner) run(op string) error {
	f := strings.Split(op, ":")
	num := func(i int) uint64 { v, _ := strconv.ParseUint(f[i], 10, 64); return v }
	wait := func(res chan error) error {
		select {
		case err := <-res:
			return err
		case <-time.After(60 * time.Second):
			return fmt.Errorf("%s: no result after 60 s", op)
		}
	}
	switch f[0] {
	case "blocks":
		k := int(num(1))
		if r.next+k > len(r.blocks) {
			k = len(r.blocks) - r.next
		}
		if err := r.cm.AddBlocks(r.blocks[r.next : r.next+k]); err != nil {
			return err
		}
		r.next += k
		return r.waitSynced()
	case "addvol":
		res := make(chan error, 1)
		if _, err := r.n.volumes.AddVolume(context.Background(), filepath.Join(r.dir, f[1]), num(2), res); err != nil {
			return err
		}
		return wait(res)
	case "resize":
		id, err := r.volID(f[1])
		if err != nil {
			return err
		}
		res := make(chan error, 1)
		if err := r.n.volumes.ResizeVolume(context.Background(), id, num(2), res); err != nil {
			return err
		}
		return wait(res)
	case "rmvol":
		id, err := r.volID(f[1])
		if err != nil {
			return err
		}
		res := make(chan error, 1)
		if err := r.n.volumes.RemoveVolume(context.Background(), id, false, res); err != nil {
			return err
		}
		return wait(res)
	}
	return fmt.Errorf("unknown script operation %q", op)
}

// verifNodeCall runs one script operation with the driver recording.
func verifNodeCall(r *verifNodeRunner, op string) (class int, err error, trace string) {
	r.n.ctl.Arm(-1, verifFaultNone)
	func() {
		defer func() {
			if p := recover(); p != nil {
				class, err = 2, fmt.Errorf("panic: %v", p)
			}
		}()
		if err = r.run(op); err != nil {
			class = 1
		}
	}()
	trace, _, _ = r.n.ctl.Disarm()
	return
}

var verifKillHostKey = types.NewPrivateKeyFromSeed([]byte("verif c09 kill host key 32 bytes"))

func verifKillChildNode(t *testing.T, out *os.File, spec verifKillSpec, mode string) {
	var cf verifChainFile
	if spec.Extra["chain"] != "" {
		cf = verifReadChainFile(t, spec.Extra["chain"])
	}
	var script []string
	json.Unmarshal([]byte(spec.Extra["script"]), &script)
	batch, _ := strconv.Atoi(spec.Extra["batch"])
	cm, _ := verifNewChain(t, false)
	kill := &verifKillCtl{out: out}
	n, err := verifOpenKillNode(spec.Dir, verifKillHostKey, cm, spec.Extra["index"] != "off", batch, kill)
	if err != nil {
		t.Fatal(err)
	}
	r := &verifNodeRunner{n: n, cm: cm, blocks: cf.Main, dir: spec.Dir}
	if err := r.waitSynced(); err != nil {
		t.Fatal(err)
	}
	for pos, op := range script {
		fmt.Fprintf(out, "S %d\n", pos)
		kill.begin(pos == spec.Pos, spec.K, spec.After)
		class, err, trace := verifNodeCall(r, op)
		kill.end()
		if class != 0 {
			fmt.Fprintf(os.Stderr, "script operation %s: %v\n", op, err)
		}
		fmt.Fprintf(out, "A %d %d [%s]\n", pos, class, trace)
	}
	n.Close()
	fmt.Fprintln(out, "D")
}

// verifNodeSnap: the snapshot of a node's store with the data directory made anonymous.
func verifNodeSnap(t testing.TB, n *verifNode) verifSnap {
	s := verifSnapshot(t, n.store, n.path, &verifEnv{hostKey: n.hostKey}, true)
	s.getters = strings.ReplaceAll(s.getters, n.dir, "$DIR")
	s.dump = strings.ReplaceAll(s.dump, n.dir, "$DIR")
	return s
}

// volume files: name -> size in sectors (or "absent")
func verifVolFiles(dir string, names []string) string {
	var out []string
	for _, nm := range names {
		st, err := os.Stat(filepath.Join(dir, nm))
		if err != nil {
			out = append(out, nm+"=absent")
		} else {
			out = append(out, fmt.Sprintf("%s=%d", nm, st.Size()/(1<<22)))
		}
	}
	return strings.Join(out, " ")
}

// verifFirstTxn: the first transaction of a driver trace (B ... C) and the number of database calls in it
func verifFirstTxn(trace string) (string, int) {
	i := strings.IndexAny(trace, "CR")
	if !strings.HasPrefix(trace, "B") || i < 0 {
		return "", 0
	}
	return trace[:i+1], verifEligible(trace[:i+1])
}

func verifKillNode(t *testing.T, em *verifEmitter, firstID int) {
	verifKillChain(t, em, firstID)
	verifKillVolumes(t, em, firstID+1)
}

// verifKillChain: a node follows the pre-mined chain in batches and dies inside one; the parent
// restarts the host (a) on the same chain, (b) on a chain that was reorganised below the
// marker the dead process had stored.  After the resume (and one more block) the store must
// show what a host shows that followed the final best chain without interruption.
func verifKillChain(t *testing.T, em *verifEmitter, id int) {
	if em.Skip(id) {
		return
	}
	rng := verifCaseRand(id)
	thorough := verifTier() == "thorough"
	dir := t.TempDir()
	hostAddr := types.StandardUnlockHash(verifKillHostKey.PublicKey())
	const nMain = 14
	forkAt := 4 + rng.Intn(3)
	pays := func(h int) bool { return h <= 3 || h%3 == 0 }
	cf := verifChainFile{ForkAt: forkAt}
	cf.Main = verifMineChain(t, hostAddr, nil, nMain, pays, types.VoidAddress)
	cf.Fork = verifMineChain(t, hostAddr, cf.Main[:forkAt], nMain-forkAt+3, func(h int) bool { return h%2 == 0 }, types.Address{1})
	chainPath := filepath.Join(dir, "chain.json")
	verifWriteChainFile(t, chainPath, cf)
	batch := 2 + rng.Intn(2)
	// the script: the main chain in batches of at most `batch` blocks (one store transaction each)
	var script []string
	for done := 0; done < nMain-2; {
		k := 1 + rng.Intn(batch)
		script = append(script, fmt.Sprintf("blocks:%d", k))
		done += k
	}
	js, _ := json.Marshal(script)
	em.BeginCase(id, fmt.Sprintf("a node following %d blocks in batches of <= %d dies inside a batch; restart on the same and on a reorganised chain (fork at %d)", nMain, batch, forkAt))
	// ---- twin on the main chain: state after every script operation
	open := func(name string, cm *chain.Manager) *verifNode {
		d := filepath.Join(dir, name)
		os.MkdirAll(d, 0o755)
		n, err := verifOpenKillNode(d, verifKillHostKey, cm, true, batch, nil)
		if err != nil {
			t.Fatal(err)
		}
		return n
	}
	tcm, _ := verifNewChain(t, false)
	tw := open("twin", tcm)
	tr := &verifNodeRunner{n: tw, cm: tcm, blocks: cf.Main, dir: tw.dir}
	if err := tr.waitSynced(); err != nil {
		t.Fatal(err)
	}
	states := []verifSnap{verifNodeSnap(t, tw)}
	tips := []types.ChainIndex{verifTip(tw.store)}
	var refs []string
	for _, op := range script {
		class, err, ref := verifNodeCall(tr, op)
		if class != 0 {
			t.Fatalf("twin: %s: %v", op, err)
		}
		refs = append(refs, ref)
		states = append(states, verifNodeSnap(t, tw))
		tips = append(tips, verifTip(tw.store))
	}
	// the uninterrupted runs the resumed hosts are compared with: all of Main, and Main+Fork
	if class, err, _ := verifNodeCall(tr, fmt.Sprintf("blocks:%d", nMain)); class != 0 {
		t.Fatal(err)
	}
	finalMain := verifNodeSnap(t, tw)
	tw.Close()
	fcm, _ := verifNewChain(t, false)
	if err := fcm.AddBlocks(cf.Main[:forkAt]); err != nil {
		t.Fatal(err)
	} else if err := fcm.AddBlocks(cf.Fork); err != nil {
		t.Fatal(err)
	}
	ftw := open("twin-fork", fcm)
	fr := &verifNodeRunner{n: ftw, cm: fcm, dir: ftw.dir}
	if err := fr.waitSynced(); err != nil {
		t.Fatal(err)
	}
	finalFork := verifNodeSnap(t, ftw)
	ftw.Close()
	// ---- kill points: inside the batch transaction and in the actions after it
	type point struct {
		verifKillPoint
		reorg bool
	}
	var points []point
	nKills := 10
	if thorough {
		nKills = 1 << 30
	}
	for pos, ref := range refs {
		_, n1 := verifFirstTxn(ref)
		total := verifEligible(ref)
		for k := 0; k < total; k++ {
			for _, after := range []bool{false, true} {
				if thorough || k >= n1-2 && k <= n1+1 || k == 0 {
					points = append(points, point{verifKillPoint{pos, k, after}, false})
				}
			}
		}
	}
	rng.Shuffle(len(points), func(i, j int) { points[i], points[j] = points[j], points[i] })
	if len(points) > nKills {
		points = points[:nKills]
	}
	// every second kill whose batch starts above the fork point is restarted on the reorganised chain
	above := 0
	for i := range points {
		before := 0
		for _, op := range script[:points[i].pos] {
			k, _ := strconv.Atoi(strings.TrimPrefix(op, "blocks:"))
			before += k
		}
		if before > forkAt {
			points[i].reorg = above%2 == 0
			above++
		}
	}
	outcomes := make([]verifKillOutcome, len(points))
	dirs := make([]string, len(points))
	var wg sync.WaitGroup
	sem := make(chan struct{}, 4)
	for pi, p := range points {
		d := filepath.Join(dir, fmt.Sprintf("k%d", pi))
		os.MkdirAll(d, 0o755)
		dirs[pi] = d
		wg.Add(1)
		go func(pi int, p point) {
			defer wg.Done()
			sem <- struct{}{}
			defer func() { <-sem }()
			outcomes[pi] = verifKillRun("node", verifKillSpec{Dir: d, Pos: p.pos, K: p.k, After: p.after,
				Extra: map[string]string{"chain": chainPath, "script": string(js), "batch": strconv.Itoa(batch)}})
		}(pi, p)
	}
	wg.Wait()
	for pi, p := range points {
		o := outcomes[pi]
		where := fmt.Sprintf("batch %d (%s) killed %s database call %d", p.pos, script[p.pos], map[bool]string{false: "before", true: "after"}[p.after], p.k)
		if o.err != nil {
			t.Fatalf("%s: %v (stderr %s)", where, o.err, verifTail(o.stderr, 1500))
		}
		if !o.killed {
			em.Count("chain-kill-point-not-reached")
			continue
		}
		em.Count("chain-kill")
		seg, n1 := verifFirstTxn(refs[p.pos])
		inBatch := p.k < n1
		committed := strings.Contains(o.trace, "C")
		// what the dead process left, read without starting anything on it
		path := filepath.Join(dirs[pi], "hostd.sqlite3")
		rs, err := OpenDatabase(path, verifNopLog())
		if err != nil {
			em.Monitor("database-does-not-reopen-after-death", fmt.Sprintf("%s: %v", where, err))
			continue
		}
		dead := verifSnapshot(t, rs, path, &verifEnv{hostKey: verifKillHostKey}, true)
		dead.getters = strings.ReplaceAll(dead.getters, dirs[pi], "$DIR")
		dead.dump = strings.ReplaceAll(dead.dump, dirs[pi], "$DIR")
		marker := verifTip(rs)
		rs.Close()
		if inBatch && seg != "" {
			em.Step(fmt.Sprintf("Kill \"UpdateChainState\" \"%s\" 0%%N %d%%N %s", seg, p.k, coqBool(p.after)),
				fmt.Sprintf("OKill \"%s\" %s", o.trace, coqBool(verifChainDiff(states[p.pos], dead) != "")))
		}
		if dead.health != "" {
			em.Monitor("state-after-death-inconsistent:index.Manager.syncDB", fmt.Sprintf("%s: %s", where, dead.health))
		}
		switch {
		case marker == tips[p.pos]:
			em.Count("chain-kill:batch-not-visible")
			if committed {
				em.Monitor("committed-then-died-effect-lost:index.Manager.syncDB", fmt.Sprintf("%s (trace %s): the batch transaction had committed, the marker is still %v", where, o.trace, marker))
			} else if d := verifChainDiff(states[p.pos], dead); d != "" {
				em.Monitor("batch-partially-visible-after-death", fmt.Sprintf("%s (trace %s): the marker did not move, yet: %s", where, o.trace, d))
			}
		case marker == tips[p.pos+1]:
			em.Count("chain-kill:batch-visible")
			if !committed {
				em.Monitor("died-before-commit-effect-visible:index.Manager.syncDB", fmt.Sprintf("%s (trace %s): no Commit had completed, the marker moved to %v", where, o.trace, marker))
			}
			// everything the batch writes is there: the actions after the commit change nothing on this chain
			if d := verifChainDiff(states[p.pos+1], dead); d != "" {
				em.Monitor("batch-partially-visible-after-death", fmt.Sprintf("%s (trace %s): the marker moved to %v, yet: %s", where, o.trace, marker, d))
			}
		default:
			em.Monitor("marker-after-death-is-no-batch-boundary", fmt.Sprintf("%s: marker %v, before the batch %v, after it %v", where, marker, tips[p.pos], tips[p.pos+1]))
		}
		// ---- restart
		rcm, _ := verifNewChain(t, false)
		applied := 0
		for _, op := range script[:p.pos+1] {
			k, _ := strconv.Atoi(strings.TrimPrefix(op, "blocks:"))
			applied += k
		}
		want := finalMain
		what := "the same chain"
		if p.reorg && marker.Height > uint64(forkAt) {
			// the chain the dead process followed, then the longer fork that leaves it below the marker
			if err := rcm.AddBlocks(cf.Main[:applied]); err != nil {
				t.Fatal(err)
			} else if err := rcm.AddBlocks(cf.Fork); err != nil {
				t.Fatal(err)
			}
			want, what = finalFork, fmt.Sprintf("a chain reorganised at height %d, below the stored marker %d", forkAt, marker.Height)
			em.Count("chain-resume:reorganised-below-marker")
		} else {
			if err := rcm.AddBlocks(cf.Main); err != nil {
				t.Fatal(err)
			}
			em.Count("chain-resume:same-chain")
		}
		n, err := verifOpenKillNode(dirs[pi], verifKillHostKey, rcm, true, batch, nil)
		if err != nil {
			em.Monitor("host-does-not-start-after-death", fmt.Sprintf("%s: %v", where, err))
			continue
		}
		rr := &verifNodeRunner{n: n, cm: rcm, dir: n.dir}
		if err := rr.waitSynced(); err != nil {
			em.Monitor("indexer-does-not-converge", fmt.Sprintf("%s, restart on %s: %v", where, what, err))
			n.Close()
			continue
		}
		got := verifNodeSnap(t, n)
		if st := verifTip(n.store); st != n.index.Tip() {
			em.Monitor("index-tip-differs-from-store", fmt.Sprintf("%s, restart on %s: index %v store %v", where, what, n.index.Tip(), st))
		}
		n.Close()
		d := verifChainDiff(want, got)
		if p.reorg {
			// rows that were reverted and written again have new row ids: compare what the getters show
			d = verifVisibleDiff(want, got)
		}
		if d != "" {
			em.Monitor("resume-diverges-from-uninterrupted-run", fmt.Sprintf("%s, restart on %s: %s", where, what, d))
		}
		os.RemoveAll(dirs[pi])
	}
	em.EndCase(len(points) > 0)
}

// ---- volume operations: AddVolume, ResizeVolume (grow, shrink), RemoveVolume on real files

// verifVolState: the data file (size in sectors, -1 = absent) and the volume's row in the store
// (total sectors, -1 = no row; available)
type verifVolState struct {
	file, total int64
	avail       bool
}

func (v verifVolState) coq() string {
	f, r := "None", "None"
	if v.file >= 0 {
		f = fmt.Sprintf("(Some %d%%N)", v.file)
	}
	if v.total >= 0 {
		r = fmt.Sprintf("(Some (%d%%N, %s))", v.total, coqBool(v.avail))
	}
	return fmt.Sprintf("{| v_file := %s; v_row := %s |}", f, r)
}

func verifVolStateOf(s *Store, path string) (v verifVolState, err error) {
	v.file, v.total = -1, -1
	if st, err := os.Stat(path); err == nil {
		v.file = st.Size() / (1 << 22)
	}
	vols, err := s.Volumes()
	if err != nil {
		return v, err
	}
	for _, vol := range vols {
		if vol.LocalPath == path {
			v.total, v.avail = int64(vol.TotalSectors), vol.Available
		}
	}
	return v, nil
}

func verifKillVolumes(t *testing.T, em *verifEmitter, id int) {
	if em.Skip(id) {
		return
	}
	rng := verifCaseRand(id)
	thorough := verifTier() == "thorough"
	bsz := 64 // storage.resizeBatchSize of the default build
	if sqlSectorBatchSize < 100 {
		bsz = 4 // the repository's `testing` build
	}
	dir := t.TempDir()
	s1 := bsz + 1 + rng.Intn(bsz/2+1)
	s2 := s1 + bsz + 1 + rng.Intn(bsz/2+1)
	s3 := 1 + rng.Intn(s2-bsz-1)
	const name = "vol.dat"
	script := []string{fmt.Sprintf("addvol:%s:%d", name, s1), fmt.Sprintf("resize:%s:%d", name, s2), fmt.Sprintf("resize:%s:%d", name, s3), "rmvol:" + name}
	kinds := []string{"VAdd", "VGrow", "VShrink", "VRemove"}
	news := []int{s1, s2, s3, sqlSectorBatchSize} // RemoveVolume: the store deletes the slots in batches of that many
	opNames := []string{"storage.VolumeManager.AddVolume", "storage.VolumeManager.ResizeVolume/grow", "storage.VolumeManager.ResizeVolume/shrink", "storage.VolumeManager.RemoveVolume"}
	js, _ := json.Marshal(script)
	em.BeginCase(id, fmt.Sprintf("a host dies inside AddVolume(%d) / grow to %d / shrink to %d / RemoveVolume (batches of %d sectors)", s1, s2, s3, bsz))
	cm, _ := verifNewChain(t, false)
	open := func(d string) *verifNode {
		os.MkdirAll(d, 0o755)
		n, err := verifOpenKillNode(d, verifKillHostKey, cm, false, 0, nil)
		if err != nil {
			t.Fatal(err)
		}
		return n
	}
	// ---- twin
	tw := open(filepath.Join(dir, "twin"))
	tr := &verifNodeRunner{n: tw, cm: cm, dir: tw.dir}
	vstate := func(n *verifNode) verifVolState {
		v, err := verifVolStateOf(n.store, filepath.Join(n.dir, name))
		if err != nil {
			t.Fatal(err)
		}
		return v
	}
	pres := []verifVolState{vstate(tw)}
	states := []verifSnap{verifNodeSnap(t, tw)}
	var refs []string
	for _, op := range script {
		class, err, ref := verifNodeCall(tr, op)
		if class != 0 {
			t.Fatalf("twin: %s: %v", op, err)
		}
		refs = append(refs, ref)
		pres = append(pres, vstate(tw))
		states = append(states, verifNodeSnap(t, tw))
	}
	tw.Close()
	final := states[len(states)-1]
	// ---- kill points
	all, _ := verifKillPoints(refs)
	points := all
	if !thorough {
		// the windows between a store transaction and the file operation next to it: a death
		// inside the Commit call (SQLite returned, nothing after it ran) — all of them (up to
		// 24), plus a few other points
		points = nil
		seen := map[verifKillPoint]bool{}
		var commits []verifKillPoint
		for pos, ref := range refs {
			k := 0
			for _, c := range ref {
				if !strings.ContainsRune("BPXC", c) {
					continue
				}
				if c == 'C' {
					commits = append(commits, verifKillPoint{pos, k, true})
				}
				k++
			}
		}
		rng.Shuffle(len(commits), func(i, j int) { commits[i], commits[j] = commits[j], commits[i] })
		for _, p := range commits {
			if len(points) < 24 {
				seen[p] = true
				points = append(points, p)
			}
		}
		for extra := 0; extra < 4; {
			p := all[rng.Intn(len(all))]
			if !seen[p] {
				seen[p] = true
				points = append(points, p)
				extra++
			}
		}
	} else if len(points) > 400 {
		rng.Shuffle(len(points), func(i, j int) { points[i], points[j] = points[j], points[i] })
		points = points[:400]
	}
	outcomes := make([]verifKillOutcome, len(points))
	dirs := make([]string, len(points))
	var wg sync.WaitGroup
	sem := make(chan struct{}, 4)
	for pi, p := range points {
		d := filepath.Join(dir, fmt.Sprintf("v%d", pi))
		os.MkdirAll(d, 0o755)
		dirs[pi] = d
		wg.Add(1)
		go func(pi int, p verifKillPoint) {
			defer wg.Done()
			sem <- struct{}{}
			defer func() { <-sem }()
			outcomes[pi] = verifKillRun("node", verifKillSpec{Dir: d, Pos: p.pos, K: p.k, After: p.after,
				Extra: map[string]string{"chain": "", "script": string(js), "batch": "1", "index": "off"}})
		}(pi, p)
	}
	wg.Wait()
	for pi, p := range points {
		o := outcomes[pi]
		opn := opNames[p.pos]
		where := fmt.Sprintf("%s (%s) killed %s database call %d", opn, script[p.pos], map[bool]string{false: "before", true: "after"}[p.after], p.k)
		if o.err != nil {
			t.Fatalf("%s: %v (stderr %s)", where, o.err, verifTail(o.stderr, 1500))
		}
		if !o.killed {
			// the background goroutine and the caller interleave: this run made fewer calls
			em.Count("volume-kill-point-not-reached")
			os.RemoveAll(dirs[pi])
			continue
		}
		em.Count("volume-kill:" + kinds[p.pos])
		path := filepath.Join(dirs[pi], "hostd.sqlite3")
		vpath := filepath.Join(dirs[pi], name)
		rs, err := OpenDatabase(path, verifNopLog())
		if err != nil {
			em.Monitor("database-does-not-reopen-after-death", fmt.Sprintf("%s: %v", where, err))
			continue
		}
		seen, err := verifVolStateOf(rs, vpath)
		rs.Close()
		if err != nil {
			t.Fatal(err)
		}
		em.Step(fmt.Sprintf("VolDeath %s %s %d%%N %d%%N %s", kinds[p.pos], pres[p.pos].coq(), news[p.pos], bsz, seen.coq()), "OVol true")
		if seen.total >= 0 && seen.file < seen.total {
			em.Monitor("volume-row-beyond-file-after-death:"+opn, fmt.Sprintf("%s: the store has %d sectors for the volume, the file holds %d (-1 = no file)", where, seen.total, seen.file))
		}
		if seen.total < 0 && seen.file >= 0 {
			em.Count("volume-death-left-file-without-row:" + kinds[p.pos])
		}
		// ---- restart: a volume the store knows must come up ready
		n, err := verifOpenKillNode(dirs[pi], verifKillHostKey, cm, false, 0, nil)
		if err != nil {
			em.Monitor("host-does-not-start-after-death", fmt.Sprintf("%s: %v", where, err))
			continue
		}
		vols, err := n.volumes.Volumes()
		if err != nil {
			t.Fatal(err)
		}
		for _, v := range vols {
			if v.LocalPath == vpath && (v.Status != "ready" || !v.Available) {
				em.Monitor("volume-not-usable-after-restart:"+opn, fmt.Sprintf("%s: status %q available %v (file %d sectors, store %d)", where, v.Status, v.Available, seen.file, seen.total))
			}
		}
		// ---- the interrupted operation again, then the rest of the script
		rr := &verifNodeRunner{n: n, cm: cm, dir: n.dir}
		done := verifChainDiff(states[p.pos+1], verifNodeSnap(t, n)) == ""
		if !done {
			again := script[p.pos]
			if kinds[p.pos] == "VAdd" && seen.total >= 0 {
				// the volume is registered (that part of AddVolume is done): its initialisation is a resize
				again = fmt.Sprintf("resize:%s:%d", name, s1)
			}
			class, err, _ := verifNodeCall(rr, again)
			if class != 0 && seen.total < 0 && seen.file >= 0 && kinds[p.pos] == "VAdd" {
				// the empty file os.Create left: AddVolume refuses the path until it is deleted
				em.Count("volume-death-left-empty-file-retry-refused")
				os.Remove(vpath)
				class, err, _ = verifNodeCall(rr, script[p.pos])
			}
			if class != 0 && !(kinds[p.pos] == "VRemove" && seen.total < 0) {
				em.Monitor("retry-after-death-failed:"+opn, fmt.Sprintf("%s: running the operation again on the restarted host: %v", where, err))
			}
		}
		for _, op := range script[p.pos+1:] {
			if class, err, _ := verifNodeCall(rr, op); class != 0 {
				em.Monitor("resume-after-death-diverges:"+opn, fmt.Sprintf("%s: %s afterwards fails: %v", where, op, err))
			}
		}
		end := verifNodeSnap(t, n)
		n.Close()
		if d := verifChainDiff(final, end); d != "" {
			em.Monitor("resume-after-death-diverges:"+opn, fmt.Sprintf("%s: %s", where, d))
		}
		os.RemoveAll(dirs[pi])
	}
	em.EndCase(len(points) > 0)
}
