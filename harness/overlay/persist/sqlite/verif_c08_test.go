//go:build verif

package sqlite

// C08 — storage slot accounting and reclamation are exact.
//
// Drives the real sqlite.Store (volumes.go, sectors.go, contracts.go) with directed and
// generated operation sequences over 1-3 small volumes, records every operation and what the
// store did for the Coq model coq/Storage/Model.v, and evaluates independent monitors: a
// read-only SQL recount of every counter after every operation, slot uniqueness, the
// placement rule of StoreSector, and the "occupied iff still referenced" rule after
// expire(h) + prune.

import (
	"context"
	"errors"
	"fmt"
	"math/rand"
	"os"
	"path/filepath"
	"sort"
	"strings"
	"sync"
	"testing"
	"time"

	proto4 "go.sia.tech/core/rhp/v4"
	"go.sia.tech/core/types"
	rhp4 "go.sia.tech/coreutils/rhp/v4"
	"go.sia.tech/hostd/v2/host/contracts"
	"go.sia.tech/hostd/v2/host/storage"
	"go.sia.tech/hostd/v2/index"
	"go.uber.org/zap"
)

const c08Roots = 9 // default sector universe of a case: roots 1..nroots

type c08Contract struct {
	num  int
	v2   bool
	id   types.FileContractID
	endH uint64
	neg  uint64
	rev  contracts.SignedRevision // v1
	v2c  contracts.V2Contract     // v2
}

type c08Result struct {
	id       int
	desc     string
	steps    [][2]string
	monitors [][2]string
	counts   []string
	nontriv  bool
	fatal    string
}

type c08World struct {
	res  *c08Result
	rng  *rand.Rand
	db   *Store
	cons []*c08Contract
	nvol int // volumes ever added (unique disk paths)
	ncon int
	nroots int
	// placement/eviction happened at least once
	placed bool
	// batch mode (verif_c08_batch_test.go): the store runs on the hookable driver and the batched
	// loops are recorded transaction by transaction; nil in the plain harness
	bt *c08Batch
}

var errC08Fn = errors.New("verif: injected fn failure")

func c08Root(k int) types.Hash256 {
	var h types.Hash256
	h[0] = byte(k)
	h[1] = 0xc8
	h[2] = byte(k >> 8)
	h[31] = byte(k * 7)
	return h
}

func c08RootNum(h types.Hash256) int { return int(h[0]) | int(h[2])<<8 }

func (w *c08World) step(op, obs string)    { w.res.steps = append(w.res.steps, [2]string{op, obs}) }
func (w *c08World) count(k string)         { w.res.counts = append(w.res.counts, k) }
func (w *c08World) monitor(sig, d string)  { w.res.monitors = append(w.res.monitors, [2]string{sig, d}) }
func (w *c08World) fatalf(f string, a ...any) { panic(fmt.Sprintf("c08-fatal: "+f, a...)) }

func c08ErrTerm(err error, panicked bool) string {
	switch {
	case panicked:
		return "ORes Panic"
	case err == nil:
		return "ORes (Ok tt)"
	default:
		return "ORes (Err " + c08ErrClass(err) + ")"
	}
}

func c08ErrClass(err error) string {
	switch {
	case errors.Is(err, storage.ErrNotEnoughStorage):
		return "ENotEnoughStorage"
	case errors.Is(err, storage.ErrSectorNotFound), errors.Is(err, storage.ErrVolumeNotFound):
		return "ENotFound"
	case errors.Is(err, storage.ErrVolumeNotEmpty):
		return "EInvalid"
	default:
		return "EOther"
	}
}

// call runs fn and converts a panic of the code under test into (nil, true).
func c08Call(fn func() error) (err error, panicked bool) {
	defer func() {
		if r := recover(); r != nil {
			if s, ok := r.(string); ok && strings.HasPrefix(s, "c08-fatal") {
				panic(r)
			}
			err, panicked = nil, true
		}
	}()
	return fn(), false
}

// ---------------------------------------------------------------- read-only SQL helpers

type c08Slot struct {
	vol  int64
	idx  uint64
	root int // 0 = empty
}

func (w *c08World) slots() (out []c08Slot) {
	rows, err := w.db.db.Query(`SELECT vs.volume_id, vs.volume_index, ss.sector_root FROM volume_sectors vs LEFT JOIN stored_sectors ss ON vs.sector_id=ss.id ORDER BY vs.volume_id, vs.volume_index`)
	if err != nil {
		w.fatalf("slots: %v", err)
	}
	defer rows.Close()
	for rows.Next() {
		var s c08Slot
		var root types.Hash256
		var has bool
		if err := rows.Scan(&s.vol, &s.idx, decodeNullable(&root)); err != nil {
			w.fatalf("slots scan: %v", err)
		}
		has = root != (types.Hash256{})
		if has {
			s.root = c08RootNum(root)
		}
		out = append(out, s)
	}
	return
}

func (w *c08World) scalar(q string, args ...any) (n int64) {
	if err := w.db.db.QueryRow(q, args...).Scan(&n); err != nil {
		w.fatalf("%s: %v", q, err)
	}
	return
}

// recount is the counter monitor: every counter the property names against a recount.
func (w *c08World) recount(after string) {
	vols, err := w.db.Volumes()
	if err != nil {
		w.fatalf("volumes: %v", err)
	}
	for _, v := range vols {
		used := w.scalar(`SELECT COUNT(*) FROM volume_sectors WHERE volume_id=? AND sector_id IS NOT NULL`, v.ID)
		total := w.scalar(`SELECT COUNT(*) FROM volume_sectors WHERE volume_id=?`, v.ID)
		if int64(v.UsedSectors) != used {
			w.monitor("volume-used-differs-from-recount", fmt.Sprintf("after %s: volume %d used_sectors=%d occupied slots=%d", after, v.ID, v.UsedSectors, used))
		}
		if int64(v.TotalSectors) != total {
			w.monitor(w.totalSig("volume-total-differs-from-recount"), fmt.Sprintf("after %s: volume %d total_sectors=%d slots=%d", after, v.ID, v.TotalSectors, total))
		}
	}
	m, err := w.db.Metrics(time.Now().Add(time.Hour))
	if err != nil {
		w.fatalf("metrics: %v", err)
	}
	chk := func(sig string, metric uint64, q string) {
		if n := w.scalar(q); int64(metric) != n {
			w.monitor(sig, fmt.Sprintf("after %s: metric=%d recount=%d", after, metric, n))
		}
	}
	chk(w.totalSig("metric-total-sectors-differs-from-recount"), m.Storage.TotalSectors, `SELECT COUNT(*) FROM volume_sectors`)
	chk("metric-physical-sectors-differs-from-recount", m.Storage.PhysicalSectors, `SELECT COUNT(*) FROM volume_sectors WHERE sector_id IS NOT NULL`)
	chk("metric-contract-sectors-differs-from-recount", m.Storage.ContractSectors, `SELECT (SELECT COUNT(*) FROM contract_sector_roots)+(SELECT COUNT(*) FROM contract_v2_sector_roots)`)
	chk("metric-temp-sectors-differs-from-recount", m.Storage.TempSectors, `SELECT COUNT(*) FROM temp_storage_sector_roots`)
	used, total, err := w.db.StorageUsage()
	if err != nil {
		w.fatalf("usage: %v", err)
	}
	if n := w.scalar(`SELECT COUNT(*) FROM volume_sectors WHERE sector_id IS NOT NULL`); int64(used) != n {
		w.monitor("storage-usage-used-differs-from-recount", fmt.Sprintf("after %s: used=%d recount=%d", after, used, n))
	}
	if n := w.scalar(`SELECT COUNT(*) FROM volume_sectors`); int64(total) != n {
		w.monitor(w.totalSig("storage-usage-total-differs-from-recount"), fmt.Sprintf("after %s: total=%d recount=%d", after, total, n))
	}
	if n := w.scalar(`SELECT COUNT(*) FROM (SELECT sector_id FROM volume_sectors WHERE sector_id IS NOT NULL GROUP BY sector_id HAVING COUNT(*) > 1)`); n != 0 {
		w.monitor("sector-occupies-two-slots", fmt.Sprintf("after %s: %d sectors", after, n))
	}
	if n := w.scalar(`SELECT COUNT(*) FROM (SELECT volume_id, volume_index FROM volume_sectors GROUP BY volume_id, volume_index HAVING COUNT(*) > 1)`); n != 0 {
		w.monitor("slot-exists-twice", fmt.Sprintf("after %s: %d slots", after, n))
	}
}

func (w *c08World) volumeIDs() (ids []int64) {
	vols, err := w.db.Volumes()
	if err != nil {
		w.fatalf("volumes: %v", err)
	}
	for _, v := range vols {
		ids = append(ids, v.ID)
	}
	return
}

// ---------------------------------------------------------------- snapshot

func (w *c08World) snapshot() {
	var rs, vs, locs, crs []string
	vols, err := w.db.Volumes()
	if err != nil {
		w.fatalf("volumes: %v", err)
	}
	for _, v := range vols {
		vs = append(vs, fmt.Sprintf("(%d, %s, %s, %s, %s)", v.ID, coqBool(v.ReadOnly), coqBool(v.Available), coqZ(int64(v.TotalSectors)), coqZ(int64(v.UsedSectors))))
	}
	m, err := w.db.Metrics(time.Now().Add(time.Hour))
	if err != nil {
		w.fatalf("metrics: %v", err)
	}
	for r := 1; r <= w.nroots; r++ {
		rs = append(rs, fmt.Sprint(r))
		loc, err := w.db.SectorLocation(c08Root(r))
		if err == nil {
			locs = append(locs, fmt.Sprintf("Some (%d, %d)", loc.Volume, loc.Index))
		} else if errors.Is(err, storage.ErrSectorNotFound) {
			locs = append(locs, "None")
		} else {
			w.fatalf("location: %v", err)
		}
	}
	v1, err := w.db.SectorRoots()
	if err != nil {
		w.fatalf("roots: %v", err)
	}
	v2, err := w.db.V2SectorRoots()
	if err != nil {
		w.fatalf("v2 roots: %v", err)
	}
	for _, c := range w.cons {
		roots := v1[c.id]
		if c.v2 {
			roots = v2[c.id]
		}
		if len(roots) == 0 {
			continue
		}
		var l []string
		for _, r := range roots {
			l = append(l, fmt.Sprint(c08RootNum(r)))
		}
		crs = append(crs, fmt.Sprintf("(%d, %s, %s)", c.num, coqBool(c.v2), coqList(l)))
	}
	w.step("Snapshot "+coqList(rs), fmt.Sprintf("OSnap %s (%s, %s, %s, %s, %s) %s %s", coqList(vs),
		coqZ(int64(m.Storage.TotalSectors)), coqZ(int64(m.Storage.PhysicalSectors)), coqZ(int64(m.Storage.LostSectors)),
		coqZ(int64(m.Storage.ContractSectors)), coqZ(int64(m.Storage.TempSectors)), coqList(locs), coqList(crs)))
}

// after is called after every mutating operation
func (w *c08World) after(what string) {
	w.recount(what)
	if w.bt != nil && w.bt.sparse {
		return // large worlds of the batch harness: snapshots where the case asks for them
	}
	w.snapshot()
}

// totalSig: a ShrinkVolume of a volume whose removal was cut after a batch is a recorded finding
// (directed case of the batch harness); every other divergence of a total counter keeps its sig
func (w *c08World) totalSig(sig string) string {
	if w.bt != nil && w.bt.unsafeShrink {
		return "total-sectors-wrong-after-shrink-of-partly-removed-volume"
	}
	return sig
}

// ---------------------------------------------------------------- operations

func (w *c08World) addVolume(ro bool) int64 {
	w.nvol++
	id, err := w.db.AddVolume(fmt.Sprintf("vol%d.dat", w.nvol), ro)
	if err != nil {
		w.fatalf("add volume: %v", err)
	}
	w.step(fmt.Sprintf("AddVol %d %s", id, coqBool(ro)), "ORes (Ok tt)")
	w.count("op:AddVol")
	w.after("AddVolume")
	return id
}

func (w *c08World) grow(id int64, n uint64) {
	err, p := c08Call(func() error { return w.db.GrowVolume(id, n) })
	w.step(fmt.Sprintf("Grow %d %d", id, n), c08ErrTerm(err, p))
	w.count("op:Grow")
	w.after("GrowVolume")
}

func (w *c08World) shrink(id int64, n uint64) {
	if w.bt != nil && !w.bt.unsafeShrink && w.volGapped(id) && !w.shrinkIsSafe(id, n) {
		// the proviso of the batch theorems (and the recorded finding): not in generated sequences
		w.count("skip:shrink-of-partly-removed-volume")
		return
	}
	err, p := c08Call(func() error { return w.db.ShrinkVolume(id, n) })
	w.step(fmt.Sprintf("Shrink %d %d", id, n), c08ErrTerm(err, p))
	w.count("op:Shrink:" + c08Outcome(err, p))
	w.after("ShrinkVolume")
}

func c08Outcome(err error, p bool) string {
	if p {
		return "panic"
	} else if err == nil {
		return "ok"
	}
	return c08ErrClass(err)
}

func (w *c08World) removeVolume(id int64, force bool) {
	if w.batched() {
		if w.removeVolumeB(id, force) && w.retryCut() {
			w.removeVolume(id, force)
		}
		return
	}
	before := w.slots()
	m0, _ := w.db.Metrics(time.Now().Add(time.Hour))
	err, p := c08Call(func() error { return w.db.RemoveVolume(id, force) })
	w.step(fmt.Sprintf("RemoveVol %d %s", id, coqBool(force)), c08ErrTerm(err, p))
	w.count(fmt.Sprintf("op:RemoveVol:force=%v:%s", force, c08Outcome(err, p)))
	// permitted loss is counted exactly
	m1, _ := w.db.Metrics(time.Now().Add(time.Hour))
	var occupied uint64
	for _, s := range before {
		if s.vol == id && s.root != 0 {
			occupied++
		}
	}
	wantLost := uint64(0)
	if err == nil && !p {
		wantLost = occupied
		if !force && occupied > 0 {
			w.monitor("non-forced-removal-dropped-sectors", fmt.Sprintf("volume %d had %d sectors", id, occupied))
		}
	}
	if m1.Storage.LostSectors-m0.Storage.LostSectors != wantLost {
		w.monitor("lost-sectors-not-exact", fmt.Sprintf("RemoveVolume(%d,%v): lost +%d, sectors dropped %d", id, force, m1.Storage.LostSectors-m0.Storage.LostSectors, wantLost))
	}
	w.after("RemoveVolume")
}

func (w *c08World) setRO(id int64, b bool) {
	if err := w.db.SetReadOnly(id, b); err != nil {
		w.fatalf("set ro: %v", err)
	}
	w.step(fmt.Sprintf("SetRO %d %s", id, coqBool(b)), "ORes (Ok tt)")
	w.count("op:SetRO")
	w.after("SetReadOnly")
}

func (w *c08World) setAvail(id int64, b bool) {
	if err := w.db.SetAvailable(id, b); err != nil {
		w.fatalf("set avail: %v", err)
	}
	w.step(fmt.Sprintf("SetAvail %d %s", id, coqBool(b)), "ORes (Ok tt)")
	w.count("op:SetAvail")
	w.after("SetAvailable")
}

func (w *c08World) store(r int, fnOK bool) {
	before := w.slots()
	vols, _ := w.db.Volumes()
	writable := map[int64]bool{}
	for _, v := range vols {
		writable[v.ID] = v.Available && !v.ReadOnly
	}
	located, free := false, 0
	for _, s := range before {
		if s.root == r {
			located = true
		}
		if s.root == 0 && writable[s.vol] {
			free++
		}
	}
	var loc *storage.SectorLocation
	err, p := c08Call(func() error {
		return w.db.StoreSector(c08Root(r), func(l storage.SectorLocation) error {
			loc = &l
			if !fnOK {
				return errC08Fn
			}
			return nil
		})
	})
	locTerm := "None"
	if loc != nil {
		locTerm = fmt.Sprintf("(Some (%d, %d))", loc.Volume, loc.Index)
	}
	w.step(fmt.Sprintf("Store %d %s %s", r, locTerm, coqBool(fnOK)), c08ErrTerm(err, p))
	w.count(fmt.Sprintf("op:Store:located=%v,free=%v,fn=%v:%s", located, free > 0, fnOK, c08Outcome(err, p)))
	// placement monitors
	notEnough := err != nil && errors.Is(err, storage.ErrNotEnoughStorage)
	switch {
	case p:
		w.monitor("store-sector-panics", fmt.Sprintf("root %d", r))
	case notEnough && (located || free > 0):
		w.monitor("not-enough-storage-although-space", fmt.Sprintf("root %d located=%v free writable slots=%d", r, located, free))
	case !notEnough && !located && free == 0:
		w.monitor("no-free-slot-but-not-not-enough-storage", fmt.Sprintf("root %d err=%v", r, err))
	}
	if loc != nil {
		w.placed = true
		if located {
			w.monitor("stored-sector-placed-again", fmt.Sprintf("root %d already had a slot", r))
		}
		if !writable[loc.Volume] {
			w.monitor("placed-on-unwritable-volume", fmt.Sprintf("root %d volume %d", r, loc.Volume))
		}
		found := false
		for _, s := range before {
			if s.vol == loc.Volume && s.idx == loc.Index {
				found = true
				if s.root != 0 {
					w.monitor("placed-on-occupied-slot", fmt.Sprintf("root %d at (%d,%d) holding %d", r, loc.Volume, loc.Index, s.root))
				}
			}
		}
		if !found {
			w.monitor("placed-on-missing-slot", fmt.Sprintf("root %d at (%d,%d)", r, loc.Volume, loc.Index))
		}
	}
	w.after("StoreSector")
}

// storeRemoved: a write whose fn sees the operator remove the very sector (RemoveSector racing
// the upload) and then fails, so StoreSector rolls its slot back.
func (w *c08World) storeRemoved(r int) {
	vols, _ := w.db.Volumes()
	writable := map[int64]bool{}
	for _, v := range vols {
		writable[v.ID] = v.Available && !v.ReadOnly
	}
	located, free := false, 0
	for _, s := range w.slots() {
		if s.root == r {
			located = true
		}
		if s.root == 0 && writable[s.vol] {
			free++
		}
	}
	if located || free == 0 {
		w.store(r, false)
		return
	}
	var loc *storage.SectorLocation
	var inner error
	err, p := c08Call(func() error {
		return w.db.StoreSector(c08Root(r), func(l storage.SectorLocation) error {
			loc = &l
			inner = w.db.RemoveSector(c08Root(r))
			return errC08Fn
		})
	})
	if loc == nil || inner != nil {
		w.fatalf("storeRemoved: fn not called or inner RemoveSector failed: %v", inner)
	}
	w.step(fmt.Sprintf("StoreRemoved %d (Some (%d, %d))", r, loc.Volume, loc.Index), c08ErrTerm(err, p))
	w.count("op:StoreRemoved:" + c08Outcome(err, p))
	if p {
		w.monitor("store-sector-panics", fmt.Sprintf("root %d removed during a failing write", r))
	}
	w.placed = true
	w.after("StoreSector with RemoveSector inside a failing fn")
}

func (w *c08World) migrate(id int64, start uint64, failRate int) {
	if w.batched() {
		if w.migrateB(id, start, failRate) && w.retryCut() {
			w.migrate(id, start, failRate)
		}
		return
	}
	var calls []string
	var migrated, failed int
	err, p := c08Call(func() (err error) {
		migrated, failed, err = w.db.MigrateSectors(context.Background(), id, start, func(from, to storage.SectorLocation) error {
			ok := w.rng.Intn(100) >= failRate
			calls = append(calls, fmt.Sprintf("(%d, (%d, %d), %s)", from.Index, to.Volume, to.Index, coqBool(ok)))
			if from.Volume != id {
				w.monitor("migrated-from-other-volume", fmt.Sprintf("volume %d, from %d", id, from.Volume))
			}
			if !ok {
				return errC08Fn
			}
			return nil
		})
		return
	})
	r := "Ok tt"
	if p {
		r = "Panic"
	} else if err != nil {
		r = "Err " + c08ErrClass(err)
	}
	w.step(fmt.Sprintf("Migrate %d %d %s", id, start, coqList(calls)), fmt.Sprintf("OMig %d %d (%s)", migrated, failed, r))
	w.count(fmt.Sprintf("op:Migrate:calls=%d:%s", min(len(calls), 3), c08Outcome(err, p)))
	w.after("MigrateSectors")
}

func (w *c08World) removeSector(r int) {
	m0, _ := w.db.Metrics(time.Now().Add(time.Hour))
	err, p := c08Call(func() error { return w.db.RemoveSector(c08Root(r)) })
	w.step(fmt.Sprintf("RemoveSector %d", r), c08ErrTerm(err, p))
	w.count("op:RemoveSector:" + c08Outcome(err, p))
	m1, _ := w.db.Metrics(time.Now().Add(time.Hour))
	want := uint64(0)
	if err == nil && !p {
		want = 1
	}
	if m1.Storage.LostSectors-m0.Storage.LostSectors != want {
		w.monitor("lost-sectors-not-exact", fmt.Sprintf("RemoveSector(%d): lost +%d want +%d", r, m1.Storage.LostSectors-m0.Storage.LostSectors, want))
	}
	w.after("RemoveSector")
}

func (w *c08World) queries(r int) {
	loc, err := w.db.SectorLocation(c08Root(r))
	if err == nil {
		w.step(fmt.Sprintf("Location %d", r), fmt.Sprintf("OLoc (Some (%d, %d))", loc.Volume, loc.Index))
	} else if errors.Is(err, storage.ErrSectorNotFound) {
		w.step(fmt.Sprintf("Location %d", r), "OLoc None")
	} else {
		w.fatalf("location: %v", err)
	}
	has, err := w.db.HasSector(c08Root(r))
	if err != nil {
		w.fatalf("has: %v", err)
	}
	w.step(fmt.Sprintf("Has %d", r), "OHas "+coqBool(has))
	refs, err := w.db.SectorReferences(c08Root(r))
	switch {
	case err == nil:
		w.step(fmt.Sprintf("Refs %d", r), fmt.Sprintf("ORefs (Some (%d, %d))", len(refs.Contracts), refs.TempStorage))
	case errors.Is(err, storage.ErrSectorNotFound):
		w.step(fmt.Sprintf("Refs %d", r), "ORefs None")
	default:
		// fixed by fixes/C08-sector-references-scan.patch (integer contract_id scanned into a FileContractID)
		w.monitor("sector-references-fails", fmt.Sprintf("root %d: %v", r, err))
	}
	w.count("op:Queries")
}

func (w *c08World) addTemps(l [][2]uint64) {
	var ts []storage.TempSector
	var terms []string
	for _, e := range l {
		ts = append(ts, storage.TempSector{Root: c08Root(int(e[0])), Expiration: e[1]})
		terms = append(terms, fmt.Sprintf("(%d, %d)", e[0], e[1]))
	}
	err, p := c08Call(func() error { return w.db.AddTemporarySectors(ts) })
	w.step("AddTemp "+coqList(terms), c08ErrTerm(err, p))
	w.count("op:AddTemp:" + c08Outcome(err, p))
	w.after("AddTemporarySectors")
}

func (w *c08World) addTemp1(r int, exp uint64) {
	err, p := c08Call(func() error { return w.db.AddTempSector(c08Root(r), exp) })
	w.step(fmt.Sprintf("AddTemp1 %d %d", r, exp), c08ErrTerm(err, p))
	w.count("op:AddTemp1:" + c08Outcome(err, p))
	w.after("AddTempSector")
}

func (w *c08World) expireTemp(h uint64) {
	if w.batched() {
		if w.expireTempB(h) && w.retryCut() {
			w.expireTemp(h)
		}
		return
	}
	err, p := c08Call(func() error { return w.db.ExpireTempSectors(h) })
	w.step(fmt.Sprintf("ExpireTemp %d", h), c08ErrTerm(err, p))
	w.count("op:ExpireTemp")
	w.after("ExpireTempSectors")
}

func (w *c08World) newContract(v2 bool, endH, neg uint64) *c08Contract {
	w.ncon++
	c := &c08Contract{num: w.ncon, v2: v2, endH: endH, neg: neg}
	c.id[0], c.id[1] = byte(w.ncon), 0xc8
	if v2 {
		c.id[2] = 2
	}
	renter := types.NewPrivateKeyFromSeed(make([]byte, 32)).PublicKey()
	hostSeed := make([]byte, 32)
	hostSeed[0] = 1
	host := types.NewPrivateKeyFromSeed(hostSeed).PublicKey()
	if v2 {
		c.v2c = contracts.V2Contract{ID: c.id, NegotiationHeight: neg,
			V2FileContract: types.V2FileContract{RenterPublicKey: renter, HostPublicKey: host, ProofHeight: endH - 1, ExpirationHeight: endH}}
	} else {
		uc := types.UnlockConditions{PublicKeys: []types.UnlockKey{renter.UnlockKey(), host.UnlockKey()}, SignaturesRequired: 2}
		c.rev = contracts.SignedRevision{Revision: types.FileContractRevision{ParentID: c.id, UnlockConditions: uc,
			FileContract: types.FileContract{UnlockHash: uc.UnlockHash(), RevisionNumber: 1, WindowStart: endH - 1, WindowEnd: endH}}}
	}
	return c
}

func (w *c08World) addContract(v2 bool, endH, neg uint64) *c08Contract {
	c := w.newContract(v2, endH, neg)
	var err error
	if v2 {
		err = w.db.AddV2Contract(c.v2c, rhp4.TransactionSet{})
	} else {
		err = w.db.AddContract(c.rev, []types.Transaction{}, types.ZeroCurrency, contracts.Usage{}, neg)
	}
	if err != nil {
		w.fatalf("add contract: %v", err)
	}
	w.cons = append(w.cons, c)
	w.step(fmt.Sprintf("AddC %d %s %d %d", c.num, coqBool(v2), endH, neg), "ORes (Ok tt)")
	w.count(fmt.Sprintf("op:AddC:v2=%v", v2))
	w.after("AddContract")
	return c
}

func (w *c08World) renew(old *c08Contract, endH, neg uint64) *c08Contract {
	if w.conGapped(old) {
		w.count("skip:renew-of-partly-expired-contract")
		return nil
	}
	c := w.newContract(old.v2, endH, neg)
	var err error
	if old.v2 {
		err = w.db.RenewV2Contract(c.v2c, rhp4.TransactionSet{}, old.id, nil)
	} else {
		clearing := old.rev
		clearing.Revision.RevisionNumber = types.MaxRevisionNumber
		err = w.db.RenewContract(c.rev, clearing, []types.Transaction{}, types.ZeroCurrency, contracts.Usage{}, contracts.Usage{}, neg)
	}
	if err != nil {
		w.fatalf("renew: %v", err)
	}
	w.cons = append(w.cons, c)
	w.step(fmt.Sprintf("Renew %d %d %s %d %d", old.num, c.num, coqBool(old.v2), endH, neg), "ORes (Ok tt)")
	w.count(fmt.Sprintf("op:Renew:v2=%v", old.v2))
	w.after("RenewContract")
	return c
}

func (w *c08World) reject(h uint64) {
	err := w.db.UpdateChainState(func(tx index.UpdateTx) error {
		_, _, err := tx.RejectContracts(h)
		return err
	})
	if err != nil {
		w.fatalf("reject: %v", err)
	}
	w.step(fmt.Sprintf("Reject %d", h), "ORes (Ok tt)")
	w.count("op:Reject")
	w.after("RejectContracts")
}

func (w *c08World) curRoots(c *c08Contract) []types.Hash256 {
	var m map[types.FileContractID][]types.Hash256
	var err error
	if c.v2 {
		m, err = w.db.V2SectorRoots()
	} else {
		m, err = w.db.SectorRoots()
	}
	if err != nil {
		w.fatalf("roots: %v", err)
	}
	return m[c.id]
}

type c08Change struct {
	kind    string
	r, a, b uint64
}

func (w *c08World) reviseV1(c *c08Contract, chs []c08Change) {
	if w.conGapped(c) {
		w.count("skip:revise-of-partly-expired-contract")
		return
	}
	var sc []contracts.SectorChange
	var terms []string
	for _, ch := range chs {
		switch ch.kind {
		case "append":
			sc = append(sc, contracts.SectorChange{Action: contracts.SectorActionAppend, Root: c08Root(int(ch.r))})
			terms = append(terms, fmt.Sprintf("CAppend %d", ch.r))
		case "trim":
			sc = append(sc, contracts.SectorChange{Action: contracts.SectorActionTrim, A: ch.a})
			terms = append(terms, fmt.Sprintf("CTrim %d", ch.a))
		case "update":
			sc = append(sc, contracts.SectorChange{Action: contracts.SectorActionUpdate, Root: c08Root(int(ch.r)), A: ch.a})
			terms = append(terms, fmt.Sprintf("CUpdate %d %d", ch.r, ch.a))
		case "swap":
			sc = append(sc, contracts.SectorChange{Action: contracts.SectorActionSwap, A: ch.a, B: ch.b})
			terms = append(terms, fmt.Sprintf("CSwap %d %d", ch.a, ch.b))
		}
	}
	roots := w.curRoots(c)
	c.rev.Revision.RevisionNumber++
	err, p := c08Call(func() error { return w.db.ReviseContract(c.rev, roots, contracts.Usage{}, sc) })
	w.step(fmt.Sprintf("ReviseV1 %d %s", c.num, coqList(terms)), c08ErrTerm(err, p))
	w.count("op:ReviseV1:" + c08Outcome(err, p))
	w.after("ReviseContract")
}

func (w *c08World) reviseV2(c *c08Contract, newRoots []int) {
	if w.conGapped(c) {
		w.count("skip:revise-of-partly-expired-contract")
		return
	}
	old := w.curRoots(c)
	var nr []types.Hash256
	var terms []string
	for _, r := range newRoots {
		nr = append(nr, c08Root(r))
		terms = append(terms, fmt.Sprint(r))
	}
	c.v2c.RevisionNumber++
	err, p := c08Call(func() error { return w.db.ReviseV2Contract(c.id, c.v2c.V2FileContract, old, nr, proto4.Usage{}) })
	w.step(fmt.Sprintf("ReviseV2 %d %s", c.num, coqList(terms)), c08ErrTerm(err, p))
	w.count("op:ReviseV2:" + c08Outcome(err, p))
	w.after("ReviseV2Contract")
}

func (w *c08World) expireV1(h uint64) {
	if w.batched() {
		if w.expireConsB(false, h) && w.retryCut() {
			w.expireV1(h)
		}
		return
	}
	err, p := c08Call(func() error { return w.db.ExpireContractSectors(h) })
	w.step(fmt.Sprintf("ExpireV1 %d", h), c08ErrTerm(err, p))
	w.count("op:ExpireV1")
	w.after("ExpireContractSectors")
}

func (w *c08World) expireV2(h uint64) {
	if w.batched() {
		if w.expireConsB(true, h) && w.retryCut() {
			w.expireV2(h)
		}
		return
	}
	err, p := c08Call(func() error { return w.db.ExpireV2ContractSectors(h) })
	w.step(fmt.Sprintf("ExpireV2 %d", h), c08ErrTerm(err, p))
	w.count("op:ExpireV2")
	w.after("ExpireV2ContractSectors")
}

func (w *c08World) prune(all bool) {
	if all && w.batched() {
		if w.pruneB() && w.retryCut() {
			w.prune(true)
		}
		return
	}
	cutoff := time.Now().Add(-time.Hour)
	if all {
		cutoff = time.Now().Add(time.Hour)
	}
	before := w.slots()
	err, p := c08Call(func() error { return w.db.PruneSectors(context.Background(), cutoff) })
	w.step("Prune "+coqBool(all), c08ErrTerm(err, p))
	w.count(fmt.Sprintf("op:Prune:all=%v", all))
	if !all {
		after := w.slots()
		if fmt.Sprint(before) != fmt.Sprint(after) {
			w.monitor("prune-removed-recently-accessed-sector", "cutoff one hour in the past")
		}
	}
	w.after("PruneSectors")
}

// reference table as the property sees it (read-only)
type c08Ref struct {
	kind     string // v1, v2, temp
	rejected bool
	endH     uint64 // window_end / expiration_height / temp expiration
}

func (w *c08World) references() map[int][]c08Ref {
	out := map[int][]c08Ref{}
	byID := map[types.FileContractID]*c08Contract{}
	for _, c := range w.cons {
		byID[c.id] = c
	}
	v1, err := w.db.SectorRoots()
	if err != nil {
		w.fatalf("roots: %v", err)
	}
	for id, roots := range v1 {
		c, err := w.db.Contract(id)
		if err != nil {
			w.fatalf("contract: %v", err)
		}
		for _, r := range roots {
			out[c08RootNum(r)] = append(out[c08RootNum(r)], c08Ref{"v1", c.Status == contracts.ContractStatusRejected, c.Revision.WindowEnd})
		}
	}
	v2, err := w.db.V2SectorRoots()
	if err != nil {
		w.fatalf("v2 roots: %v", err)
	}
	for id, roots := range v2 {
		c, err := w.db.V2Contract(id)
		if err != nil {
			w.fatalf("v2 contract: %v", err)
		}
		for _, r := range roots {
			out[c08RootNum(r)] = append(out[c08RootNum(r)], c08Ref{"v2", c.Status == contracts.V2ContractStatusRejected, c.ExpirationHeight})
		}
	}
	rows, err := w.db.db.Query(`SELECT ss.sector_root, t.expiration_height FROM temp_storage_sector_roots t INNER JOIN stored_sectors ss ON ss.id=t.sector_id`)
	if err != nil {
		w.fatalf("temps: %v", err)
	}
	defer rows.Close()
	for rows.Next() {
		var root types.Hash256
		var exp uint64
		if err := rows.Scan(decode(&root), &exp); err != nil {
			w.fatalf("temps scan: %v", err)
		}
		out[c08RootNum(root)] = append(out[c08RootNum(root)], c08Ref{"temp", false, exp})
	}
	return out
}

// reclaim = expiry processing at height h followed by a prune, with the property's own
// predicate evaluated on the slots before and after.
func (w *c08World) reclaim(h uint64) {
	if w.bt != nil {
		// the loops are still recorded batch by batch, but nothing is cut or interleaved: the
		// monitor below judges the undisturbed expire+prune
		w.bt.quiet++
		defer func() { w.bt.quiet-- }()
	}
	before := w.slots()
	refs := w.references()
	w.expireV1(h)
	w.expireV2(h)
	w.expireTemp(h)
	w.prune(true)
	after := map[[2]int64]int{}
	for _, s := range w.slots() {
		after[[2]int64{s.vol, int64(s.idx)}] = s.root
	}
	w.count("op:Reclaim")
	for _, s := range before {
		now, ok := after[[2]int64{s.vol, int64(s.idx)}]
		if !ok {
			w.monitor("slot-vanished-during-reclaim", fmt.Sprintf("(%d,%d)", s.vol, s.idx))
			continue
		}
		if s.root == 0 {
			if now != 0 {
				w.monitor("empty-slot-occupied-after-reclaim", fmt.Sprintf("(%d,%d) now %d", s.vol, s.idx, now))
			}
			continue
		}
		// a contract keeps a sector while it is not rejected and not past its window; at
		// h == window_end both answers are accepted (the wording does not fix the boundary)
		must, may, rejV2 := false, false, false
		for _, ref := range refs[s.root] {
			switch {
			case ref.kind == "temp":
				if ref.endH > h {
					must = true
				}
			case ref.rejected:
				if ref.kind == "v2" {
					rejV2 = true
				}
			case ref.endH > h:
				must = true
			case ref.endH == h:
				may = true
			}
		}
		switch {
		case now == s.root && !must && !may:
			if rejV2 {
				w.monitor("rejected-v2-contract-sectors-not-reclaimed", fmt.Sprintf("h=%d slot (%d,%d) root %d refs %+v", h, s.vol, s.idx, s.root, refs[s.root]))
			} else {
				w.monitor("unreferenced-sector-not-reclaimed", fmt.Sprintf("h=%d slot (%d,%d) root %d refs %+v", h, s.vol, s.idx, s.root, refs[s.root]))
			}
		case now == 0 && must:
			w.monitor("referenced-sector-reclaimed", fmt.Sprintf("h=%d slot (%d,%d) root %d refs %+v", h, s.vol, s.idx, s.root, refs[s.root]))
		case now != 0 && now != s.root:
			w.monitor("slot-changed-sector-during-reclaim", fmt.Sprintf("(%d,%d) %d -> %d", s.vol, s.idx, s.root, now))
		}
		w.count(fmt.Sprintf("reclaim:kept=%v,must=%v,may=%v", now != 0, must, may))
	}
}

// ---------------------------------------------------------------- cases


func (w *c08World) volume(size uint64) int64 {
	id := w.addVolume(false)
	w.setAvail(id, true)
	w.grow(id, size)
	return id
}

func (w *c08World) directed(id int) bool {
	switch id {
	case 0: // sectors of a rejected v2 contract are reclaimed (witness of the v2 expiry selection)
		w.res.desc = "directed: rejected v2 contract, expire+prune"
		w.volume(4)
		w.store(1, true)
		w.store(2, true)
		c := w.addContract(true, 100, 1)
		k := w.addContract(true, 100, 50)
		w.reviseV2(c, []int{1})
		w.reviseV2(k, []int{2})
		w.reject(5)
		w.reclaim(10)
	case 1: // same for v1
		w.res.desc = "directed: rejected v1 contract, expire+prune"
		w.volume(4)
		w.store(1, true)
		w.store(2, true)
		c := w.addContract(false, 100, 1)
		k := w.addContract(false, 100, 50)
		w.reviseV1(c, []c08Change{{kind: "append", r: 1}})
		w.reviseV1(k, []c08Change{{kind: "append", r: 2}})
		w.reject(5)
		w.reclaim(10)
	case 2: // boundary heights, v1 window end / v2 expiration / temp expiration = 10
		w.res.desc = "directed: boundary heights"
		w.volume(6)
		for r := 1; r <= 4; r++ {
			w.store(r, true)
		}
		c1 := w.addContract(false, 10, 1)
		c2 := w.addContract(true, 10, 1)
		w.reviseV1(c1, []c08Change{{kind: "append", r: 1}})
		w.reviseV2(c2, []int{2})
		w.addTemps([][2]uint64{{3, 10}})
		w.addTemp1(4, 11)
		w.reclaim(9)
		w.reclaim(10)
		w.reclaim(11)
	case 3: // full volumes, read-only and unavailable volumes
		w.res.desc = "directed: full / read-only / unavailable volumes"
		a := w.volume(2)
		w.store(1, true)
		w.store(2, true)
		w.store(3, true) // full
		w.store(1, true) // exists
		b := w.volume(1)
		w.setRO(b, true)
		w.store(3, true)
		w.setRO(b, false)
		w.setAvail(b, false)
		w.store(3, true)
		w.setAvail(b, true)
		w.store(3, true)
		w.store(4, true)
		w.removeSector(1)
		w.store(4, false) // fn fails: rolled back
		w.store(4, true)
		_ = a
	case 4: // forced and non-forced removal, shrink, migration
		w.res.desc = "directed: remove / shrink / migrate"
		a := w.volume(3)
		for r := 1; r <= 3; r++ {
			w.store(r, true)
		}
		b := w.volume(2)
		w.removeVolume(a, false) // not empty
		w.setRO(a, true)
		w.migrate(a, 0, 0)       // two fit, then not enough storage
		w.shrink(a, 1)           // slot 2 still in use
		w.grow(b, 4)
		w.migrate(a, 1, 0)
		w.shrink(a, 1)
		w.removeVolume(b, true) // loses sectors
		w.removeVolume(a, false)
		w.removeVolume(a, false) // not found
	case 5: // a sector shared by a v1 and a v2 contract and temp storage
		w.res.desc = "directed: shared sector"
		w.volume(3)
		w.store(1, true)
		c1 := w.addContract(false, 10, 1)
		c2 := w.addContract(true, 12, 1)
		w.reviseV1(c1, []c08Change{{kind: "append", r: 1}, {kind: "append", r: 1}})
		w.reviseV2(c2, []int{1, 1})
		w.addTemps([][2]uint64{{1, 11}, {1, 13}})
		w.queries(1)
		w.reclaim(11)
		w.reclaim(13)
		w.reclaim(14)
	case 6: // migration inside one volume when nothing else has room; failing migrateFn
		w.res.desc = "directed: shrink migration within the volume"
		a := w.volume(4)
		for r := 1; r <= 3; r++ {
			w.store(r, true)
		}
		w.removeSector(1)
		w.setRO(a, true)
		w.migrate(a, 2, 100) // fn fails
		w.migrate(a, 2, 0)
		w.shrink(a, 2)
		w.shrink(a, 3) // maxSectors > total: dev-error panic
		w.grow(a, 0)   // dev-error panic
	case 7: // more rows than one batch of the expire / prune / remove loops (batch = 5 with the testing tag)
		w.res.desc = "directed: batch loops"
		w.nroots = 12
		a := w.volume(12)
		b := w.volume(12)
		w.setAvail(b, false)
		var all []int
		var chs []c08Change
		var tmps [][2]uint64
		for r := 1; r <= 12; r++ {
			w.store(r, true)
			all = append(all, r)
			chs = append(chs, c08Change{kind: "append", r: uint64(r)})
			tmps = append(tmps, [2]uint64{uint64(r), 10})
		}
		c1 := w.addContract(false, 10, 1)
		c2 := w.addContract(true, 10, 1)
		w.reviseV1(c1, chs)
		w.reviseV2(c2, all)
		w.addTemps(tmps)
		w.expireV1(11)
		w.expireTemp(10)
		w.reclaim(10) // the v2 contract still holds everything
		w.reclaim(11) // now everything goes, in three batches per loop
		for r := 1; r <= 12; r++ {
			w.store(r, true)
		}
		w.removeVolume(b, false) // 12 empty slots
		w.removeVolume(a, true)  // 12 lost sectors
	case 8: // RemoveSector racing a failing write: the rollback must not release the slot twice
		w.res.desc = "directed: sector removed during a failing write"
		w.volume(3)
		w.store(1, true)
		w.storeRemoved(2)
		w.store(2, true)
		w.removeSector(1)
		w.storeRemoved(3)
	default:
		return false
	}
	return true
}

const c08Directed = 9

func (w *c08World) pickVol() (int64, bool) {
	ids := w.volumeIDs()
	if len(ids) == 0 {
		return 0, false
	}
	return ids[w.rng.Intn(len(ids))], true
}

func (w *c08World) generated() {
	rng := w.rng
	w.res.desc = "generated sequence"
	nv := 1 + rng.Intn(3)
	wide := rng.Intn(5) == 0 || (w.bt != nil && rng.Intn(3) != 0) // more rows than a (testing-tag) batch
	if wide {
		w.nroots = 16
		w.res.desc = "generated sequence (wide)"
	}
	for i := 0; i < nv; i++ {
		if wide {
			w.volume(uint64(4 + rng.Intn(11)))
		} else {
			w.volume(uint64(1 + rng.Intn(6)))
		}
	}
	steps := 15 + rng.Intn(30)
	cur := uint64(8 + rng.Intn(3)) // the "current height" the case revolves around
	// mostly roots that are on disk, sometimes any
	root := func() int {
		if rng.Intn(4) != 0 {
			var stored []int
			for _, s := range w.slots() {
				if s.root != 0 {
					stored = append(stored, s.root)
				}
			}
			if len(stored) > 0 {
				return stored[rng.Intn(len(stored))]
			}
		}
		return 1 + rng.Intn(w.nroots)
	}
	anyRoot := func() int { return 1 + rng.Intn(w.nroots) }
	end := func() uint64 { return cur + []uint64{0, 1, 1, 2, 3, 5}[rng.Intn(6)] }
	for i := 0; i < steps; i++ {
		burst := 1
		if wide {
			burst = 1 + rng.Intn(6)
		}
		switch x := rng.Intn(100); {
		case x < 22:
			for k := 0; k < burst; k++ {
				if rng.Intn(25) == 0 {
					w.storeRemoved(anyRoot())
				} else {
					w.store(anyRoot(), rng.Intn(8) != 0)
				}
			}
		case x < 30: // temp storage
			if rng.Intn(3) == 0 {
				w.addTemp1(root(), end())
			} else {
				var l [][2]uint64
				for k := rng.Intn(3) + burst; k > 0; k-- {
					l = append(l, [2]uint64{uint64(root()), end()})
				}
				w.addTemps(l)
			}
		case x < 37:
			if len(w.cons) < 5 {
				w.addContract(rng.Intn(2) == 0, end(), uint64(1+rng.Intn(5)))
			}
		case x < 55: // revise
			if len(w.cons) == 0 {
				w.addContract(rng.Intn(2) == 0, end(), uint64(1+rng.Intn(5)))
				continue
			}
			c := w.cons[rng.Intn(len(w.cons))]
			cur := w.curRoots(c)
			if c.v2 {
				var nr []int
				for _, r := range cur {
					nr = append(nr, c08RootNum(r))
				}
				switch rng.Intn(5) {
				case 0, 1, 2:
					for k := rng.Intn(2) + burst; k > 0; k-- {
						nr = append(nr, root())
					}
				case 3:
					if len(nr) > 0 {
						nr = nr[:rng.Intn(len(nr))]
					}
				default:
					if len(nr) > 0 {
						nr[rng.Intn(len(nr))] = root()
					}
				}
				w.reviseV2(c, nr)
			} else {
				var chs []c08Change
				n := uint64(len(cur))
				for k := rng.Intn(3) + burst; k > 0; k-- {
					switch y := rng.Intn(10); {
					case y < 6:
						chs = append(chs, c08Change{kind: "append", r: uint64(root())})
						n++
					case y < 7:
						t := uint64(rng.Intn(3))
						if rng.Intn(6) != 0 && t > n {
							t = n
						}
						chs = append(chs, c08Change{kind: "trim", a: t})
						if t <= n {
							n -= t
						}
					case y < 9:
						if n > 0 || rng.Intn(4) == 0 {
							a := uint64(rng.Intn(int(n) + 1))
							if n > 0 && rng.Intn(5) != 0 {
								a = uint64(rng.Intn(int(n)))
							}
							chs = append(chs, c08Change{kind: "update", r: uint64(root()), a: a})
						}
					default:
						if n > 0 {
							chs = append(chs, c08Change{kind: "swap", a: uint64(rng.Intn(int(n))), b: uint64(rng.Intn(int(n)))})
						}
					}
				}
				w.reviseV1(c, chs)
			}
		case x < 58:
			if len(w.cons) > 0 && len(w.cons) < 6 {
				w.renew(w.cons[rng.Intn(len(w.cons))], end()+uint64(rng.Intn(3)), uint64(1+rng.Intn(5)))
			}
		case x < 60:
			w.reject(uint64(1 + rng.Intn(6)))
		case x < 66:
			h := cur + uint64(rng.Intn(4)) - 1
			w.reclaim(h)
			if rng.Intn(2) == 0 && h > cur {
				cur = h
			}
		case x < 69:
			h := cur + uint64(rng.Intn(4)) - 1
			switch rng.Intn(3) {
			case 0:
				w.expireV1(h)
			case 1:
				w.expireV2(h)
			default:
				w.expireTemp(h)
			}
		case x < 72:
			w.prune(rng.Intn(4) != 0)
		case x < 75:
			w.removeSector(root())
		case x < 79:
			w.queries(root())
		case x < 82:
			if id, ok := w.pickVol(); ok {
				w.setRO(id, rng.Intn(2) == 0)
			}
		case x < 84:
			if id, ok := w.pickVol(); ok {
				w.setAvail(id, rng.Intn(3) != 0)
			}
		case x < 87:
			if id, ok := w.pickVol(); ok {
				v, _ := w.db.Volume(id)
				w.grow(id, v.TotalSectors+uint64(rng.Intn(3)))
			}
		case x < 90:
			if id, ok := w.pickVol(); ok {
				v, _ := w.db.Volume(id)
				if v.TotalSectors > 1 {
					w.shrink(id, 1+uint64(rng.Intn(int(v.TotalSectors)-1)))
				}
			}
		case x < 95: // migration, mostly the way the volume manager does it
			ids := w.volumeIDs()
			var cand []int64
			for _, id := range ids {
				if v, _ := w.db.Volume(id); v.UsedSectors > 0 {
					cand = append(cand, id)
				}
			}
			if len(cand) == 0 {
				continue
			}
			id := cand[rng.Intn(len(cand))]
			v, _ := w.db.Volume(id)
			if rng.Intn(4) != 0 {
				w.setRO(id, true)
			}
			fail := 0
			if rng.Intn(4) == 0 {
				fail = 50
			}
			start := uint64(0)
			if rng.Intn(2) == 0 {
				start = uint64(rng.Intn(int(v.TotalSectors) + 1))
			}
			w.migrate(id, start, fail)
			if start > 0 && rng.Intn(2) == 0 {
				w.shrink(id, start)
			} else if start == 0 && rng.Intn(2) == 0 {
				w.removeVolume(id, rng.Intn(3) == 0)
			}
		case x < 97:
			if id, ok := w.pickVol(); ok {
				w.removeVolume(id, rng.Intn(2) == 0)
			}
		default:
			if len(w.volumeIDs()) < 3 {
				w.volume(uint64(1 + rng.Intn(4)))
			}
		}
	}
	w.reclaim(cur + uint64(rng.Intn(3)))
}

func c08RunCase(id int, dir string) (res *c08Result) {
	res = &c08Result{id: id}
	defer func() {
		if r := recover(); r != nil {
			res.fatal = fmt.Sprint(r)
		}
	}()
	db, err := OpenDatabase(filepath.Join(dir, fmt.Sprintf("c08_%d.db", id)), zap.NewNop())
	if err != nil {
		res.fatal = err.Error()
		return
	}
	defer db.Close()
	w := &c08World{res: res, rng: verifCaseRand(id), db: db, nroots: c08Roots}
	if !w.directed(id) {
		w.generated()
	}
	res.nontriv = w.placed
	return
}

func TestVerifC08(t *testing.T) {
	em := newVerifEmitter(t, "From HostdBase Require Import Base.\nFrom HostdStorage Require Import Model.\nOpen Scope N_scope.", "case", "check")
	defer em.Close()

	n := verifN(200) + c08Directed
	dir, err := os.MkdirTemp("", "verif-c08-")
	if err != nil {
		t.Fatal(err)
	}
	defer os.RemoveAll(dir)

	var ids []int
	for id := 0; id < n; id++ {
		if !em.Skip(id) {
			ids = append(ids, id)
		}
	}
	results := make([]*c08Result, len(ids))
	var wg sync.WaitGroup
	sem := make(chan struct{}, 24) // the store sleeps 50-75 ms per batch of its loops
	for i, id := range ids {
		wg.Add(1)
		sem <- struct{}{}
		go func(i, id int) {
			defer wg.Done()
			defer func() { <-sem }()
			results[i] = c08RunCase(id, dir)
		}(i, id)
	}
	wg.Wait()

	sort.Slice(results, func(i, j int) bool { return results[i].id < results[j].id })
	for _, r := range results {
		if r.fatal != "" {
			t.Fatalf("case %d: %s", r.id, r.fatal)
		}
		em.BeginCase(r.id, r.desc)
		for _, s := range r.steps {
			em.Step(s[0], s[1])
		}
		for _, k := range r.counts {
			em.Count(k)
		}
		for _, m := range r.monitors {
			em.Monitor(m[0], m[1])
		}
		em.EndCase(r.nontriv)
	}
}
