//go:build verif

package sqlite

// Kill points for the process-death harness (verif_c09_kill_test.go).  A second driver layer
// around the fault driver of verif_c09_driver_test.go: it counts the database calls
// (BeginTx, Prepare, Exec/Query, Commit) of the operation that is running in a child process
// and, at the call chosen by the parent, parks the goroutine — either right BEFORE the call is
// handed to SQLite or right AFTER SQLite returned but before database/sql sees the reply —
// after telling the parent over a pipe what the driver has seen so far.  The parent then sends
// SIGKILL.  Since the store owns a single connection (SetMaxOpenConns(1)) nothing else can
// reach the database while the call is parked, so "died before call k" / "died after call k,
// reply lost" are exact and never a matter of timing.

import (
	"context"
	"database/sql"
	"database/sql/driver"
	"fmt"
	"io"
	"sync"
	"time"

	"github.com/mattn/go-sqlite3"
	"go.uber.org/zap"
)

type verifKillCtl struct {
	mu     sync.Mutex
	out    io.Writer // progress pipe to the parent
	ctl    *verifFaultCtl
	active bool
	n      int // calls seen since begin()
	at     int // call index at which to park; <0: never
	after  bool
	// note: what else the child wants the parent to know when it parks (set by the script runner)
	note func() string
}

// begin starts counting the calls of one operation.  park=false: count only.
func (k *verifKillCtl) begin(park bool, at int, after bool) {
	k.mu.Lock()
	k.active, k.n = true, 0
	if park {
		k.at, k.after = at, after
	} else {
		k.at = -1
	}
	k.mu.Unlock()
}

func (k *verifKillCtl) end() {
	k.mu.Lock()
	k.active = false
	k.mu.Unlock()
}

// parkNow tells the parent and never returns (the parent kills the process).
func (k *verifKillCtl) parkNow(idx int, phase string) {
	k.ctl.mu.Lock()
	trace := string(k.ctl.trace)
	k.ctl.mu.Unlock()
	extra := ""
	if k.note != nil {
		extra = k.note()
	}
	fmt.Fprintf(k.out, "K %d %s [%s] %s\n", idx, phase, trace, extra)
	for {
		time.Sleep(time.Hour)
	}
}

// before is called ahead of the inner call; it returns the call's index (or -1 when idle).
func (k *verifKillCtl) before() int {
	k.mu.Lock()
	if !k.active {
		k.mu.Unlock()
		return -1
	}
	idx := k.n
	k.n++
	park := idx == k.at && !k.after
	k.mu.Unlock()
	if park {
		k.parkNow(idx, "before")
	}
	return idx
}

func (k *verifKillCtl) afterCall(idx int) {
	if idx < 0 {
		return
	}
	k.mu.Lock()
	park := k.active && idx == k.at && k.after
	k.mu.Unlock()
	if park {
		k.parkNow(idx, "after")
	}
}

type verifKillDriver struct {
	kill  *verifKillCtl
	inner *verifDriver
}

func (d *verifKillDriver) Open(dsn string) (driver.Conn, error) {
	c, err := d.inner.Open(dsn)
	if err != nil {
		return nil, err
	}
	return &verifKillConn{kill: d.kill, c: c.(*verifConn)}, nil
}

type verifKillConn struct {
	kill *verifKillCtl
	c    *verifConn
}

func (c *verifKillConn) Close() error { return c.c.Close() }

func (c *verifKillConn) Begin() (driver.Tx, error) {
	return c.BeginTx(context.Background(), driver.TxOptions{})
}

func (c *verifKillConn) BeginTx(ctx context.Context, opts driver.TxOptions) (driver.Tx, error) {
	idx := c.kill.before()
	tx, err := c.c.BeginTx(ctx, opts)
	c.kill.afterCall(idx)
	if err != nil {
		return nil, err
	}
	return &verifKillTx{kill: c.kill, tx: tx}, nil
}

func (c *verifKillConn) Prepare(q string) (driver.Stmt, error) {
	return c.PrepareContext(context.Background(), q)
}

func (c *verifKillConn) PrepareContext(ctx context.Context, q string) (driver.Stmt, error) {
	idx := c.kill.before()
	s, err := c.c.PrepareContext(ctx, q)
	c.kill.afterCall(idx)
	if err != nil {
		return nil, err
	}
	return &verifKillStmt{kill: c.kill, s: s.(*verifStmt)}, nil
}

func (c *verifKillConn) ExecContext(ctx context.Context, q string, args []driver.NamedValue) (driver.Result, error) {
	idx := c.kill.before()
	r, err := c.c.ExecContext(ctx, q, args)
	c.kill.afterCall(idx)
	return r, err
}

func (c *verifKillConn) QueryContext(ctx context.Context, q string, args []driver.NamedValue) (driver.Rows, error) {
	idx := c.kill.before()
	r, err := c.c.QueryContext(ctx, q, args)
	c.kill.afterCall(idx)
	return r, err
}

func (c *verifKillConn) Ping(ctx context.Context) error { return c.c.Ping(ctx) }

type verifKillStmt struct {
	kill *verifKillCtl
	s    *verifStmt
}

func (s *verifKillStmt) Close() error  { return s.s.Close() }
func (s *verifKillStmt) NumInput() int { return s.s.NumInput() }

func (s *verifKillStmt) Exec(args []driver.Value) (driver.Result, error)  { return s.s.Exec(args) }
func (s *verifKillStmt) Query(args []driver.Value) (driver.Rows, error) { return s.s.Query(args) }

func (s *verifKillStmt) ExecContext(ctx context.Context, args []driver.NamedValue) (driver.Result, error) {
	idx := s.kill.before()
	r, err := s.s.ExecContext(ctx, args)
	s.kill.afterCall(idx)
	return r, err
}

func (s *verifKillStmt) QueryContext(ctx context.Context, args []driver.NamedValue) (driver.Rows, error) {
	idx := s.kill.before()
	r, err := s.s.QueryContext(ctx, args)
	s.kill.afterCall(idx)
	return r, err
}

type verifKillTx struct {
	kill *verifKillCtl
	tx   driver.Tx
}

func (t *verifKillTx) Commit() error {
	idx := t.kill.before()
	err := t.tx.Commit()
	t.kill.afterCall(idx)
	return err
}

func (t *verifKillTx) Rollback() error { return t.tx.Rollback() }

// verifOpenKillStore: OpenDatabase on the kill layer over the fault driver.
func verifOpenKillStore(fp string, log *zap.Logger, kill *verifKillCtl) (*Store, *verifFaultCtl, error) {
	ctl := &verifFaultCtl{}
	kill.ctl = ctl
	name := fmt.Sprintf("sqlite3_verif_kill_%d", verifDriverSeq.Add(1))
	sql.Register(name, &verifKillDriver{kill: kill, inner: &verifDriver{ctl: ctl, inner: &sqlite3.SQLiteDriver{}}})
	db, err := sql.Open(name, sqliteFilepath(fp))
	if err != nil {
		return nil, nil, fmt.Errorf("failed to open database: %w", err)
	}
	db.SetMaxOpenConns(1)
	store := &Store{db: db, log: log}
	if err := store.init(); err != nil {
		db.Close()
		return nil, nil, err
	}
	return store, ctl, nil
}
