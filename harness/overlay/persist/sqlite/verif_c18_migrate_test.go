//go:build verif

package sqlite

// C18 — "opening never alters data except for pending schema migrations, which preserve all
// of the above".  The store-level driver of C01/C05 (verif_c01_chain_test.go: contracts of both
// versions taken through every status by generated chain histories, usage in every category,
// renewals, accounts funded from contracts and debited) populates a database; volumes with
// stored and temporary sectors, sector roots on the contracts, settings, pinned settings,
// webhooks and registry entries are added through the store's own methods.  Everything is
// snapshot, the store closed, and for every schema version k the data directory is turned
// into one an older release would have left behind — a copy whose db_version is k-1 — and
// opened the way OpenDatabase does (Store.init runs the real migrations k .. latest).  A version
// whose migrations cannot run on tables of the current layout (they rebuild tables that no
// longer exist) is skipped and counted; for every other one each table, and the latest value of
// every metric, must be what it was.
//
// The contract history is recorded for the Contracts model (this harness entry carries
// "group": "Contracts"), whose invariant is the hypothesis of c18_recalc_migration_preserves_metrics.

import (
	"context"
	"database/sql"
	"encoding/binary"
	"encoding/hex"
	"fmt"
	"math/big"
	"math/rand"
	"os"
	"path/filepath"
	"sort"
	"strings"
	"testing"

	rhp2 "go.sia.tech/core/rhp/v2"
	rhp3 "go.sia.tech/core/rhp/v3"
	proto4 "go.sia.tech/core/rhp/v4"
	"go.sia.tech/core/types"
	"go.sia.tech/hostd/v2/host/contracts"
	"go.sia.tech/hostd/v2/host/settings"
	"go.sia.tech/hostd/v2/host/settings/pin"
	"go.sia.tech/hostd/v2/host/storage"
	"go.uber.org/zap"
)

// vmgTempDir: a scratch directory on a memory file system when there is one (the databases
// are opened and closed several thousand times; nothing here depends on durability)
func vmgTempDir(t *testing.T) string {
	if d, err := os.MkdirTemp("/dev/shm", "verif-c18-"); err == nil {
		t.Cleanup(func() { os.RemoveAll(d) })
		return d
	}
	return t.TempDir()
}

// ---- the rest of the data directory

func vmgHash(rng *rand.Rand) (h types.Hash256) { rng.Read(h[:]); return }

// vmgPopulate adds what the contract driver does not: volumes, stored / temporary sectors,
// sector roots, settings, pinned settings, webhooks, registry entries.  The contract model's
// case has ended by now; nothing here moves a contract metric.
func vmgPopulate(t *testing.T, em *verifEmitter, db *Store, rng *rand.Rand, w *vfWorld) {
	must := func(what string, err error) {
		if err != nil {
			t.Fatalf("populate %s: %v", what, err)
		}
	}
	st := settings.DefaultSettings
	st.AcceptingContracts = rng.Intn(2) == 0
	st.NetAddress = []string{"host.example", "8.8.4.4", "", "sub.host.example"}[rng.Intn(4)] // what the current validation accepts: no port
	st.MaxRegistryEntries = uint64(4 + rng.Intn(10))
	st.IngressLimit = uint64(rng.Intn(1000))
	st.SectorCacheSize = uint32(rng.Intn(64))
	if rng.Intn(2) == 0 {
		st.DDNS = settings.DNSSettings{Provider: settings.DNSProviderDuckDNS, IPv4: true, Options: []byte(`{"token":"t"}`)}
	}
	for i := 0; i <= rng.Intn(3); i++ { // the revision counts
		must("UpdateSettings", db.UpdateSettings(st))
	}
	must("UpdatePinnedSettings", db.UpdatePinnedSettings(context.Background(), pin.PinnedSettings{Currency: "usd", Threshold: 0.05,
		Storage: pin.Pin{Pinned: rng.Intn(2) == 0, Value: 1.5}, MaxCollateral: pin.Pin{Pinned: rng.Intn(2) == 0, Value: float64(1+rng.Intn(40)) / 8}}))
	// volumes and stored sectors
	var roots []types.Hash256
	nvol := 1 + rng.Intn(3)
	for i := 0; i < nvol; i++ {
		id, err := db.AddVolume(fmt.Sprintf("/vol%d.dat", i), false)
		must("AddVolume", err)
		must("SetAvailable", db.SetAvailable(id, i != 2))
		must("GrowVolume", db.GrowVolume(id, uint64(4+rng.Intn(12))))
		for j := 0; j < 2+rng.Intn(4); j++ {
			r := vmgHash(rng)
			if err := db.StoreSector(r, func(storage.SectorLocation) error { return nil }); err == nil {
				roots = append(roots, r)
			}
		}
		if i == 0 && rng.Intn(2) == 0 {
			must("SetReadOnly", db.SetReadOnly(id, true))
		}
	}
	em.Count(fmt.Sprintf("population:volumes=%d", nvol))
	// sector roots on contracts, whatever their status
	withRoots := 0
	for _, c := range append(append([]*vfContract(nil), w.v1...), w.v2...) {
		if len(roots) < 2 || rng.Intn(3) == 0 {
			continue
		}
		rs := append([]types.Hash256(nil), roots[:1+rng.Intn(len(roots)-1)]...)
		var err error
		if c.v2 {
			fc := c.v2fc(c.rev + 1)
			fc.Filesize = uint64(len(rs)) * proto4.SectorSize
			fc.Capacity = fc.Filesize
			fc.FileMerkleRoot = rhp2.MetaRoot(rs)
			err = db.ReviseV2Contract(c.id, fc, nil, rs, proto4.Usage{})
		} else {
			rev := c.signed(c.rev + 1)
			rev.Revision.Filesize = uint64(len(rs)) * proto4.SectorSize
			rev.Revision.FileMerkleRoot = rhp2.MetaRoot(rs)
			var changes []contracts.SectorChange
			for _, r := range rs {
				changes = append(changes, contracts.SectorChange{Action: contracts.SectorActionAppend, Root: r})
			}
			err = db.ReviseContract(rev, nil, contracts.Usage{}, changes)
		}
		if err == nil {
			withRoots++
		}
	}
	em.Count(fmt.Sprintf("population:contracts with sector roots=%d", vfCap(withRoots, 4)))
	if len(roots) > 0 {
		must("AddTempSector", db.AddTempSector(roots[len(roots)-1], uint64(50+rng.Intn(100))))
	}
	// webhooks, registry
	for i := 0; i <= rng.Intn(3); i++ {
		_, err := db.RegisterWebhook(fmt.Sprintf("http://127.0.0.1:1/hook%d", i), fmt.Sprintf("secret%d", i), [][]string{{"alerts"}, {"all"}, {"alerts/info", "wallet"}}[i])
		must("RegisterWebhook", err)
	}
	for i := 0; i <= rng.Intn(3); i++ {
		must("SetRegistryValue", db.SetRegistryValue(rhp3.RegistryEntry{RegistryKey: rhp3.RegistryKey{PublicKey: vfRenterKey, Tweak: types.Hash256{byte(i + 1)}},
			RegistryValue: rhp3.RegistryValue{Revision: uint64(i + 1), Data: []byte{1, 2, byte(i)}}}, 1000))
	}
	must("IncrementRHPDataUsage", db.IncrementRHPDataUsage(uint64(rng.Intn(100)), uint64(rng.Intn(100))))
}

// ---- snapshot: every table row by row, and the latest value of every metric

func vmgVal(v any) string {
	switch x := v.(type) {
	case nil:
		return "NULL"
	case []byte:
		if len(x) > 48 {
			return fmt.Sprintf("#%d:%s..", len(x), hex.EncodeToString(x[:12]))
		}
		return "x" + hex.EncodeToString(x)
	default:
		return fmt.Sprint(x)
	}
}

// a stat value is a little-endian integer of 8 or 16 bytes (or a float's bits)
func vmgStat(b []byte) string {
	switch len(b) {
	case 8:
		return fmt.Sprint(binary.LittleEndian.Uint64(b))
	case 16:
		lo, hi := binary.LittleEndian.Uint64(b[:8]), binary.LittleEndian.Uint64(b[8:])
		v := new(big.Int).SetUint64(hi)
		v.Lsh(v, 64).Add(v, new(big.Int).SetUint64(lo))
		return v.String()
	}
	return "x" + hex.EncodeToString(b)
}

func vmgSnapshot(t *testing.T, db *sql.DB) map[string]string {
	out := map[string]string{}
	var tables []string
	rows, err := db.Query(`SELECT name FROM sqlite_master WHERE type='table' AND name NOT LIKE 'sqlite_%' ORDER BY name`)
	if err != nil {
		t.Fatal(err)
	}
	for rows.Next() {
		var n string
		if err := rows.Scan(&n); err != nil {
			t.Fatal(err)
		}
		tables = append(tables, n)
	}
	rows.Close()
	for _, tbl := range tables {
		if tbl == "host_stats" {
			r, err := db.Query(`SELECT stat, stat_value FROM host_stats h WHERE date_created=(SELECT MAX(date_created) FROM host_stats g WHERE g.stat=h.stat) ORDER BY stat`)
			if err != nil {
				t.Fatal(err)
			}
			for r.Next() {
				var stat string
				var val []byte
				if err := r.Scan(&stat, &val); err != nil {
					t.Fatal(err)
				}
				out["metric-"+stat] = vmgStat(val)
			}
			r.Close()
			continue
		}
		r, err := db.Query("SELECT * FROM " + tbl + " ORDER BY rowid")
		if err != nil {
			t.Fatalf("dump %s: %v", tbl, err)
		}
		cols, _ := r.Columns()
		vals := make([]any, len(cols))
		ptrs := make([]any, len(cols))
		for i := range vals {
			ptrs[i] = &vals[i]
		}
		var sb strings.Builder
		for r.Next() {
			if err := r.Scan(ptrs...); err != nil {
				t.Fatal(err)
			}
			for i, c := range cols {
				if tbl == "global_settings" && c == "db_version" {
					continue
				}
				sb.WriteString(c + "=" + vmgVal(vals[i]) + " ")
			}
			sb.WriteByte('\n')
		}
		r.Close()
		out["table-"+tbl] = sb.String()
	}
	return out
}

func vmgFirstDiff(a, b string) string {
	la, lb := strings.Split(a, "\n"), strings.Split(b, "\n")
	for i := 0; i < len(la) || i < len(lb); i++ {
		var x, y string
		if i < len(la) {
			x = la[i]
		}
		if i < len(lb) {
			y = lb[i]
		}
		if x != y {
			return fmt.Sprintf("row %d was {%.400s} and is {%.400s}", i, x, y)
		}
	}
	return ""
}

// vmgOpen is OpenDatabase (the same data source name, one connection, Store.init running the
// pending migrations) except that it closes the connection when init fails: OpenDatabase
// keeps it, and thousands of attempts on versions that cannot be re-run would use up the
// process's file descriptors.
func vmgOpen(fp string) (*Store, error) {
	db, err := sql.Open("sqlite3", sqliteFilepath(fp))
	if err != nil {
		return nil, err
	}
	db.SetMaxOpenConns(1)
	store := &Store{db: db, log: zap.NewNop()}
	if err := store.init(); err != nil {
		db.Close()
		return nil, err
	}
	return store, nil
}

func vmgCopy(t *testing.T, src, dst string) {
	for _, suffix := range []string{"", "-wal", "-shm"} {
		b, err := os.ReadFile(src + suffix)
		if err != nil {
			os.Remove(dst + suffix)
			continue
		}
		if err := os.WriteFile(dst+suffix, b, 0o644); err != nil {
			t.Fatal(err)
		}
	}
}

// vmgMigrations: for every version k, a copy of the closed database with db_version = k-1 is
// opened the way OpenDatabase does (vmgOpen: migrations k .. latest run) and compared with want.
//
// A version k can be re-run only if every migration from k on can; the versions are tried from
// the latest down, and (except in the cases that try all of them: full) the walk ends after two
// versions in a row whose migrations fail — every version below is stopped by the same one.
func vmgMigrations(t *testing.T, em *verifEmitter, path string, want map[string]string, full bool) {
	target := len(migrations) + 1
	ran, failed := 0, 0
	reported := map[string]bool{} // a change is reported for the latest version that shows it (earlier ones run the same migrations)
	for k := target; k >= 2; k-- {
		if failed >= 2 && !full {
			em.Count(fmt.Sprintf("migrations below %02d: not attempted in this case (stopped by a later one)", k+1))
			break
		}
		scratch := fmt.Sprintf("%s.pending%d", path, k)
		vmgCopy(t, path, scratch)
		raw, err := sql.Open("sqlite3", scratch)
		if err != nil {
			t.Fatal(err)
		}
		if _, err := raw.Exec(`UPDATE global_settings SET db_version=?`, k-1); err != nil {
			t.Fatal(err)
		}
		raw.Close()
		s, err := vmgOpen(scratch)
		if err != nil {
			// the migrations from k on cannot run on tables of the current layout
			em.Count(fmt.Sprintf("migration-%02d: not re-runnable on the current schema (skipped)", k))
			failed++
			for _, suffix := range []string{"", "-wal", "-shm"} {
				os.Remove(scratch + suffix)
			}
			continue
		}
		ran++
		failed = 0
		em.Count(fmt.Sprintf("migration-%02d: re-run and compared", k))
		got := vmgSnapshot(t, s.db)
		var v int64
		s.db.QueryRow(`SELECT db_version FROM global_settings`).Scan(&v)
		s.Close()
		if v != int64(target) {
			em.Monitor(fmt.Sprintf("migration-%d-changed-db_version", k), fmt.Sprintf("db_version is %d after opening, want %d", v, target))
		}
		var keys []string
		for key := range want {
			keys = append(keys, key)
		}
		for key := range got {
			if _, ok := want[key]; !ok {
				keys = append(keys, key)
			}
		}
		sort.Strings(keys)
		for _, key := range keys {
			if want[key] == got[key] || reported[key] {
				continue
			}
			reported[key] = true
			what, detail := key, ""
			if strings.HasPrefix(key, "metric-") {
				detail = fmt.Sprintf("%s was %s before the data directory was opened with migration %d pending, and is %s after", strings.TrimPrefix(key, "metric-"), want[key], k, got[key])
			} else {
				what = strings.TrimPrefix(key, "table-")
				detail = fmt.Sprintf("table %s after opening with migration %d pending: %s", what, k, vmgFirstDiff(want[key], got[key]))
			}
			em.Monitor(fmt.Sprintf("migration-%d-changed-%s", k, what), detail)
		}
		for _, suffix := range []string{"", "-wal", "-shm"} {
			os.Remove(scratch + suffix)
		}
	}
	if ran == 0 {
		em.Monitor("no-migration-could-be-rerun", "not even the last migration runs on a current database")
	}
}

func vmgModelStep(t *testing.T, em *verifEmitter, path string) {
	scratch := path + ".v35"
	vmgCopy(t, path, scratch)
	raw, err := sql.Open("sqlite3", scratch)
	if err != nil {
		t.Fatal(err)
	}
	if _, err := raw.Exec(`UPDATE global_settings SET db_version=35`); err != nil {
		t.Fatal(err)
	}
	raw.Close()
	s, err := OpenDatabase(scratch, zap.NewNop())
	if err != nil {
		em.Monitor("migration-36-fails", fmt.Sprintf("opening the data directory at version 35: %v", err))
		return
	}
	snap := vfSnapshot(t, s)
	s.Close()
	em.Step("Recalc", "(COk, "+snap.term+")")
	em.Count("op:recalculating migrations 36-38 as a model step")
	for _, suffix := range []string{"", "-wal", "-shm"} {
		os.Remove(scratch + suffix)
	}
}

// ---- directed histories (before the ones of the contract driver)

var vmgDirected = []func(w *vfWorld){
	func(w *vfWorld) { // 0: a v2 contract with revenue is renewed, the renewal confirmed; a v1 contract resolves successfully
		w.buffer = 3
		w.push()
		a := w.addContract(true, w.tipHeight(), vfSmall)
		b := w.addContract(false, w.tipHeight(), vfSmall)
		c := w.addContract(true, w.tipHeight(), vfSmall)
		w.push(vfEvent{kind: evForm, c: a, new: 1}, vfEvent{kind: evForm, c: b}, vfEvent{kind: evForm, c: c, new: 1})
		w.revise(a, vfSmall)
		w.revise(b, vfSmall)
		w.push(vfEvent{kind: evRev, c: a, old: 0, new: a.rev}, vfEvent{kind: evRev, c: b, old: 0, new: b.rev})
		w.fund(a, 1)
		w.fund(b, 2)
		w.push(vfEvent{kind: evRenew, c: a}, vfEvent{kind: evProof, c: b})
		w.debit(1, true)
		w.push()
	},
	func(w *vfWorld) { // 1: contracts of every status side by side
		w.buffer = 2
		w.push()
		var cs []*vfContract
		for i := 0; i < 5; i++ {
			cs = append(cs, w.addContract(true, w.tipHeight(), vfSmall), w.addContract(false, w.tipHeight(), vfSmall))
		}
		// [0],[1] stay pending and get rejected; the others are confirmed
		var forms []vfEvent
		for _, c := range cs[2:] {
			forms = append(forms, vfEvent{kind: evForm, c: c, new: 1})
		}
		w.push(forms...)
		for _, c := range cs[2:] {
			w.revise(c, vfSmall)
		}
		w.push(vfEvent{kind: evRenew, c: cs[2]}, vfEvent{kind: evProof, c: cs[3]}, vfEvent{kind: evProof, c: cs[4]}, vfEvent{kind: evFail, c: cs[5]},
			vfEvent{kind: evFail, c: cs[6]}, vfEvent{kind: evMissOK, c: cs[7]})
		w.push()
		w.push()
		w.renew(cs[8], vfSmall, vfSmall)
		w.renew(cs[9], vfSmall, vfSmall)
	},
}

func TestVerifC18Migrate(t *testing.T) {
	em := newVerifEmitter(t, vfHeader, "case", "check")
	defer em.Close()
	dir := vmgTempDir(t)
	n := verifN(40)
	nd := len(vmgDirected) + len(vfDirected)
	for id := 0; id < n+nd; id++ {
		if em.Skip(id) {
			continue
		}
		rng := verifCaseRand(id)
		rng.Int63()
		rng.Int63() // a stream of its own
		path := filepath.Join(dir, fmt.Sprintf("mig_%d.db", id))
		db, err := OpenDatabase(path, zap.NewNop())
		if err != nil {
			t.Fatal(err)
		}
		w := &vfWorld{t: t, em: em, mode: "C05", rng: rng, db: db, dir: dir, id: id, wellFormed: true,
			tipSnaps: map[string]map[string]string{}, visited: map[string]bool{}}
		desc := "generated contract history, then every pending migration"
		switch {
		case id < len(vmgDirected):
			desc = fmt.Sprintf("directed history %d (renewed v2 contract with revenue / every status), then every pending migration", id)
		case id < nd:
			desc = fmt.Sprintf("directed history %d of the contract driver, then every pending migration", id-len(vmgDirected))
		}
		em.BeginCase(id, desc)
		switch {
		case id < len(vmgDirected):
			em.Count("case:directed")
			vmgDirected[id](w)
		case id < nd:
			em.Count("case:directed (contract driver)")
			vfDirected[id-len(vmgDirected)](w)
		default:
			w.generate()
		}
		for _, c := range w.v2 {
			if st := w.status(c); st == "N2" {
				em.Count("population:has a renewed v2 contract")
				break
			}
		}
		// the recalculating migrations as a step of the contract model: the directory as a release
		// at version 35 would have left it is opened (migrations 36, 37, 38 recalculate, 39 adds an
		// index) and the contracts and metrics it then holds are the model's observation of Recalc
		if err := db.Close(); err != nil {
			t.Fatal(err)
		}
		vmgModelStep(t, em, path)
		em.EndCase(w.nontrivial)
		db, err = OpenDatabase(path, zap.NewNop())
		if err != nil {
			t.Fatal(err)
		}
		w.db = db
		vmgPopulate(t, em, db, rng, w)
		want := vmgSnapshot(t, db.db)
		if err := db.Close(); err != nil {
			t.Fatal(err)
		}
		vmgMigrations(t, em, path, want, id < 2 || id%16 == 0)
		for _, suffix := range []string{"", "-wal", "-shm"} {
			os.Remove(path + suffix)
		}
	}
}
