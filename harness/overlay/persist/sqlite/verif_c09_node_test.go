//go:build verif

package sqlite

// A host built from the real components (chain manager, wallet, volume, contract,
// settings, account, registry, webhook and index managers) on a Store that sits on the
// fault-injecting driver.  It can be closed and re-constructed on the same data
// directory (C18) and its managers can be called with the k-th database call failing (C09).

import (
	"context"
	"errors"
	"path/filepath"
	"testing"
	"time"

	"go.sia.tech/core/consensus"
	"go.sia.tech/core/types"
	"go.sia.tech/coreutils"
	"go.sia.tech/coreutils/chain"
	ctestutil "go.sia.tech/coreutils/testutil"
	"go.sia.tech/coreutils/wallet"
	"go.sia.tech/hostd/v2/host/accounts"
	"go.sia.tech/hostd/v2/host/contracts"
	"go.sia.tech/hostd/v2/host/registry"
	"go.sia.tech/hostd/v2/host/settings"
	"go.sia.tech/hostd/v2/host/settings/pin"
	"go.sia.tech/hostd/v2/host/storage"
	"go.sia.tech/hostd/v2/index"
	"go.sia.tech/hostd/v2/webhooks"
	"go.uber.org/zap"
)

type verifSyncer struct{}

func (verifSyncer) BroadcastTransactionSet([]types.Transaction)                       {}
func (verifSyncer) BroadcastV2TransactionSet(types.ChainIndex, []types.V2Transaction) {}

type verifNode struct {
	dir, path string
	hostKey   types.PrivateKey
	store     *Store
	ctl       *verifFaultCtl
	chain     *chain.Manager
	wallet    *wallet.SingleAddressWallet
	volumes   *storage.VolumeManager
	contracts *contracts.Manager
	settings  *settings.ConfigManager
	index     *index.Manager
	accounts  *accounts.AccountManager
	registry  *registry.Manager
	webhooks  *webhooks.Manager
	pins      *pin.Manager
}

// verifForex is an exchange-rate source that is never reachable: pinned settings are
// stored and loaded, but never rewrite the host's prices behind the harness's back
type verifForex struct{}

var errVerifForex = errors.New("verif: no exchange rate source")

func (verifForex) SiacoinExchangeRate(context.Context, string) (float64, error) {
	return 0, errVerifForex
}

// verifNewChain creates an in-memory chain on the repository's test network.
func verifNewChain(t testing.TB, v2 bool) (*chain.Manager, *consensus.Network) {
	var n *consensus.Network
	var genesis types.Block
	if v2 {
		n, genesis = ctestutil.V2Network()
	} else {
		n, genesis = ctestutil.Network()
	}
	cs, tipState, err := chain.NewDBStore(chain.NewMemDB(), n, genesis, nil)
	if err != nil {
		t.Fatal(err)
	}
	return chain.NewManager(cs, tipState), n
}

func verifMine(t testing.TB, cm *chain.Manager, addr types.Address, n int) {
	for i := 0; i < n; i++ {
		b, ok := coreutils.MineBlock(cm, addr, 5*time.Second)
		if !ok {
			t.Fatal("failed to mine block")
		} else if err := cm.AddBlocks([]types.Block{b}); err != nil {
			t.Fatal(err)
		}
	}
}

// verifOpenNode opens (or re-opens) the host on dir.  withIndex starts the index manager,
// which follows the chain in the background.
func verifOpenNode(t testing.TB, dir string, hostKey types.PrivateKey, cm *chain.Manager, withIndex bool, batch int) *verifNode {
	log := zap.NewNop()
	n := &verifNode{dir: dir, path: filepath.Join(dir, "hostd.sqlite3"), hostKey: hostKey, chain: cm}
	var err error
	n.store, n.ctl, err = verifOpenFaultStore(n.path, log)
	if err != nil {
		t.Fatal("open store:", err)
	}
	n.wallet, err = wallet.NewSingleAddressWallet(hostKey, cm, n.store)
	if err != nil {
		t.Fatal("wallet:", err)
	}
	n.volumes, err = storage.NewVolumeManager(n.store, storage.WithPruneInterval(time.Hour))
	if err != nil {
		t.Fatal("volumes:", err)
	}
	n.contracts, err = contracts.NewManager(n.store, n.volumes, cm, verifSyncer{}, n.wallet, contracts.WithRejectAfter(1000000), contracts.WithRevisionSubmissionBuffer(5))
	if err != nil {
		t.Fatal("contracts:", err)
	}
	initial := settings.DefaultSettings
	initial.AcceptingContracts = true
	initial.NetAddress = "127.0.0.1"
	initial.WindowSize = 10
	n.settings, err = settings.NewConfigManager(hostKey, n.store, cm, verifSyncer{}, n.volumes, n.wallet,
		settings.WithAnnounceInterval(1000000), settings.WithValidateNetAddress(false), settings.WithInitialSettings(initial))
	if err != nil {
		t.Fatal("settings:", err)
	}
	n.accounts = accounts.NewManager(n.store, n.settings)
	n.registry = registry.NewManager(hostKey, n.store, log)
	n.webhooks, err = webhooks.NewManager(n.store, log)
	if err != nil {
		t.Fatal("webhooks:", err)
	}
	n.pins, err = pin.NewManager(n.store, n.settings, verifForex{})
	if err != nil {
		t.Fatal("pin:", err)
	}
	if withIndex {
		n.index, err = index.NewManager(n.store, cm, n.contracts, n.wallet, n.settings, n.volumes, index.WithBatchSize(batch))
		if err != nil {
			t.Fatal("index:", err)
		}
	}
	return n
}

func (n *verifNode) Close() {
	if n.index != nil {
		n.index.Close()
	}
	n.pins.Close()
	n.webhooks.Close()
	n.registry.Close()
	n.settings.Close()
	n.contracts.Close()
	n.volumes.Close()
	n.wallet.Close()
	n.store.Close()
}

// waitSynced waits until the index manager has caught up with the chain.
func (n *verifNode) waitSynced(t testing.TB, d time.Duration) bool {
	deadline := time.Now().Add(d)
	for time.Now().Before(deadline) {
		if n.index.Tip() == n.chain.Tip() {
			return true
		}
		time.Sleep(time.Millisecond)
	}
	return false
}
