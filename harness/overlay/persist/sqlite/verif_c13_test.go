//go:build verif

package sqlite

// C13 — renewal hands the data over to the successor contract.
// Directed cases 0..5, then generated renewal chains (see props/C13.json "rule").

import (
	"fmt"
	"testing"

	"go.sia.tech/core/types"
	"go.sia.tech/hostd/v2/host/contracts"
)

const vrC13Directed = 6

func TestVerifC13(t *testing.T) {
	em := newVerifEmitter(t, vrCoqHeader, "case", "check")
	defer em.Close()
	n := verifN(300)
	for id := 0; id < vrC13Directed+n; id++ {
		if em.Skip(id) {
			continue
		}
		rng := verifCaseRand(id)
		w := vrNewWorld(t, em, rng, id, 6+rng.Intn(5))
		switch id {
		case 0:
			em.BeginCase(id, "directed: v1 chain of three generations, empty and non-empty, revisions in between")
			w.c13ChainV1()
		case 1:
			em.BeginCase(id, "directed: v2 renew and refresh chain, predecessor refuses, double renewal")
			w.c13ChainV2()
		case 2:
			em.BeginCase(id, "directed: a store failure at every statement of a v1 renewal")
			w.c13FaultSweep(false)
		case 3:
			em.BeginCase(id, "directed: a store failure at every statement of a v2 renewal")
			w.c13FaultSweep(true)
		case 4:
			em.BeginCase(id, "directed: every malformed renewal variant leaves the predecessor usable")
			w.c13Malformed()
		case 5:
			em.BeginCase(id, "directed: an updater opened before the renewal is committed after it")
			w.c13StaleUpdater()
		default:
			em.BeginCase(id, "generated renewal chains")
			w.c13Generated()
		}
		w.finalLooks()
		w.restart()
		w.finalLooks()
		// the chain moves on without confirming anything: every contract of this history (none was
		// ever confirmed) is now rejected, renewals included.  A renewed contract stays renewed:
		// it still refuses revisions and further renewals, whatever became of its successor.
		if w.rejectUnconfirmed() {
			for _, id := range w.order2 {
				if w.supers[id] {
					w.predecessorRefuses(id, true)
				}
			}
			for _, id := range w.order1 {
				if w.supers[id] {
					w.predecessorRefuses(id, false)
				}
			}
			w.finalLooks()
		}
		em.EndCase(w.accepted > 0)
		w.close()
	}
}

// reviseTip1 runs one disciplined v1 session on id: lock, updater, k random actions, commit.
// It reports whether the host accepted the lock and the commit.
func (w *vrWorld) reviseTip1(id types.FileContractID, k int, mustAccept bool) bool {
	if !w.lock1(id) {
		if mustAccept {
			w.hit("live-contract-refuses-lock", fmt.Sprintf("contract %d", w.cN(id)))
		}
		return false
	}
	u := w.open1(id)
	if u < 0 {
		if mustAccept {
			w.hit("live-contract-refuses-revision", fmt.Sprintf("contract %d: ReviseContract refused", w.cN(id)))
		}
		w.unlock1(id)
		return false
	}
	for ; k > 0; k-- {
		a := w.randAction(len(w.upd[u].list))
		if mustAccept && a.Root != (types.Hash256{}) && !w.stored[a.Root] {
			a.Root = w.roots[0]
		}
		w.act(u, a)
	}
	ok, _ := w.commit1(u, -1)
	if !ok && mustAccept {
		w.hit("live-contract-refuses-revision", fmt.Sprintf("contract %d", w.cN(id)))
	}
	w.close1(u)
	w.unlock1(id)
	return ok
}

// reviseTip2 revises a v2 contract to an edited list made of stored roots only.
func (w *vrWorld) reviseTip2(id types.FileContractID, mustAccept bool) bool {
	l := w.editList(w.cm.SectorRoots(id))
	if mustAccept {
		for i, r := range l {
			if !w.stored[r] {
				l[i] = w.roots[0]
			}
		}
	}
	ok := w.revise2(id, l, vrRev2OK, -1)
	if !ok && mustAccept {
		w.hit("live-contract-refuses-revision", fmt.Sprintf("contract %d", w.cN(id)))
	}
	return ok
}

// predecessorRefuses: what C13 demands of a renewed contract.
func (w *vrWorld) predecessorRefuses(id types.FileContractID, v2 bool) {
	if v2 {
		w.lock2(id)
		// a revision that would be perfectly valid on a live contract
		w.revise2(id, w.cm.SectorRoots(id), vrRev2OK, -1)
		w.renew2(id, true, vrRenew2OK, -1)
	} else {
		if w.lock1(id) { // monitor inside lock1
			w.unlock1(id)
		}
	}
}

func (w *vrWorld) c13ChainV1() {
	w.setup(2, 0, 0)
	tip, other := w.order1[0], w.order1[1]
	// generation 0 is renewed while empty
	w.lock1(tip)
	next, ok := w.renew1(tip, vrRenewOK, -1)
	w.unlock1(tip)
	if !ok {
		w.hit("live-contract-refuses-renewal", fmt.Sprintf("contract %d", w.cN(tip)))
		return
	}
	w.predecessorRefuses(tip, false)
	tip = next
	for g := 0; g < 3; g++ {
		w.reviseTip1(tip, 3, true)
		w.reviseTip1(other, 2, true) // shares the sectors
		w.lock1(tip)
		next, ok = w.renew1(tip, vrRenewOK, -1)
		w.unlock1(tip)
		if !ok {
			w.hit("live-contract-refuses-renewal", fmt.Sprintf("contract %d", w.cN(tip)))
			return
		}
		w.predecessorRefuses(tip, false)
		w.prune()
		for _, r := range w.cm.SectorRoots(next) {
			w.located(r)
		}
		tip = next
	}
	w.reviseTip1(tip, 2, true)
	for _, id := range w.order1 {
		if w.supers[id] {
			w.predecessorRefuses(id, false)
		}
	}
}

// c13StaleUpdater: a ContractUpdater of a v1 contract is opened while the contract is revisable,
// the renewal of the contract is accepted, and only then is the updater committed.  The
// predecessor must refuse that revision (C13: "refuses further revisions") and stay as the
// renewal left it — for an empty and for a non-empty contract.
func (w *vrWorld) c13StaleUpdater() {
	w.setup(2, 0, 0)
	for k, tip := range []types.FileContractID{w.order1[0], w.order1[1]} {
		if k == 1 {
			w.reviseTip1(tip, 3, true)
		}
		if !w.lock1(tip) {
			w.hit("live-contract-refuses-lock", fmt.Sprintf("contract %d", w.cN(tip)))
			return
		}
		u := w.open1(tip)
		if u < 0 {
			w.hit("live-contract-refuses-revision", fmt.Sprintf("contract %d: ReviseContract refused", w.cN(tip)))
			w.unlock1(tip)
			return
		}
		w.act(u, contracts.SectorChange{Action: contracts.SectorActionAppend, Root: w.roots[0]})
		if _, ok := w.renew1(tip, vrRenewOK, -1); !ok {
			w.hit("live-contract-refuses-renewal", fmt.Sprintf("contract %d", w.cN(tip)))
			w.close1(u)
			w.unlock1(tip)
			return
		}
		if ok, _ := w.commit1(u, -1); ok {
			w.hit("predecessor-accepted-revision-after-renewal", fmt.Sprintf("contract %d: an updater opened before the renewal was committed after it", w.cN(tip)))
		}
		w.close1(u)
		w.unlock1(tip)
		w.predecessorRefuses(tip, false)
	}
}

func (w *vrWorld) c13ChainV2() {
	w.setup(0, 2, 0)
	tip, other := w.order2[0], w.order2[1]
	next, ok := w.renew2(tip, false, vrRenew2OK, -1) // empty
	if !ok {
		w.hit("live-contract-refuses-renewal", fmt.Sprintf("contract %d", w.cN(tip)))
		return
	}
	w.predecessorRefuses(tip, true)
	tip = next
	for g := 0; g < 4; g++ {
		w.reviseTip2(tip, true)
		w.reviseTip2(tip, true)
		w.reviseTip2(other, true)
		if g%2 == 1 { // renewed under the contract's lock with a second caller queued for it
			cur := tip
			w.lock2Waiting(cur, func() { next, ok = w.renew2(cur, false, vrRenew2OK, -1) })
		} else {
			next, ok = w.renew2(tip, true, vrRenew2OK, -1)
		}
		if !ok {
			w.hit("live-contract-refuses-renewal", fmt.Sprintf("contract %d", w.cN(tip)))
			return
		}
		w.predecessorRefuses(tip, true)
		w.prune()
		for _, r := range w.cm.SectorRoots(next) {
			w.located(r)
		}
		tip = next
	}
	w.reviseTip2(tip, true)
	w.lock2(tip)
}

func (w *vrWorld) c13FaultSweep(v2 bool) {
	if v2 {
		w.setup(0, 1, 0)
		id := w.order2[0]
		w.revise2(id, []types.Hash256{w.roots[0], w.roots[1], w.roots[0]}, vrRev2OK, -1)
		for k := 0; k < 100; k++ {
			if _, ok := w.renew2(id, k%2 == 0, vrRenew2OK, k); ok {
				w.em.Count(fmt.Sprintf("sweep:renew2:statements=%d", k))
				break
			}
			// the predecessor is still fully usable
			w.lock2(id)
			if k%3 == 0 {
				w.reviseTip2(id, true)
			}
		}
		w.predecessorRefuses(id, true)
		return
	}
	w.setup(1, 0, 0)
	id := w.order1[0]
	w.reviseTip1(id, 4, true)
	for k := 0; k < 100; k++ {
		w.lock1(id)
		_, ok := w.renew1(id, vrRenewOK, k)
		w.unlock1(id)
		if ok {
			w.em.Count(fmt.Sprintf("sweep:renew1:statements=%d", k))
			break
		}
		if k%3 == 0 {
			w.reviseTip1(id, 2, true)
		}
	}
	w.predecessorRefuses(id, false)
}

func (w *vrWorld) c13Malformed() {
	w.setup(1, 1, 0)
	a, b := w.order1[0], w.order2[0]
	w.reviseTip1(a, 3, true)
	w.reviseTip2(b, true)
	for bad := vrRenewBad(1); bad <= vrRenewDuplicateID; bad++ {
		w.lock1(a)
		w.renew1(a, bad, -1)
		w.unlock1(a)
		w.reviseTip1(a, 1, true)
	}
	for bad := vrRenew2Bad(1); bad <= vrRenew2UnknownParent; bad++ {
		w.renew2(b, bad%2 == 0, bad, -1)
		w.lock2(b)
		w.reviseTip2(b, true)
	}
	w.lock1(a)
	w.renew1(a, vrRenewOK, -1)
	w.unlock1(a)
	w.renew2(b, false, vrRenew2OK, -1)
}

// c13Generated: two or three lineages (v1 and v2) of 1-5 generations; between renewals the
// tip is revised, sectors are shared with a by-standing contract, renewals are valid,
// malformed or hit by a store failure, predecessors are probed after every accepted
// renewal and at the end, and the tip is revised again after each renewal.
func (w *vrWorld) c13Generated() {
	rng := w.rng
	n1, n2 := rng.Intn(3), rng.Intn(3)
	if n1+n2 == 0 {
		n1 = 1
	}
	w.setup(n1, n2, rng.Intn(2))
	type lineage struct {
		tip  types.FileContractID
		v2   bool
		gens int
		want int
	}
	var ls []*lineage
	for _, id := range w.order1 {
		ls = append(ls, &lineage{tip: id, want: 1 + rng.Intn(5)})
	}
	for _, id := range w.order2 {
		ls = append(ls, &lineage{tip: id, v2: true, want: 1 + rng.Intn(5)})
	}
	for guard := 0; guard < 80; guard++ {
		var open []*lineage
		for _, l := range ls {
			if l.gens < l.want {
				open = append(open, l)
			}
		}
		if len(open) == 0 {
			break
		}
		l := open[rng.Intn(len(open))]
		switch r := rng.Intn(20); {
		case r < 8: // revise the tip (possibly leaving it empty)
			if l.v2 {
				w.reviseTip2(l.tip, false)
			} else {
				w.reviseTip1(l.tip, rng.Intn(4), false)
			}
		case r < 16: // renew
			var next types.FileContractID
			var ok bool
			fault := w.faultAt(0.2, 12)
			if l.v2 {
				bad := vrRenew2OK
				if rng.Intn(5) == 0 {
					bad = vrRenew2Bad(1 + rng.Intn(7))
				}
				if refresh := rng.Intn(2) == 0; rng.Intn(4) == 0 { // with a second caller queued for the contract's lock
					cur := l.tip
					w.lock2Waiting(cur, func() { next, ok = w.renew2(cur, refresh, bad, fault) })
				} else {
					next, ok = w.renew2(l.tip, refresh, bad, fault)
				}
			} else {
				if !w.lock1(l.tip) {
					w.hit("live-contract-refuses-lock", fmt.Sprintf("contract %d", w.cN(l.tip)))
					continue
				}
				bad := vrRenewOK
				if rng.Intn(5) == 0 {
					bad = vrRenewBad(1 + rng.Intn(6))
				}
				next, ok = w.renew1(l.tip, bad, fault)
				if ok && rng.Intn(2) == 0 {
					// WP-G: the session that renewed still holds the lock of the predecessor; the manager's
					// revising calls refuse it themselves (isGoodForModification: maximum revision number)
					if u := w.open1(l.tip); u >= 0 {
						w.hit("renewed-predecessor-accepts-updater", fmt.Sprintf("contract %d, lock still held by the renewing session", w.cN(l.tip)))
						w.close1(u)
					}
				}
				w.unlock1(l.tip)
			}
			em := w.em
			em.Count(fmt.Sprintf("renewal:generation=%d:accepted=%v:empty=%v", l.gens, ok, len(w.ref[l.tip]) == 0))
			if ok {
				w.predecessorRefuses(l.tip, l.v2)
				l.tip = next
				l.gens++
				// the successor accepts revisions
				if l.v2 {
					w.reviseTip2(l.tip, true)
				} else {
					w.reviseTip1(l.tip, 1+rng.Intn(2), true)
				}
			} else {
				// the predecessor stays usable
				if l.v2 {
					w.reviseTip2(l.tip, true)
				} else {
					w.reviseTip1(l.tip, 1, true)
				}
			}
		case r < 17:
			w.prune()
		case r < 18:
			w.restart()
		case r < 19:
			w.storeSec(w.poolRoot())
		default:
			// probe some superseded contract again
			var sup []types.FileContractID
			for _, id := range append(append([]types.FileContractID(nil), w.order1...), w.order2...) {
				if w.supers[id] {
					sup = append(sup, id)
				}
			}
			if len(sup) > 0 {
				id := sup[rng.Intn(len(sup))]
				_, v2 := w.v2[id]
				w.predecessorRefuses(id, v2)
			}
		}
	}
	for _, l := range ls {
		w.em.Count(fmt.Sprintf("chain:length=%d:v2=%v", l.gens, l.v2))
	}
	// every predecessor still refuses, every tip still accepts
	for _, id := range w.order1 {
		if w.supers[id] {
			w.predecessorRefuses(id, false)
		}
	}
	for _, id := range w.order2 {
		if w.supers[id] {
			w.predecessorRefuses(id, true)
		}
	}
	for _, l := range ls {
		if l.v2 {
			w.reviseTip2(l.tip, true)
		} else {
			w.reviseTip1(l.tip, 1, true)
		}
	}
}
