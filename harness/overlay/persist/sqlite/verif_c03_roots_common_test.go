//go:build verif

package sqlite

// Shared driver of the C03 / C13 harnesses: a real contracts.Manager over a real
// sqlite.Store whose database/sql driver can fail the k-th statement on demand, a
// stub chain (tip height only), the recorder that writes every operation as a Coq term for
// coq/Roots/Model.v, an independent reference of "the list implied by the accepted
// modifications", and the property monitors.

import (
	"context"
	"database/sql"
	"database/sql/driver"
	"runtime/debug"
	"errors"
	"fmt"
	"math/rand"
	"path/filepath"
	"runtime"
	"sort"
	"strings"
	"sync"
	"testing"
	"time"

	"github.com/mattn/go-sqlite3"
	"go.sia.tech/core/consensus"
	rhp2 "go.sia.tech/core/rhp/v2"
	proto4 "go.sia.tech/core/rhp/v4"
	"go.sia.tech/core/types"
	rhp4 "go.sia.tech/coreutils/rhp/v4"
	ctestutil "go.sia.tech/coreutils/testutil"
	"go.sia.tech/hostd/v2/host/contracts"
	"go.sia.tech/hostd/v2/host/storage"
	"go.sia.tech/hostd/v2/index"
	"go.uber.org/zap"
)

const vrCoqHeader = "From HostdBase Require Import Base.\nFrom HostdRoots Require Import Model.\nOpen Scope N_scope."

// ---------------------------------------------------------------- fault-injecting driver

var errVrInjected = errors.New("verif: injected store failure")

// vrFault fails the k-th driver call (begin, prepare, exec, query, commit) made while armed.
var vrFault struct {
	armed     bool
	countdown int
	fired     bool
	seen      int
	stack     string
}

func vrArm(k int) {
	vrFault.armed, vrFault.countdown, vrFault.fired, vrFault.seen = true, k, false, 0
}

func vrDisarm() (fired bool, seen int) {
	if !vrFault.armed {
		return false, 0
	}
	fired, seen = vrFault.fired, vrFault.seen
	vrFault.armed, vrFault.fired = false, false
	return
}

func vrTick() error {
	if !vrFault.armed || vrFault.fired {
		return nil
	}
	vrFault.seen++
	if vrFault.countdown == 0 {
		vrFault.fired = true
		vrFault.stack = string(debug.Stack())
		return errVrInjected
	}
	vrFault.countdown--
	return nil
}

type vrDriver struct{ base *sqlite3.SQLiteDriver }

func (d *vrDriver) Open(name string) (driver.Conn, error) {
	c, err := d.base.Open(name)
	if err != nil {
		return nil, err
	}
	return &vrConn{c: c.(*sqlite3.SQLiteConn)}, nil
}

type vrConn struct{ c *sqlite3.SQLiteConn }

func (c *vrConn) Prepare(q string) (driver.Stmt, error) {
	return c.PrepareContext(context.Background(), q)
}
func (c *vrConn) PrepareContext(ctx context.Context, q string) (driver.Stmt, error) {
	if err := vrTick(); err != nil {
		return nil, err
	}
	st, err := c.c.PrepareContext(ctx, q)
	if err != nil {
		return nil, err
	}
	return &vrStmt{s: st.(*sqlite3.SQLiteStmt)}, nil
}
func (c *vrConn) Close() error              { return c.c.Close() }
func (c *vrConn) Begin() (driver.Tx, error) { return c.BeginTx(context.Background(), driver.TxOptions{}) }
func (c *vrConn) BeginTx(ctx context.Context, opts driver.TxOptions) (driver.Tx, error) {
	if err := vrTick(); err != nil {
		return nil, err
	}
	tx, err := c.c.BeginTx(ctx, opts)
	if err != nil {
		return nil, err
	}
	return &vrTx{tx: tx}, nil
}
func (c *vrConn) ExecContext(ctx context.Context, q string, args []driver.NamedValue) (driver.Result, error) {
	if err := vrTick(); err != nil {
		return nil, err
	}
	return c.c.ExecContext(ctx, q, args)
}
func (c *vrConn) QueryContext(ctx context.Context, q string, args []driver.NamedValue) (driver.Rows, error) {
	if err := vrTick(); err != nil {
		return nil, err
	}
	return c.c.QueryContext(ctx, q, args)
}
func (c *vrConn) Ping(ctx context.Context) error { return c.c.Ping(ctx) }

type vrStmt struct{ s *sqlite3.SQLiteStmt }

func (s *vrStmt) Close() error  { return s.s.Close() }
func (s *vrStmt) NumInput() int { return s.s.NumInput() }
func (s *vrStmt) Exec(args []driver.Value) (driver.Result, error) {
	if err := vrTick(); err != nil {
		return nil, err
	}
	return s.s.Exec(args)
}
func (s *vrStmt) Query(args []driver.Value) (driver.Rows, error) {
	if err := vrTick(); err != nil {
		return nil, err
	}
	return s.s.Query(args)
}
func (s *vrStmt) ExecContext(ctx context.Context, args []driver.NamedValue) (driver.Result, error) {
	if err := vrTick(); err != nil {
		return nil, err
	}
	return s.s.ExecContext(ctx, args)
}
func (s *vrStmt) QueryContext(ctx context.Context, args []driver.NamedValue) (driver.Rows, error) {
	if err := vrTick(); err != nil {
		return nil, err
	}
	return s.s.QueryContext(ctx, args)
}

type vrTx struct{ tx driver.Tx }

func (t *vrTx) Commit() error {
	if err := vrTick(); err != nil {
		t.tx.Rollback() // the commit did not happen: the engine rolls the transaction back
		return err
	}
	return t.tx.Commit()
}
func (t *vrTx) Rollback() error { return t.tx.Rollback() }

var vrRegister sync.Once

const vrDriverName = "verif_roots_faulty_sqlite3"

// vrOpenStore opens (creating it with the repository's own OpenDatabase first) the database
// at fp through the fault-injecting driver.
func vrOpenStore(t testing.TB, fp string, create bool) *Store {
	vrRegister.Do(func() { sql.Register(vrDriverName, &vrDriver{base: &sqlite3.SQLiteDriver{}}) })
	if create {
		s, err := OpenDatabase(fp, zap.NewNop())
		if err != nil {
			t.Fatal(err)
		}
		if err := s.Close(); err != nil {
			t.Fatal(err)
		}
	}
	db, err := sql.Open(vrDriverName, sqliteFilepath(fp))
	if err != nil {
		t.Fatal(err)
	}
	db.SetMaxOpenConns(1)
	s := &Store{db: db, log: zap.NewNop()}
	if err := s.init(); err != nil { // same version check OpenDatabase does
		t.Fatal(err)
	}
	return s
}

// ---------------------------------------------------------------- stub chain

type vrChain struct{ st consensus.State }

func (c *vrChain) Tip() types.ChainIndex                                        { return c.st.Index }
func (c *vrChain) TipState() consensus.State                                    { return c.st }
func (c *vrChain) BestIndex(uint64) (types.ChainIndex, bool)                    { return types.ChainIndex{}, false }
func (c *vrChain) UnconfirmedParents(types.Transaction) []types.Transaction     { return nil }
func (c *vrChain) AddPoolTransactions([]types.Transaction) (bool, error)        { return false, nil }
func (c *vrChain) RecommendedFee() types.Currency                               { return types.ZeroCurrency }
func (c *vrChain) AddV2PoolTransactions(types.ChainIndex, []types.V2Transaction) (bool, error) {
	return false, nil
}

// ---------------------------------------------------------------- world

type vrC1 struct {
	id     types.FileContractID
	uc     types.UnlockConditions
	cur    contracts.SignedRevision // last revision the host accepted
	window uint64
}

type vrC2 struct {
	id       types.FileContractID
	rk, hk   types.PrivateKey
	cur      types.V2FileContract // last revision the host accepted
	formedAt int
}

type vrUpd struct {
	id   types.FileContractID
	u    *contracts.ContractUpdater
	list []types.Hash256 // reference: list after the accepted actions
}

type vrSnapEntry struct {
	db, cache        []types.Hash256
	rev, fsize       uint64
	mroot            types.Hash256
	to, from         types.FileContractID
	found            bool
	located          map[types.Hash256]bool // filled by the renewal operations only
}

type vrWorld struct {
	t     *testing.T
	em    *verifEmitter
	rng   *rand.Rand
	path  string
	store *Store
	cm    *contracts.Manager
	chain *vrChain

	roots   []types.Hash256 // pool; Coq number = index+1
	rootNum map[types.Hash256]uint64
	stored  map[types.Hash256]bool
	hashNum map[types.Hash256]uint64
	cidNum  map[types.FileContractID]uint64
	keyNum  map[types.PublicKey]uint64

	v1      map[types.FileContractID]*vrC1
	v2      map[types.FileContractID]*vrC2
	order1  []types.FileContractID
	order2  []types.FileContractID
	ref     map[types.FileContractID][]types.Hash256 // list implied by the accepted modifications
	supers  map[types.FileContractID]bool            // superseded by an accepted renewal
	upd     map[int]*vrUpd
	locked  map[types.FileContractID]bool
	nextSlot int

	sess     int // > 0: the session on whose behalf manager calls are recorded (sessions cases)
	nextSess int
	lastTrim bool
	monitors bool // off in the undisciplined (correspondence-only) cases
	accepted int
	nonce    uint64
}

func vrNewWorld(t *testing.T, em *verifEmitter, rng *rand.Rand, id int, nroots int) *vrWorld {
	w := &vrWorld{t: t, em: em, rng: rng, monitors: true,
		rootNum: map[types.Hash256]uint64{}, stored: map[types.Hash256]bool{},
		hashNum: map[types.Hash256]uint64{{}: 0}, cidNum: map[types.FileContractID]uint64{},
		keyNum: map[types.PublicKey]uint64{},
		v1:     map[types.FileContractID]*vrC1{}, v2: map[types.FileContractID]*vrC2{},
		ref:    map[types.FileContractID][]types.Hash256{}, supers: map[types.FileContractID]bool{},
		upd:    map[int]*vrUpd{}, locked: map[types.FileContractID]bool{}}
	w.path = filepath.Join(t.TempDir(), fmt.Sprintf("roots_%d.db", id))
	w.store = vrOpenStore(t, w.path, true)
	n, _ := ctestutil.V2Network()
	st := n.GenesisState()
	st.Index.Height = 10
	w.chain = &vrChain{st: st}
	w.newManager()
	vid, err := w.store.AddVolume("verif.dat", false)
	if err != nil {
		t.Fatal(err)
	} else if err := w.store.SetAvailable(vid, true); err != nil {
		t.Fatal(err)
	} else if err := w.store.GrowVolume(vid, 64); err != nil {
		t.Fatal(err)
	}
	for i := 0; i < nroots; i++ {
		var r types.Hash256
		rng.Read(r[:])
		w.roots = append(w.roots, r)
		w.rootNum[r] = uint64(i + 1)
	}
	return w
}

func (w *vrWorld) newManager() {
	cm, err := contracts.NewManager(w.store, nil, w.chain, nil, nil)
	if err != nil {
		w.t.Fatal(err)
	}
	w.cm = cm
}

func (w *vrWorld) close() {
	w.store.Close()
}

// ---------------------------------------------------------------- Coq terms

func (w *vrWorld) cN(id types.FileContractID) uint64 {
	if n, ok := w.cidNum[id]; ok {
		return n
	}
	n := uint64(len(w.cidNum) + 1)
	w.cidNum[id] = n
	return n
}

func (w *vrWorld) hN(h types.Hash256) uint64 {
	if n, ok := w.hashNum[h]; ok {
		return n
	}
	n := uint64(len(w.hashNum))
	w.hashNum[h] = n
	return n
}

func (w *vrWorld) kN(k types.PublicKey) uint64 {
	if n, ok := w.keyNum[k]; ok {
		return n
	}
	n := uint64(len(w.keyNum) + 1)
	w.keyNum[k] = n
	return n
}

func (w *vrWorld) rN(r types.Hash256) uint64 {
	if n, ok := w.rootNum[r]; ok {
		return n
	}
	// a root the host came up with that the harness never handed out
	n := uint64(1000 + len(w.rootNum))
	w.rootNum[r] = n
	return n
}

func (w *vrWorld) coqRoots(l []types.Hash256) string {
	items := make([]string, len(l))
	for i, r := range l {
		items[i] = fmt.Sprint(w.rN(r))
	}
	return "[" + strings.Join(items, "; ") + "]"
}

func (w *vrWorld) coqOptCid(id types.FileContractID) string {
	if id == (types.FileContractID{}) {
		return "None"
	}
	return fmt.Sprintf("(Some %d)", w.cN(id))
}

func vrCoqFault(fired bool) string {
	if fired {
		return "(Some 0%nat)"
	}
	return "None"
}

func (w *vrWorld) coqRv2(fc types.V2FileContract) string {
	return fmt.Sprintf("(mkrv2 %d %d %d %d %d %d %d %d)", fc.RevisionNumber, fc.Filesize, fc.Capacity,
		w.hN(fc.FileMerkleRoot), fc.ProofHeight, fc.ExpirationHeight, w.kN(fc.RenterPublicKey), w.kN(fc.HostPublicKey))
}

func vrCoqAction(w *vrWorld, a contracts.SectorChange) string {
	switch a.Action {
	case contracts.SectorActionAppend:
		return fmt.Sprintf("Append %d", w.rN(a.Root))
	case contracts.SectorActionSwap:
		return fmt.Sprintf("Swap %d %d", a.A, a.B)
	case contracts.SectorActionTrim:
		return fmt.Sprintf("Trim %d", a.A)
	case contracts.SectorActionUpdate:
		return fmt.Sprintf("Update %d %d", w.rN(a.Root), a.A)
	}
	panic("unknown action")
}

// vrClass maps an error to the model's classes.
func vrClass(err error) string {
	switch {
	case err == nil:
		return "Ok tt"
	case errors.Is(err, contracts.ErrNotFound):
		return "Err ENotFound"
	case errors.Is(err, context.DeadlineExceeded):
		return "Err EInsufficient"
	case strings.Contains(err.Error(), "transaction failed"):
		return "Err EOther"
	default:
		return "Err EInvalid"
	}
}

// vrCall runs f, turning a panic of the code under test into the class "Panic".
func vrCall(f func() error) (cls string, err error, panicked any) {
	defer func() {
		if r := recover(); r != nil {
			cls, err, panicked = "Panic", fmt.Errorf("panic: %v", r), r
		}
	}()
	err = f()
	return vrClass(err), err, nil
}

// step records one operation with what the implementation did.  In a sessions case (sess > 0: the
// history is recorded for coq/Roots/Sess.v) a manager call is the call of the session that makes it.
func (w *vrWorld) step(op, obs string) {
	if w.sess > 0 {
		w.em.Step(fmt.Sprintf("SOp %d (%s)", w.sess, op), "SO ("+obs+")")
		return
	}
	w.em.Step(op, obs)
}

func (w *vrWorld) hit(sig, detail string) {
	if w.monitors {
		w.em.Monitor(sig, detail)
	}
}

func vrEq(a, b []types.Hash256) bool {
	if len(a) != len(b) {
		return false
	}
	for i := range a {
		if a[i] != b[i] {
			return false
		}
	}
	return true
}

func vrCopy(l []types.Hash256) []types.Hash256 { return append([]types.Hash256(nil), l...) }

// ---------------------------------------------------------------- observation

func (w *vrWorld) dbRoots(v2 bool) map[types.FileContractID][]types.Hash256 {
	var m map[types.FileContractID][]types.Hash256
	var err error
	if v2 {
		m, err = w.store.V2SectorRoots()
	} else {
		m, err = w.store.SectorRoots()
	}
	if err != nil {
		w.t.Fatal(err)
	}
	return m
}

func (w *vrWorld) entry(id types.FileContractID, v2 bool) vrSnapEntry {
	e := vrSnapEntry{db: w.dbRoots(v2)[id], cache: w.cm.SectorRoots(id)}
	if v2 {
		c, err := w.store.V2Contract(id)
		if err == nil {
			e.found, e.rev, e.fsize, e.mroot, e.to, e.from = true, c.RevisionNumber, c.Filesize, c.FileMerkleRoot, c.RenewedTo, c.RenewedFrom
		} else if !errors.Is(err, contracts.ErrNotFound) {
			w.t.Fatal(err)
		}
	} else {
		c, err := w.store.Contract(id)
		if err == nil {
			e.found, e.rev, e.fsize, e.mroot, e.to, e.from = true, c.Revision.RevisionNumber, c.Revision.Filesize, c.Revision.FileMerkleRoot, c.RenewedTo, c.RenewedFrom
		} else if !errors.Is(err, contracts.ErrNotFound) {
			w.t.Fatal(err)
		}
	}
	return e
}

// look records what host and store say about a contract and evaluates the C03 monitors.
func (w *vrWorld) look(id types.FileContractID, v2 bool) vrSnapEntry {
	e := w.entry(id, v2)
	opn := "Look1"
	if v2 {
		opn = "Look2"
	}
	w.step(fmt.Sprintf("%s %d", opn, w.cN(id)),
		fmt.Sprintf("OLook %s %s %s %d %d %d %s %s", coqBool(e.found), w.coqRoots(e.db), w.coqRoots(e.cache),
			e.rev, e.fsize, w.hN(e.mroot), w.coqOptCid(e.to), w.coqOptCid(e.from)))
	if e.found && !w.supers[id] {
		w.checkLive(id, e)
	}
	return e
}

// checkLive: the C03 predicate for a contract that has not been superseded by a renewal.
func (w *vrWorld) checkLive(id types.FileContractID, e vrSnapEntry) {
	n := w.cN(id)
	if !vrEq(e.db, e.cache) {
		w.hit("persisted-list-differs-from-served-list", fmt.Sprintf("contract %d: store %s, manager %s", n, w.coqRoots(e.db), w.coqRoots(e.cache)))
	}
	if want, ok := w.ref[id]; ok && !vrEq(e.cache, want) {
		w.hit("served-list-differs-from-accepted-modifications", fmt.Sprintf("contract %d: manager %s, accepted modifications give %s", n, w.coqRoots(e.cache), w.coqRoots(want)))
	}
	if want, ok := w.ref[id]; ok && !vrEq(e.db, want) {
		w.hit("persisted-list-differs-from-accepted-modifications", fmt.Sprintf("contract %d: store %s, accepted modifications give %s", n, w.coqRoots(e.db), w.coqRoots(want)))
	}
	if e.fsize != uint64(len(e.db))*rhp2.SectorSize {
		w.hit("filesize-differs-from-list-length", fmt.Sprintf("contract %d: filesize %d, %d roots", n, e.fsize, len(e.db)))
	}
	if e.mroot != rhp2.MetaRoot(e.db) {
		w.hit("merkle-root-differs-from-list", fmt.Sprintf("contract %d: revision root does not match the %d persisted roots", n, len(e.db)))
	}
}

func (w *vrWorld) snapshot() map[types.FileContractID]vrSnapEntry {
	m := map[types.FileContractID]vrSnapEntry{}
	for _, id := range w.order1 {
		m[id] = w.entry(id, false)
	}
	for _, id := range w.order2 {
		m[id] = w.entry(id, true)
	}
	return m
}

func vrSnapDiff(w *vrWorld, a, b map[types.FileContractID]vrSnapEntry) string {
	ids := make([]types.FileContractID, 0, len(a))
	for id := range a {
		ids = append(ids, id)
	}
	sort.Slice(ids, func(i, j int) bool { return w.cN(ids[i]) < w.cN(ids[j]) })
	for _, id := range ids {
		x, y := a[id], b[id]
		if x.found != y.found || !vrEq(x.db, y.db) || !vrEq(x.cache, y.cache) || x.rev != y.rev || x.fsize != y.fsize ||
			x.mroot != y.mroot || x.to != y.to || x.from != y.from {
			return fmt.Sprintf("contract %d: before {store %s, manager %s, rev %d, size %d, to %s} after {store %s, manager %s, rev %d, size %d, to %s}",
				w.cN(id), w.coqRoots(x.db), w.coqRoots(x.cache), x.rev, x.fsize, w.coqOptCid(x.to),
				w.coqRoots(y.db), w.coqRoots(y.cache), y.rev, y.fsize, w.coqOptCid(y.to))
		}
	}
	return ""
}

// ---------------------------------------------------------------- simple operations

func (w *vrWorld) storeSec(r types.Hash256) {
	if err := w.store.StoreSector(r, func(storage.SectorLocation) error { return nil }); err != nil {
		w.t.Fatal(err)
	}
	w.stored[r] = true
	w.step(fmt.Sprintf("StoreSec %d", w.rN(r)), "ORes (Ok tt)")
	w.em.Count("op:StoreSec")
}

// prune runs PruneSectors with a cut-off in the future and checks that no sector a
// contract references lost its slot.
func (w *vrWorld) prune() {
	type ref struct {
		id types.FileContractID
		r  types.Hash256
	}
	var held []ref
	for _, v2 := range []bool{false, true} {
		for id, l := range w.dbRoots(v2) {
			for r := range w.locatedSet(l) {
				held = append(held, ref{id, r})
			}
		}
	}
	if err := w.store.PruneSectors(context.Background(), time.Now().Add(time.Hour)); err != nil {
		w.t.Fatal(err)
	}
	w.step("Prune", "ORes (Ok tt)")
	w.em.Count("op:Prune")
	for _, h := range held {
		if _, err := w.store.SectorLocation(h.r); err != nil {
			w.hit("referenced-sector-pruned", fmt.Sprintf("root %d referenced by contract %d: %v", w.rN(h.r), w.cN(h.id), err))
		}
	}
}

func (w *vrWorld) located(r types.Hash256) bool {
	_, err := w.store.SectorLocation(r)
	ok := err == nil
	if err != nil && !errors.Is(err, storage.ErrSectorNotFound) {
		w.t.Fatal(err)
	}
	w.step(fmt.Sprintf("Located %d", w.rN(r)), "OBool "+coqBool(ok))
	return ok
}

// countSectors records the contract-sector metric (correspondence only: the metric is C05's).
func (w *vrWorld) countSectors() {
	m, err := w.store.Metrics(time.Now().Add(time.Hour))
	if err != nil {
		w.t.Fatal(err)
	}
	w.step("CountSectors", fmt.Sprintf("ONum %d", m.Storage.ContractSectors))
}

func (w *vrWorld) setHeight(h uint64) {
	w.chain.st.Index.Height = h
	w.step(fmt.Sprintf("SetHeight %d", h), "ORes (Ok tt)")
	w.em.Count("op:SetHeight")
}

// restart closes the database, reopens the file and builds a new manager; sessions die.
func (w *vrWorld) restart() {
	before := map[types.FileContractID][]types.Hash256{}
	for id := range w.ref {
		if !w.supers[id] {
			before[id] = w.cm.SectorRoots(id)
		}
	}
	if err := w.store.Close(); err != nil {
		w.t.Fatal(err)
	}
	w.store = vrOpenStore(w.t, w.path, false)
	w.newManager()
	w.upd = map[int]*vrUpd{}
	w.locked = map[types.FileContractID]bool{}
	w.step("Restart", "ORes (Ok tt)")
	w.em.Count("op:Restart")
	for id, l := range before {
		if got := w.cm.SectorRoots(id); !vrEq(got, l) {
			w.hit("restart-changes-served-list", fmt.Sprintf("contract %d: before %s after %s", w.cN(id), w.coqRoots(l), w.coqRoots(got)))
		}
	}
}

// ---------------------------------------------------------------- v1

func (w *vrWorld) newV1Rev(id types.FileContractID, uc types.UnlockConditions, rev, fsize uint64, mroot types.Hash256, ws uint64) contracts.SignedRevision {
	sr := contracts.SignedRevision{Revision: types.FileContractRevision{ParentID: id, UnlockConditions: uc,
		FileContract: types.FileContract{UnlockHash: uc.UnlockHash(), RevisionNumber: rev, Filesize: fsize,
			FileMerkleRoot: mroot, WindowStart: ws, WindowEnd: ws + 100}}}
	w.rng.Read(sr.HostSignature[:])
	w.rng.Read(sr.RenterSignature[:])
	return sr
}

func (w *vrWorld) freshID() types.FileContractID {
	var id types.FileContractID
	w.rng.Read(id[:])
	return id
}

func (w *vrWorld) form1(id types.FileContractID, ws uint64) *vrC1 {
	rk, hk := types.GeneratePrivateKey(), types.GeneratePrivateKey()
	uc := types.UnlockConditions{PublicKeys: []types.UnlockKey{rk.PublicKey().UnlockKey(), hk.PublicKey().UnlockKey()}, SignaturesRequired: 2}
	sr := w.newV1Rev(id, uc, 1, 0, types.Hash256{}, ws)
	cls, err, _ := vrCall(func() error { return w.cm.AddContract(sr, nil, types.ZeroCurrency, contracts.Usage{}) })
	w.step(fmt.Sprintf("Form1 %d 1 0 0 %d", w.cN(id), ws), "ORes ("+cls+")")
	w.em.Count("op:Form1:" + cls)
	if err != nil {
		return nil
	}
	c := &vrC1{id: id, uc: uc, cur: sr, window: ws}
	w.v1[id] = c
	w.order1 = append(w.order1, id)
	w.ref[id] = nil
	return c
}

func (w *vrWorld) lock1(id types.FileContractID) bool {
	ctx, cancel := context.WithTimeout(context.Background(), 3*time.Millisecond)
	defer cancel()
	cls, err, _ := vrCall(func() error { _, err := w.cm.Lock(ctx, id); return err })
	w.step(fmt.Sprintf("Lock1 %d", w.cN(id)), "ORes ("+cls+")")
	w.em.Count("op:Lock1:" + cls)
	if err == nil {
		w.locked[id] = true
		if w.supers[id] {
			w.hit("renewed-predecessor-accepts-lock", fmt.Sprintf("Manager.Lock succeeded on renewed contract %d", w.cN(id)))
		}
	}
	return err == nil
}

func (w *vrWorld) unlock1(id types.FileContractID) {
	cls, _, _ := vrCall(func() error { w.cm.Unlock(id); return nil })
	w.step(fmt.Sprintf("Unlock1 %d", w.cN(id)), "ORes ("+cls+")")
	w.em.Count("op:Unlock1")
	delete(w.locked, id)
}

// vrRevBuffer is Manager.revisionSubmissionBuffer of a manager built without options (the model's rev_buffer).
const vrRevBuffer = 144

// confirmable: a revision of the contract accepted at the current tip can still be confirmed before its
// proof window opens (isGoodForModification's height clause, recomputed here from the harness' own record
// of the window; WP-G).
func (w *vrWorld) confirmable(id types.FileContractID) bool {
	c := w.v1[id]
	return c == nil || w.chain.st.Index.Height+vrRevBuffer <= c.window
}

// lateAccepted: a revision the manager persisted although it can no longer be confirmed — the host's
// storage proof will be built for a revision the chain never sees (C06's consequence clause).
func (w *vrWorld) lateAccepted(what string, id types.FileContractID) {
	c := w.v1[id]
	w.hit("revision-accepted-after-last-confirmable-height", fmt.Sprintf("%s of contract %d accepted at height %d: window start %d, submission buffer %d",
		what, w.cN(id), w.chain.st.Index.Height, c.window, vrRevBuffer))
}

// open1 calls Manager.ReviseContract; -1 when the manager refuses (unknown contract, or — since
// fixes/C06-revise-guard-at-commit.patch — a contract that can no longer be revised).
func (w *vrWorld) open1(id types.FileContractID) int {
	var u *contracts.ContractUpdater
	cls, err, _ := vrCall(func() (err error) { u, err = w.cm.ReviseContract(id); return })
	slot := w.nextSlot
	w.nextSlot++
	w.step(fmt.Sprintf("Open1 %d %d", slot, w.cN(id)), "ORes ("+cls+")")
	w.em.Count("op:Open1:" + cls)
	if err != nil {
		if w.v1[id] != nil && w.confirmable(id) && !w.supers[id] && cls == "Err EInvalid" {
			w.hit("revisable-contract-refuses-updater", fmt.Sprintf("contract %d at height %d, window start %d: %v", w.cN(id), w.chain.st.Index.Height, w.v1[id].window, err))
		}
		return -1
	}
	w.upd[slot] = &vrUpd{id: id, u: u, list: vrCopy(w.ref[id])}
	return slot
}

// act applies one updater action; the reference list follows only accepted ones.
func (w *vrWorld) act(slot int, a contracts.SectorChange) bool {
	x := w.upd[slot]
	if x == nil { // the updater was refused (open1 returned -1): nothing to act on
		return false
	}
	cls, err, _ := vrCall(func() error {
		switch a.Action {
		case contracts.SectorActionAppend:
			x.u.AppendSector(a.Root)
			return nil
		case contracts.SectorActionSwap:
			return x.u.SwapSectors(a.A, a.B)
		case contracts.SectorActionTrim:
			return x.u.TrimSectors(a.A)
		default:
			return x.u.UpdateSector(a.Root, a.A)
		}
	})
	cur := x.u.SectorRoots()
	w.step(fmt.Sprintf("Act %d (%s)", slot, vrCoqAction(w, a)), fmt.Sprintf("OAct (%s) %s", cls, w.coqRoots(cur)))
	w.em.Count(fmt.Sprintf("act:%s:%s", a.Action, cls))
	if err == nil {
		// reference semantics of an accepted modification
		switch a.Action {
		case contracts.SectorActionAppend:
			x.list = append(x.list, a.Root)
		case contracts.SectorActionSwap:
			if a.A < uint64(len(x.list)) && a.B < uint64(len(x.list)) {
				x.list[a.A], x.list[a.B] = x.list[a.B], x.list[a.A]
			} else {
				w.hit("updater-accepts-out-of-range-swap", fmt.Sprintf("swap %d %d on %d roots", a.A, a.B, len(x.list)))
			}
		case contracts.SectorActionTrim:
			if a.A <= uint64(len(x.list)) {
				x.list = x.list[:uint64(len(x.list))-a.A]
			} else {
				w.hit("updater-accepts-out-of-range-trim", fmt.Sprintf("trim %d on %d roots", a.A, len(x.list)))
			}
		default:
			if a.A < uint64(len(x.list)) {
				x.list[a.A] = a.Root
			} else {
				w.hit("updater-accepts-out-of-range-update", fmt.Sprintf("update %d on %d roots", a.A, len(x.list)))
			}
		}
		if !vrEq(cur, x.list) {
			w.hit("updater-list-differs-from-accepted-actions", fmt.Sprintf("updater %s, accepted actions give %s", w.coqRoots(cur), w.coqRoots(x.list)))
		}
	}
	return err == nil
}

// commit1 commits the updater with a revision the way the RHP handlers build it: the size
// and Merkle root of the updater's list, the next revision number.  faultAt < 0: no fault.
func (w *vrWorld) commit1(slot int, faultAt int) (ok bool, fired bool) {
	x := w.upd[slot]
	if x == nil {
		return false, false
	}
	c := w.v1[x.id]
	cur := x.u.SectorRoots()
	next := w.newV1Rev(x.id, c.uc, c.cur.Revision.RevisionNumber+1+uint64(w.rng.Intn(3)), uint64(len(cur))*rhp2.SectorSize, x.u.MerkleRoot(), c.window)
	before := w.snapshot()
	if faultAt >= 0 {
		vrArm(faultAt)
	}
	cls, err, pv := vrCall(func() error { return x.u.Commit(next, contracts.Usage{}) })
	fired, seen := vrDisarm()
	w.step(fmt.Sprintf("Commit1 %d %d %d %d %s", slot, next.Revision.RevisionNumber, next.Revision.Filesize, w.hN(next.Revision.FileMerkleRoot), vrCoqFault(fired)),
		"ORes ("+cls+")")
	w.em.Count("op:Commit1:" + cls)
	if faultAt >= 0 {
		w.em.Count(fmt.Sprintf("fault:commit1:fired=%v", fired))
		if fired {
			w.em.Count(fmt.Sprintf("fault:commit1:at-statement-%02d", seen-1))
		}
	}
	if pv != nil {
		w.hit("panic-in-commit", fmt.Sprint(pv))
	}
	if fired && err == nil {
		w.hit("commit-succeeds-despite-store-failure", fmt.Sprintf("contract %d, failing statement %d; %s", w.cN(x.id), seen-1, vrFault.stack))
	}
	if err == nil {
		if !w.confirmable(x.id) {
			w.lateAccepted("a commit", x.id)
		}
		c.cur = next
		w.ref[x.id] = vrCopy(x.list)
		w.accepted++
	} else if d := vrSnapDiff(w, before, w.snapshot()); d != "" {
		w.hit("failed-commit-changes-state", d)
	}
	if err != nil {
		w.em.Count(fmt.Sprintf("op:Commit1:refused:confirmable=%v", w.confirmable(x.id)))
	}
	w.look(x.id, false)
	return err == nil, fired
}

func (w *vrWorld) close1(slot int) {
	if w.upd[slot] == nil {
		return
	}
	w.upd[slot].u.Close()
	delete(w.upd, slot)
	w.step(fmt.Sprintf("Close1 %d", slot), "ORes (Ok tt)")
	w.em.Count("op:Close1")
}

type vrRenewBad int

const (
	vrRenewOK vrRenewBad = iota
	vrRenewNotClearedRoot
	vrRenewNotClearedSize
	vrRenewNotMaxRev
	vrRenewWrongSize
	vrRenewWrongRoot
	vrRenewDuplicateID
)

// renew1 calls Manager.RenewContract(old -> fresh id); bad selects a malformed variant.
func (w *vrWorld) renew1(old types.FileContractID, bad vrRenewBad, faultAt int) (newID types.FileContractID, ok bool) {
	c := w.v1[old]
	exRoots := w.cm.SectorRoots(old)
	clearing := w.newV1Rev(old, c.uc, types.MaxRevisionNumber, 0, types.Hash256{}, c.window)
	newID = w.freshID()
	nws := c.window + 200 + uint64(w.rng.Intn(50))
	renewal := w.newV1Rev(newID, c.uc, 1, uint64(len(exRoots))*rhp2.SectorSize, rhp2.MetaRoot(exRoots), nws)
	switch bad {
	case vrRenewNotClearedRoot:
		clearing.Revision.FileMerkleRoot = rhp2.MetaRoot(exRoots)
		if clearing.Revision.FileMerkleRoot == (types.Hash256{}) {
			clearing.Revision.FileMerkleRoot = types.Hash256{1}
		}
	case vrRenewNotClearedSize:
		clearing.Revision.Filesize = rhp2.SectorSize
	case vrRenewNotMaxRev:
		clearing.Revision.RevisionNumber = c.cur.Revision.RevisionNumber + 1
	case vrRenewWrongSize:
		renewal.Revision.Filesize += rhp2.SectorSize
	case vrRenewWrongRoot:
		renewal.Revision.FileMerkleRoot = types.Hash256{0xee, byte(w.rng.Intn(256))}
	case vrRenewDuplicateID:
		newID = w.order1[w.rng.Intn(len(w.order1))]
		renewal.Revision.ParentID = newID
	}
	mold := rhp2.MetaRoot(exRoots)
	before := w.snapshot()
	oldBefore := before[old]
	oldBefore.located = w.locatedSet(oldBefore.db)
	if faultAt >= 0 {
		vrArm(faultAt)
	}
	cls, err, pv := vrCall(func() error {
		return w.cm.RenewContract(renewal, clearing, nil, types.ZeroCurrency, contracts.Usage{}, contracts.Usage{})
	})
	fired, seen := vrDisarm()
	w.step(fmt.Sprintf("Renew1 %d %d %d %d %d %d %d %d %d %d %s", w.cN(old), w.cN(newID),
		clearing.Revision.RevisionNumber, clearing.Revision.Filesize, w.hN(clearing.Revision.FileMerkleRoot),
		renewal.Revision.RevisionNumber, renewal.Revision.Filesize, w.hN(renewal.Revision.FileMerkleRoot), nws, w.hN(mold), vrCoqFault(fired)),
		"ORes ("+cls+")")
	w.em.Count(fmt.Sprintf("op:Renew1:variant=%d:%s", bad, cls))
	if faultAt >= 0 {
		w.em.Count(fmt.Sprintf("fault:renew1:fired=%v", fired))
		if fired {
			w.em.Count(fmt.Sprintf("fault:renew1:at-statement-%02d", seen-1))
		}
	}
	if pv != nil {
		w.hit("panic-in-renewal", fmt.Sprint(pv))
	}
	if err == nil && (bad != vrRenewOK || fired) {
		w.hit("malformed-or-failed-renewal-accepted", fmt.Sprintf("v1 renewal variant %d fault fired %v accepted", bad, fired))
	}
	if err != nil {
		if d := vrSnapDiff(w, before, w.snapshot()); d != "" {
			w.hit("failed-renewal-changes-state", d)
		}
		w.look(old, false)
		return newID, false
	}
	w.accepted++
	if !w.confirmable(old) {
		w.lateAccepted("a renewal (clearing revision)", old)
	}
	nc := &vrC1{id: newID, uc: c.uc, cur: renewal, window: nws}
	w.v1[newID] = nc
	w.order1 = append(w.order1, newID)
	w.ref[newID] = vrCopy(w.ref[old])
	w.supers[old] = true
	c.cur = clearing
	w.checkHandover(old, newID, oldBefore, false)
	return newID, true
}

// checkHandover: the C13 predicate right after an accepted renewal old -> new.
func (w *vrWorld) checkHandover(old, newID types.FileContractID, oldBefore vrSnapEntry, v2 bool) {
	o := w.look(old, v2)
	n := w.look(newID, v2)
	on, nn := w.cN(old), w.cN(newID)
	if !n.found {
		w.hit("successor-missing-after-renewal", fmt.Sprintf("contract %d", nn))
		return
	}
	if !vrEq(n.db, oldBefore.db) || !vrEq(n.cache, oldBefore.db) {
		w.hit("successor-list-differs-from-predecessor", fmt.Sprintf("predecessor %d had %s; successor %d: store %s, manager %s", on, w.coqRoots(oldBefore.db), nn, w.coqRoots(n.db), w.coqRoots(n.cache)))
	}
	if n.fsize != oldBefore.fsize || n.mroot != oldBefore.mroot {
		w.hit("successor-size-or-root-differs-from-predecessor", fmt.Sprintf("predecessor %d size %d; successor %d size %d; roots equal: %v", on, oldBefore.fsize, nn, n.fsize, n.mroot == oldBefore.mroot))
	}
	if o.to != newID || n.from != old {
		w.hit("renewal-links-not-mutual", fmt.Sprintf("predecessor %d renewed_to %s; successor %d renewed_from %s", on, w.coqOptCid(o.to), nn, w.coqOptCid(n.from)))
	}
	if !v2 && o.rev != types.MaxRevisionNumber {
		w.hit("predecessor-not-at-max-revision", fmt.Sprintf("contract %d revision %d", on, o.rev))
	}
	for _, r := range oldBefore.db {
		if oldBefore.located[r] {
			if _, err := w.store.SectorLocation(r); err != nil {
				w.hit("handed-over-sector-not-stored", fmt.Sprintf("root %d of successor %d: %v", w.rN(r), nn, err))
			}
		}
	}
}

// locatedSet: which of the roots have a volume slot right now.
func (w *vrWorld) locatedSet(l []types.Hash256) map[types.Hash256]bool {
	m := map[types.Hash256]bool{}
	for _, r := range l {
		if _, err := w.store.SectorLocation(r); err == nil {
			m[r] = true
		}
	}
	return m
}

// ---------------------------------------------------------------- v2

func (w *vrWorld) signV2(c *vrC2, fc *types.V2FileContract) {
	h := w.chain.st.ContractSigHash(*fc)
	fc.RenterSignature = c.rk.SignHash(h)
	fc.HostSignature = c.hk.SignHash(h)
}

func (w *vrWorld) form2(proofHeight uint64) *vrC2 {
	c := &vrC2{rk: types.GeneratePrivateKey(), hk: types.GeneratePrivateKey()}
	w.nonce++
	fc := types.V2FileContract{ProofHeight: proofHeight, ExpirationHeight: proofHeight + 100, RevisionNumber: 0,
		RenterPublicKey: c.rk.PublicKey(), HostPublicKey: c.hk.PublicKey(), TotalCollateral: types.NewCurrency64(w.nonce)}
	w.signV2(c, &fc)
	txn := types.V2Transaction{FileContracts: []types.V2FileContract{fc}}
	id := txn.V2FileContractID(txn.ID(), 0)
	cls, err, _ := vrCall(func() error {
		return w.cm.AddV2Contract(rhp4.TransactionSet{Transactions: []types.V2Transaction{txn}}, proto4.Usage{})
	})
	w.step(fmt.Sprintf("Form2 %d %s", w.cN(id), w.coqRv2(fc)), "ORes ("+cls+")")
	w.em.Count("op:Form2:" + cls)
	if err != nil {
		return nil
	}
	c.id, c.cur = id, fc
	w.v2[id] = c
	w.order2 = append(w.order2, id)
	w.ref[id] = nil
	return c
}

type vrRev2Bad int

const (
	vrRev2OK vrRev2Bad = iota
	vrRev2WrongSize
	vrRev2SmallCapacity
	vrRev2WrongRoot
	vrRev2BadRenterSig
	vrRev2BadHostSig
	vrRev2WrongRenterKey
	vrRev2WrongProofHeight
	vrRev2WrongExpiration
)

// revise2 calls Manager.ReviseV2Contract with newRoots and a revision built the way the RHP4
// server builds it (bad selects a malformed variant).
func (w *vrWorld) revise2(id types.FileContractID, newRoots []types.Hash256, bad vrRev2Bad, faultAt int) bool {
	c := w.v2[id]
	fc := c.cur
	fc.RevisionNumber++
	fc.Filesize = uint64(len(newRoots)) * rhp2.SectorSize
	if fc.Capacity < fc.Filesize {
		fc.Capacity = fc.Filesize
	}
	fc.FileMerkleRoot = rhp2.MetaRoot(newRoots)
	switch bad {
	case vrRev2WrongSize:
		fc.Filesize += rhp2.SectorSize
		fc.Capacity += rhp2.SectorSize
	case vrRev2SmallCapacity:
		if fc.Filesize == 0 {
			bad = vrRev2OK
		} else {
			fc.Capacity = fc.Filesize - 1
		}
	case vrRev2WrongRoot:
		fc.FileMerkleRoot = types.Hash256{0xdd, byte(w.rng.Intn(256))}
	case vrRev2WrongRenterKey:
		fc.RenterPublicKey = types.GeneratePrivateKey().PublicKey()
	case vrRev2WrongProofHeight:
		fc.ProofHeight++
	case vrRev2WrongExpiration:
		fc.ExpirationHeight++
	}
	w.signV2(c, &fc)
	switch bad {
	case vrRev2BadRenterSig:
		fc.RenterSignature[5] ^= 0x40
	case vrRev2BadHostSig:
		fc.HostSignature[7] ^= 0x40
	}
	sigHash := w.chain.st.ContractSigHash(fc)
	rsig := fc.RenterPublicKey.VerifyHash(sigHash, fc.RenterSignature)
	hsig := fc.HostPublicKey.VerifyHash(sigHash, fc.HostSignature)
	before := w.snapshot()
	if faultAt >= 0 {
		vrArm(faultAt)
	}
	cls, err, pv := vrCall(func() error { return w.cm.ReviseV2Contract(id, fc, vrCopy(newRoots), proto4.Usage{}) })
	fired, seen := vrDisarm()
	w.step(fmt.Sprintf("Revise2 %d %s %s %d %s %s %s", w.cN(id), w.coqRv2(fc), w.coqRoots(newRoots), w.hN(rhp2.MetaRoot(newRoots)),
		coqBool(rsig), coqBool(hsig), vrCoqFault(fired)), "ORes ("+cls+")")
	w.em.Count(fmt.Sprintf("op:Revise2:variant=%d:%s", bad, cls))
	if faultAt >= 0 {
		w.em.Count(fmt.Sprintf("fault:revise2:fired=%v", fired))
		if fired {
			w.em.Count(fmt.Sprintf("fault:revise2:at-statement-%02d", seen-1))
		}
	}
	if pv != nil {
		w.hit("panic-in-v2-revision", fmt.Sprint(pv))
	}
	if err == nil {
		if bad != vrRev2OK || fired {
			w.hit("malformed-or-failed-v2-revision-accepted", fmt.Sprintf("contract %d variant %d fault fired %v", w.cN(id), bad, fired))
		}
		if w.supers[id] {
			w.hit("renewed-predecessor-accepts-revision", fmt.Sprintf("ReviseV2Contract accepted on renewed contract %d", w.cN(id)))
		}
		c.cur = fc
		w.ref[id] = vrCopy(newRoots)
		w.accepted++
	} else if d := vrSnapDiff(w, before, w.snapshot()); d != "" {
		w.hit("failed-revision-changes-state", d)
	}
	w.look(id, true)
	return err == nil
}

type vrRenew2Bad int

const (
	vrRenew2OK vrRenew2Bad = iota
	vrRenew2WrongSize
	vrRenew2WrongCapacity
	vrRenew2WrongRoot
	vrRenew2NoTxns
	vrRenew2NoResolution
	vrRenew2NotARenewal
	vrRenew2UnknownParent
)

// renew2 calls Manager.RenewV2Contract; refresh keeps the heights, renew extends them.
func (w *vrWorld) renew2(old types.FileContractID, refresh bool, bad vrRenew2Bad, faultAt int) (newID types.FileContractID, ok bool) {
	c := w.v2[old]
	exRoots := w.cm.SectorRoots(old)
	fc := c.cur
	fc.RevisionNumber = 0
	if !refresh {
		fc.ProofHeight += 150
		fc.ExpirationHeight += 150
	}
	w.nonce++
	fc.TotalCollateral = types.NewCurrency64(w.nonce)
	switch bad {
	case vrRenew2WrongSize:
		fc.Filesize += rhp2.SectorSize
	case vrRenew2WrongCapacity:
		fc.Capacity += rhp2.SectorSize
	case vrRenew2WrongRoot:
		fc.FileMerkleRoot = types.Hash256{0xcc, byte(w.rng.Intn(256))}
	}
	w.signV2(c, &fc)
	parent := old
	if bad == vrRenew2UnknownParent {
		parent = w.freshID()
	}
	newID = parent.V2RenewalID()
	res := types.V2FileContractResolution{Parent: types.V2FileContractElement{ID: parent, V2FileContract: c.cur},
		Resolution: &types.V2FileContractRenewal{NewContract: fc}}
	set := rhp4.TransactionSet{Transactions: []types.V2Transaction{{FileContractResolutions: []types.V2FileContractResolution{res}}}}
	wf := true
	switch bad {
	case vrRenew2NoTxns:
		set.Transactions, wf = nil, false
	case vrRenew2NoResolution:
		set.Transactions[0].FileContractResolutions, wf = nil, false
	case vrRenew2NotARenewal:
		set.Transactions[0].FileContractResolutions[0].Resolution, wf = &types.V2FileContractExpiration{}, false
	}
	mold := rhp2.MetaRoot(w.cm.SectorRoots(parent))
	before := w.snapshot()
	oldBefore := before[old]
	oldBefore.located = w.locatedSet(oldBefore.db)
	if faultAt >= 0 {
		vrArm(faultAt)
	}
	cls, err, pv := vrCall(func() error { return w.cm.RenewV2Contract(set, proto4.Usage{}) })
	fired, seen := vrDisarm()
	w.step(fmt.Sprintf("Renew2 %d %d %s %d %s %s", w.cN(parent), w.cN(newID), w.coqRv2(fc), w.hN(mold), coqBool(wf), vrCoqFault(fired)),
		"ORes ("+cls+")")
	kind := "renew"
	if refresh {
		kind = "refresh"
	}
	w.em.Count(fmt.Sprintf("op:Renew2:%s:variant=%d:%s", kind, bad, cls))
	if faultAt >= 0 {
		w.em.Count(fmt.Sprintf("fault:renew2:fired=%v", fired))
		if fired {
			w.em.Count(fmt.Sprintf("fault:renew2:at-statement-%02d", seen-1))
		}
	}
	if pv != nil {
		w.hit("panic-in-renewal", fmt.Sprint(pv))
	}
	if err == nil && (bad != vrRenew2OK || fired) {
		w.hit("malformed-or-failed-renewal-accepted", fmt.Sprintf("v2 renewal variant %d fault fired %v accepted", bad, fired))
	}
	if err == nil && w.supers[old] {
		w.hit("renewed-predecessor-renewed-again", fmt.Sprintf("contract %d", w.cN(old)))
	}
	if err != nil {
		if d := vrSnapDiff(w, before, w.snapshot()); d != "" {
			w.hit("failed-renewal-changes-state", d)
		}
		w.look(old, true)
		return newID, false
	}
	w.accepted++
	nc := &vrC2{id: newID, rk: c.rk, hk: c.hk, cur: fc}
	w.v2[newID] = nc
	w.order2 = append(w.order2, newID)
	w.ref[newID] = vrCopy(w.ref[old])
	w.supers[old] = true
	_ = exRoots
	w.checkHandover(old, newID, oldBefore, true)
	return newID, true
}

// lock2 records LockV2Contract (and releases the lock) and checks what a renewed contract reports.
func (w *vrWorld) lock2(id types.FileContractID) {
	var st rhp4.RevisionState
	cls, err, _ := vrCall(func() error {
		s, unlock, err := w.cm.LockV2Contract(id)
		if err == nil {
			unlock()
			st = s
		}
		return err
	})
	w.noteLock2(id, st, cls, err)
}

// lock2Waiting: a second caller is already waiting in LockV2Contract(id) while the holder of
// the lock runs `during` (a renewal, as the RHP4 server does under the contract's lock); what the
// waiter is handed after the holder's unlock is the state at that moment, i.e. after `during`.
func (w *vrWorld) lock2Waiting(id types.FileContractID, during func()) {
	_, unlock, err := w.cm.LockV2Contract(id)
	if err != nil {
		during()
		return
	}
	type res struct {
		st  rhp4.RevisionState
		cls string
		err error
	}
	got := make(chan res, 1)
	go func() {
		var st rhp4.RevisionState
		cls, err, _ := vrCall(func() error {
			s, u, err := w.cm.LockV2Contract(id)
			if err == nil {
				u()
				st = s
			}
			return err
		})
		got <- res{st, cls, err}
	}()
	// the waiter is registered in the manager's lock table before the holder goes on
	for deadline, i := time.Now().Add(20*time.Second), 0; w.cm.VerifC03LockWaiters(id) < 1; i++ {
		if time.Now().After(deadline) {
			w.t.Fatalf("lock2Waiting: the second caller of contract %d never showed up in the lock table", w.cN(id))
		}
		if i < 200 {
			runtime.Gosched()
		} else {
			time.Sleep(50 * time.Microsecond)
		}
	}
	during()
	unlock()
	r := <-got
	w.em.Count("op:Lock2:waited-through-renewal")
	w.noteLock2(id, r.st, r.cls, r.err)
}

func (w *vrWorld) noteLock2(id types.FileContractID, st rhp4.RevisionState, cls string, err error) {
	obs := "OLock2 (" + cls + ")"
	if err == nil {
		obs = fmt.Sprintf("OLock2 (Ok (%d, %s, %s, %s))", st.Revision.RevisionNumber, coqBool(st.Renewed), coqBool(st.Revisable), w.coqRoots(st.Roots))
	}
	w.step(fmt.Sprintf("Lock2 %d", w.cN(id)), obs)
	w.em.Count("op:Lock2:" + cls)
	if err == nil {
		if w.supers[id] && (!st.Renewed || st.Revisable) {
			w.hit("renewed-predecessor-reports-revisable", fmt.Sprintf("contract %d: Renewed=%v Revisable=%v", w.cN(id), st.Renewed, st.Revisable))
		}
		if !w.supers[id] {
			if st.Renewed {
				w.hit("live-contract-reports-renewed", fmt.Sprintf("contract %d", w.cN(id)))
			}
			if want, ok := w.ref[id]; ok && !vrEq(st.Roots, want) {
				w.hit("served-list-differs-from-accepted-modifications", fmt.Sprintf("contract %d: LockV2Contract roots %s, accepted modifications give %s", w.cN(id), w.coqRoots(st.Roots), w.coqRoots(want)))
			}
		}
	}
}

// ---------------------------------------------------------------- generators shared by C03 and C13

func (w *vrWorld) poolRoot() types.Hash256 { return w.roots[w.rng.Intn(len(w.roots))] }

// randAction draws an updater action for a list of length n: mostly valid, boundary dense.
func (w *vrWorld) randAction(n int) contracts.SectorChange {
	if w.lastTrim && w.rng.Intn(2) == 0 { // trim followed by append within one commit
		w.lastTrim = false
		return contracts.SectorChange{Action: contracts.SectorActionAppend, Root: w.poolRoot()}
	}
	a := w.randAction0(n)
	w.lastTrim = a.Action == contracts.SectorActionTrim && a.A > 0
	return a
}

func (w *vrWorld) randAction0(n int) contracts.SectorChange {
	idx := func() uint64 {
		switch r := w.rng.Intn(12); {
		case n > 0 && r < 8:
			return uint64(w.rng.Intn(n))
		case r < 9:
			return uint64(n) // one past the end
		case r < 10 && n > 0:
			return uint64(n - 1)
		case r < 11:
			return 0
		default:
			return uint64(n + 1 + w.rng.Intn(3))
		}
	}
	switch r := w.rng.Intn(20); {
	case r < 8 || n == 0 && r < 14:
		return contracts.SectorChange{Action: contracts.SectorActionAppend, Root: w.poolRoot()}
	case r < 12:
		a := idx()
		b := idx()
		if w.rng.Intn(4) == 0 {
			b = a // equal indices
		}
		return contracts.SectorChange{Action: contracts.SectorActionSwap, A: a, B: b}
	case r < 16:
		var k uint64
		switch q := w.rng.Intn(8); {
		case q < 4:
			k = uint64(w.rng.Intn(n/2 + 1))
		case q < 6:
			k = uint64(n) // to zero
		case q < 7:
			k = 0
		default:
			k = uint64(n + 1)
		}
		return contracts.SectorChange{Action: contracts.SectorActionTrim, A: k}
	default:
		return contracts.SectorChange{Action: contracts.SectorActionUpdate, Root: w.poolRoot(), A: idx()}
	}
}

// editList derives a new v2 root list from cur: append, swap, trim, update, free, replace.
func (w *vrWorld) editList(cur []types.Hash256) []types.Hash256 {
	l := vrCopy(cur)
	for k := 1 + w.rng.Intn(3); k > 0; k-- {
		switch r := w.rng.Intn(14); {
		case r < 5 || len(l) == 0 && r < 10:
			l = append(l, w.poolRoot())
			w.em.Count("v2edit:append")
		case r < 7 && len(l) > 0:
			a, b := w.rng.Intn(len(l)), w.rng.Intn(len(l))
			l[a], l[b] = l[b], l[a]
			w.em.Count("v2edit:swap")
		case r < 9 && len(l) > 0:
			n := w.rng.Intn(len(l) + 1)
			if w.rng.Intn(4) == 0 {
				n = len(l)
			}
			l = l[:len(l)-n]
			w.em.Count("v2edit:trim")
		case r < 11 && len(l) > 0:
			l[w.rng.Intn(len(l))] = w.poolRoot()
			w.em.Count("v2edit:update")
		case r < 12 && len(l) > 0: // free: swap with the last, trim one
			i := w.rng.Intn(len(l))
			l[i] = l[len(l)-1]
			l = l[:len(l)-1]
			w.em.Count("v2edit:free")
		case r < 13:
			l = nil
			for i := w.rng.Intn(5); i > 0; i-- {
				l = append(l, w.poolRoot())
			}
			w.em.Count("v2edit:replace")
		default:
			w.em.Count("v2edit:none")
		}
	}
	return l
}

// setup forms n1 v1 and n2 v2 contracts and stores all pool roots but the last `missing`.
func (w *vrWorld) setup(n1, n2, missing int) {
	for i := 0; i < len(w.roots)-missing; i++ {
		w.storeSec(w.roots[i])
	}
	for i := 0; i < n1; i++ {
		w.form1(w.freshID(), 1000+uint64(w.rng.Intn(3))*100)
	}
	for i := 0; i < n2; i++ {
		w.form2(1000 + uint64(w.rng.Intn(3))*100)
	}
}

// faultAt draws the index of the statement to fail (or -1) for an operation that runs
// roughly `approx` statements.
func (w *vrWorld) faultAt(prob float64, approx int) int {
	if w.rng.Float64() >= prob {
		return -1
	}
	return w.rng.Intn(approx + 2)
}

// finalLooks observes every contract once more (and after a restart).
func (w *vrWorld) finalLooks() {
	w.countSectors()
	for _, id := range w.order1 {
		w.look(id, false)
	}
	for _, id := range w.order2 {
		w.look(id, true)
	}
}

// resolveOnChain: the chain confirms every live contract and resolves about half of them (storage
// proof / missed proof, v2: resolution or expiration) while their proof windows are still open:
// rows, signed revisions and sector lists stay exactly as they are — a resolved contract keeps
// its sectors until they expire — so the looks and the restart that follow must see the same lists.
// (Not a model step: the model has no chain status.)
func (w *vrWorld) resolveOnChain() {
	var sc1, sc2 contracts.StateChanges
	n := 0
	for _, id := range w.order1 {
		if w.supers[id] {
			continue
		}
		sc1.Confirmed = append(sc1.Confirmed, types.FileContractElement{ID: id})
		switch w.rng.Intn(4) {
		case 0:
			sc2.Successful = append(sc2.Successful, id)
			n++
		case 1:
			sc2.Failed = append(sc2.Failed, id)
			n++
		}
	}
	for _, id := range w.order2 {
		c := w.v2[id]
		if w.supers[id] || c == nil {
			continue
		}
		sc1.ConfirmedV2 = append(sc1.ConfirmedV2, types.V2FileContractElement{ID: id, StateElement: types.StateElement{LeafIndex: w.cN(id)}, V2FileContract: c.cur})
		switch w.rng.Intn(4) {
		case 0:
			sc2.SuccessfulV2 = append(sc2.SuccessfulV2, id)
			n++
		case 1:
			sc2.FailedV2 = append(sc2.FailedV2, id)
			n++
		}
	}
	for k, sc := range []contracts.StateChanges{sc1, sc2} {
		idx := types.ChainIndex{Height: uint64(5 + k), ID: types.BlockID{0xc3, byte(k)}}
		_, err, pan := vrCall(func() error {
			return w.store.UpdateChainState(func(tx index.UpdateTx) error { return tx.ApplyContracts(idx, sc) })
		})
		if err != nil || pan != nil {
			w.em.Count("resolve-on-chain:refused")
			return
		}
	}
	w.em.Count(fmt.Sprintf("resolve-on-chain:resolved=%d", n))
}

// rejectUnconfirmed: RejectContracts at a height far above every negotiation height.  Recorded as the
// model's [Reject ids] with the ids the store reports as rejected (WP-Y: since /repo 7f58b1d the manager's v2
// path reads the rejected status, so it is part of the model's database).
func (w *vrWorld) rejectUnconfirmed() bool {
	var v1, v2 []types.FileContractID
	_, err, pan := vrCall(func() error {
		return w.store.UpdateChainState(func(tx index.UpdateTx) error {
			var err error
			v1, v2, err = tx.RejectContracts(1 << 40)
			return err
		})
	})
	ok := err == nil && pan == nil
	w.em.Count(fmt.Sprintf("reject-unconfirmed:ok=%v", ok))
	if ok {
		var ids []string
		for _, id := range append(append([]types.FileContractID(nil), v1...), v2...) {
			ids = append(ids, fmt.Sprint(w.cN(id)))
		}
		sort.Strings(ids)
		w.step("Reject ["+strings.Join(ids, "; ")+"]", "ORes (Ok tt)")
	}
	return ok
}

func proto4Usage() proto4.Usage { return proto4.Usage{} }
