//go:build verif

package sqlite

// C08 — the batched loops of the store, one committed transaction at a time.
//
// Store.RemoveVolume, ExpireContractSectors, ExpireV2ContractSectors, ExpireTempSectors,
// PruneSectors and MigrateSectors are loops of transactions with a pause between them.  This
// harness opens the real store on a hookable database/sql driver (verif_c08_driver_test.go)
// whose callback runs exactly BETWEEN two transactions of such a loop.  There it
//
//   - records the transaction that has just committed as ONE model operation (RemoveBatch,
//     RemoveFinal, ExpireBatch, ExpireTempBatch, PruneBatch, MigrateTx of coq/Storage/Batch.v)
//     with the rows SQLite chose, read back from the tables,
//   - runs the SQL recount monitor and records a snapshot (the state a crash would leave),
//   - optionally performs another Store call (a sector write landing on the volume that is
//     being removed, a grow, a revision ...) or makes the next BeginTx / the k-th database call
//     fail, so that the loop is cut after the batches committed so far.
//
// A cut operation is retried later (recorded as the ATOMIC operation of Model.v, which the Coq
// development proves equal to the rest of the loop) and the final state is compared with the
// uninterrupted run of a twin store.

import (
	"context"
	"errors"
	"fmt"
	"os"
	"path/filepath"
	"sort"
	"strings"
	"sync"
	"testing"
	"time"

	"go.sia.tech/core/types"
	"go.sia.tech/hostd/v2/host/storage"
	"go.uber.org/zap"
)

// c08Plan says what happens between the transactions of the next batched operation.
type c08Plan struct {
	cutAt   int            // make the BeginTx of transaction #cutAt (1-based count of committed ones) fail; 0: never
	cutCall int            // make database call #cutCall fail; <0: never
	inter   map[int]func() // a Store call made after n transactions have committed
}

type c08Batch struct {
	ctl   *c08Ctl
	b     int      // sqlSectorBatchSize of this build
	plan  *c08Plan // plan of the next batched operation (consumed by it)
	auto  bool     // generated mode: draw a plan for every batched operation
	quiet int      // >0: no plan (the reclaim monitor needs undisturbed loops)
	sparse  bool // large worlds: snapshots only where asked for
	// set by a directed case: the next total-counter divergence is the shrink-after-cut finding
	unsafeShrink bool
	lastCalls    int // database calls of the last hooked operation
	atomic       int   // >0: batched calls are made un-hooked and recorded as atomic operations
	sv           int64 // the volume a scenario works on
}

// batched: the next multi-transaction call is run on the hook and recorded transaction by
// transaction (always in directed cases, mostly in generated ones); otherwise it is recorded as
// the atomic operation of Model.v, which BatchProofs.v proves equal to the loop
func (w *c08World) batched() bool {
	if w.bt == nil || w.bt.atomic > 0 {
		return false
	}
	if w.bt.auto && w.bt.quiet == 0 && w.bt.plan == nil && w.rng.Intn(4) == 0 {
		w.count("op:batched-call-recorded-as-atomic")
		return false
	}
	return true
}

// retryCut: generated mode, an operation that was cut is retried at once half of the time
// (hooked again, or recorded as the atomic operation); otherwise the sequence goes on with the
// half-done state and a later call may or may not complete it
func (w *c08World) retryCut() bool {
	if !w.bt.auto || w.rng.Intn(2) == 0 {
		return false
	}
	w.count("retry-after-cut")
	return true
}

func (w *c08World) atomically(f func()) {
	w.bt.atomic++
	defer func() { w.bt.atomic-- }()
	f()
}

// volGapped: the slot indices of the volume are not 0..n-1 (a removal of it was cut)
func (w *c08World) volGapped(id int64) bool {
	sl := w.slotsOf(id)
	for i := uint64(0); i < uint64(len(sl)); i++ {
		if _, ok := sl[i]; !ok {
			return true
		}
	}
	return false
}

// conGapped: the contract's root_index values are not 0..n-1 (its expiry was cut after a batch).
// Revisions of such a contract address rows by root_index and are outside the model.
func (w *c08World) conGapped(c *c08Contract) bool {
	if w.bt == nil {
		return false
	}
	for i, idx := range w.rootRows(c.v2)[c.num] {
		if idx != int64(i) {
			return true
		}
	}
	return false
}

func c08IsInjected(err error) bool { return err != nil && errors.Is(err, errC08Injected) }

// hooked runs a multi-transaction store call; commit() is called after every committed
// transaction of it (between two transactions), resync() after an interleaved call.
func (w *c08World) hooked(call func() error, commit, resync func()) (err error, panicked, injected bool, ntx int) {
	plan := w.bt.plan
	w.bt.plan = nil
	failCall := -1
	if plan != nil {
		failCall = plan.cutCall
	}
	w.bt.ctl.Arm(failCall, func(n int) error {
		if n == 0 {
			return nil
		}
		ntx = n
		commit()
		if plan != nil {
			if f := plan.inter[n]; f != nil {
				f()
				resync()
			}
			if plan.cutAt == n {
				return errC08Injected
			}
		}
		return nil
	})
	err, panicked = c08Call(call)
	_, calls, fired := w.bt.ctl.Disarm()
	w.bt.lastCalls = calls
	injected = fired && c08IsInjected(err)
	return
}

// drawPlan: generated mode, the plan of one batched operation
func (w *c08World) drawPlan() (cut bool) {
	bt := w.bt
	if !bt.auto || bt.quiet > 0 || bt.plan != nil {
		return false
	}
	p := &c08Plan{cutCall: -1, inter: map[int]func(){}}
	switch x := w.rng.Intn(100); {
	case x < 25:
		p.cutAt = 1 + w.rng.Intn(3)
		cut = true
	case x < 35:
		p.cutCall = w.rng.Intn(24)
		cut = true
	case x < 65:
		n := 1 + w.rng.Intn(3)
		p.inter[n] = func() { w.simpleOp() }
		if w.rng.Intn(3) == 0 {
			p.cutAt = n + 1 + w.rng.Intn(2)
			cut = true
		}
	default:
		return false
	}
	bt.plan = p
	return
}

// ---------------------------------------------------------------- table readers

func (w *c08World) slotsOf(id int64) map[uint64]int {
	out := map[uint64]int{}
	for _, s := range w.slots() {
		if s.vol == id {
			out[s.idx] = s.root
		}
	}
	return out
}

// rootRows: per contract number the root_index values of its rows, ascending
func (w *c08World) rootRows(v2 bool) map[int][]int64 {
	q := `SELECT c.contract_id, r.root_index FROM contract_sector_roots r INNER JOIN contracts c ON r.contract_id=c.id ORDER BY c.id, r.root_index`
	if v2 {
		q = `SELECT c.contract_id, r.root_index FROM contract_v2_sector_roots r INNER JOIN contracts_v2 c ON r.contract_id=c.id ORDER BY c.id, r.root_index`
	}
	rows, err := w.db.db.Query(q)
	if err != nil {
		w.fatalf("root rows: %v", err)
	}
	defer rows.Close()
	byID := map[types.FileContractID]int{}
	for _, c := range w.cons {
		if c.v2 == v2 {
			byID[c.id] = c.num
		}
	}
	out := map[int][]int64{}
	for rows.Next() {
		var id types.FileContractID
		var idx int64
		if err := rows.Scan(decode(&id), &idx); err != nil {
			w.fatalf("root rows scan: %v", err)
		}
		num, ok := byID[id]
		if !ok {
			w.fatalf("root rows: unknown contract %v", id)
		}
		out[num] = append(out[num], idx)
	}
	return out
}

func (w *c08World) tempRows() (ids []int64) {
	rows, err := w.db.db.Query(`SELECT id FROM temp_storage_sector_roots ORDER BY id`)
	if err != nil {
		w.fatalf("temp rows: %v", err)
	}
	defer rows.Close()
	for rows.Next() {
		var id int64
		if err := rows.Scan(&id); err != nil {
			w.fatalf("temp rows scan: %v", err)
		}
		ids = append(ids, id)
	}
	return
}

func (w *c08World) lostMetric() uint64 {
	m, err := w.db.Metrics(time.Now().Add(time.Hour))
	if err != nil {
		w.fatalf("metrics: %v", err)
	}
	return m.Storage.LostSectors
}

// shrinkIsSafe: every index below n exists (the proviso of the batch theorems: ShrinkVolume
// sets total_sectors := n whatever it deleted)
func (w *c08World) shrinkIsSafe(id int64, n uint64) bool {
	below := uint64(0)
	for idx := range w.slotsOf(id) {
		if idx < n {
			below++
		}
	}
	return below == n
}

// ---------------------------------------------------------------- RemoveVolume

func (w *c08World) removeVolumeB(id int64, force bool) (cut bool) {
	w.drawPlan()
	prev := w.slotsOf(id)
	lost := w.lostMetric()
	sawEmpty := false
	cur := func() string {
		if sawEmpty {
			return fmt.Sprintf("RemoveFinal %d", id)
		}
		return fmt.Sprintf("RemoveBatch %d %s %d []", id, coqBool(force), w.bt.b)
	}
	commit := func() {
		now := w.slotsOf(id)
		if !sawEmpty {
			var del []uint64
			occupied := uint64(0)
			for idx, root := range prev {
				if _, ok := now[idx]; !ok {
					del = append(del, idx)
					if root != 0 {
						occupied++
					}
				}
			}
			sort.Slice(del, func(i, j int) bool { return del[i] < del[j] })
			terms := make([]string, len(del))
			for i, d := range del {
				terms[i] = fmt.Sprint(d)
			}
			w.step(fmt.Sprintf("RemoveBatch %d %s %d %s", id, coqBool(force), w.bt.b, coqList(terms)), "ORes (Ok tt)")
			w.count(fmt.Sprintf("batch:Remove:force=%v:rows=%s", force, c08Bucket(len(del), w.bt.b)))
			l := w.lostMetric()
			if l-lost != occupied {
				w.monitor("lost-sectors-not-exact", fmt.Sprintf("RemoveVolume(%d,%v) batch: lost +%d, occupied slots deleted %d", id, force, l-lost, occupied))
			}
			lost = l
			if !force && occupied > 0 {
				w.monitor("non-forced-removal-dropped-sectors", fmt.Sprintf("volume %d: a batch deleted %d occupied slots", id, occupied))
			}
			if len(del) == 0 {
				sawEmpty = true
			}
		} else {
			w.step(fmt.Sprintf("RemoveFinal %d", id), "ORes (Ok tt)")
			w.count("batch:RemoveFinal:ok")
		}
		prev = now
		w.after("a committed transaction of RemoveVolume")
	}
	resync := func() { prev, lost = w.slotsOf(id), w.lostMetric() }
	err, p, injected, _ := w.hooked(func() error { return w.db.RemoveVolume(id, force) }, commit, resync)
	switch {
	case p:
		w.step(cur(), "ORes Panic")
		w.monitor("store-sector-panics", fmt.Sprintf("RemoveVolume(%d,%v) panicked", id, force))
	case err == nil:
		commit() // the final transaction
	case injected:
		cut = true
		w.count(fmt.Sprintf("cut:Remove:force=%v", force))
	default:
		w.step(cur(), c08ErrTerm(err, false))
		w.count(fmt.Sprintf("batch:Remove:force=%v:%s", force, c08ErrClass(err)))
	}
	w.count(fmt.Sprintf("op:RemoveVolB:force=%v:%s", force, c08OutcomeB(err, p, injected)))
	w.after("RemoveVolume")
	w.snapshotNow()
	return
}

func c08OutcomeB(err error, p, injected bool) string {
	if injected {
		return "cut"
	}
	return c08Outcome(err, p)
}

func c08Bucket(n, b int) string {
	switch {
	case n == 0:
		return "0"
	case n < b:
		return "<b"
	default:
		return "b"
	}
}

// ---------------------------------------------------------------- expire loops

func (w *c08World) expireConsB(v2 bool, h uint64) (cut bool) {
	w.drawPlan()
	prev := w.rootRows(v2)
	commit := func() {
		now := w.rootRows(v2)
		var picks []string
		var nums []int
		for num := range prev {
			nums = append(nums, num)
		}
		sort.Ints(nums)
		for _, num := range nums {
			left := map[int64]bool{}
			for _, idx := range now[num] {
				left[idx] = true
			}
			for pos, idx := range prev[num] {
				if !left[idx] {
					picks = append(picks, fmt.Sprintf("(%d, %d)", num, pos))
				}
			}
		}
		w.step(fmt.Sprintf("ExpireBatch %s %d %d %s", coqBool(v2), h, w.bt.b, coqList(picks)), "ORes (Ok tt)")
		w.count(fmt.Sprintf("batch:Expire:v2=%v:rows=%s", v2, c08Bucket(len(picks), w.bt.b)))
		prev = now
		w.after("a committed batch of Expire(V2)ContractSectors")
	}
	resync := func() { prev = w.rootRows(v2) }
	call := func() error { return w.db.ExpireContractSectors(h) }
	if v2 {
		call = func() error { return w.db.ExpireV2ContractSectors(h) }
	}
	err, p, injected, _ := w.hooked(call, commit, resync)
	op := fmt.Sprintf("ExpireBatch %s %d %d []", coqBool(v2), h, w.bt.b)
	switch {
	case p:
		w.step(op, "ORes Panic")
	case err == nil:
		commit() // the last, empty batch
	case injected:
		cut = true
		w.count(fmt.Sprintf("cut:Expire:v2=%v", v2))
	default:
		w.step(op, c08ErrTerm(err, false))
	}
	w.count(fmt.Sprintf("op:ExpireB:v2=%v:%s", v2, c08OutcomeB(err, p, injected)))
	w.after("Expire(V2)ContractSectors")
	w.snapshotNow()
	return
}

func (w *c08World) expireTempB(h uint64) (cut bool) {
	w.drawPlan()
	prev := w.tempRows()
	commit := func() {
		now := w.tempRows()
		left := map[int64]bool{}
		for _, id := range now {
			left[id] = true
		}
		var picks []string
		for pos, id := range prev {
			if !left[id] {
				picks = append(picks, fmt.Sprint(pos))
			}
		}
		w.step(fmt.Sprintf("ExpireTempBatch %d %d %s", h, w.bt.b, coqList(picks)), "ORes (Ok tt)")
		w.count("batch:ExpireTemp:rows=" + c08Bucket(len(picks), w.bt.b))
		prev = now
		w.after("a committed batch of ExpireTempSectors")
	}
	resync := func() { prev = w.tempRows() }
	err, p, injected, _ := w.hooked(func() error { return w.db.ExpireTempSectors(h) }, commit, resync)
	op := fmt.Sprintf("ExpireTempBatch %d %d []", h, w.bt.b)
	switch {
	case p:
		w.step(op, "ORes Panic")
	case err == nil:
		commit()
	case injected:
		cut = true
		w.count("cut:ExpireTemp")
	default:
		w.step(op, c08ErrTerm(err, false))
	}
	w.count("op:ExpireTempB:" + c08OutcomeB(err, p, injected))
	w.after("ExpireTempSectors")
	w.snapshotNow()
	return
}

// ---------------------------------------------------------------- prune

func (w *c08World) pruneB() (cut bool) {
	w.drawPlan()
	prev := w.slots()
	commit := func() {
		now := map[[2]int64]int{}
		cur := w.slots()
		for _, s := range cur {
			now[[2]int64{s.vol, int64(s.idx)}] = s.root
		}
		var picks []string
		for _, s := range prev {
			if r, ok := now[[2]int64{s.vol, int64(s.idx)}]; ok && s.root != 0 && r == 0 {
				picks = append(picks, fmt.Sprintf("(%d, %d)", s.vol, s.idx))
			}
		}
		w.step(fmt.Sprintf("PruneBatch %d %s", w.bt.b, coqList(picks)), "ORes (Ok tt)")
		w.count("batch:Prune:rows=" + c08Bucket(len(picks), w.bt.b))
		prev = cur
		w.after("a committed batch of PruneSectors")
	}
	resync := func() { prev = w.slots() }
	cutoff := time.Now().Add(time.Hour)
	err, p, injected, _ := w.hooked(func() error { return w.db.PruneSectors(context.Background(), cutoff) }, commit, resync)
	op := fmt.Sprintf("PruneBatch %d []", w.bt.b)
	switch {
	case p:
		w.step(op, "ORes Panic")
	case err == nil:
		commit()
	case injected:
		cut = true
		w.count("cut:Prune")
	default:
		w.step(op, c08ErrTerm(err, false))
	}
	w.count("op:PruneB:" + c08OutcomeB(err, p, injected))
	w.after("PruneSectors")
	w.snapshotNow()
	return
}

// ---------------------------------------------------------------- migrate

func (w *c08World) migrateB(id int64, start uint64, failRate int) (cut bool) {
	w.drawPlan()
	cursor := start
	type mcall struct {
		from      uint64
		tv, ti    int64
		ok        bool
		committed bool
	}
	var calls []*mcall
	commit := func() {
		// the transaction that committed made the last call, if it has not been recorded yet
		if n := len(calls); n > 0 && !calls[n-1].committed {
			c := calls[n-1]
			c.committed = true
			obs := "OMig 1 0 (Ok tt)"
			if !c.ok {
				obs = "OMig 0 1 (Ok tt)"
			}
			w.step(fmt.Sprintf("MigrateTx %d %d %d (Some (%d, (%d, %d), %s))", id, start, cursor, c.from, c.tv, c.ti, coqBool(c.ok)), obs)
			w.count(fmt.Sprintf("batch:Migrate:ok=%v", c.ok))
			cursor = c.from + 1
		} else {
			w.step(fmt.Sprintf("MigrateTx %d %d %d None", id, start, cursor), "OMig 0 0 (Ok tt)")
			w.count("batch:Migrate:done")
		}
		w.after("a committed transaction of MigrateSectors")
	}
	resync := func() {}
	var migrated, failed int
	err, p, injected, _ := w.hooked(func() (err error) {
		migrated, failed, err = w.db.MigrateSectors(context.Background(), id, start, func(from, to storage.SectorLocation) error {
			ok := w.rng.Intn(100) >= failRate
			calls = append(calls, &mcall{from: from.Index, tv: to.Volume, ti: int64(to.Index), ok: ok})
			if from.Volume != id {
				w.monitor("migrated-from-other-volume", fmt.Sprintf("volume %d, from %d", id, from.Volume))
			}
			if !ok {
				return errC08Fn
			}
			return nil
		})
		return
	}, commit, resync)
	pending := len(calls) > 0 && !calls[len(calls)-1].committed // a call whose transaction did not commit
	switch {
	case p:
		w.step(fmt.Sprintf("MigrateTx %d %d %d None", id, start, cursor), "OMig 0 0 Panic")
	case err == nil:
		commit() // the transaction that found nothing left
	case injected:
		cut = true
		w.count("cut:Migrate")
	case pending:
		c := calls[len(calls)-1]
		w.step(fmt.Sprintf("MigrateTx %d %d %d (Some (%d, (%d, %d), %s))", id, start, cursor, c.from, c.tv, c.ti, coqBool(c.ok)), "OMig 0 0 (Err "+c08ErrClass(err)+")")
	default:
		w.step(fmt.Sprintf("MigrateTx %d %d %d None", id, start, cursor), "OMig 0 0 (Err "+c08ErrClass(err)+")")
		w.count("batch:Migrate:" + c08ErrClass(err))
	}
	okCalls, badCalls := 0, 0
	for _, c := range calls {
		if c.committed && c.ok {
			okCalls++
		} else if c.committed {
			badCalls++
		}
	}
	if !p && !injected && (migrated != okCalls || failed != badCalls) {
		w.monitor("migrate-counts-differ-from-callbacks", fmt.Sprintf("migrated=%d failed=%d, callbacks ok=%d failed=%d", migrated, failed, okCalls, badCalls))
	}
	w.count("op:MigrateB:" + c08OutcomeB(err, p, injected))
	w.after("MigrateSectors")
	w.snapshotNow()
	return
}

// ---------------------------------------------------------------- single-transaction calls for the pauses

func (w *c08World) anyStoredRoot() (int, bool) {
	var stored []int
	for _, s := range w.slots() {
		if s.root != 0 {
			stored = append(stored, s.root)
		}
	}
	if len(stored) == 0 {
		return 0, false
	}
	return stored[w.rng.Intn(len(stored))], true
}

// simpleOp: one single-transaction Store call, as another goroutine of the host would make it
// while a batched loop sleeps
func (w *c08World) simpleOp() {
	rng := w.rng
	w.count("inter:op")
	switch x := rng.Intn(100); {
	case x < 35:
		w.store(1+rng.Intn(w.nroots), rng.Intn(8) != 0)
	case x < 45:
		if r, ok := w.anyStoredRoot(); ok {
			w.removeSector(r)
		}
	case x < 55:
		if id, ok := w.pickVol(); ok {
			v, _ := w.db.Volume(id)
			w.grow(id, v.TotalSectors+uint64(1+rng.Intn(3)))
		}
	case x < 62:
		if id, ok := w.pickVol(); ok {
			v, _ := w.db.Volume(id)
			if v.TotalSectors > 1 {
				w.shrink(id, 1+uint64(rng.Intn(int(v.TotalSectors)-1)))
			}
		}
	case x < 70:
		if id, ok := w.pickVol(); ok {
			w.setRO(id, rng.Intn(2) == 0)
		}
	case x < 75:
		if id, ok := w.pickVol(); ok {
			w.setAvail(id, rng.Intn(3) != 0)
		}
	case x < 85:
		if r, ok := w.anyStoredRoot(); ok {
			w.addTemps([][2]uint64{{uint64(r), uint64(8 + rng.Intn(6))}})
		}
	case x < 95:
		if len(w.cons) > 0 {
			c := w.cons[rng.Intn(len(w.cons))]
			r, ok := w.anyStoredRoot()
			if !ok {
				return
			}
			if c.v2 {
				var nr []int
				for _, x := range w.curRoots(c) {
					nr = append(nr, c08RootNum(x))
				}
				w.reviseV2(c, append(nr, r))
			} else {
				w.reviseV1(c, []c08Change{{kind: "append", r: uint64(r)}})
			}
		}
	default:
		w.queries(1 + rng.Intn(w.nroots))
	}
}

// snapshotNow: in sparse worlds after() does not snapshot
func (w *c08World) snapshotNow() {
	if w.bt != nil && w.bt.sparse {
		w.snapshot()
	}
}

// ---------------------------------------------------------------- twin runs and directed cases

// c08FinalState is the comparison of a cut-and-retried run with the uninterrupted one
func (w *c08World) finalState() string {
	var sb strings.Builder
	vols, _ := w.db.Volumes()
	for _, v := range vols {
		fmt.Fprintf(&sb, "vol %d ro=%v avail=%v total=%d used=%d;", v.ID, v.ReadOnly, v.Available, v.TotalSectors, v.UsedSectors)
	}
	m, _ := w.db.Metrics(time.Now().Add(time.Hour))
	fmt.Fprintf(&sb, " metrics total=%d phys=%d lost=%d contract=%d temp=%d;", m.Storage.TotalSectors, m.Storage.PhysicalSectors, m.Storage.LostSectors, m.Storage.ContractSectors, m.Storage.TempSectors)
	for _, s := range w.slots() {
		fmt.Fprintf(&sb, " (%d,%d)=%d", s.vol, s.idx, s.root)
	}
	fmt.Fprintf(&sb, " v1=%v v2=%v temps=%d", w.rootRows(false), w.rootRows(true), len(w.tempRows()))
	return sb.String()
}

// a scenario: build a world, then run one batched operation (cut or not), then retry it
type c08Scenario struct {
	name  string
	build func(w *c08World) // populate (recorded)
	op    func(w *c08World) // the batched operation under test, hooked
	retry func(w *c08World) // the same call again, atomic in the model
}

func c08Scenarios(b int) []c08Scenario {
	n := 2*b + 2 // rows: two full batches and a short one
	var sc []c08Scenario
	for _, force := range []bool{false, true} {
		force := force
		sc = append(sc, c08Scenario{
			name: fmt.Sprintf("RemoveVolume(force=%v) of %d slots", force, n),
			build: func(w *c08World) {
				a := w.volume(uint64(n))
				w.bt.sv = a
				if force {
					for r := 1; r <= 3; r++ {
						w.store(r, true)
					}
				}
				w.setRO(a, true) // what the volume manager does first
				w.volume(3)
				w.store(4, true)
			},
			op:    func(w *c08World) { w.removeVolumeB(w.bt.sv, force) },
			retry: func(w *c08World) { w.atomically(func() { w.removeVolume(w.bt.sv, force) }) },
		})
	}
	for _, v2 := range []bool{false, true} {
		v2 := v2
		sc = append(sc, c08Scenario{
			name: fmt.Sprintf("Expire(v2=%v) of %d rows", v2, n),
			build: func(w *c08World) {
				w.volume(4)
				w.store(1, true)
				w.store(2, true)
				c := w.addContract(v2, 10, 1)
				k := w.addContract(v2, 100, 1)
				if v2 {
					var l []int
					for i := 0; i < n; i++ {
						l = append(l, 1+i%2)
					}
					w.reviseV2(c, l)
					w.reviseV2(k, []int{2, 2})
				} else {
					var chs []c08Change
					for i := 0; i < n; i++ {
						chs = append(chs, c08Change{kind: "append", r: uint64(1 + i%2)})
					}
					w.reviseV1(c, chs)
					w.reviseV1(k, []c08Change{{kind: "append", r: 2}, {kind: "append", r: 2}})
				}
			},
			op: func(w *c08World) { w.expireConsB(v2, 11) },
			retry: func(w *c08World) {
				w.atomically(func() {
					if v2 {
						w.expireV2(11)
					} else {
						w.expireV1(11)
					}
				})
			},
		})
	}
	sc = append(sc, c08Scenario{
		name: fmt.Sprintf("ExpireTempSectors of %d rows", n),
		build: func(w *c08World) {
			w.volume(4)
			w.store(1, true)
			w.store(2, true)
			var l [][2]uint64
			for i := 0; i < n; i++ {
				l = append(l, [2]uint64{uint64(1 + i%2), 10})
			}
			l = append(l, [2]uint64{2, 12})
			w.addTemps(l)
		},
		op:    func(w *c08World) { w.expireTempB(10) },
		retry: func(w *c08World) { w.atomically(func() { w.expireTemp(10) }) },
	})
	sc = append(sc, c08Scenario{
		name: fmt.Sprintf("PruneSectors of %d sectors", n),
		build: func(w *c08World) {
			w.volume(uint64(n/2 + 2))
			w.volume(uint64(n/2 + 2))
			for r := 1; r <= n+1; r++ {
				w.store(r, true)
			}
			w.addTemps([][2]uint64{{uint64(n + 1), 50}})
		},
		op:    func(w *c08World) { w.pruneB() },
		retry: func(w *c08World) { w.atomically(func() { w.prune(true) }) },
	})
	sc = append(sc, c08Scenario{
		name: "MigrateSectors of 6 sectors",
		build: func(w *c08World) {
			mv := w.volume(6)
			w.bt.sv = mv
			for r := 1; r <= 6; r++ {
				w.store(r, true)
			}
			w.setRO(mv, true)
			w.volume(5)
		},
		op:    func(w *c08World) { w.migrateB(w.bt.sv, 0, 0) },
		retry: func(w *c08World) { w.atomically(func() { w.migrate(w.bt.sv, 0, 0) }) },
	})
	return sc
}

// c08Directed builds the directed cases of the batch harness: for every scenario the
// uninterrupted run, and a run cut at database call k for every k (every k of RemoveVolume in
// both builds; every k of the other loops with the small batch size, a sample otherwise).
type c08DirCase struct {
	desc string
	run  func(w *c08World)
}

func c08OpenWorld(id int, dir, tag string, b int) (*c08World, func(), error) {
	db, ctl, err := c08OpenHookStore(filepath.Join(dir, fmt.Sprintf("c08b_%s_%d.db", tag, id)), zap.NewNop())
	if err != nil {
		return nil, nil, err
	}
	w := &c08World{res: &c08Result{id: id}, rng: verifCaseRand(id), db: db, nroots: c08Roots,
		bt: &c08Batch{ctl: ctl, b: b}}
	return w, func() { db.Close() }, nil
}

// c08Dry runs a scenario uninterrupted on a scratch store: the number of database calls of its
// operation and the final state every cut-and-retried run has to reach.
func c08Dry(sc c08Scenario, dir string, b, seq int) (calls int, final string, err error) {
	defer func() {
		if r := recover(); r != nil {
			err = fmt.Errorf("dry run of %s: %v", sc.name, r)
		}
	}()
	w, closeFn, err := c08OpenWorld(1000000+seq, dir, "dry", b)
	if err != nil {
		return 0, "", err
	}
	defer closeFn()
	w.bt.sparse = true
	sc.build(w)
	sc.op(w)
	return w.bt.lastCalls, w.finalState(), nil
}

func c08DirectedBatch(dir string, b int) ([]c08DirCase, error) {
	var out []c08DirCase
	for si, sc := range c08Scenarios(b) {
		sc := sc
		calls, final, err := c08Dry(sc, dir, b, si)
		if err != nil {
			return nil, err
		}
		large := b > 16
		out = append(out, c08DirCase{desc: "directed: " + sc.name + ", uninterrupted, every batch recorded", run: func(w *c08World) {
			w.bt.sparse = large
			sc.build(w)
			sc.op(w)
			if got := w.finalState(); got != final {
				w.monitor("uninterrupted-run-not-deterministic", fmt.Sprintf("%s:\n%s\n%s", sc.name, got, final))
			}
		}})
		// every k for RemoveVolume; for the other loops every k with the small batch size, else a sample
		step := 1
		if large && !strings.HasPrefix(sc.name, "RemoveVolume") {
			step = 5
		}
		for k := 0; k < calls; k += step {
			k := k
			out = append(out, c08DirCase{desc: fmt.Sprintf("directed: %s, database call %d of %d fails, retry", sc.name, k, calls), run: func(w *c08World) {
				w.bt.sparse = large
				sc.build(w)
				w.bt.plan = &c08Plan{cutCall: k}
				sc.op(w)
				sc.retry(w)
				w.snapshotNow()
				if got := w.finalState(); got != final {
					w.monitor("retry-after-cut-differs-from-uninterrupted-run", fmt.Sprintf("%s cut at call %d:\n got %s\nwant %s", sc.name, k, got, final))
				}
			}})
		}
	}
	// natural interruption of a non-forced removal: a sector lands on the volume between two batches
	out = append(out, c08DirCase{desc: "directed: StoreSector lands on the volume between two batches of a non-forced RemoveVolume", run: func(w *c08World) {
		n := uint64(2*b + 2)
		a := w.volume(n)
		w.bt.sparse = b > 16
		w.bt.plan = &c08Plan{cutCall: -1, inter: map[int]func(){1: func() { w.store(1, true) }}}
		w.removeVolumeB(a, false) // batch 1 commits, the sector lands, batch 2: ErrVolumeNotEmpty
		w.store(2, true)
		w.removeVolumeB(a, false) // refused by the first batch
		other := w.volume(4)
		w.setRO(a, true)
		w.migrateB(a, 0, 0)
		w.removeVolumeB(a, false) // completes
		_ = other
	}})
	// forced removal while sectors keep landing on the volume
	out = append(out, c08DirCase{desc: "directed: sectors written between the batches of a forced RemoveVolume are lost and counted", run: func(w *c08World) {
		n := uint64(2*b + 2)
		a := w.volume(n)
		w.bt.sparse = b > 16
		w.store(1, true)
		w.bt.plan = &c08Plan{cutCall: -1, inter: map[int]func(){1: func() { w.store(2, true); w.store(3, true) }, 2: func() { w.store(4, true) }}}
		w.removeVolumeB(a, true)
	}})
	// the final transaction finds slots again: a grow between the empty batch and the final delete
	out = append(out, c08DirCase{desc: "directed: GrowVolume between the last batch and the final transaction of RemoveVolume", run: func(w *c08World) {
		a := w.volume(3)
		w.bt.plan = &c08Plan{cutCall: -1, inter: map[int]func(){2: func() { w.grow(a, 5) }}}
		w.removeVolumeB(a, false)
		w.removeVolumeB(a, false)
		w.removeVolumeB(a, false) // not found
	}})
	// the finding: a removal cut after a batch, then ShrinkVolume (needs more slots than a batch)
	out = append(out, c08DirCase{desc: "directed: RemoveVolume cut after its first batch, then ShrinkVolume, GrowVolume, retry", run: func(w *c08World) {
		n := uint64(2*b + 2)
		a := w.volume(n)
		w.bt.sparse = b > 16
		w.bt.plan = &c08Plan{cutCall: -1, cutAt: 1}
		w.removeVolumeB(a, false)
		w.bt.unsafeShrink = true
		w.shrink(a, uint64(b+1)) // accepted; SQLite's batch took the lowest indices, so only index b is left below b+1
		w.grow(a, n)             // UNIQUE(volume_id, volume_index) or a consistent grow
		w.atomically(func() { w.removeVolume(a, false) })
		w.snapshotNow()
	}})
	// revisions and temp sectors arriving between the batches of the expire loops
	out = append(out, c08DirCase{desc: "directed: references added between the batches of the expire loops", run: func(w *c08World) {
		w.volume(6)
		for r := 1; r <= 3; r++ {
			w.store(r, true)
		}
		c1 := w.addContract(false, 10, 1)
		c2 := w.addContract(true, 10, 1)
		k1 := w.addContract(false, 50, 1)
		k2 := w.addContract(true, 50, 1)
		var chs []c08Change
		var l []int
		var tmps [][2]uint64
		for i := 0; i < 2*b+2 && i < 40; i++ {
			chs = append(chs, c08Change{kind: "append", r: uint64(1 + i%3)})
			l = append(l, 1+i%3)
			tmps = append(tmps, [2]uint64{uint64(1 + i%3), 10})
		}
		w.reviseV1(c1, chs)
		w.reviseV2(c2, l)
		w.addTemps(tmps)
		w.bt.plan = &c08Plan{cutCall: -1, inter: map[int]func(){1: func() { w.reviseV1(k1, []c08Change{{kind: "append", r: 1}}) }}}
		w.expireConsB(false, 11)
		w.bt.plan = &c08Plan{cutCall: -1, inter: map[int]func(){1: func() { w.reviseV2(k2, []int{2}) }}}
		w.expireConsB(true, 11)
		w.bt.plan = &c08Plan{cutCall: -1, inter: map[int]func(){1: func() { w.addTemps([][2]uint64{{3, 10}, {3, 12}}) }}}
		w.expireTempB(10)
		w.bt.plan = &c08Plan{cutCall: -1, inter: map[int]func(){1: func() { w.removeSector(1) }}}
		w.pruneB()
		w.reclaim(60)
	}})
	return out, nil
}

func c08RunBatchCase(id int, dir string, b int, directed []c08DirCase) (res *c08Result) {
	res = &c08Result{id: id}
	defer func() {
		if r := recover(); r != nil {
			res.fatal = fmt.Sprint(r)
		}
	}()
	w, closeFn, err := c08OpenWorld(id, dir, "case", b)
	if err != nil {
		res.fatal = err.Error()
		return
	}
	defer closeFn()
	w.res = res
	if id < len(directed) {
		res.desc = directed[id].desc
		directed[id].run(w)
	} else {
		w.bt.auto = true
		w.generated()
		res.desc = "batched " + res.desc
	}
	res.nontriv = w.placed
	return
}

// c08IsBop: the recorded operation is one of Batch.v's own constructors
func c08IsBop(op string) bool {
	for _, p := range []string{"RemoveBatch ", "RemoveFinal ", "ExpireBatch ", "ExpireTempBatch ", "PruneBatch ", "MigrateTx "} {
		if strings.HasPrefix(op, p) {
			return true
		}
	}
	return false
}

func TestVerifC08Batch(t *testing.T) {
	em := newVerifEmitter(t, "From HostdBase Require Import Base.\nFrom HostdStorage Require Import Model Batch BatchSql.\nOpen Scope N_scope.", "bcase", "bcheck_sql")
	defer em.Close()

	dir, err := os.MkdirTemp("", "verif-c08b-")
	if err != nil {
		t.Fatal(err)
	}
	defer os.RemoveAll(dir)
	b := sqlSectorBatchSize
	directed, err := c08DirectedBatch(dir, b)
	if err != nil {
		t.Fatal(err)
	}
	n := verifN(60) + len(directed)

	var ids []int
	for id := 0; id < n; id++ {
		if !em.Skip(id) {
			ids = append(ids, id)
		}
	}
	results := make([]*c08Result, len(ids))
	var wg sync.WaitGroup
	sem := make(chan struct{}, 24) // the store sleeps 50-75 ms between two batches
	for i, id := range ids {
		wg.Add(1)
		sem <- struct{}{}
		go func(i, id int) {
			defer wg.Done()
			defer func() { <-sem }()
			results[i] = c08RunBatchCase(id, dir, b, directed)
		}(i, id)
	}
	wg.Wait()

	sort.Slice(results, func(i, j int) bool { return results[i].id < results[j].id })
	for _, r := range results {
		if r.fatal != "" {
			t.Fatalf("case %d (%s): %s", r.id, r.desc, r.fatal)
		}
		em.BeginCase(r.id, r.desc)
		for _, s := range r.steps {
			if c08IsBop(s[0]) {
				em.Step(s[0], s[1])
			} else {
				em.Step("P ("+s[0]+")", s[1])
			}
		}
		em.Count(fmt.Sprintf("batch-size:%d", b))
		for _, k := range r.counts {
			em.Count(k)
		}
		for _, m := range r.monitors {
			em.Monitor(m[0], m[1])
		}
		em.EndCase(r.nontriv)
	}
}
