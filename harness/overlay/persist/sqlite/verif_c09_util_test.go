//go:build verif

package sqlite

// Shared helpers of the C09/C18 harnesses: observation of a store (every exported getter,
// a dump of every table over a second connection, foreign-key and integrity check) and
// the construction of a populated pre-state.

import (
	"bytes"
	"crypto/sha256"
	"database/sql"
	"encoding/hex"
	"encoding/json"
	"fmt"
	"io"
	"math/rand"
	"os"
	"sort"
	"strings"
	"testing"
	"time"

	rhp2 "go.sia.tech/core/rhp/v2"
	rhp3 "go.sia.tech/core/rhp/v3"
	proto4 "go.sia.tech/core/rhp/v4"
	"go.sia.tech/core/types"
	"go.sia.tech/coreutils/wallet"
	rhp4 "go.sia.tech/coreutils/rhp/v4"
	"go.sia.tech/hostd/v2/host/accounts"
	"go.sia.tech/hostd/v2/host/contracts"
	"go.sia.tech/hostd/v2/host/settings"
	"go.sia.tech/hostd/v2/host/settings/pin"
	"go.sia.tech/hostd/v2/host/storage"
	"go.sia.tech/hostd/v2/index"
	"go.uber.org/zap"
)

// columns whose value depends on the wall clock of the run; left out when two different
// runs are compared (a failed call is compared on everything: a rollback restores them too)
var verifVolatileCols = map[string]map[string]bool{
	"stored_sectors": {"last_access_timestamp": true},
	"accounts":       {"expiration_timestamp": true},
	"syncer_peers":   {"first_seen": true},
	"syncer_bans":    {"expiration": true},
	"volume_sectors": {"sector_writes": true},
}

func verifFmtVal(v any) string {
	switch x := v.(type) {
	case nil:
		return "NULL"
	case []byte:
		if len(x) > 40 {
			h := sha256.Sum256(x)
			return fmt.Sprintf("#%d:%x", len(x), h[:8])
		}
		return "x" + hex.EncodeToString(x)
	case time.Time:
		return x.UTC().Format(time.RFC3339Nano)
	default:
		return fmt.Sprint(x)
	}
}

// verifDump returns one line per row of every table, read over a fresh read-only
// connection (so only committed data is seen), plus the foreign key and integrity checks.
func verifDump(t testing.TB, path string, stable bool) (dump string, health string) {
	db, err := sqlOpenRO(path)
	if err != nil {
		t.Fatal(err)
	}
	defer db.Close()
	var tables []string
	rows, err := db.Query(`SELECT name FROM sqlite_master WHERE type='table' AND name NOT LIKE 'sqlite_%' ORDER BY name`)
	if err != nil {
		t.Fatal(err)
	}
	for rows.Next() {
		var n string
		if err := rows.Scan(&n); err != nil {
			t.Fatal(err)
		}
		tables = append(tables, n)
	}
	rows.Close()
	var sb strings.Builder
	for _, tbl := range tables {
		q := "SELECT * FROM " + tbl + " ORDER BY rowid"
		if stable && tbl == "host_stats" {
			// what Metrics() reads: the latest value of every stat
			q = `SELECT stat, stat_value FROM host_stats h WHERE date_created=(SELECT MAX(date_created) FROM host_stats g WHERE g.stat=h.stat) ORDER BY stat`
		}
		r, err := db.Query(q)
		if err != nil {
			t.Fatalf("dump %s: %v", tbl, err)
		}
		cols, _ := r.Columns()
		vals := make([]any, len(cols))
		ptrs := make([]any, len(cols))
		for i := range vals {
			ptrs[i] = &vals[i]
		}
		for r.Next() {
			if err := r.Scan(ptrs...); err != nil {
				t.Fatal(err)
			}
			sb.WriteString(tbl)
			for i, c := range cols {
				if stable && verifVolatileCols[tbl][c] {
					continue
				}
				sb.WriteString("|" + c + "=" + verifFmtVal(vals[i]))
			}
			sb.WriteByte('\n')
		}
		if err := r.Err(); err != nil {
			t.Fatal(err)
		}
		r.Close()
	}
	var hs []string
	for _, pragma := range []string{"PRAGMA foreign_key_check", "PRAGMA integrity_check"} {
		r, err := db.Query(pragma)
		if err != nil {
			t.Fatal(err)
		}
		cols, _ := r.Columns()
		vals := make([]any, len(cols))
		ptrs := make([]any, len(cols))
		for i := range vals {
			ptrs[i] = &vals[i]
		}
		for r.Next() {
			r.Scan(ptrs...)
			line := pragma + ":"
			for _, v := range vals {
				line += " " + verifFmtVal(v)
			}
			if line != "PRAGMA integrity_check: ok" {
				hs = append(hs, line)
			}
		}
		r.Close()
	}
	return sb.String(), strings.Join(hs, "; ")
}

// sqlOpenRO opens a second, read-only connection with the plain sqlite3 driver.
func sqlOpenRO(path string) (*sql.DB, error) {
	return sql.Open("sqlite3", "file:"+path+"?mode=ro&_busy_timeout=10000&_foreign_keys=true")
}

func verifJSON(v any) string {
	b, err := json.Marshal(v)
	if err != nil {
		return "json-error:" + err.Error()
	}
	return string(b)
}

// verifEnv describes the populated pre-state: the ids the operations refer to.
type verifEnv struct {
	renterKey, hostKey types.PrivateKey
	uc                 types.UnlockConditions
	v1                 []types.FileContractID
	v1rev              map[types.FileContractID]contracts.SignedRevision
	v1roots            map[types.FileContractID][]types.Hash256
	v2                 []types.FileContractID
	v2fc               map[types.FileContractID]types.V2FileContract
	v2roots            map[types.FileContractID][]types.Hash256
	roots              []types.Hash256 // every stored sector
	free               []types.Hash256 // stored, referenced by nothing
	vols               []int64
	acct3              []rhp3.Account
	acct4              []proto4.Account
	hooks              []int64
	regKeys            []rhp3.RegistryKey
	height             uint64
	tip                types.ChainIndex
	sces               []types.SiacoinElement
}

// verifGetters calls every exported read method of the store and renders the results.
// With stable=true wall-clock fields are dropped.
func verifGetters(s *Store, env *verifEnv, stable bool) string {
	var sb strings.Builder
	add := func(name string, v any, err error) {
		if err != nil {
			fmt.Fprintf(&sb, "%s: ERR %v\n", name, err)
			return
		}
		fmt.Fprintf(&sb, "%s: %s\n", name, verifJSON(v))
	}
	cs, n, err := s.Contracts(contracts.ContractFilter{Limit: 100})
	add("Contracts", []any{n, cs}, err)
	cs2, n2, err := s.V2Contracts(contracts.V2ContractFilter{Limit: 100})
	add("V2Contracts", []any{n2, cs2}, err)
	for _, id := range env.v1 {
		c, err := s.Contract(id)
		add("Contract", c, err)
	}
	for _, id := range env.v2 {
		c, err := s.V2Contract(id)
		add("V2Contract", c, err)
		b, e, err := s.V2ContractElement(id)
		if err == nil {
			add("V2ContractElement", []any{b, e}, nil)
		}
	}
	sr, err := s.SectorRoots()
	add("SectorRoots", verifRootMap(sr), err)
	sr2, err := s.V2SectorRoots()
	add("V2SectorRoots", verifRootMap(sr2), err)
	vols, err := s.Volumes()
	add("Volumes", vols, err)
	for _, id := range env.vols {
		v, err := s.Volume(id)
		if err == nil {
			add("Volume", v, nil)
		}
	}
	used, total, err := s.StorageUsage()
	add("StorageUsage", []uint64{used, total}, err)
	accs, err := s.Accounts(100, 0)
	if stable {
		for i := range accs {
			accs[i].Expiration = time.Time{}
		}
	}
	sort.Slice(accs, func(i, j int) bool { return bytes.Compare(accs[i].ID[:], accs[j].ID[:]) < 0 })
	add("Accounts", accs, err)
	for _, a := range env.acct3 {
		b, err := s.AccountBalance(a)
		add("AccountBalance", b, err)
		f, err := s.AccountFunding(a)
		sort.Slice(f, func(i, j int) bool { return bytes.Compare(f[i].ContractID[:], f[j].ContractID[:]) < 0 })
		add("AccountFunding", f, err)
	}
	b4, err := s.RHP4AccountBalances(env.acct4)
	add("RHP4AccountBalances", b4, err)
	for _, a := range env.acct4 {
		b, err := s.RHP4AccountBalance(a)
		add("RHP4AccountBalance", b, err)
	}
	st, err := s.Settings()
	add("Settings", st, err)
	ps, err := s.PinnedSettings(nil)
	add("PinnedSettings", ps, err)
	wh, err := s.Webhooks()
	sort.Slice(wh, func(i, j int) bool { return wh[i].ID < wh[j].ID })
	add("Webhooks", wh, err)
	rc, rl, err := s.RegistryEntries()
	add("RegistryEntries", []uint64{rc, rl}, err)
	for _, k := range env.regKeys {
		v, err := s.GetRegistryValue(k)
		if err != nil {
			fmt.Fprintf(&sb, "GetRegistryValue: none\n")
		} else {
			add("GetRegistryValue", v, nil)
		}
	}
	m, err := s.Metrics(time.Now().Add(time.Hour))
	m.Timestamp = time.Time{}
	add("Metrics", m, err)
	tip, err := s.Tip()
	add("Tip", tip, err)
	la, err := s.LastAnnouncement()
	add("LastAnnouncement", la, err)
	h, hi, err := s.LastV2AnnouncementHash()
	add("LastV2AnnouncementHash", []any{h, hi}, err)
	ue, err := s.UnspentSiacoinElements()
	sort.Slice(ue, func(i, j int) bool { return bytes.Compare(ue[i].ID[:], ue[j].ID[:]) < 0 })
	add("UnspentSiacoinElements", ue, err)
	we, err := s.WalletEvents(0, 100)
	add("WalletEvents", we, err)
	wc, err := s.WalletEventCount()
	add("WalletEventCount", wc, err)
	peers, err := s.Peers()
	ps2 := make([]string, 0, len(peers))
	for _, p := range peers {
		if stable {
			ps2 = append(ps2, p.Address)
		} else {
			ps2 = append(ps2, p.Address+"@"+p.FirstSeen.UTC().Format(time.RFC3339Nano))
		}
	}
	sort.Strings(ps2)
	add("Peers", ps2, err)
	for _, r := range env.roots {
		ok, err := s.HasSector(r)
		add("HasSector", ok, err)
	}
	for _, i := range []types.ChainIndex{env.tip} {
		el, err := s.ContractChainIndexElement(i)
		if err == nil {
			add("ContractChainIndexElement", el, nil)
		}
	}
	act, err := s.ContractActions(types.ChainIndex{Height: env.height}, env.height+10)
	add("ContractActions", act, err)
	fs, err := s.RebroadcastFormationSets(0)
	add("RebroadcastFormationSets", len(fs), err)
	return sb.String()
}

func verifRootMap(m map[types.FileContractID][]types.Hash256) []string {
	var out []string
	for id, roots := range m {
		parts := make([]string, len(roots))
		for i, r := range roots {
			parts[i] = hex.EncodeToString(r[:4])
		}
		out = append(out, hex.EncodeToString(id[:4])+"="+strings.Join(parts, ","))
	}
	sort.Strings(out)
	return out
}

type verifSnap struct {
	getters, dump, health string
}

func (a verifSnap) diff(b verifSnap) string {
	for _, p := range [][3]string{{"getter", a.getters, b.getters}, {"table", a.dump, b.dump}, {"health", a.health, b.health}} {
		if p[1] == p[2] {
			continue
		}
		la, lb := strings.Split(p[1], "\n"), strings.Split(p[2], "\n")
		seen := map[string]int{}
		for _, l := range la {
			seen[l]++
		}
		for _, l := range lb {
			if seen[l] == 0 {
				if len(l) > 300 {
					l = l[:300] + "..."
				}
				return p[0] + " differs: now " + l
			}
			seen[l]--
		}
		for l, n := range seen {
			if n > 0 {
				if len(l) > 300 {
					l = l[:300] + "..."
				}
				return p[0] + " differs: lost " + l
			}
		}
		return p[0] + " differs (order)"
	}
	return ""
}

func verifSnapshot(t testing.TB, s *Store, path string, env *verifEnv, stable bool) verifSnap {
	g := verifGetters(s, env, stable)
	d, h := verifDump(t, path, stable)
	return verifSnap{getters: g, dump: d, health: h}
}

func verifCopyFile(t testing.TB, src, dst string) {
	in, err := os.Open(src)
	if err != nil {
		t.Fatal(err)
	}
	defer in.Close()
	out, err := os.Create(dst)
	if err != nil {
		t.Fatal(err)
	}
	if _, err := io.Copy(out, in); err != nil {
		t.Fatal(err)
	}
	if err := out.Close(); err != nil {
		t.Fatal(err)
	}
	os.Remove(dst + "-wal")
	os.Remove(dst + "-shm")
}

func verifHash(rng *rand.Rand) (h types.Hash256) {
	rng.Read(h[:])
	return
}

func verifKey(rng *rand.Rand) types.PrivateKey {
	seed := make([]byte, 32)
	rng.Read(seed)
	return types.NewPrivateKeyFromSeed(seed)
}

func verifMust(t testing.TB, what string, err error) {
	if err != nil {
		t.Helper()
		t.Fatalf("populate: %s: %v", what, err)
	}
}

func (env *verifEnv) newV1(rng *rand.Rand, ws, we uint64) contracts.SignedRevision {
	return contracts.SignedRevision{
		Revision: types.FileContractRevision{
			ParentID:         types.FileContractID(verifHash(rng)),
			UnlockConditions: env.uc,
			FileContract: types.FileContract{
				UnlockHash:         env.uc.UnlockHash(),
				RevisionNumber:     1,
				WindowStart:        ws,
				WindowEnd:          we,
				ValidProofOutputs:  []types.SiacoinOutput{{Value: types.Siacoins(5)}, {Value: types.Siacoins(3)}},
				MissedProofOutputs: []types.SiacoinOutput{{Value: types.Siacoins(5)}, {Value: types.Siacoins(2)}, {Value: types.Siacoins(1)}},
			},
		},
	}
}

func (env *verifEnv) newV2(rng *rand.Rand, proof, exp uint64) contracts.V2Contract {
	return contracts.V2Contract{
		ID: types.FileContractID(verifHash(rng)),
		V2FileContract: types.V2FileContract{
			RenterPublicKey:  env.renterKey.PublicKey(),
			HostPublicKey:    env.hostKey.PublicKey(),
			ProofHeight:      proof,
			ExpirationHeight: exp,
			RevisionNumber:   1,
			RenterOutput:     types.SiacoinOutput{Value: types.Siacoins(5)},
			HostOutput:       types.SiacoinOutput{Value: types.Siacoins(3)},
			TotalCollateral:  types.Siacoins(2),
			MissedHostValue:  types.Siacoins(1),
		},
	}
}

// verifPopulate fills a fresh store with contracts (with sector roots), volumes with
// stored sectors, temp sectors, accounts of both kinds with funding sources, settings,
// pinned settings, webhooks, registry entries, peers, wallet elements/events, an
// announcement and a processed chain tip.  sectorsPerList scales the sector lists (the
// `testing` build of the repository uses SQL batches of 5 rows).
func verifPopulate(t testing.TB, s *Store, rng *rand.Rand, nRoots int) *verifEnv {
	env := &verifEnv{
		renterKey: verifKey(rng), hostKey: verifKey(rng),
		v1rev: map[types.FileContractID]contracts.SignedRevision{}, v1roots: map[types.FileContractID][]types.Hash256{},
		v2fc: map[types.FileContractID]types.V2FileContract{}, v2roots: map[types.FileContractID][]types.Hash256{},
		height: 100,
	}
	env.uc = types.UnlockConditions{
		PublicKeys:         []types.UnlockKey{env.renterKey.PublicKey().UnlockKey(), env.hostKey.PublicKey().UnlockKey()},
		SignaturesRequired: 2,
	}
	// settings
	st := settings.DefaultSettings
	st.MaxRegistryEntries = 8
	st.NetAddress = "host.example:9982"
	st.AcceptingContracts = true
	verifMust(t, "UpdateSettings", s.UpdateSettings(st))
	verifMust(t, "UpdatePinnedSettings", s.UpdatePinnedSettings(nil, pin.PinnedSettings{Currency: "usd", Threshold: 0.05, Storage: pin.Pin{Pinned: true, Value: 1.5}}))
	// volumes: [0] small, filled first and then made read-only (migration source),
	// [1] large, [2] empty
	store := func(n int) {
		for i := 0; i < n; i++ {
			r := verifHash(rng)
			verifMust(t, "StoreSector", s.StoreSector(r, func(storage.SectorLocation) error { return nil }))
			env.roots = append(env.roots, r)
		}
	}
	for i, size := range []uint64{4, uint64(3*nRoots) + 14, 4} {
		id, err := s.AddVolume(fmt.Sprintf("/vol%d.dat", i), false)
		verifMust(t, "AddVolume", err)
		verifMust(t, "SetAvailable", s.SetAvailable(id, true))
		verifMust(t, "GrowVolume", s.GrowVolume(id, size))
		env.vols = append(env.vols, id)
		if i == 0 {
			store(3)
			verifMust(t, "SetReadOnly", s.SetReadOnly(id, true))
		} else if i == 1 {
			store(3*nRoots + 5)
		}
	}
	next := 0
	take := func(n int) []types.Hash256 {
		out := append([]types.Hash256(nil), env.roots[next:next+n]...)
		next += n
		return out
	}
	// v1 contracts: [0] active with roots, [1] active empty, [2] with roots and an elapsed proof window
	for i, spec := range []struct {
		ws, we uint64
		n      int
	}{{500, 600, nRoots}, {500, 600, 0}, {40, 50, nRoots}} {
		rev := env.newV1(rng, spec.ws, spec.we)
		id := rev.Revision.ParentID
		verifMust(t, "AddContract", s.AddContract(rev, []types.Transaction{{ArbitraryData: [][]byte{{byte(i)}}}}, types.Siacoins(2), contracts.Usage{RPCRevenue: types.Siacoins(1)}, 10))
		env.v1 = append(env.v1, id)
		roots := take(spec.n)
		if len(roots) > 0 {
			var changes []contracts.SectorChange
			for _, r := range roots {
				changes = append(changes, contracts.SectorChange{Action: contracts.SectorActionAppend, Root: r})
			}
			rev.Revision.RevisionNumber++
			rev.Revision.Filesize = uint64(len(roots)) * proto4.SectorSize
			rev.Revision.FileMerkleRoot = rhp2.MetaRoot(roots)
			verifMust(t, "ReviseContract", s.ReviseContract(rev, nil, contracts.Usage{StorageRevenue: types.Siacoins(1), RiskedCollateral: types.Siacoins(1)}, changes))
		}
		env.v1rev[id] = rev
		env.v1roots[id] = roots
	}
	// v2 contracts: [0] with roots, [1] empty, [2] with roots and expired
	for _, spec := range []struct {
		ph, eh uint64
		n      int
	}{{500, 600, nRoots}, {500, 600, 0}, {40, 50, 2}} {
		c := env.newV2(rng, spec.ph, spec.eh)
		c.NegotiationHeight = 10
		c.Usage = proto4.Usage{RPC: types.Siacoins(1)}
		verifMust(t, "AddV2Contract", s.AddV2Contract(c, rhp4.TransactionSet{}))
		env.v2 = append(env.v2, c.ID)
		var roots []types.Hash256
		if spec.n > 0 {
			if spec.n == nRoots {
				roots = take(spec.n)
			} else {
				roots = append(roots, env.roots[0], env.roots[1]) // shared with the first v1 contract
			}
			c.V2FileContract.RevisionNumber++
			c.V2FileContract.Filesize = uint64(len(roots)) * proto4.SectorSize
			c.V2FileContract.Capacity = c.V2FileContract.Filesize
			c.V2FileContract.FileMerkleRoot = rhp2.MetaRoot(roots)
			verifMust(t, "ReviseV2Contract", s.ReviseV2Contract(c.ID, c.V2FileContract, nil, roots, proto4.Usage{Storage: types.Siacoins(1), RiskedCollateral: types.Siacoins(1)}))
		}
		env.v2fc[c.ID] = c.V2FileContract
		env.v2roots[c.ID] = roots
	}
	env.free = append([]types.Hash256(nil), env.roots[next:]...)
	// temp sectors (two generations of expiry)
	for i, r := range env.free[:2] {
		verifMust(t, "AddTempSector", s.AddTempSector(r, uint64(60+100*i)))
	}
	// chain: confirm the contracts, wallet elements, events, announcement, tip
	env.tip = types.ChainIndex{Height: env.height, ID: types.BlockID(verifHash(rng))}
	addr := types.StandardUnlockHash(env.hostKey.PublicKey())
	for i := 0; i < 3; i++ {
		env.sces = append(env.sces, types.SiacoinElement{
			ID:             types.SiacoinOutputID(verifHash(rng)),
			StateElement:   types.StateElement{LeafIndex: uint64(i), MerkleProof: []types.Hash256{verifHash(rng)}},
			SiacoinOutput:  types.SiacoinOutput{Value: types.Siacoins(uint32(10 + i)), Address: addr},
			MaturityHeight: []uint64{0, 0, env.height + 1}[i], // two spendable, one maturing in the next block
		})
	}
	verifMust(t, "UpdateChainState", s.UpdateChainState(func(tx index.UpdateTx) error {
		var sc contracts.StateChanges
		for _, id := range env.v1 {
			rev := env.v1rev[id]
			sc.Confirmed = append(sc.Confirmed, types.FileContractElement{ID: id, FileContract: rev.Revision.FileContract})
		}
		for _, id := range env.v2 {
			sc.ConfirmedV2 = append(sc.ConfirmedV2, types.V2FileContractElement{ID: id, StateElement: types.StateElement{LeafIndex: 7, MerkleProof: []types.Hash256{{1}}}, V2FileContract: env.v2fc[id]})
		}
		if err := tx.ApplyContracts(env.tip, sc); err != nil {
			return err
		}
		ev := []wallet.Event{{ID: verifHash(rng), Index: env.tip, Type: wallet.EventTypeMinerPayout, Data: wallet.EventPayout{SiacoinElement: env.sces[0]}, MaturityHeight: env.height, Timestamp: time.Unix(1700000000, 0)}}
		if err := tx.WalletApplyIndex(env.tip, env.sces, nil, ev, time.Now()); err != nil {
			return err
		} else if err := tx.AddContractChainIndexElement(types.ChainIndexElement{ID: env.tip.ID, ChainIndex: env.tip, StateElement: types.StateElement{LeafIndex: 3, MerkleProof: []types.Hash256{{2}}}}); err != nil {
			return err
		} else if err := tx.SetLastAnnouncement(settings.Announcement{Index: env.tip, Address: "host.example:9982"}); err != nil {
			return err
		}
		return tx.SetLastIndex(env.tip)
	}))
	// accounts
	for i := 0; i < 2; i++ {
		a := rhp3.Account(verifKey(rng).PublicKey())
		env.acct3 = append(env.acct3, a)
		a4 := proto4.Account(verifKey(rng).PublicKey())
		env.acct4 = append(env.acct4, a4)
	}
	rev := env.v1rev[env.v1[0]]
	rev.Revision.RevisionNumber++
	verifMust(t, "CreditAccountWithContract", s.CreditAccountWithContract(accounts.FundAccountWithContract{
		Account: env.acct3[0], Cost: types.NewCurrency64(1), Amount: types.Siacoins(2), Revision: rev, Expiration: time.Now().Add(time.Hour)}))
	env.v1rev[env.v1[0]] = rev
	fc := env.v2fc[env.v2[0]]
	fc.RevisionNumber++
	_, err := s.RHP4CreditAccounts([]proto4.AccountDeposit{{Account: env.acct4[0], Amount: types.Siacoins(2)}}, env.v2[0], fc, proto4.Usage{AccountFunding: types.Siacoins(2)})
	verifMust(t, "RHP4CreditAccounts", err)
	env.v2fc[env.v2[0]] = fc
	// registry
	for i := 0; i < 2; i++ {
		k := rhp3.RegistryKey{PublicKey: env.renterKey.PublicKey(), Tweak: types.Hash256{byte(i + 1)}}
		env.regKeys = append(env.regKeys, k)
	}
	verifMust(t, "SetRegistryValue", s.SetRegistryValue(rhp3.RegistryEntry{RegistryKey: env.regKeys[0], RegistryValue: rhp3.RegistryValue{Revision: 1, Data: []byte{1, 2, 3}}}, 1000))
	// webhooks
	for i, sc := range [][]string{{"alerts"}, {"all"}} {
		id, err := s.RegisterWebhook(fmt.Sprintf("http://127.0.0.1:1/hook%d", i), fmt.Sprintf("secret%d", i), sc)
		verifMust(t, "RegisterWebhook", err)
		env.hooks = append(env.hooks, id)
	}
	verifMust(t, "AddPeer", s.AddPeer("1.2.3.4:9981"))
	verifMust(t, "IncrementRHPDataUsage", s.IncrementRHPDataUsage(10, 20))
	return env
}

func verifNopLog() *zap.Logger { return zap.NewNop() }
