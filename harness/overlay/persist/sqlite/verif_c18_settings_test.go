//go:build verif

package sqlite

// C18 — the value a manager caches after an update is the value the store loads at the next
// start.  The real settings.ConfigManager and pin.Manager on a real Store are fed settings
// whose accepted form differs from their raw form (dynamic DNS switched off with the options of
// the former provider still there, every provider with padded / re-ordered / over-complete
// options, options of another provider, net addresses with and without a port, zero and extreme
// numeric fields, floats that SQLite cannot or does not keep as they are, pinned settings on
// every validation boundary).  After an update the host is closed, the store reopened and both
// managers constructed afresh; Settings() and Pinned() are compared field by field with what the
// old managers reported.  Every step is recorded for coq/Restart/Settings.v.
//
// A configured provider makes the manager try a DNS update in the background; the HTTP clients
// of internal/ddns honour the proxy environment, which this test points at a listener of its
// own that closes every connection after a quarter of a second: the attempt fails before any
// address is resolved and nothing leaves the machine.  (It must not fail at once: NewConfigManager
// starts the update timer with time.AfterFunc(0, ...) and assigns it to the field the callback
// resets afterwards, without holding the mutex — a first attempt that fails within that window
// dereferences a nil timer and takes the process down.  See fixes/C18-ddns-timer-start-race.patch.)

import (
	"context"
	"encoding/json"
	"errors"
	"fmt"
	"math"
	"math/rand"
	"net"
	"os"
	"os/exec"
	"path/filepath"
	"strings"
	"testing"
	"time"

	"go.sia.tech/core/types"
	"go.sia.tech/hostd/v2/host/settings"
	"go.sia.tech/hostd/v2/host/settings/pin"
	"go.uber.org/zap"
)

type vstForex struct{}

var errVstForex = errors.New("verif: no exchange rate source")

func (vstForex) SiacoinExchangeRate(context.Context, string) (float64, error) { return 0, errVstForex }

type vstHost struct {
	t        *testing.T
	em       *verifEmitter
	path     string
	key      types.PrivateKey
	validate bool
	store    *Store
	cfg      *settings.ConfigManager
	pins     *pin.Manager
	changed  bool // an accepted update whose cached form differs from the raw input
	dead     bool // the managers could not be constructed again: the case ends there
}

func (h *vstHost) open() error {
	var err error
	h.store, err = OpenDatabase(h.path, zap.NewNop())
	if err != nil {
		h.t.Fatal("open store:", err)
	}
	h.cfg, err = settings.NewConfigManager(h.key, h.store, nil, nil, nil, nil, settings.WithValidateNetAddress(h.validate))
	if err != nil {
		h.store.Close()
		return err
	}
	h.pins, err = pin.NewManager(h.store, h.cfg, vstForex{})
	if err != nil {
		h.cfg.Close()
		h.store.Close()
		return err
	}
	return nil
}

func (h *vstHost) close() {
	if h.dead {
		return
	}
	h.pins.Close()
	h.cfg.Close()
	h.store.Close()
}

// vstTarpit listens on the loopback addresses and closes whatever connects after a while.
// It returns the proxy URL and whether the IPv6 loopback could be bound as well.
func vstTarpit(t *testing.T) (proxy string, v6 bool) {
	l4, err := net.Listen("tcp4", "127.0.0.1:0")
	if err != nil {
		t.Fatal(err)
	}
	port := l4.Addr().(*net.TCPAddr).Port
	serve := func(l net.Listener) {
		for {
			c, err := l.Accept()
			if err != nil {
				return
			}
			go func() {
				time.Sleep(250 * time.Millisecond)
				c.Close()
			}()
		}
	}
	go serve(l4)
	t.Cleanup(func() { l4.Close() })
	if l6, err := net.Listen("tcp6", fmt.Sprintf("[::1]:%d", port)); err == nil {
		if addrs, err := net.LookupHost("localhost"); err == nil {
			for _, a := range addrs {
				if a == "::1" {
					v6 = true
				}
			}
		}
		go serve(l6)
		t.Cleanup(func() { l6.Close() })
	}
	return fmt.Sprintf("http://localhost:%d", port), v6
}

// vstV6 says whether an IPv6-only update attempt is held up as well (see vstTarpit)
var vstV6 bool

// ---- Coq terms

// a byte string: printable ASCII as (bytes_of "..."), anything else byte by byte
func vstBytes(b []byte) string {
	if len(b) == 0 {
		return "[]"
	}
	ascii := true
	for _, c := range b {
		if c < 32 || c > 126 {
			ascii = false
			break
		}
	}
	if ascii {
		return `(bytes_of "` + strings.ReplaceAll(string(b), `"`, `""`) + `")`
	}
	var sb strings.Builder
	sb.WriteByte('[')
	for i, c := range b {
		if i > 0 {
			sb.WriteString("; ")
		}
		fmt.Fprintf(&sb, "%d", c)
	}
	sb.WriteByte(']')
	return sb.String()
}

func vstOptBytes(b []byte) string {
	if b == nil {
		return "None"
	}
	return "(Some " + vstBytes(b) + ")"
}

func vstZ(v int64) string { return fmt.Sprintf("(%d)%%Z", v) }

func vstSettings(s settings.Settings) string {
	return fmt.Sprintf("(mkSettings %s %s %d %d %s %s %s %d %s %s %s %s %s %d %s %s %d %d (mkDns %s %s %s %s) %d %d)",
		coqBool(s.AcceptingContracts), vstBytes([]byte(s.NetAddress)), s.MaxContractDuration, s.WindowSize,
		s.ContractPrice.ExactString(), s.BaseRPCPrice.ExactString(), s.SectorAccessPrice.ExactString(),
		math.Float64bits(s.CollateralMultiplier), s.MaxCollateral.ExactString(),
		s.StoragePrice.ExactString(), s.EgressPrice.ExactString(), s.IngressPrice.ExactString(),
		vstZ(int64(s.PriceTableValidity)), s.MaxRegistryEntries, vstZ(int64(s.AccountExpiry)), s.MaxAccountBalance.ExactString(),
		s.IngressLimit, s.EgressLimit,
		vstBytes([]byte(s.DDNS.Provider)), coqBool(s.DDNS.IPv4), coqBool(s.DDNS.IPv6), vstOptBytes(s.DDNS.Options),
		s.SectorCacheSize, s.Revision)
}

func vstPin(p pin.Pin) string {
	return fmt.Sprintf("(mkPin %s %d)", coqBool(p.Pinned), math.Float64bits(p.Value))
}

func vstPinned(p pin.PinnedSettings) string {
	return fmt.Sprintf("(mkPinned %s %d %s %s %s %s)", vstBytes([]byte(p.Currency)), math.Float64bits(p.Threshold),
		vstPin(p.Storage), vstPin(p.Ingress), vstPin(p.Egress), vstPin(p.MaxCollateral))
}

// vstOracle evaluates the standard-library functions UpdateSettings applies to this input
// (never any code of hostd) and renders them as the model's oracle record.
func (h *vstHost) oracle(s settings.Settings) (term string, known bool) {
	blank := strings.TrimSpace(s.NetAddress) == ""
	_, _, serr := net.SplitHostPort(s.NetAddress)
	ipTerm := "None"
	if ip := net.ParseIP(s.NetAddress); ip != nil {
		ipTerm = fmt.Sprintf("(Some (%s, %s, %s))", coqBool(ip.IsLoopback()), coqBool(ip.IsPrivate()), coqBool(ip.IsGlobalUnicast()))
	}
	fields, canon, stored, loaded := "(Err EOther)", "[]", "(Ok [])", "(Ok [])"
	var opts any
	var list func() [][]byte
	switch s.DDNS.Provider {
	case settings.DNSProviderCloudflare:
		o := new(settings.CloudflareSettings)
		opts, list = o, func() [][]byte { return [][]byte{[]byte(o.Token), []byte(o.ZoneID)} }
	case settings.DNSProviderDuckDNS:
		o := new(settings.DuckDNSSettings)
		opts, list = o, func() [][]byte { return [][]byte{[]byte(o.Token)} }
	case settings.DNSProviderNoIP:
		o := new(settings.NoIPSettings)
		opts, list = o, func() [][]byte { return [][]byte{[]byte(o.Email), []byte(o.Password)} }
	case settings.DNSProviderRoute53:
		o := new(settings.Route53Settings)
		opts, list = o, func() [][]byte { return [][]byte{[]byte(o.ID), []byte(o.Secret), []byte(o.ZoneID)} }
	}
	if opts != nil {
		known = true
		if err := json.Unmarshal(s.DDNS.Options, opts); err == nil {
			var fl []string
			for _, f := range list() {
				fl = append(fl, vstBytes(f))
			}
			fields = "(Ok [" + strings.Join(fl, "; ") + "])"
			c, _ := json.Marshal(opts)
			canon = vstBytes(c)
			// what the store binds, and what a start makes of it
			st, err := json.Marshal(json.RawMessage(c))
			if err != nil {
				stored, loaded = "(Err EOther)", "(Err EOther)"
			} else {
				stored = "(Ok " + vstBytes(st) + ")"
				var rm json.RawMessage
				if err := json.Unmarshal(st, &rm); err != nil {
					loaded = "(Err EOther)"
				} else {
					loaded = "(Ok " + vstBytes(rm) + ")"
				}
				if string(st) != string(c) || string(rm) != string(c) {
					// the assumption of the theorem about encoding/json does not hold on this input
					h.em.Monitor("json-reencoding-not-stable", fmt.Sprintf("provider %s: encoded options %q are stored as %q and read back as %q", s.DDNS.Provider, c, st, rm))
				}
			}
		}
	}
	return fmt.Sprintf("(mkOracle %s %s %s %s %s %s %s %s)", coqBool(h.validate), coqBool(blank), coqBool(serr == nil), ipTerm, fields, canon, stored, loaded), known
}

// ---- comparison, field by field (floats numerically: the property is about values)

func vstSettingsFields(s settings.Settings) map[string]string {
	f := func(v float64) string {
		if v == 0 {
			return "0" // either sign
		}
		return fmt.Sprintf("%x", math.Float64bits(v))
	}
	opts := "nil"
	if s.DDNS.Options != nil {
		opts = fmt.Sprintf("%q", []byte(s.DDNS.Options))
	}
	return map[string]string{
		"acceptingContracts": fmt.Sprint(s.AcceptingContracts), "netAddress": fmt.Sprintf("%q", s.NetAddress),
		"maxContractDuration": fmt.Sprint(s.MaxContractDuration), "windowSize": fmt.Sprint(s.WindowSize),
		"contractPrice": s.ContractPrice.ExactString(), "baseRPCPrice": s.BaseRPCPrice.ExactString(), "sectorAccessPrice": s.SectorAccessPrice.ExactString(),
		"collateralMultiplier": f(s.CollateralMultiplier), "maxCollateral": s.MaxCollateral.ExactString(),
		"storagePrice": s.StoragePrice.ExactString(), "egressPrice": s.EgressPrice.ExactString(), "ingressPrice": s.IngressPrice.ExactString(),
		"priceTableValidity": fmt.Sprint(int64(s.PriceTableValidity)), "maxRegistryEntries": fmt.Sprint(s.MaxRegistryEntries),
		"accountExpiry": fmt.Sprint(int64(s.AccountExpiry)), "maxAccountBalance": s.MaxAccountBalance.ExactString(),
		"ingressLimit": fmt.Sprint(s.IngressLimit), "egressLimit": fmt.Sprint(s.EgressLimit),
		"ddns.provider": fmt.Sprintf("%q", s.DDNS.Provider), "ddns.ipv4": fmt.Sprint(s.DDNS.IPv4), "ddns.ipv6": fmt.Sprint(s.DDNS.IPv6), "ddns.options": opts,
		"sectorCacheSize": fmt.Sprint(s.SectorCacheSize), "revision": fmt.Sprint(s.Revision),
	}
}

func vstPinnedFields(p pin.PinnedSettings) map[string]string {
	f := func(v float64) string {
		if v == 0 {
			return "0"
		}
		return fmt.Sprintf("%x", math.Float64bits(v))
	}
	return map[string]string{
		"currency": fmt.Sprintf("%q", p.Currency), "threshold": f(p.Threshold),
		"storage.pinned": fmt.Sprint(p.Storage.Pinned), "storage.value": f(p.Storage.Value),
		"ingress.pinned": fmt.Sprint(p.Ingress.Pinned), "ingress.value": f(p.Ingress.Value),
		"egress.pinned": fmt.Sprint(p.Egress.Pinned), "egress.value": f(p.Egress.Value),
		"maxCollateral.pinned": fmt.Sprint(p.MaxCollateral.Pinned), "maxCollateral.value": f(p.MaxCollateral.Value),
	}
}

var vstSettingsFieldOrder = []string{"acceptingContracts", "netAddress", "maxContractDuration", "windowSize", "contractPrice", "baseRPCPrice",
	"sectorAccessPrice", "collateralMultiplier", "maxCollateral", "storagePrice", "egressPrice", "ingressPrice", "priceTableValidity",
	"maxRegistryEntries", "accountExpiry", "maxAccountBalance", "ingressLimit", "egressLimit", "ddns.provider", "ddns.ipv4", "ddns.ipv6",
	"ddns.options", "sectorCacheSize", "revision"}
var vstPinnedFieldOrder = []string{"currency", "threshold", "storage.pinned", "storage.value", "ingress.pinned", "ingress.value",
	"egress.pinned", "egress.value", "maxCollateral.pinned", "maxCollateral.value"}

// ---- operations

// update calls ConfigManager.UpdateSettings and records what the manager reports afterwards
func (h *vstHost) update(s settings.Settings, what string) bool {
	if h.dead {
		return false
	}
	if s.DDNS.Provider != "" && !s.DDNS.IPv4 && s.DDNS.IPv6 && !vstV6 {
		// an IPv6-only update attempt cannot be held up on this machine
		s.DDNS.IPv4 = true
		h.em.Count("ddns: IPv6-only input changed to IPv4+IPv6 (no IPv6 loopback)")
	}
	orc, known := h.oracle(s)
	var err error
	func() {
		defer func() {
			if r := recover(); r != nil {
				err = fmt.Errorf("panic: %v", r)
				h.em.Monitor("update-settings-panics", fmt.Sprintf("%s: %v", what, r))
			}
		}()
		err = h.cfg.UpdateSettings(s)
	}()
	cached := h.cfg.Settings()
	h.em.Step(fmt.Sprintf("SUpdate %s %s", vstSettings(s), orc), fmt.Sprintf("OUpdate %s %s", coqBool(err == nil), vstSettings(cached)))
	if err != nil {
		h.em.Count("update:refused (" + what + ")")
		return false
	}
	h.em.Count("update:accepted (" + what + ")")
	if known {
		h.em.Count("update:accepted with provider " + s.DDNS.Provider)
	}
	raw, got := vstSettingsFields(s), vstSettingsFields(cached)
	for _, k := range vstSettingsFieldOrder {
		if k != "revision" && raw[k] != got[k] {
			h.changed = true
			h.em.Count("accepted form differs from the raw input in " + k)
		}
	}
	return true
}

func (h *vstHost) pin(p pin.PinnedSettings, what string) bool {
	if h.dead {
		return false
	}
	err := h.pins.Update(context.Background(), p)
	// without an exchange rate the prices are not refreshed; the pinned settings are stored and cached before that
	stored := err == nil || errors.Is(err, errVstForex)
	cached := h.pins.Pinned(context.Background())
	h.em.Step("SPin "+vstPinned(p), fmt.Sprintf("OPin %s %s", coqBool(stored), vstPinned(cached)))
	if stored {
		h.em.Count("pin:accepted (" + what + ")")
	} else {
		h.em.Count("pin:refused (" + what + ")")
	}
	return stored
}

// reopen closes the host, opens the store again and constructs both managers afresh; what the
// new managers report must be what the old ones reported
func (h *vstHost) reopen() {
	if h.dead {
		return
	}
	before, pbefore := h.cfg.Settings(), h.pins.Pinned(context.Background())
	h.close()
	if err := h.open(); err != nil {
		h.em.Monitor("settings-unloadable-after-reopen", fmt.Sprintf("the managers reported %s / %s; after the restart: %v", verifVstJSON(before), verifVstJSON(pbefore), err))
		h.em.Step("SReopen", "OLoadFails")
		h.dead = true // the case ends here
		return
	}
	after, pafter := h.cfg.Settings(), h.pins.Pinned(context.Background())
	h.em.Step("SReopen", fmt.Sprintf("OLoaded %s %s", vstSettings(after), vstPinned(pafter)))
	h.em.Count("reopen")
	b, a := vstSettingsFields(before), vstSettingsFields(after)
	for _, k := range vstSettingsFieldOrder {
		if b[k] != a[k] {
			h.em.Monitor("settings-differ-after-reopen-"+k, fmt.Sprintf("Settings().%s is %s before the restart and %s after (settings before: %s)", k, b[k], a[k], verifVstJSON(before)))
		}
	}
	pb, pa := vstPinnedFields(pbefore), vstPinnedFields(pafter)
	for _, k := range vstPinnedFieldOrder {
		if pb[k] != pa[k] {
			h.em.Monitor("pinned-settings-differ-after-reopen-"+k, fmt.Sprintf("Pinned().%s is %s before the restart and %s after (pinned settings before: %s)", k, pb[k], pa[k], verifVstJSON(pbefore)))
		}
	}
	if math.Signbit(before.CollateralMultiplier) != math.Signbit(after.CollateralMultiplier) && before.CollateralMultiplier == after.CollateralMultiplier {
		h.em.Count("reopen: the sign of a zero float is not kept (numerically equal)")
	}
}

func verifVstJSON(v any) string {
	b, err := json.Marshal(v)
	if err != nil {
		return fmt.Sprintf("%+v", v)
	}
	return string(b)
}

// ---- generators

var vstProviders = []string{settings.DNSProviderCloudflare, settings.DNSProviderDuckDNS, settings.DNSProviderNoIP, settings.DNSProviderRoute53}

// minimal valid options of every provider
var vstMinimal = map[string]string{
	settings.DNSProviderCloudflare: `{"token":"t","zoneID":"z"}`,
	settings.DNSProviderDuckDNS:    `{"token":"t"}`,
	settings.DNSProviderNoIP:       `{"email":"e","password":"p"}`,
	settings.DNSProviderRoute53:    `{"id":"i","secret":"s","zoneID":"z"}`,
}

// valid options in a form that is not the one the manager keeps
func vstVariant(rng *rand.Rand, provider string) string {
	val := func() string {
		return []string{"x", "a b", "tok<en>&\"q\"", "é€", "\\u0041", "0", "null", strings.Repeat("k", 40)}[rng.Intn(8)]
	}
	q := func(s string) string { b, _ := json.Marshal(s); return string(b) }
	var keys []string
	switch provider {
	case settings.DNSProviderCloudflare:
		keys = []string{"token", "zoneID"}
	case settings.DNSProviderDuckDNS:
		keys = []string{"token"}
	case settings.DNSProviderNoIP:
		keys = []string{"email", "password"}
	default:
		keys = []string{"id", "secret", "zoneID"}
	}
	rng.Shuffle(len(keys), func(i, j int) { keys[i], keys[j] = keys[j], keys[i] })
	var parts []string
	for _, k := range keys {
		if rng.Intn(6) == 0 {
			k = strings.ToUpper(k) // encoding/json matches keys case-insensitively
		}
		parts = append(parts, fmt.Sprintf("%s%s%s:%s%s", vstPad(rng), q(k), vstPad(rng), vstPad(rng), q(val())))
	}
	if rng.Intn(2) == 0 {
		parts = append(parts, `"extra":[1, 2, {"a": null}]`)
	}
	if rng.Intn(4) == 0 {
		parts = append(parts, fmt.Sprintf("%s:%s", q(keys[0]), q(val()))) // a duplicate key: the last one wins
	}
	return vstPad(rng) + "{" + strings.Join(parts, ",") + vstPad(rng) + "}" + vstPad(rng)
}

func vstPad(rng *rand.Rand) string { return []string{"", "", " ", "\n\t", "  "}[rng.Intn(5)] }

// options that are there but do not fit
func vstBadOptions(rng *rand.Rand, provider string) []byte {
	switch rng.Intn(7) {
	case 0:
		return nil
	case 1:
		return []byte(`null`)
	case 2:
		return []byte(`{}`)
	case 3:
		return []byte(`{"token":""}`)
	case 4:
		return []byte(`{"token":1}`)
	case 5:
		return []byte(`{"token":"t"`)
	default:
		return []byte(`[]`)
	}
}

var vstAddresses = []string{"", " ", "\t\n", "host.example", "host.example:9982", "sub.host.example:1", "localhost", "localhost:9982",
	"8.8.8.8", "8.8.8.8:9982", "10.0.0.1", "192.168.1.4:9982", "127.0.0.1", "2001:4860:4860::8888", "[2001:4860:4860::8888]", "[2001:4860:4860::8888]:9982",
	"::1", "fe80::1", "[host", "host]", " host.example ", "host.example:", ":9982", "12345", "1e3", "höst.example", "a:b:c", "0.0.0.0", "224.0.0.1"}

var vstU64 = []uint64{0, 1, 2, 144, 25920, 1 << 31, 1<<32 - 1, 1 << 32, 1<<62 + 1, 1<<63 - 2, 1<<63 - 1, 1 << 63, 1<<63 + 1, math.MaxUint64 - 1, math.MaxUint64}

var vstFloats = []float64{0, math.Copysign(0, -1), 1, -1, 2, 1.5, 0.1, 1e-300, math.SmallestNonzeroFloat64, -math.SmallestNonzeroFloat64,
	math.MaxFloat64, -math.MaxFloat64, math.Inf(1), math.Inf(-1), math.NaN(), 1 << 53, 1<<53 + 2, 1 << 62, -(1 << 63), 1 << 63, 1 << 64,
	9.007199254740993e15, 4611686018427387904.0, 1e19, 0.02, 0.999999999999, 1.0000000000000002, 3, 1e300}

var vstDurations = []time.Duration{0, 1, -1, time.Minute, 30 * time.Minute, 30 * 24 * time.Hour, math.MaxInt64, math.MinInt64, math.MinInt64 + 1, -time.Hour}

func vstCurrency(rng *rand.Rand) types.Currency {
	switch rng.Intn(8) {
	case 0:
		return types.ZeroCurrency
	case 1:
		return types.MaxCurrency
	case 2:
		return types.NewCurrency(math.MaxUint64, 0)
	case 3:
		return types.NewCurrency(0, 1)
	case 4:
		return types.NewCurrency(0, math.MaxUint64)
	case 5:
		return types.Siacoins(uint32(rng.Intn(5000)))
	default:
		return types.NewCurrency(rng.Uint64(), rng.Uint64()>>uint(rng.Intn(64)))
	}
}

func vstPickU64(rng *rand.Rand, extreme bool) uint64 {
	if extreme {
		return vstU64[rng.Intn(len(vstU64))]
	}
	return vstU64[rng.Intn(11)] // below 2^63
}

// vstDNS draws a DNS block: mostly acceptable, in a form that is not the accepted one
func vstDNS(rng *rand.Rand) settings.DNSSettings {
	var d settings.DNSSettings
	switch k := rng.Intn(20); {
	case k < 5: // switched off, with whatever was there before
		d.IPv4, d.IPv6 = rng.Intn(2) == 0, rng.Intn(2) == 0
		switch rng.Intn(4) {
		case 0:
		case 1:
			d.Options = json.RawMessage(vstMinimal[vstProviders[rng.Intn(4)]])
		case 2:
			d.Options = json.RawMessage(vstVariant(rng, vstProviders[rng.Intn(4)]))
		default:
			d.Options = json.RawMessage(`not json at all`)
		}
	case k < 15: // a provider with valid options
		d.Provider = vstProviders[rng.Intn(4)]
		d.IPv4, d.IPv6 = rng.Intn(4) != 0, rng.Intn(3) == 0
		if !d.IPv4 && !d.IPv6 && rng.Intn(3) != 0 {
			d.IPv6 = true
		}
		switch rng.Intn(4) {
		case 0:
			d.Options = json.RawMessage(vstMinimal[d.Provider])
		case 1:
			// the options of another provider: whatever fits is kept, the rest dropped or missing
			d.Options = json.RawMessage(vstVariant(rng, vstProviders[rng.Intn(4)]))
		default:
			d.Options = json.RawMessage(vstVariant(rng, d.Provider))
		}
	case k < 18: // a provider whose options do not fit
		d.Provider = vstProviders[rng.Intn(4)]
		d.IPv4 = true
		d.Options = vstBadOptions(rng, d.Provider)
	default:
		d.Provider = []string{"dyndns", "Cloudflare", " duckdns", "noip ", "x"}[rng.Intn(5)]
		d.IPv4, d.IPv6 = true, true
		d.Options = json.RawMessage(`{"token":"t"}`)
	}
	return d
}

func vstRandomSettings(rng *rand.Rand, base settings.Settings) settings.Settings {
	s := base // the API patches the current settings
	extreme := rng.Intn(4) == 0
	flip := func() bool { return rng.Intn(3) == 0 }
	if flip() {
		s.AcceptingContracts = !s.AcceptingContracts
	}
	if flip() {
		s.NetAddress = vstAddresses[rng.Intn(len(vstAddresses))]
	}
	if flip() {
		s.MaxContractDuration = vstPickU64(rng, extreme)
	}
	if flip() {
		s.WindowSize = vstPickU64(rng, extreme)
	}
	if flip() {
		s.ContractPrice, s.BaseRPCPrice, s.SectorAccessPrice = vstCurrency(rng), vstCurrency(rng), vstCurrency(rng)
	}
	if flip() {
		s.CollateralMultiplier = vstFloats[rng.Intn(len(vstFloats))]
		if math.IsNaN(s.CollateralMultiplier) && !extreme {
			s.CollateralMultiplier = rng.NormFloat64()
		}
	}
	if flip() {
		s.MaxCollateral, s.StoragePrice, s.EgressPrice, s.IngressPrice = vstCurrency(rng), vstCurrency(rng), vstCurrency(rng), vstCurrency(rng)
	}
	if flip() {
		s.PriceTableValidity, s.AccountExpiry = vstDurations[rng.Intn(len(vstDurations))], vstDurations[rng.Intn(len(vstDurations))]
	}
	if flip() {
		s.MaxRegistryEntries = vstPickU64(rng, extreme)
	}
	if flip() {
		s.MaxAccountBalance = vstCurrency(rng)
	}
	if flip() {
		s.IngressLimit, s.EgressLimit = vstPickU64(rng, extreme), vstPickU64(rng, false)
	}
	if flip() {
		s.SectorCacheSize = []uint32{0, 1, 64, math.MaxUint32 - 1, math.MaxUint32}[rng.Intn(5)]
	}
	if rng.Intn(3) != 0 {
		s.DDNS = vstDNS(rng)
	}
	s.Revision = []uint64{s.Revision, 0, 7, math.MaxUint64}[rng.Intn(4)] // whatever the caller sends: the store counts
	return s
}

func vstRandomPinned(rng *rand.Rand) pin.PinnedSettings {
	fl := func() float64 {
		if rng.Intn(2) == 0 {
			return vstFloats[rng.Intn(len(vstFloats))]
		}
		return float64(rng.Intn(4000)) / 16
	}
	mk := func() pin.Pin { return pin.Pin{Pinned: rng.Intn(2) == 0, Value: fl()} }
	p := pin.PinnedSettings{Currency: []string{"usd", "eur", "jpy", "", " ", "USD", "€", "123"}[rng.Intn(8)],
		Threshold: []float64{0, math.Copysign(0, -1), 0.02, 0.5, 1, 1.0000000000000002, -1e-300, math.SmallestNonzeroFloat64, math.NaN(), math.Inf(1), 0.999}[rng.Intn(11)],
		Storage:   mk(), Ingress: mk(), Egress: mk(), MaxCollateral: mk()}
	if rng.Intn(2) == 0 {
		// mostly acceptable
		if p.Currency == "" {
			p.Currency = "usd"
		}
		for _, x := range []*pin.Pin{&p.Storage, &p.Ingress, &p.Egress, &p.MaxCollateral} {
			if x.Pinned && !(x.Value > 0) {
				x.Pinned = false
			}
		}
	}
	return p
}

// ---- directed cases

func vstBase() settings.Settings {
	s := settings.DefaultSettings
	s.NetAddress = "host.example"
	s.AcceptingContracts = true
	return s
}

var vstDirected = []struct {
	desc     string
	validate bool
	run      func(h *vstHost)
}{
	{"directed: dynamic DNS switched off while the options of the former provider are still there", true, func(h *vstHost) {
		s := vstBase()
		s.DDNS = settings.DNSSettings{IPv4: true, IPv6: true, Options: json.RawMessage(`{"token":"t"}`)}
		h.update(s, "empty provider with options")
		h.reopen()
		// ... after a provider had been configured
		s.DDNS = settings.DNSSettings{Provider: settings.DNSProviderDuckDNS, IPv4: true, Options: json.RawMessage(`{"token":"secret"}`)}
		h.update(s, "provider with valid options")
		h.reopen()
		s = h.cfg.Settings()
		s.DDNS.Provider = ""
		h.update(s, "empty provider with options")
		h.reopen()
		s.DDNS = settings.DNSSettings{IPv6: true, Options: json.RawMessage(`garbage`)}
		h.update(s, "empty provider with options")
		h.reopen()
	}},
	{"directed: every provider with minimal, padded, re-ordered and over-complete options, then switched off", true, func(h *vstHost) {
		rng := rand.New(rand.NewSource(11))
		for _, p := range vstProviders {
			s := vstBase()
			s.DDNS = settings.DNSSettings{Provider: p, IPv4: true, Options: json.RawMessage(vstMinimal[p])}
			h.update(s, "provider with valid options")
			h.reopen()
			for i := 0; i < 3; i++ {
				s.DDNS = settings.DNSSettings{Provider: p, IPv4: i != 1, IPv6: i != 0, Options: json.RawMessage(vstVariant(rng, p))}
				h.update(s, "provider with valid options")
				h.reopen()
			}
			s = h.cfg.Settings()
			s.DDNS.Provider = ""
			h.update(s, "empty provider with options")
			h.reopen()
		}
	}},
	{"directed: a provider with the options of another one, with options that do not fit, unknown providers", true, func(h *vstHost) {
		s := vstBase()
		for _, p := range vstProviders {
			for _, q := range vstProviders {
				s.DDNS = settings.DNSSettings{Provider: p, IPv4: true, IPv6: true, Options: json.RawMessage(vstMinimal[q])}
				h.update(s, "provider with the options of another")
			}
			h.reopen()
		}
		rng := rand.New(rand.NewSource(12))
		for i := 0; i < 14; i++ {
			p := vstProviders[i%4]
			s.DDNS = settings.DNSSettings{Provider: p, IPv4: true, Options: vstBadOptions(rng, p)}
			h.update(s, "provider with unfit options")
		}
		s.DDNS = settings.DNSSettings{Provider: settings.DNSProviderNoIP, Options: json.RawMessage(vstMinimal[settings.DNSProviderNoIP])}
		h.update(s, "provider without IPv4 and IPv6")
		s.DDNS = settings.DNSSettings{Provider: "dyndns", IPv4: true, Options: json.RawMessage(`{}`)}
		h.update(s, "unknown provider")
		h.reopen()
	}},
	{"directed: net addresses with and without a port, validated", true, func(h *vstHost) {
		s := vstBase()
		for _, a := range vstAddresses {
			s.NetAddress = a
			if h.update(s, "net address") {
				h.reopen()
			}
		}
	}},
	{"directed: net addresses with and without a port, not validated", false, func(h *vstHost) {
		s := vstBase()
		for _, a := range vstAddresses {
			s.NetAddress = a
			if h.update(s, "net address") {
				h.reopen()
			}
		}
	}},
	{"directed: zero and extreme numeric fields", false, func(h *vstHost) {
		h.update(settings.Settings{}, "all fields zero")
		h.reopen()
		s := vstBase()
		for j, v := range vstU64 {
			for i := 0; i < 5; i++ {
				if i != j%5 && v != 1<<63-1 && v != 1<<63 {
					continue // every value in one field, the two sides of the boundary in every field
				}
				t := s
				*[]*uint64{&t.MaxContractDuration, &t.WindowSize, &t.MaxRegistryEntries, &t.IngressLimit, &t.EgressLimit}[i] = v
				if h.update(t, "extreme uint64") {
					h.reopen()
				}
			}
		}
		for _, v := range vstFloats {
			t := s
			t.CollateralMultiplier = v
			if h.update(t, "extreme float") {
				h.reopen()
			}
		}
		for _, v := range vstDurations {
			t := s
			t.PriceTableValidity, t.AccountExpiry = v, -v
			h.update(t, "extreme duration")
			h.reopen()
		}
		t := s
		t.ContractPrice, t.BaseRPCPrice, t.SectorAccessPrice, t.MaxCollateral = types.MaxCurrency, types.NewCurrency(0, 1), types.NewCurrency(math.MaxUint64, 0), types.ZeroCurrency
		t.StoragePrice, t.EgressPrice, t.IngressPrice, t.MaxAccountBalance = types.NewCurrency(1, 1<<63), types.NewCurrency64(1), types.MaxCurrency, types.MaxCurrency
		t.SectorCacheSize = math.MaxUint32
		t.Revision = math.MaxUint64
		h.update(t, "extreme currencies")
		h.reopen()
	}},
	{"directed: pinned settings on every validation boundary", false, func(h *vstHost) {
		ok := pin.PinnedSettings{Currency: "usd", Threshold: 0.1, Storage: pin.Pin{Pinned: true, Value: 1.5}}
		h.pin(ok, "plain")
		h.reopen()
		for _, th := range []float64{0, math.Copysign(0, -1), 1, 1.0000000000000002, -math.SmallestNonzeroFloat64, math.NaN(), math.Inf(1), math.Inf(-1), 0.02} {
			p := ok
			p.Threshold = th
			if h.pin(p, "threshold boundary") {
				h.reopen()
			}
		}
		for _, v := range vstFloats {
			for _, pinned := range []bool{true, false} {
				p := pin.PinnedSettings{Currency: "eur", Threshold: 1, Storage: pin.Pin{Pinned: !pinned, Value: 2}, Ingress: pin.Pin{Pinned: pinned, Value: v},
					Egress: pin.Pin{Pinned: false, Value: -v}, MaxCollateral: pin.Pin{Pinned: pinned, Value: v}}
				if h.pin(p, "pinned value boundary") {
					h.reopen()
				}
			}
		}
		for _, c := range []string{"", " ", "usd", "USD", "€", "123", "a\x00b"} {
			p := ok
			p.Currency = c
			if h.pin(p, "currency") {
				h.reopen()
			}
		}
		// every flag toggled in both directions, several updates between two restarts
		for i := 0; i < 4; i++ {
			odd := i%2 == 1
			p := pin.PinnedSettings{Currency: []string{"usd", "eur"}[i%2], Threshold: float64(i+1) / 16,
				Storage: pin.Pin{Pinned: odd, Value: 1.5 + float64(i)}, Ingress: pin.Pin{Pinned: !odd, Value: 2.5 + float64(i)},
				Egress: pin.Pin{Pinned: odd, Value: 3.5 + float64(i)}, MaxCollateral: pin.Pin{Pinned: !odd, Value: 4.5 + float64(i)}}
			h.pin(p, "toggle")
			if odd {
				h.reopen()
			}
		}
		h.reopen()
	}},
	{"directed: refused updates between accepted ones, several updates between two restarts", true, func(h *vstHost) {
		s := vstBase()
		s.DDNS = settings.DNSSettings{Provider: settings.DNSProviderCloudflare, IPv4: true, Options: json.RawMessage(` {"zoneID": "z", "token": "t", "more": 1} `)}
		h.update(s, "provider with valid options")
		bad := s
		bad.WindowSize = 1 << 63
		h.update(bad, "extreme uint64")
		bad = s
		bad.DDNS.Options = json.RawMessage(`{"token":"t"}`)
		h.update(bad, "provider with unfit options")
		bad = s
		bad.NetAddress = "localhost"
		h.update(bad, "net address")
		bad = s
		bad.CollateralMultiplier = math.NaN()
		h.update(bad, "extreme float")
		h.reopen()
		for i := 0; i < 5; i++ {
			s.IngressLimit = uint64(i)
			s.DDNS.IPv6 = i%2 == 0
			h.update(s, "provider with valid options")
		}
		h.reopen()
		h.reopen()
		s.DDNS = settings.DNSSettings{IPv4: true, Options: json.RawMessage(`{"zoneID":"z","token":"t"}`)}
		h.update(s, "empty provider with options")
		h.update(bad, "extreme float")
		h.reopen()
	}},
}

// ---- starting a host whose dynamic DNS is configured while the first update attempt fails at once

// TestVerifC18DDNSStartChild runs in a process of its own (started by vstStartRace): a store
// with a configured provider, the managers constructed on it again and again, every first
// update attempt refused at once by the proxy of the environment.  A nil timer dereferenced in
// ConfigManager.triggerDNSUpdate takes the process down.
func TestVerifC18DDNSStartChild(t *testing.T) {
	if os.Getenv("VERIF_C18_CHILD") != "1" {
		t.Skip("helper process of TestVerifC18Settings")
	}
	db, err := OpenDatabase(filepath.Join(t.TempDir(), "hostd.sqlite3"), zap.NewNop())
	if err != nil {
		t.Fatal(err)
	}
	defer db.Close()
	s := settings.DefaultSettings
	s.DDNS = settings.DNSSettings{Provider: settings.DNSProviderDuckDNS, IPv4: true, Options: []byte(`{"token":"t"}`)}
	if err := db.UpdateSettings(s); err != nil {
		t.Fatal(err)
	}
	key := types.NewPrivateKeyFromSeed(make([]byte, 32))
	for i := 0; i < 1500; i++ {
		m, err := settings.NewConfigManager(key, db, nil, nil, nil, nil)
		if err != nil {
			t.Fatal(err)
		}
		time.Sleep(200 * time.Microsecond)
		m.Close()
	}
	time.Sleep(100 * time.Millisecond)
}

func vstStartRace(t *testing.T, em *verifEmitter) {
	cmd := exec.Command(os.Args[0], "-test.run=^TestVerifC18DDNSStartChild$", "-test.timeout=120s")
	cmd.Env = append(os.Environ(), "VERIF_C18_CHILD=1", "HTTPS_PROXY=http://127.0.0.1:1", "https_proxy=http://127.0.0.1:1", "VERIF_OUT=")
	out, err := cmd.CombinedOutput()
	em.Count("start with dynamic DNS configured and no network: 1500 starts in a process of their own")
	if err != nil && strings.Contains(string(out), "triggerDNSUpdate") {
		em.Monitor("host-start-crashes-ddns-timer-race", fmt.Sprintf("a host with dynamic DNS configured is started while the first update attempt fails at once: %.600s", out))
	} else if err != nil {
		t.Logf("helper process: %v\n%.2000s", err, out)
	}
}

func TestVerifC18Settings(t *testing.T) {
	// no DNS update attempt of a configured provider gets anywhere (see the file comment)
	proxy, v6 := vstTarpit(t)
	vstV6 = v6
	for _, k := range []string{"HTTP_PROXY", "HTTPS_PROXY", "http_proxy", "https_proxy"} {
		t.Setenv(k, proxy)
	}
	t.Setenv("NO_PROXY", "")
	t.Setenv("no_proxy", "")
	em := newVerifEmitter(t, "From HostdBase Require Import Base.\nFrom Coq Require Import String.\nFrom HostdRestart Require Import Settings.\nLocal Open Scope N_scope.", "scase", "scheck")
	defer em.Close()
	// (a memory file system when there is one: the store is opened a few thousand times)
	root, err := os.MkdirTemp("/dev/shm", "verif-c18s-")
	if err != nil {
		root = t.TempDir()
	} else {
		defer os.RemoveAll(root)
	}
	n := verifN(200)
	for id := 0; id < n+len(vstDirected); id++ {
		if em.Skip(id) {
			continue
		}
		rng := verifCaseRand(id)
		dir := filepath.Join(root, fmt.Sprintf("case%d", id))
		os.MkdirAll(dir, 0o755)
		h := &vstHost{t: t, em: em, path: filepath.Join(dir, "hostd.sqlite3"), key: types.NewPrivateKeyFromSeed(make([]byte, 32))}
		desc := "generated settings / pinned settings updates with restarts"
		if id < len(vstDirected) {
			desc, h.validate = vstDirected[id].desc, vstDirected[id].validate
		} else {
			h.validate = rng.Intn(2) == 0
		}
		if err := h.open(); err != nil {
			t.Fatal(err)
		}
		em.BeginCase(id, desc)
		if id == 0 {
			vstStartRace(t, em)
		}
		if id < len(vstDirected) {
			em.Count("case:directed")
			vstDirected[id].run(h)
		} else {
			em.Count(fmt.Sprintf("case:generated validateNetAddress=%v", h.validate))
			if rng.Intn(3) == 0 {
				h.reopen() // a host that has never been configured
			}
			steps := 3 + rng.Intn(6)
			for i := 0; i < steps; i++ {
				switch k := rng.Intn(10); {
				case k < 6:
					if !h.dead && h.update(vstRandomSettings(rng, h.cfg.Settings()), "generated") && rng.Intn(4) != 0 {
						h.reopen()
					}
				case k < 9:
					if h.pin(vstRandomPinned(rng), "generated") && rng.Intn(4) != 0 {
						h.reopen()
					}
				default:
					h.reopen()
				}
			}
			h.reopen()
		}
		h.close()
		em.EndCase(h.changed)
		os.RemoveAll(dir)
	}
}
