//go:build verif

package sqlite

// Connects the store-level C01/C05 driver (verif_c01_chain_test.go) to the real
// contracts.buildContractState (exported by host/contracts/verif_c01_export.go): with this file
// in the build every well-formed block reaches the store through buildContractState; without it
// (harnesses of other properties that borrow the driver) the driver feeds the StateChanges it
// expects directly.

import "go.sia.tech/hostd/v2/host/contracts"

func init() { vfBuildHook = contracts.VerifBuildContractState }
