//go:build verif

package storage_test

// C02 — maintenance operations cut at their internal steps, against concurrent writers.
//
// Same world as verif_c02_test.go (real storage.VolumeManager over a real sqlite.Store, recording
// store, fault-injecting volume files), recorded for the finer model of coq/Storage/DataModel.v
// (xstep): VolumeManager.RemoveSector is parked after SectorLocation, after the metadata commit
// (Store.RemoveSector) and after the zero write (inside the fsync) while writers of other roots are
// started against a volume whose only free slot is the one being released, references are
// committed, temp storage expires, prune passes run, the process dies.
//
// What is predicted on the unchanged code: a writer that was handed the released slot does not
// write its data before RemoveSector has returned (it waits for vm.mu).  The predicted event is
// awaited with a long deadline; a short quiet period is only used to look for the EXTRA event
// "the writer wrote early" (sig writer-overtook-remove-sector).  Afterwards every referenced root
// is read (cache size 0, and after a crash / restart): sig referenced-sector-unreadable.
//
// Second family: the same root held by temporary storage two or three times with different
// expiration heights, expiry at every boundary height, prune, read.  "Still referenced" is judged
// from the harness's own ledger of what it added, not from the database.

import (
	"fmt"
	"os"
	"path/filepath"
	"sort"
	"strings"
	"sync"
	"testing"
	"time"

	rhp2 "go.sia.tech/core/rhp/v2"
	"go.sia.tech/hostd/v2/host/storage"
)

func (w *c02World) wroteAt(vol int64, idx uint64, since int) bool {
	w.mu.Lock()
	defer w.mu.Unlock()
	for _, e := range w.writeLog[since:] {
		if e.vol == vol && e.off == int64(idx)*rhp2.SectorSize {
			return true
		}
	}
	return false
}

func (w *c02World) writeMark() int {
	w.mu.Lock()
	defer w.mu.Unlock()
	return len(w.writeLog)
}

// startRemoveSector launches vm.RemoveSector(r) and returns once it is parked at parkAt (or has returned).
func (w *c02World) startRemoveSector(r, parkAt int, failZero bool) *c02RS {
	rs := &c02RS{w: w, root: r, parkAt: parkAt, failZero: failZero, reached: make(chan struct{}), release: make(chan struct{}), done: make(chan error, 1)}
	started := make(chan struct{})
	go func() {
		rs.goid = c02Goid()
		w.mu.Lock()
		w.rs = rs
		w.mu.Unlock()
		close(started)
		err := w.vm.RemoveSector(c02RootsOf[r])
		w.mu.Lock()
		w.rs = nil
		w.mu.Unlock()
		rs.done <- err
	}()
	<-started
	select {
	case <-rs.reached:
	case err := <-rs.done:
		rs.done <- err
	}
	w.count(fmt.Sprintf("rs:park=%d,parked=%v", parkAt, rs.parked))
	return rs
}

// finishRemoveSector lets it run to its end and does the bookkeeping of removeSector().
func (w *c02World) finishRemoveSector(rs *c02RS, lost0 uint64) error {
	if rs.parked {
		close(rs.release)
		rs.parked = false
	}
	var err error
	select {
	case err = <-rs.done:
	case <-time.After(20 * time.Second):
		w.fatalf("RemoveSector(%d) did not return", rs.root)
	}
	w.count("op:RemoveSectorX:" + c02Err(err))
	if rs.located && !rs.commitTried && err != nil && !w.st.dead {
		// returned after SectorLocation without calling Store.RemoveSector: not a path of the code as it
		// is; with fixes/C02-remove-sector-in-flight.patch an upload of the sector is in flight
		w.step("XRsAbort", c02Res(err))
		w.count("op:RemoveSectorX:refused")
	}
	want := uint64(0)
	if rs.committed {
		want = 1
		w.excused[rs.root] = true
	}
	if !w.st.dead {
		if d := w.lost() - lost0; d != want {
			w.monitor("lost-sectors-not-exact", fmt.Sprintf("RemoveSector(%d): lost +%d want +%d", rs.root, d, want))
		}
		w.forgetUnlocated()
		w.snapshot()
	}
	return err
}

// raceWriter: while rs is parked, a writer of root q is started.  If it is handed a slot it is told to
// go on; the harness then looks (quiet period) for a data write before RemoveSector has returned.
type c02Raced struct {
	h     *c02Writer
	mark  int
	early bool
}

func (w *c02World) raceWriter(rs *c02RS, q int) *c02Raced {
	mark := w.writeMark()
	h := w.startWrite(q)
	if h == nil {
		return nil
	}
	rc := &c02Raced{h: h, mark: mark}
	h.release <- false // go on: look the volume up, write
	vol, idx, ok := w.locate(q)
	if !ok {
		w.fatalf("held writer of %d has no slot", q)
	}
	if rs.committed { // vm.mu is held from before the metadata commit: the write is not enabled
		deadline := time.After(80 * time.Millisecond)
	wait:
		for {
			select {
			case err := <-h.done:
				h.done <- err
				rc.early = true
				break wait
			case <-deadline:
				break wait
			case <-time.After(5 * time.Millisecond):
				if w.wroteAt(vol, idx, mark) {
					rc.early = true
					break wait
				}
			}
		}
		if rc.early {
			w.monitor("writer-overtook-remove-sector", fmt.Sprintf("writer of %d wrote slot (%d,%d) while RemoveSector(%d) was between its metadata commit and its return", q, vol, idx, rs.root))
		}
	}
	w.count(fmt.Sprintf("race:early=%v,sameSlot=%v", rc.early, rs.located && vol == rs.vol && idx == rs.idx))
	return rc
}

// joinWriter waits (long deadline) for the raced writer after RemoveSector has returned.
func (w *c02World) joinWriter(rc *c02Raced) {
	if rc == nil {
		return
	}
	h := rc.h
	var err error
	select {
	case err = <-h.done:
	case <-time.After(20 * time.Second):
		w.fatalf("writer of %d did not finish after RemoveSector returned", h.root)
	}
	delete(w.heldRoots, h.root)
	w.lastExists = false
	w.noteAck(h.root, err, 0)
	if !w.st.dead {
		w.snapshot()
	}
}

// crashX: the process dies while a RemoveSector is parked (and writers wait for vm.mu).
func (w *c02World) crashX(rs *c02RS, raced []*c02Raced, held []*c02Writer) {
	for _, h := range held {
		w.holeCrash[h.root] = true
	}
	for _, rc := range raced {
		if rc != nil {
			w.holeCrash[rc.h.root] = true
		}
	}
	for r, d := range w.dirty {
		if d {
			w.holeCrash[r] = true
		}
	}
	w.st.dead = true
	for _, f := range w.files {
		f.crash()
	}
	w.raw.Close()
	w.db.Close()
	if rs != nil {
		if rs.parked {
			close(rs.release)
			rs.parked = false
		}
		select {
		case <-rs.done:
		case <-time.After(20 * time.Second):
			w.fatalf("RemoveSector did not return after the crash")
		}
		if rs.committed {
			w.excused[rs.root] = true
		}
	}
	for _, rc := range raced {
		if rc != nil {
			select {
			case <-rc.h.done:
			case <-time.After(20 * time.Second):
				w.fatalf("writer did not return after the crash")
			}
		}
	}
	for _, h := range held {
		h.release <- false
		<-h.done
	}
	w.vm.Close()
	w.step("DCrash", c02Res(nil))
	w.count("op:CrashX")
	w.clearSession()
	w.open()
	w.snapshot()
}

// ---------------------------------------------------------------- temp storage ledger

type c02Temp struct {
	root int
	exp  uint64
}

type c02Ledger struct {
	temps   []c02Temp
	expired uint64 // highest height processed
}

func (l *c02Ledger) live(r int) bool {
	for _, t := range l.temps {
		if t.root == r && t.exp > l.expired {
			return true
		}
	}
	return false
}

// readLedger reads every root (w.read: recorded, judged against the database's references with the
// usual classification) and adds what the database cannot tell: a root the ledger says is held by
// unexpired temporary storage must read back even if the database has lost that reference.
func (w *c02World) readLedger(l *c02Ledger, when string) {
	for r := 1; r <= c02Pool; r++ {
		w.read(r, false)
		// every expiry counts, also the ones issued by the generated maintenance mix of the case
		if w.tempExpired > l.expired {
			l.expired = w.tempExpired
		}
		if !l.live(r) || w.excused[r] || w.lastC == r {
			continue
		}
		has, err := w.db.HasSector(c02RootsOf[r])
		if err != nil {
			w.fatalf("has: %v", err)
		}
		if !has {
			w.monitor("referenced-sector-unreadable", fmt.Sprintf("%s: root %d is held by temporary storage expiring after height %d (added: %v) but the store no longer references it; read content=%d", when, r, l.expired, l.temps, w.lastC))
		}
		w.count(fmt.Sprintf("ledger-read:bad,has=%v", has))
	}
}

func (w *c02World) addTempL(l *c02Ledger, r int, exp uint64) {
	if !w.canRef(r) {
		return
	}
	w.addTemp([]int{r}, exp)
	if w.committed[r] {
		l.temps = append(l.temps, c02Temp{r, exp})
	}
}

func (w *c02World) expireL(l *c02Ledger, h uint64) {
	w.expireTemp(h)
	if h > l.expired {
		l.expired = h
	}
	w.snapshot()
}

// ---------------------------------------------------------------- cases

// fill writes, syncs and references roots 1..n (temp storage, far expiration)
func (w *c02World) fill(n int) {
	var rs []int
	for r := 1; r <= n; r++ {
		w.write(r, false)
		rs = append(rs, r)
	}
	w.sync()
	w.addTemp(rs, 1000)
}

func (w *c02World) settle() { // what a session does before it commits: Sync, then reference
	w.sync()
	w.referenceSome()
}

const c02StepsDirected = 12

func (w *c02World) directedSteps(id int) bool {
	switch id {
	case 0: // parked after the metadata commit; a writer of another root is handed the released slot
		w.res.desc = "directed: RemoveSector parked after its metadata commit, writer of another root gets the released slot"
		w.addVolume(3)
		w.fill(3)
		lost0 := w.lost()
		rs := w.startRemoveSector(2, 2, false)
		rc := w.raceWriter(rs, 4)
		w.finishRemoveSector(rs, lost0)
		w.joinWriter(rc)
		w.settle()
		w.readAll()
		w.crash(nil)
		w.readAll()
	case 1: // parked after SectorLocation: the slot is not released yet, the volume is full
		w.res.desc = "directed: RemoveSector parked after SectorLocation, the volume is still full"
		w.addVolume(2)
		w.fill(2)
		lost0 := w.lost()
		rs := w.startRemoveSector(1, 1, false)
		w.raceWriter(rs, 3) // not enough storage
		w.finishRemoveSector(rs, lost0)
		w.write(3, false)
		w.settle()
		w.readAll()
	case 2: // parked after the zero write; the process dies there
		w.res.desc = "directed: RemoveSector parked between zero write and fsync, writer waiting, crash"
		w.addVolume(2)
		w.fill(2)
		rs := w.startRemoveSector(1, 3, false)
		rc := w.raceWriter(rs, 3)
		w.crashX(rs, []*c02Raced{rc}, nil)
		w.readAll()
		w.write(4, false)
		w.settle()
		w.readAll()
	case 3: // the zero write fails: the slot is released, its old bytes stay; a writer takes it
		w.res.desc = "directed: RemoveSector whose zero write fails"
		w.addVolume(2)
		w.fill(2)
		lost0 := w.lost()
		rs := w.startRemoveSector(2, 2, true)
		rc := w.raceWriter(rs, 5)
		w.finishRemoveSector(rs, lost0)
		w.joinWriter(rc)
		w.settle()
		w.readAll()
		w.restart()
		w.readAll()
	case 4: // two writers of different roots queue behind a parked RemoveSector; references, expiry and prune inside the window
		w.res.desc = "directed: two writers, references, expiry and prune inside the window"
		w.addVolume(4)
		w.fill(3)
		lost0 := w.lost()
		rs := w.startRemoveSector(1, 2, false)
		rc1 := w.raceWriter(rs, 4)
		rc2 := w.raceWriter(rs, 5)
		w.expireTemp(5)
		w.prune()
		w.finishRemoveSector(rs, lost0)
		w.joinWriter(rc1)
		w.joinWriter(rc2)
		w.settle()
		w.readAll()
		w.crash(nil)
		w.readAll()
	case 5: // the upload of the very sector that is being deleted is in flight (recorded finding)
		w.res.desc = "directed: RemoveSector of a sector whose upload is in flight; the slot goes to another sector; the first writer then writes"
		w.addVolume(1)
		h := w.startWrite(1)
		lost0 := w.lost()
		rs := w.startRemoveSector(1, 0, false)
		w.finishRemoveSector(rs, lost0)
		w.write(2, false)
		w.sync()
		w.addTemp([]int{2}, 100)
		w.overwritten[2] = true
		if h != nil {
			w.finishWrite(h, false) // writes sector 1's bytes into the slot that now belongs to sector 2
		}
		w.readAll()
		w.crash(nil)
		w.readAll()
	case 6, 7, 8: // the same root in temporary storage two / three times with different expirations
		k := id - 4 // 2, 3, 4 entries
		w.res.desc = fmt.Sprintf("directed: one root held by temporary storage %d times, expiry at every boundary height", k)
		w.addVolume(3)
		l := &c02Ledger{}
		w.write(1, false)
		w.write(2, false)
		w.sync()
		for j := 0; j < k; j++ {
			if j > 0 { // the renter uploads the same data again: "exists"
				w.write(1, false)
				w.sync()
			}
			w.addTempL(l, 1, uint64(10+2*j))
		}
		w.addTempL(l, 2, 11)
		for h := uint64(9); h <= uint64(10+2*k); h++ {
			w.expireL(l, h)
			w.age()
			w.prune()
			w.readLedger(l, fmt.Sprintf("after expiry at %d and a prune", h))
		}
		w.crash(nil)
		w.readLedger(l, "after a crash")
	case 9: // ... entries added in descending order of expiration, one batch
		w.res.desc = "directed: one root twice in one AddTemporarySectors batch (descending expirations), expiry between them"
		w.addVolume(2)
		l := &c02Ledger{}
		w.write(1, false)
		w.sync()
		w.vmAddTempsL(l, []c02Temp{{1, 14}, {1, 10}, {1, 12}})
		for _, h := range []uint64{10, 11, 12, 13} {
			w.expireL(l, h)
			w.age()
			w.prune()
			w.readLedger(l, fmt.Sprintf("after expiry at %d and a prune", h))
		}
		w.restart()
		w.readLedger(l, "after a restart")
	case 10: // RemoveSector parked after the commit; nobody takes the slot; a Sync-less crash; restart
		w.res.desc = "directed: RemoveSector parked after its metadata commit, crash inside the window"
		w.addVolume(2)
		w.fill(2)
		rs := w.startRemoveSector(2, 2, false)
		w.crashX(rs, nil, nil)
		w.readAll()
		w.write(3, false)
		w.settle()
		w.readAll()
	case 11: // the deleted root is uploaded again while its deletion is parked after the commit
		w.res.desc = "directed: re-upload of the root being deleted inside the window"
		w.addVolume(2)
		w.fill(2)
		lost0 := w.lost()
		rs := w.startRemoveSector(1, 2, false)
		rc := w.raceWriter(rs, 1)
		w.finishRemoveSector(rs, lost0)
		w.joinWriter(rc)
		w.excused[1] = false
		w.settle()
		w.readAll()
		w.crash(nil)
		w.readAll()
	default:
		return false
	}
	return true
}

// vmAddTempsL adds several temp entries in one call (no discipline needed: the root is acknowledged and synced).
func (w *c02World) vmAddTempsL(l *c02Ledger, ts []c02Temp) {
	var sl []storage.TempSector
	for _, t := range ts {
		if !w.canRef(t.root) {
			return
		}
		sl = append(sl, storage.TempSector{Root: c02RootsOf[t.root], Expiration: t.exp})
	}
	if err := w.vm.AddTemporarySectors(sl); err == nil {
		for _, t := range ts {
			w.commit(t.root)
			l.temps = append(l.temps, t)
		}
	}
	w.count("op:AddTempBatch")
	w.snapshot()
}

// generatedSteps: a volume is filled so that the slot released by a RemoveSector is the only
// free one (or one of two), RemoveSector is parked at a random internal step, and a random mix
// of what does not need vm.mu runs inside the window.
func (w *c02World) generatedSteps() {
	rng := w.rng
	w.res.desc = "generated: RemoveSector parked at an internal step"
	size := 2 + rng.Intn(3)
	w.addVolume(uint64(size))
	free := rng.Intn(2)
	if free >= size {
		free = 0
	}
	n := size - free
	if n > c02Pool-2 {
		n = c02Pool - 2
	}
	w.fill(n)
	l := &c02Ledger{}
	rounds := 1 + rng.Intn(2)
	for round := 0; round < rounds; round++ {
		// a target that has a slot
		var cand []int
		for r := 1; r <= c02Pool; r++ {
			if _, _, ok := w.locate(r); ok {
				cand = append(cand, r)
			}
		}
		if len(cand) == 0 {
			break
		}
		target := cand[rng.Intn(len(cand))]
		parkAt := 1 + rng.Intn(3)
		failZero := rng.Intn(8) == 0
		lost0 := w.lost()
		rs := w.startRemoveSector(target, parkAt, failZero)
		var raced []*c02Raced
		inWindow := 1 + rng.Intn(4)
		crashed := false
		for i := 0; i < inWindow && rs.parked; i++ {
			switch x := rng.Intn(100); {
			case x < 45: // a writer of a root without a slot
				var no []int
				for r := 1; r <= c02Pool; r++ {
					if _, _, ok := w.locate(r); !ok && !w.heldRoots[r] && (r != target || rng.Intn(3) == 0) {
						no = append(no, r)
					}
				}
				if len(no) > 0 && len(raced) < 2 {
					if rc := w.raceWriter(rs, no[rng.Intn(len(no))]); rc != nil {
						raced = append(raced, rc)
					}
				}
			case x < 60:
				w.referenceSome()
			case x < 70:
				w.expireTemp(uint64(999 + rng.Intn(3)))
				w.snapshot()
			case x < 80:
				w.prune()
			case x < 86:
				if len(raced) == 0 { // a write takes less than a prune interval
					w.age()
				}
			case x < 92:
				w.resizeCache(rng.Intn(3))
			default:
				w.crashX(rs, raced, nil)
				crashed = true
			}
			if crashed {
				break
			}
		}
		if !crashed {
			w.finishRemoveSector(rs, lost0)
			for _, rc := range raced {
				w.joinWriter(rc)
			}
		}
		w.settle()
		w.readAll()
		// the same root twice in temporary storage, now and then
		if rng.Intn(3) == 0 {
			for r := 1; r <= c02Pool; r++ {
				if w.canRef(r) && !w.excused[r] {
					w.addTempL(l, r, uint64(20+rng.Intn(3)))
					w.addTempL(l, r, uint64(23+rng.Intn(3)))
					break
				}
			}
		}
		if rng.Intn(2) == 0 {
			w.crash(nil)
			w.readAll()
		}
	}
	if len(l.temps) > 0 {
		for _, h := range []uint64{21, 22, 24} {
			w.expireL(l, h)
			w.age()
			w.prune()
		}
		// only roots that are not also held by the far-expiring entries of fill() can vanish; all must read
		w.readLedger(l, "after expiry at 24 and a prune")
	}
}

func c02RunStepsCase(id int, base string) (res *c02Result) {
	res = &c02Result{id: id}
	defer func() {
		if r := recover(); r != nil {
			res.fatal = fmt.Sprint(r)
		}
	}()
	rng := verifCaseRand(id)
	res.cacheSize = []int{0, 0, 0, 1, 2}[rng.Intn(5)]
	if id < c02StepsDirected {
		res.cacheSize = 0
	}
	initial := res.cacheSize
	dir := filepath.Join(base, fmt.Sprintf("c02s_%d", id))
	if err := os.MkdirAll(dir, 0o755); err != nil {
		res.fatal = err.Error()
		return
	}
	defer os.RemoveAll(dir)
	w := &c02World{res: res, rng: rng, dir: dir, committed: map[int]bool{}, excused: map[int]bool{},
		holeCrash: map[int]bool{}, holeFailed: map[int]bool{}, viaHole: map[int]bool{}, viaHeld: map[int]bool{},
		xmode: true, overwritten: map[int]bool{}}
	w.clearSession()
	w.open()
	defer func() {
		w.st.dead = true
		w.vm.Close()
		w.raw.Close()
		w.db.Close()
		res.cacheSize = initial
	}()
	if !w.directedSteps(id) {
		w.generatedSteps()
	}
	res.nontriv = len(w.committed) > 0
	return
}

func TestVerifC02Steps(t *testing.T) {
	c02InitPool()
	em := newVerifEmitter(t, "From HostdBase Require Import Base.\nFrom HostdStorage Require Import Model DataModel.\nOpen Scope N_scope.", "xcase", "xcheck")
	defer em.Close()

	n := verifN(20) + c02StepsDirected
	base, err := os.MkdirTemp("", "verif-c02s-")
	if err != nil {
		t.Fatal(err)
	}
	defer os.RemoveAll(base)

	var ids []int
	for id := 0; id < n; id++ {
		if !em.Skip(id) {
			ids = append(ids, id)
		}
	}
	results := make([]*c02Result, len(ids))
	var wg sync.WaitGroup
	sem := make(chan struct{}, 8)
	for i, id := range ids {
		wg.Add(1)
		sem <- struct{}{}
		go func(i, id int) {
			defer wg.Done()
			defer func() { <-sem }()
			results[i] = c02RunStepsCase(id, base)
		}(i, id)
	}
	wg.Wait()
	sort.Slice(results, func(i, j int) bool { return results[i].id < results[j].id })
	for _, r := range results {
		if r.fatal != "" {
			t.Fatalf("case %d: %s", r.id, r.fatal)
		}
		for _, k := range r.counts {
			em.Count(k)
		}
		em.BeginCase(r.id, r.desc)
		for _, m := range r.monitors {
			em.Monitor(m[0], m[1])
		}
		em.FunCase(r.id, fmt.Sprint(r.cacheSize), "["+strings.Join(r.steps, ";\n   ")+"]", r.nontriv)
	}
}
