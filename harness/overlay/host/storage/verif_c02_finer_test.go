//go:build verif

package storage_test

// C02, work package W — migrateSector and a cache-miss ReadSector cut at their internal steps.
//
// Same world as verif_c02_test.go, recorded for the second finer layer of
// coq/Storage/DataModel.v (ystep / ycheck): every callback of Store.MigrateSectors is recorded as
// YMgBegin (the transaction opened: source and target chosen; it holds the only database
// connection), YMgRead / YMgWrite / YMgSync (the file operations of migrateSector, recorded by the
// volume file) and YMgCommit; a cache-miss ReadSector is YRdLocate (recorded by the store wrapper),
// YRdFile (by the volume file) and YRdCache (when it returns).  The real calls are parked at these
// points (gates keyed by goroutine id) and the racing operations run meanwhile.
//
// Nothing is decided by timing: what is recorded is the order in which the calls really happened;
// a step that the model says is not enabled (a store call inside an open migration transaction)
// would be recorded where it happened and diverge.  The one exception is the deadlock case, where
// "neither call returns" is observed with a long deadline (the goroutines are then released by
// killing the process, i.e. closing the database).

import (
	"context"
	"fmt"
	"os"
	"path/filepath"
	"sort"
	"strings"
	"sync"
	"testing"
	"time"
)

// startRead launches vm.ReadSector(r) as model thread t; park: hold it right after SectorLocation.
func (w *c02World) startRead(r int, park bool) *c02Reader {
	w.mu.Lock()
	w.nthr++
	rd := &c02Reader{w: w, t: 5000 + w.nthr, root: r, parkIt: park, reached: make(chan struct{}), release: make(chan struct{}), done: make(chan struct{}), c: -1}
	w.mu.Unlock()
	started := make(chan struct{})
	go func() {
		rd.goid = c02Goid()
		w.mu.Lock()
		if w.readers == nil {
			w.readers = map[int64]*c02Reader{}
		}
		w.readers[rd.goid] = rd
		w.mu.Unlock()
		close(started)
		buf, err := w.vm.ReadSector(c02RootsOf[r])
		w.mu.Lock()
		delete(w.readers, rd.goid)
		w.mu.Unlock()
		rd.err = err
		if err == nil {
			rd.c = c02ContentID(buf)
		}
		close(rd.done)
	}()
	<-started
	if park {
		select {
		case <-rd.reached:
		case <-rd.done:
		}
	}
	return rd
}

// finishRead lets the reader go on, records its last step and judges what it returned.
func (w *c02World) finishRead(rd *c02Reader) {
	if rd.parked {
		close(rd.release)
		rd.parked = false
	}
	select {
	case <-rd.done:
	case <-time.After(30 * time.Second):
		w.fatalf("ReadSector(%d) did not return", rd.root)
	}
	switch {
	case !rd.located && rd.err == nil: // served from the cache
		w.step(fmt.Sprintf("DRead %d false", rd.root), fmt.Sprintf("ORead true %d", rd.c))
	case !rd.located:
		w.fatalf("ReadSector(%d) failed before SectorLocation: %v", rd.root, rd.err)
	case rd.err == nil:
		w.step(fmt.Sprintf("YRdCache %d", rd.t), fmt.Sprintf("ORead false %d", rd.c))
	case strings.Contains(rd.err.Error(), "failed to locate sector"): // YRdLocate recorded the error
	case !rd.fileDone: // readLocation failed without reaching the file (the volume is gone)
		w.step(fmt.Sprintf("YRdFile %d true", rd.t), "OReadErr")
	}
	w.count(fmt.Sprintf("cutread:located=%v,err=%v,good=%v", rd.located, rd.err != nil, rd.c == rd.root))
	if rd.err == nil && w.committed[rd.root] && !w.excused[rd.root] && rd.c != rd.root {
		sig := "referenced-sector-unreadable"
		if w.relocated[rd.root] {
			sig = "read-sector-relocated-serves-other-sectors-bytes"
		}
		w.monitor(sig, fmt.Sprintf("cut read of root %d returned content %d", rd.root, rd.c))
	}
}

func (w *c02World) cutRead(r int) { w.finishRead(w.startRead(r, false)) }

func (w *c02World) armMG(parkAt int) *c02MG {
	mg := &c02MG{w: w, parkAt: parkAt, reached: make(chan struct{}), release: make(chan struct{})}
	w.mu.Lock()
	w.mg = mg
	w.mu.Unlock()
	return mg
}

// resizeAsync starts ResizeVolume and returns the channel of its result (nil if it was refused).
func (w *c02World) resizeAsync(id int64, size uint64) chan error {
	res := make(chan error, 1)
	if err := w.vm.ResizeVolume(context.Background(), id, size, res); err != nil {
		w.count("op:Resize:refused")
		return nil
	}
	return res
}

func (w *c02World) finishResize(id int64, res chan error) {
	if res == nil {
		return
	}
	select {
	case err := <-res:
		w.count("op:Resize:" + c02Err(err))
	case <-time.After(60 * time.Second):
		w.fatalf("ResizeVolume did not finish")
	}
	w.waitReady(id)
	w.checkOperatorFlag(id, "ResizeVolume")
	w.snapshot()
}

// finishWriteQuiet lets a held writer write without any store call of the harness (no snapshot):
// usable while a migration transaction holds the connection.
func (w *c02World) finishWriteQuiet(h *c02Writer) {
	h.release <- false
	err := <-h.done
	delete(w.heldRoots, h.root)
	w.lastExists = false
	w.noteAck(h.root, err, 0)
}

const c02FinerDirected = 4

func (w *c02World) rootAt(vol int64, idx uint64) int {
	for r := 1; r <= c02Pool; r++ {
		if v, i, ok := w.locate(r); ok && v == vol && i == idx {
			return r
		}
	}
	return 0
}

func (w *c02World) directedFiner(id int) bool {
	switch id {
	case 0: // nothing races: a shrink's migrations and cache-miss reads, every internal step recorded
		w.res.desc = "directed: shrink with two migrations and cache-miss reads, recorded at their internal steps"
		a := w.addVolume(3)
		for r := 1; r <= 3; r++ {
			w.write(r, false)
		}
		w.sync()
		w.addTemp([]int{1, 2, 3}, 100)
		w.addVolume(3)
		for r := 1; r <= 4; r++ {
			w.cutRead(r)
		}
		w.finishResize(a, w.resizeAsync(a, 1))
		for r := 1; r <= 3; r++ {
			w.cutRead(r)
		}
		w.readAll()
		w.crash(nil)
		w.readAll()
	case 1: // the sector is migrated and its old slot reused between a reader's SectorLocation and its file read
		w.res.desc = "directed: ReadSector parked after SectorLocation; the sector is migrated, its old slot reused; the read returns and caches the other sector's bytes"
		a := w.addVolume(3)
		for r := 1; r <= 3; r++ {
			w.write(r, false)
		}
		w.sync()
		w.addTemp([]int{1, 2, 3}, 100)
		b := w.addVolume(1)
		mid := w.rootAt(a, 1)
		if mid == 0 {
			w.fatalf("no sector at index 1")
		}
		for r := 1; r <= 3; r++ { // make sure the cache (one entry) does not hold it
			if r != mid {
				w.read(r, false)
				break
			}
		}
		rd := w.startRead(mid, true)
		w.finishResize(a, w.resizeAsync(a, 1)) // moves it to the other volume; the next sector has nowhere to go: the shrink fails
		w.write(4, false)                      // the vacated slot goes to sector 4
		w.sync()
		w.addTemp([]int{4}, 100)
		if v, _, ok := w.locate(mid); ok && v == b && w.rootAt(a, 1) == 4 && rd.parked {
			w.relocated = map[int]bool{mid: true}
		}
		w.finishRead(rd)
		w.readAll()
		w.crash(nil)
		w.readAll()
	case 2: // a migration transaction held open: a writer's data write and a Sync run meanwhile, a store call waits
		w.res.desc = "directed: migration parked after its transaction opened; a held writer writes, Sync runs, PruneSectors waits for the connection"
		a := w.addVolume(2)
		w.write(1, false)
		w.write(2, false)
		w.sync()
		w.addTemp([]int{1, 2}, 100)
		w.addVolume(2)
		w.mu.Lock()
		w.failWrite = 0
		w.mu.Unlock()
		h := w.startWrite(3)
		mg := w.armMG(1)
		res := w.resizeAsync(a, 1)
		<-mg.reached
		if h != nil {
			w.finishWriteQuiet(h)
		}
		if err := w.syncCall(); err == nil {
			w.markSynced()
		}
		pruned := make(chan struct{})
		go func() { // needs the connection: returns only after the commit
			w.st.PruneSectors(context.Background(), time.Now().Add(-time.Hour))
			close(pruned)
		}()
		select {
		case <-pruned: // recorded where it happened: the model answers "not enabled"
			w.count("finer:store-call-inside-transaction")
		case <-time.After(80 * time.Millisecond):
		}
		close(mg.release)
		<-pruned
		w.finishResize(a, res)
		w.referenceSome()
		w.readAll()
		w.crash(nil)
		w.readAll()
	case 3: // the lock-order deadlock: RemoveSector holds vm.mu and needs the connection, the migration holds the connection and needs vm.mu
		w.res.desc = "directed: RemoveSector holding vm.mu in front of its metadata commit while a migration transaction is open"
		a := w.addVolume(2)
		w.write(1, false)
		w.write(2, false)
		w.sync()
		w.addTemp([]int{1, 2}, 100)
		w.addVolume(2)
		victim := w.rootAt(a, 0)
		lost0 := w.lost()
		g := w.armAsyncGate() // the shrink's asynchronous part waits in front of MigrateSectors
		mg := w.armMG(1)
		res := w.resizeAsync(a, 1)
		<-g.entered
		rs := w.startRemoveSector(victim, 1, false) // vm.mu taken, location read
		close(g.release)                            // the transaction opens ...
		<-mg.reached
		close(mg.release) // ... and migrateSector asks for vm.mu
		close(rs.release) // RemoveSector asks for the connection
		rs.parked = false
		stuck := false
		select {
		case err := <-rs.done:
			rs.done <- err
		case <-time.After(8 * time.Second):
			stuck = true
		}
		if stuck {
			w.count("finer:deadlock")
			w.monitor("remove-sector-and-migration-deadlock", fmt.Sprintf("RemoveSector(%d) and the migration of volume %d both blocked for 8 s: vm.mu vs the database connection", victim, a))
			w.crash(nil) // only the end of the process releases them
			<-rs.done
			w.mu.Lock()
			w.rs, w.mg = nil, nil
			w.mu.Unlock()
		} else {
			w.finishRemoveSector(rs, lost0)
			w.finishResize(a, res)
		}
		w.readAll()
	default:
		return false
	}
	return true
}

func (w *c02World) generatedFiner() {
	rng := w.rng
	w.res.desc = "generated: migrations parked at an internal step with writers / Sync inside, cut reads around"
	size := uint64(2 + rng.Intn(3))
	a := w.addVolume(size)
	var stored []int
	for r := 1; r <= int(size); r++ {
		if w.write(r, false) == nil {
			stored = append(stored, r)
		}
	}
	w.sync()
	w.addTemp(stored, 100)
	w.addVolume(uint64(1 + rng.Intn(int(size)+1)))
	for k := rng.Intn(3); k > 0; k-- {
		w.cutRead(1 + rng.Intn(c02Pool))
	}
	var h *c02Writer
	if rng.Intn(2) == 0 {
		h = w.startWrite(int(size) + 1)
	}
	parkAt := rng.Intn(4)
	var mg *c02MG
	if parkAt > 0 {
		mg = w.armMG(parkAt)
	}
	target := uint64(1 + rng.Intn(int(size)-1))
	res := w.resizeAsync(a, target)
	if mg != nil && res != nil {
		select {
		case <-mg.reached:
			for k := rng.Intn(3); k > 0; k-- {
				switch rng.Intn(3) {
				case 0:
					if h != nil && parkAt != 2 { // a parked fsync holds the volume's lock: a write to that volume waits
						w.finishWriteQuiet(h)
						h = nil
					}
				case 1:
					if parkAt != 2 {
						if err := w.syncCall(); err == nil {
							w.markSynced()
						}
					}
				case 2:
					w.resizeCache(rng.Intn(3))
				}
			}
			close(mg.release)
		case err := <-res: // no sector to migrate
			res <- err
		}
	}
	w.finishResize(a, res)
	if h != nil {
		w.finishWrite(h, rng.Intn(4) == 0)
	}
	w.sync()
	w.referenceSome()
	for k := 1 + rng.Intn(3); k > 0; k-- {
		w.cutRead(1 + rng.Intn(c02Pool))
	}
	w.readAll()
	if rng.Intn(2) == 0 {
		w.crash(nil)
		w.readAll()
	}
}

func c02RunFinerCase(id int, base string) (res *c02Result) {
	res = &c02Result{id: id}
	defer func() {
		if r := recover(); r != nil {
			res.fatal = fmt.Sprint(r)
		}
	}()
	rng := verifCaseRand(id)
	res.cacheSize = []int{0, 1, 1, 2}[rng.Intn(4)]
	if id < c02FinerDirected {
		res.cacheSize = 1
	}
	initial := res.cacheSize
	dir := filepath.Join(base, fmt.Sprintf("c02f_%d", id))
	if err := os.MkdirAll(dir, 0o755); err != nil {
		res.fatal = err.Error()
		return
	}
	defer os.RemoveAll(dir)
	w := &c02World{res: res, rng: rng, dir: dir, committed: map[int]bool{}, excused: map[int]bool{},
		holeCrash: map[int]bool{}, holeFailed: map[int]bool{}, viaHole: map[int]bool{}, viaHeld: map[int]bool{},
		xmode: true, ymode: true, overwritten: map[int]bool{}}
	w.clearSession()
	w.open()
	defer func() {
		w.st.dead = true
		w.vm.Close()
		w.raw.Close()
		w.db.Close()
		res.cacheSize = initial
	}()
	if !w.directedFiner(id) {
		w.generatedFiner()
	}
	res.nontriv = len(w.committed) > 0
	return
}

func TestVerifC02Finer(t *testing.T) {
	c02InitPool()
	em := newVerifEmitter(t, "From HostdBase Require Import Base.\nFrom HostdStorage Require Import Model DataModel.\nOpen Scope N_scope.", "ycase", "ycheck")
	defer em.Close()

	n := verifN(20) + c02FinerDirected
	base, err := os.MkdirTemp("", "verif-c02f-")
	if err != nil {
		t.Fatal(err)
	}
	defer os.RemoveAll(base)

	var ids []int
	for id := 0; id < n; id++ {
		if !em.Skip(id) {
			ids = append(ids, id)
		}
	}
	results := make([]*c02Result, len(ids))
	var wg sync.WaitGroup
	sem := make(chan struct{}, 8)
	for i, id := range ids {
		wg.Add(1)
		sem <- struct{}{}
		go func(i, id int) {
			defer wg.Done()
			defer func() { <-sem }()
			results[i] = c02RunFinerCase(id, base)
		}(i, id)
	}
	wg.Wait()
	sort.Slice(results, func(i, j int) bool { return results[i].id < results[j].id })
	for _, r := range results {
		if r.fatal != "" {
			t.Fatalf("case %d: %s", r.id, r.fatal)
		}
		for _, k := range r.counts {
			em.Count(k)
		}
		em.BeginCase(r.id, r.desc)
		for _, m := range r.monitors {
			em.Monitor(m[0], m[1])
		}
		em.FunCase(r.id, fmt.Sprint(r.cacheSize), "["+strings.Join(r.steps, ";\n   ")+"]", r.nontriv)
	}
}
