//go:build verif

package storage

// In-package accessors for the C02 harness (verif_c02_test.go, package storage_test): they let
// the external test wrap the volume files of a real VolumeManager with a fault-injecting
// volumeData.  Nothing here changes the code under test.

// VerifVolumeData is the (unexported) interface the volume manager uses for its data files.
type VerifVolumeData = volumeData

// VerifWrapVolumes replaces the data file of every open volume by wrap(id, current).
func VerifWrapVolumes(vm *VolumeManager, wrap func(id int64, d VerifVolumeData) VerifVolumeData) {
	vm.mu.Lock()
	defer vm.mu.Unlock()
	for id, v := range vm.volumes {
		v.mu.Lock()
		if v.data != nil {
			v.data = wrap(id, v.data)
		}
		v.mu.Unlock()
	}
}
