//go:build verif

package storage

// In-package accessors for the C02 harness (verif_c02_test.go, package storage_test): they let
// the external test wrap the volume files of a real VolumeManager with a fault-injecting
// volumeData.  Nothing here changes the code under test.

// VerifVolumeData is the (unexported) interface the volume manager uses for its data files.
type VerifVolumeData = volumeData

// VerifWrapVolumes replaces the data file of every open volume by wrap(id, current).
func VerifWrapVolumes(vm *VolumeManager, wrap func(id int64, d VerifVolumeData) VerifVolumeData) {
	vm.mu.Lock()
	defer vm.mu.Unlock()
	for id, v := range vm.volumes {
		v.mu.Lock()
		if v.data != nil {
			v.data = wrap(id, v.data)
		}
		v.mu.Unlock()
	}
}

// VerifSetStatusSeq runs the real (*volume).SetStatus for every element of calls on one volume
// that starts in status initial; it returns, per call, the status afterwards and "ok" / "err" /
// "panic".
func VerifSetStatusSeq(initial string, calls []string) (out [][2]string) {
	v := &volume{stats: VolumeStats{Status: initial}}
	for _, c := range calls {
		res := "ok"
		func() {
			defer func() {
				if r := recover(); r != nil {
					res = "panic"
				}
			}()
			if err := v.SetStatus(c); err != nil {
				res = "err"
			}
		}()
		out = append(out, [2]string{v.Status(), res})
	}
	return
}
