//go:build verif

package storage_test

// C02 — referenced sector data stays retrievable and intact.
//
// Drives the real storage.VolumeManager over a real sqlite.Store.  The store is wrapped by a
// pass-through recorder (c02Store) that turns every store call the volume manager makes into a
// step of the Coq model coq/Storage/DataModel.v and can hold a writer between the slot commit
// and the data write; the volume files are wrapped by a fault-injecting volumeData (c02File)
// that keeps unsynced writes in memory (dropped on a crash) and fails the k-th read/write.
// Monitors: every root that is referenced and was acknowledged (Write returned nil, Sync done,
// then the reference was committed — what the RHP handlers do) must read back the bytes that
// hash to it; lostSectors must grow exactly by what forced removal / RemoveSector destroy.

import (
	"context"
	"database/sql"
	"errors"
	"fmt"
	"math/rand"
	"os"
	"path/filepath"
	"runtime"
	"sort"
	"strconv"
	"strings"
	"sync"
	"testing"
	"time"

	rhp2 "go.sia.tech/core/rhp/v2"
	proto4 "go.sia.tech/core/rhp/v4"
	"go.sia.tech/core/types"
	rhp4 "go.sia.tech/coreutils/rhp/v4"
	"go.sia.tech/hostd/v2/host/contracts"
	"go.sia.tech/hostd/v2/host/storage"
	"go.sia.tech/hostd/v2/persist/sqlite"
	"go.uber.org/zap"
)

// ---------------------------------------------------------------- sector pool

const c02Pool = 6

var (
	c02PoolOnce    sync.Once
	c02Sectors     [c02Pool + 1]*[rhp2.SectorSize]byte // index 1..c02Pool
	c02RootsOf     [c02Pool + 1]types.Hash256
	c02RootNumbers map[types.Hash256]int
)

func c02InitPool() {
	c02PoolOnce.Do(func() {
		c02RootNumbers = map[types.Hash256]int{}
		for k := 1; k <= c02Pool; k++ {
			var s [rhp2.SectorSize]byte
			rng := rand.New(rand.NewSource(int64(k) * 7919))
			rng.Read(s[:1<<16]) // random head, constant tail: distinct roots, cheap to make
			s[rhp2.SectorSize-1] = byte(k)
			c02Sectors[k] = &s
			c02RootsOf[k] = rhp2.SectorRoot(&s) // the real Merkle root
			c02RootNumbers[c02RootsOf[k]] = k
		}
	})
}

// contentID abstracts bytes to the number of the pool root they hash to (0: zeroes, 99: anything else).
func c02ContentID(b *[rhp2.SectorSize]byte) int {
	for k := 1; k <= c02Pool; k++ {
		if *b == *c02Sectors[k] {
			return k
		}
	}
	var zero [rhp2.SectorSize]byte
	if *b == zero {
		return 0
	}
	if n, ok := c02RootNumbers[rhp2.SectorRoot(b)]; ok { // cannot happen unless the pool compare is wrong
		return n
	}
	return 99
}

// ---------------------------------------------------------------- fault-injecting volume file

type c02File struct {
	w       *c02World
	id      int64
	mu      sync.Mutex
	inner   storage.VerifVolumeData
	overlay map[int64][]byte // written, not yet synced
	crashed bool
}

func (f *c02File) ReadAt(p []byte, off int64) (int, error) {
	f.mu.Lock()
	defer f.mu.Unlock()
	if f.crashed {
		return 0, errors.New("verif: process is dead")
	}
	mg, rd := f.w.mgHere(), f.w.readerHere()
	if f.w.takeFault(&f.w.failRead) {
		if mg != nil {
			f.w.step("YMgRead true", "OReadErr")
		} else if rd != nil {
			rd.fileDone = true
			f.w.step(fmt.Sprintf("YRdFile %d true", rd.t), "OReadErr")
		}
		return 0, errors.New("verif: injected read error")
	}
	var n int
	var err error
	if b, ok := f.overlay[off]; ok && len(b) == len(p) {
		n = copy(p, b)
	} else {
		n, err = f.inner.ReadAt(p, off)
	}
	if err == nil && len(p) == rhp2.SectorSize {
		if mg != nil {
			f.w.step("YMgRead false", fmt.Sprintf("ORead false %d", c02ContentID((*[rhp2.SectorSize]byte)(p))))
		} else if rd != nil {
			rd.fileDone = true
			f.w.step(fmt.Sprintf("YRdFile %d false", rd.t), c02Res(nil))
		}
	} else if err != nil && (mg != nil || rd != nil) {
		f.w.fatalf("unexpected read error at a cut point: %v", err)
	}
	return n, err
}

func (f *c02File) WriteAt(p []byte, off int64) (int, error) {
	f.mu.Lock()
	defer f.mu.Unlock()
	if f.crashed {
		return 0, errors.New("verif: process is dead")
	}
	if rs := f.w.rsHere(); rs != nil { // the zero write of the RemoveSector in progress
		if rs.failZero {
			f.w.step("XRsZero false", "OM (ORes (Err EOther))")
			return 0, errors.New("verif: injected write error")
		}
		f.overlay[off] = append([]byte(nil), p...)
		f.w.step("XRsZero true", c02Res(nil))
		return len(p), nil
	}
	mg := f.w.mgHere()
	if f.w.takeFault(&f.w.failWrite) {
		if mg != nil {
			f.w.step("YMgWrite false", "OM (ORes (Err EOther))")
		}
		return 0, errors.New("verif: injected write error")
	}
	f.overlay[off] = append([]byte(nil), p...)
	if mg != nil {
		f.w.step("YMgWrite true", c02Res(nil))
		return len(p), nil
	}
	f.w.noteWrite(f.id, off)
	return len(p), nil
}

// Sync makes the written data durable.  When it is called by VolumeManager.Sync (as opposed to
// migrateSector / RemoveSector / Close) it is a step of the model, can be made to fail (the
// pages stay dirty, a later fsync can succeed) and can be stalled.
func (f *c02File) Sync() error {
	if rs := f.w.rsHere(); rs != nil { // the fsync of the RemoveSector in progress; the cache drop and the return follow
		rs.park(3)
		f.mu.Lock()
		defer f.mu.Unlock()
		if f.crashed {
			return errors.New("verif: process is dead")
		}
		for off, b := range f.overlay {
			if _, err := f.inner.WriteAt(b, off); err != nil {
				return err
			}
		}
		f.overlay = map[int64][]byte{}
		f.w.step("XRsEnd true", c02Res(nil))
		return nil
	}
	if mg := f.w.mgHere(); mg != nil { // the fsync of migrateSector
		mg.park(2)
		f.mu.Lock()
		defer f.mu.Unlock()
		if f.crashed {
			return errors.New("verif: process is dead")
		}
		for off, b := range f.overlay {
			if _, err := f.inner.WriteAt(b, off); err != nil {
				return err
			}
		}
		f.overlay = map[int64][]byte{}
		f.w.step("YMgSync true", c02Res(nil))
		return nil
	}
	t, isSync := f.w.syncThreadOf(c02Goid())
	if isSync {
		if f.w.takeFault(&f.w.failSync) {
			f.w.emitFsync(t, f.id, false)
			return errors.New("verif: injected fsync error")
		}
		if st := f.w.takeStall(); st != nil {
			close(st.entered)
			<-st.release
		}
	}
	f.mu.Lock()
	defer f.mu.Unlock()
	if f.crashed {
		return nil
	}
	for off, b := range f.overlay {
		if _, err := f.inner.WriteAt(b, off); err != nil {
			return err
		}
	}
	f.overlay = map[int64][]byte{}
	if isSync {
		f.w.emitFsync(t, f.id, true)
	}
	return nil // durability of the underlying file system is assumed, not exercised
}

func c02Goid() int64 {
	var buf [64]byte
	n := runtime.Stack(buf[:], false)
	fields := strings.Fields(string(buf[:n])) // "goroutine 123 [running]: ..."
	id, _ := strconv.ParseInt(fields[1], 10, 64)
	return id
}

type c02Stall struct {
	entered chan struct{}
	release chan struct{}
}

func (f *c02File) Truncate(n int64) error {
	f.mu.Lock()
	defer f.mu.Unlock()
	if f.crashed {
		return errors.New("verif: process is dead")
	}
	for off := range f.overlay {
		if off >= n {
			delete(f.overlay, off)
		}
	}
	return f.inner.Truncate(n)
}

func (f *c02File) Close() error {
	f.mu.Lock()
	defer f.mu.Unlock()
	return f.inner.Close()
}

func (f *c02File) crash() {
	f.mu.Lock()
	defer f.mu.Unlock()
	f.crashed = true
	f.overlay = map[int64][]byte{}
}

// ---------------------------------------------------------------- recording store

type c02Result struct {
	id        int
	desc      string
	cacheSize int
	steps     []string
	monitors  [][2]string
	counts    []string
	nontriv   bool
	fatal     string
}

type c02Writer struct {
	t       int
	root    int
	reached chan struct{} // closed when the writer sits between slot commit and data write
	release chan bool     // true: let the data write fail
	done    chan error
	placed  bool
}

type c02World struct {
	mu  sync.Mutex
	res *c02Result
	rng *rand.Rand
	dir string

	db    *sqlite.Store
	st    *c02Store
	vm    *storage.VolumeManager
	files map[int64]*c02File

	failRead, failWrite int           // fail the next read / write of any volume file when 1
	failSync            int           // fail the next fsync issued by VolumeManager.Sync when 1
	stall               *c02Stall     // stall the next fsync issued by VolumeManager.Sync
	syncThreads         map[int64]int // goroutine id -> model thread of the VolumeManager.Sync it runs
	nsync               int
	stalledRelease      chan struct{} // a stalled Sync that is still in flight
	stalledDone         chan error
	raw                 *sql.DB // second connection: read-only snapshots that do not touch last-access times, and ageing
	nthr                int
	hold                *c02Writer // the next StoreSector call is held at the hook
	cons                []*c02Con
	ncon                int
	nvol                int

	volumeHook func()         // one-shot: runs after the next Store.Volume read
	opRO       map[int64]bool // the read-only flag as the operator left it (VolumeManager.SetReadOnly; RemoveVolume leaves a volume read-only)
	asyncGate  *c02Stall      // one-shot: holds the next GrowVolume / ShrinkVolume / MigrateSectors call (the asynchronous part of a resize / removal) before it reaches the store

	// finer steps (verif_c02_steps_test.go): steps are recorded for coq/Storage/DataModel.v's xstep,
	// a RemoveSector in progress is recorded (and can be parked) at its internal steps
	xmode          bool
	ymode          bool                 // second finer layer (verif_c02_finer_test.go): steps recorded for ystep
	mg             *c02MG               // how the next migration callbacks are recorded / parked
	readers        map[int64]*c02Reader // goroutine id -> cache-miss read in progress
	rs             *c02RS
	writeLog       []c02WriteEv // data writes by anybody but the RemoveSector in progress
	overwritten    map[int]bool // roots whose slot was overwritten by the writer of a removed in-flight upload
	migOverwritten map[int]bool // ... by the writer of an in-flight upload that a migration moved away (stale slot)
	relocated      map[int]bool // roots that were migrated (and whose old slot was reused) between a reader's SectorLocation and its file read
	lastC          int          // content identity returned by the last read (-1: error)
	staleSize      bool         // a ResizeVolume call was overtaken by another one (classification of monitor hits)
	tempExpired    uint64       // highest height ExpireTempSectors was called with, by whichever part of the case
	lastExists     bool         // the last StoreSector call returned nil without calling the StoreFunc
	heldRoots      map[int]bool

	// the discipline of the RPC handlers, per root
	acked     map[int]bool // Write returned nil since the last restart
	ackExists map[int]bool // ... without the StoreFunc having been called ("exists")
	ackHeld   map[int]bool // ... while another writer sat between slot commit and data write
	synced    map[int]bool // and Sync completed afterwards: a reference may be committed
	committed map[int]bool // a reference was committed under that discipline
	excused   map[int]bool // lost by forced removal / RemoveSector
	// how a slot can exist without (durable) data, for the classification of monitor hits
	dirty      map[int]bool // written, not yet synced
	holeCrash  map[int]bool // a crash hit while the slot was held without data or its data was not synced
	holeFailed map[int]bool // the writer holding the slot failed after somebody else was told "exists"
	viaHole    map[int]bool // the reference was committed on an "exists" for a slot a crash left without data
	viaHeld    map[int]bool // the reference was committed on an "exists" obtained while the slot was held
}

type c02Con struct {
	num int
	id  types.FileContractID
	v2c contracts.V2Contract
}

func (w *c02World) fatalf(f string, a ...any) { panic(fmt.Sprintf("c02-fatal: "+f, a...)) }
func (w *c02World) step(op, obs string) {
	w.mu.Lock()
	if w.xmode && !strings.HasPrefix(op, "XRs") && !strings.HasPrefix(op, "YMg") && !strings.HasPrefix(op, "YRd") {
		op = "XD (" + op + ")"
	}
	if w.ymode && !strings.HasPrefix(op, "YMg") && !strings.HasPrefix(op, "YRd") {
		op = "YX (" + op + ")"
	}
	w.res.steps = append(w.res.steps, "("+op+", "+obs+")")
	w.mu.Unlock()
}
func (w *c02World) count(k string) {
	w.mu.Lock()
	w.res.counts = append(w.res.counts, k)
	w.mu.Unlock()
}
func (w *c02World) monitor(sig, d string) {
	w.mu.Lock()
	w.res.monitors = append(w.res.monitors, [2]string{sig, d})
	w.mu.Unlock()
}
func (w *c02World) takeFault(p *int) bool {
	w.mu.Lock()
	defer w.mu.Unlock()
	if *p > 0 {
		*p--
		return *p == 0
	}
	return false
}

func (w *c02World) syncThreadOf(g int64) (int, bool) {
	w.mu.Lock()
	defer w.mu.Unlock()
	t, ok := w.syncThreads[g]
	return t, ok
}

func (w *c02World) takeStall() *c02Stall {
	w.mu.Lock()
	defer w.mu.Unlock()
	st := w.stall
	w.stall = nil
	return st
}

// emitFsync records the fsync of one volume by Sync thread t and, when it succeeded, the
// deletion of the volume's changed flag that follows it.
func (w *c02World) emitFsync(t int, vol int64, ok bool) {
	if w.st.dead {
		return
	}
	w.mu.Lock()
	defer w.mu.Unlock()
	x := func(op string) string {
		if w.xmode {
			op = "XD (" + op + ")"
		}
		if w.ymode {
			op = "YX (" + op + ")"
		}
		return op
	}
	if ok {
		w.res.steps = append(w.res.steps, fmt.Sprintf("(%s, %s)", x(fmt.Sprintf("DFsync %d %d true", t, vol)), c02Res(nil)),
			fmt.Sprintf("(%s, %s)", x(fmt.Sprintf("DClear %d", t)), c02Res(nil)))
	} else {
		w.res.steps = append(w.res.steps, fmt.Sprintf("(%s, OM (ORes (Err EOther)))", x(fmt.Sprintf("DFsync %d %d false", t, vol))))
	}
}

func c02Err(err error) string {
	switch {
	case err == nil:
		return "Ok tt"
	case errors.Is(err, storage.ErrNotEnoughStorage):
		return "Err ENotEnoughStorage"
	case errors.Is(err, storage.ErrSectorNotFound), errors.Is(err, storage.ErrVolumeNotFound):
		return "Err ENotFound"
	case errors.Is(err, storage.ErrVolumeNotEmpty):
		return "Err EInvalid"
	default:
		return "Err EOther"
	}
}

func c02Res(err error) string { return "OM (ORes (" + c02Err(err) + "))" }

// c02Store passes every call to the real sqlite.Store and records it as a model step.
type c02Store struct {
	*sqlite.Store
	w    *c02World
	dead bool
}

func (s *c02Store) rec(op string, err error) {
	if !s.dead {
		s.w.step(op, c02Res(err))
	}
}

// Volume is passed through; a one-shot hook lets a case hold the caller right after the read.
func (s *c02Store) Volume(id int64) (storage.Volume, error) {
	v, err := s.Store.Volume(id)
	s.w.mu.Lock()
	h := s.w.volumeHook
	s.w.volumeHook = nil
	s.w.mu.Unlock()
	if h != nil {
		h()
	}
	return v, err
}

// SectorLocation / RemoveSector are passed through; when they are called by the RemoveSector in
// progress they are its first two internal steps.
func (s *c02Store) SectorLocation(root types.Hash256) (storage.SectorLocation, error) {
	loc, err := s.Store.SectorLocation(root)
	if rd := s.w.readerHere(); rd != nil && !s.dead {
		rd.located = true
		if err == nil {
			s.w.step(fmt.Sprintf("YRdLocate %d %d", rd.t, rd.root), fmt.Sprintf("OM (OLoc (Some (%d, %d)))", loc.Volume, loc.Index))
			rd.park()
		} else {
			s.w.step(fmt.Sprintf("YRdLocate %d %d", rd.t, rd.root), "OReadErr")
		}
		return loc, err
	}
	if rs := s.w.rsHere(); rs != nil && !s.dead {
		if err == nil {
			rs.vol, rs.idx, rs.located = loc.Volume, loc.Index, true
			s.w.step(fmt.Sprintf("XRsLocate %d", rs.root), fmt.Sprintf("OM (OLoc (Some (%d, %d)))", loc.Volume, loc.Index))
			rs.park(1)
		} else {
			s.w.step(fmt.Sprintf("XRsLocate %d", rs.root), c02Res(err))
		}
	}
	return loc, err
}

func (s *c02Store) RemoveSector(root types.Hash256) error {
	err := s.Store.RemoveSector(root)
	if rs := s.w.rsHere(); rs != nil && !s.dead {
		rs.commitTried = true
		s.w.step("XRsCommit", c02Res(err))
		if err == nil {
			rs.committed = true
			rs.park(2)
		}
	}
	return err
}

func (s *c02Store) AddVolume(path string, ro bool) (int64, error) {
	id, err := s.Store.AddVolume(path, ro)
	if err != nil {
		s.w.fatalf("AddVolume: %v", err)
	}
	s.rec(fmt.Sprintf("DMeta (AddVol %d %s)", id, coqBool(ro)), nil)
	return id, err
}
func (s *c02Store) SetAvailable(id int64, b bool) error {
	err := s.Store.SetAvailable(id, b)
	s.rec(fmt.Sprintf("DMeta (SetAvail %d %s)", id, coqBool(b)), err)
	return err
}
func (s *c02Store) SetReadOnly(id int64, b bool) error {
	err := s.Store.SetReadOnly(id, b)
	s.rec(fmt.Sprintf("DMeta (SetRO %d %s)", id, coqBool(b)), err)
	return err
}

// holdAsync parks the caller if a case armed the gate (one-shot).
func (s *c02Store) holdAsync() {
	s.w.mu.Lock()
	g := s.w.asyncGate
	s.w.asyncGate = nil
	s.w.mu.Unlock()
	if g != nil {
		close(g.entered)
		<-g.release
	}
}

func (s *c02Store) GrowVolume(id int64, n uint64) error {
	s.holdAsync()
	err := s.Store.GrowVolume(id, n)
	s.rec(fmt.Sprintf("DMeta (Grow %d %d)", id, n), err)
	return err
}
func (s *c02Store) ShrinkVolume(id int64, n uint64) error {
	s.holdAsync()
	err := s.Store.ShrinkVolume(id, n)
	s.rec(fmt.Sprintf("DShrinkT %d %d", id, n), err) // the volume manager truncates the file right after
	return err
}
func (s *c02Store) RemoveVolume(id int64, force bool) error {
	err := s.Store.RemoveVolume(id, force)
	s.rec(fmt.Sprintf("DRemoveT %d %s", id, coqBool(force)), err)
	return err
}
func (s *c02Store) AddTempSector(root types.Hash256, exp uint64) error {
	err := s.Store.AddTempSector(root, exp)
	s.rec(fmt.Sprintf("DMeta (AddTemp1 %d %d)", c02RootNumbers[root], exp), err)
	return err
}
func (s *c02Store) AddTemporarySectors(l []storage.TempSector) error {
	err := s.Store.AddTemporarySectors(l)
	var t []string
	for _, e := range l {
		t = append(t, fmt.Sprintf("(%d, %d)", c02RootNumbers[e.Root], e.Expiration))
	}
	s.rec("DMeta (AddTemp "+coqList(t)+")", err)
	return err
}
func (s *c02Store) ExpireTempSectors(h uint64) error {
	err := s.Store.ExpireTempSectors(h)
	s.rec(fmt.Sprintf("DMeta (ExpireTemp %d)", h), err)
	return err
}
func (s *c02Store) PruneSectors(ctx context.Context, cutoff time.Time) error {
	err := s.Store.PruneSectors(ctx, cutoff)
	s.rec("DPrune", err)
	return err
}

func (s *c02Store) MigrateSectors(ctx context.Context, id int64, start uint64, fn storage.MigrateFunc) (int, int, error) {
	s.holdAsync()
	if s.w.ymode && !s.dead {
		return s.migrateFiner(ctx, id, start, fn)
	}
	var calls []string
	m, f, err := s.Store.MigrateSectors(ctx, id, start, func(from, to storage.SectorLocation) error {
		e := fn(from, to)
		code := 0
		switch {
		case e == nil:
		case strings.Contains(e.Error(), "failed to read sector"):
			code = 1
		case strings.Contains(e.Error(), "sector corrupt"):
			code = 2
		case strings.Contains(e.Error(), "failed to write sector"):
			code = 3
		case strings.Contains(e.Error(), "sector is being written"): // only with fixes/C02-migrate-in-flight.patch
			code = 4
		default:
			s.w.fatalf("unclassified migration error: %v", e)
		}
		calls = append(calls, fmt.Sprintf("(%d, (%d, %d), %d)", from.Index, to.Volume, to.Index, code))
		return e
	})
	if !s.dead {
		s.w.step(fmt.Sprintf("DMigrate %d %d %s", id, start, coqList(calls)), fmt.Sprintf("OM (OMig %d %d (%s))", m, f, c02Err(err)))
		s.w.count(fmt.Sprintf("migrate:calls=%d,failed=%d,%s", min(len(calls), 3), min(f, 2), c02Err(err)))
	}
	return m, f, err
}

func (s *c02Store) StoreSector(root types.Hash256, fn storage.StoreFunc) error {
	w := s.w
	w.mu.Lock()
	w.nthr++
	t := w.nthr
	hold := w.hold
	w.hold = nil
	w.mu.Unlock()
	r := c02RootNumbers[root]
	called := false
	var fnErr error
	err := s.Store.StoreSector(root, func(loc storage.SectorLocation) error {
		called = true
		if !s.dead {
			w.step(fmt.Sprintf("DReserve %d %d (Some (%d, %d))", t, r, loc.Volume, loc.Index), "OPlaced")
			w.mu.Lock()
			ro := w.opRO[loc.Volume]
			w.mu.Unlock()
			if ro {
				w.monitor("sector-placed-on-read-only-volume", fmt.Sprintf("root %d placed at (%d, %d) although the operator set volume %d read-only", r, loc.Volume, loc.Index, loc.Volume))
			}
		}
		if hold != nil {
			hold.t, hold.placed = t, true
			close(hold.reached)
			if <-hold.release {
				w.mu.Lock()
				w.failWrite = 1
				w.mu.Unlock()
			}
		}
		fnErr = fn(loc)
		return fnErr
	})
	if s.dead {
		return err
	}
	w.mu.Lock()
	w.lastExists = !called && err == nil
	w.mu.Unlock()
	switch {
	case called:
		w.step(fmt.Sprintf("DWrite %d %s", t, coqBool(fnErr == nil)), c02Res(err))
		w.count(fmt.Sprintf("write:placed,ok=%v", fnErr == nil))
	case err == nil:
		w.step(fmt.Sprintf("DReserve %d %d None", t, r), "OAck")
		w.count("write:exists")
	default:
		w.step(fmt.Sprintf("DReserve %d %d None", t, r), c02Res(err))
		w.count("write:" + c02Err(err))
	}
	if hold != nil && !called {
		close(hold.reached)
	}
	return err
}

// ---------------------------------------------------------------- hooks for the second finer layer (driven by verif_c02_finer_test.go)

// c02MG says how the callbacks of the MigrateSectors calls of a case are parked.
type c02MG struct {
	w       *c02World
	goid    int64
	parkAt  int // 0: never; 1: after the transaction opened (in front of migrateSector); 2: in front of the fsync; 3: in front of the commit
	reached chan struct{}
	release chan struct{}
	parked  bool
	used    bool
}

func (mg *c02MG) park(at int) {
	if mg.parkAt != at || mg.used {
		return
	}
	mg.used, mg.parked = true, true
	close(mg.reached)
	<-mg.release
}

// mgHere returns the migration being recorded if the calling goroutine runs its callback.
func (w *c02World) mgHere() *c02MG {
	w.mu.Lock()
	mg := w.mg
	w.mu.Unlock()
	if mg == nil || mg.goid != c02Goid() {
		return nil
	}
	return mg
}

// migrateFiner is MigrateSectors recorded callback by callback: the transaction's choice of source
// and target (YMgBegin), migrateSector's file operations (recorded by the volume file: YMgRead,
// YMgWrite, YMgSync) and the commit that follows a callback that returned nil (YMgCommit).
func (s *c02Store) migrateFiner(ctx context.Context, id int64, start uint64, fn storage.MigrateFunc) (int, int, error) {
	w := s.w
	w.mu.Lock()
	mg := w.mg
	if mg == nil {
		mg = &c02MG{w: w}
		w.mg = mg
	}
	w.mu.Unlock()
	index := start
	m, f, err := s.Store.MigrateSectors(ctx, id, start, func(from, to storage.SectorLocation) error {
		w.step(fmt.Sprintf("YMgBegin %d %d %d (%d, %d)", id, start, index, to.Volume, to.Index), fmt.Sprintf("OM (OLoc (Some (%d, %d)))", from.Volume, from.Index))
		index = from.Index + 1
		w.mu.Lock()
		mg.goid = c02Goid()
		w.mu.Unlock()
		mg.park(1)
		e := fn(from, to)
		if e == nil {
			mg.park(3)
			w.step("YMgCommit", c02Res(nil))
		} else if strings.Contains(e.Error(), "sector is being written") {
			w.fatalf("fixes/C02-migrate-in-flight.patch is not modelled at this granularity")
		}
		w.mu.Lock()
		mg.goid = 0
		w.mu.Unlock()
		return e
	})
	w.count(fmt.Sprintf("migrate-finer:migrated=%d,failed=%d,%s", min(m, 3), min(f, 2), c02Err(err)))
	return m, f, err
}

// c02Reader is a cache-miss ReadSector call in progress.
type c02Reader struct {
	w        *c02World
	t, root  int
	goid     int64
	parkIt   bool // park after SectorLocation
	reached  chan struct{}
	release  chan struct{}
	done     chan struct{}
	located  bool
	fileDone bool
	parked   bool
	c        int
	err      error
}

func (rd *c02Reader) park() {
	if !rd.parkIt {
		return
	}
	rd.parked = true
	close(rd.reached)
	<-rd.release
}

func (w *c02World) readerHere() *c02Reader {
	w.mu.Lock()
	defer w.mu.Unlock()
	if w.readers == nil {
		return nil
	}
	return w.readers[c02Goid()]
}

// ---------------------------------------------------------------- hooks for the finer steps (driven by verif_c02_steps_test.go)

type c02WriteEv struct {
	vol int64
	off int64
}

// c02RS is a VolumeManager.RemoveSector call in progress.
type c02RS struct {
	w        *c02World
	root     int
	goid     int64
	parkAt   int // 0: never; 1: after SectorLocation; 2: after Store.RemoveSector; 3: after the zero write (in the fsync)
	failZero bool
	reached  chan struct{}
	release  chan struct{}
	done     chan error
	parked   bool
	// what it did so far
	located, committed bool
	commitTried        bool
	vol                int64
	idx                uint64
}

func (rs *c02RS) park(at int) {
	if rs.parkAt != at {
		return
	}
	rs.parked = true
	close(rs.reached)
	<-rs.release
}

// rsHere returns the RemoveSector in progress if the calling goroutine is the one running it.
func (w *c02World) rsHere() *c02RS {
	w.mu.Lock()
	rs := w.rs
	w.mu.Unlock()
	if rs == nil || rs.goid != c02Goid() {
		return nil
	}
	return rs
}

func (w *c02World) noteWrite(vol int64, off int64) {
	w.mu.Lock()
	w.writeLog = append(w.writeLog, c02WriteEv{vol, off})
	w.mu.Unlock()
}

// ---------------------------------------------------------------- world

func (w *c02World) open() {
	db, err := sqlite.OpenDatabase(filepath.Join(w.dir, "hostd.db"), zap.NewNop())
	if err != nil {
		w.fatalf("open db: %v", err)
	}
	w.db = db
	w.st = &c02Store{Store: db, w: w}
	raw, err := sql.Open("sqlite3", "file:"+filepath.Join(w.dir, "hostd.db")+"?_busy_timeout=10000")
	if err != nil {
		w.fatalf("open raw db: %v", err)
	}
	raw.SetMaxOpenConns(1)
	w.raw = raw
	w.syncThreads = map[int64]int{}
	vm, err := storage.NewVolumeManager(w.st, storage.WithCacheSize(w.res.cacheSize), storage.WithPruneInterval(24*time.Hour))
	if err != nil {
		w.fatalf("new volume manager: %v", err)
	}
	w.vm = vm
	w.files = map[int64]*c02File{}
	w.wrapFiles()
}

func (w *c02World) wrapFiles() {
	storage.VerifWrapVolumes(w.vm, func(id int64, d storage.VerifVolumeData) storage.VerifVolumeData {
		if f, ok := d.(*c02File); ok {
			return f
		}
		f := &c02File{w: w, id: id, inner: d, overlay: map[int64][]byte{}}
		w.files[id] = f
		return f
	})
}

func (w *c02World) clearSession() {
	w.acked, w.ackExists, w.ackHeld, w.synced = map[int]bool{}, map[int]bool{}, map[int]bool{}, map[int]bool{}
	w.heldRoots, w.dirty = map[int]bool{}, map[int]bool{}
}

// crash: the process dies.  Unsynced file data is gone, the database keeps what was committed.
func (w *c02World) crash(held []*c02Writer) {
	for _, h := range held {
		w.holeCrash[h.root] = true
	}
	for r, d := range w.dirty {
		if d {
			w.holeCrash[r] = true
		}
	}
	w.st.dead = true
	for _, f := range w.files {
		f.crash()
	}
	w.raw.Close()
	w.db.Close()
	for _, h := range held { // their data write and rollback fail: the process is gone
		h.release <- false
		<-h.done
	}
	if w.stalledRelease != nil { // an fsync was in flight: it never completes
		close(w.stalledRelease)
		<-w.stalledDone
		w.stalledRelease, w.stalledDone = nil, nil
	}
	w.vm.Close()
	w.step("DCrash", c02Res(nil))
	w.count("op:Crash")
	w.clearSession()
	w.open()
	w.snapshot()
}

func (w *c02World) restart() {
	if err := w.vm.Close(); err != nil {
		w.fatalf("close: %v", err)
	}
	w.st.dead = true
	w.raw.Close()
	w.db.Close()
	w.step("DRestart", c02Res(nil))
	w.count("op:Restart")
	w.clearSession()
	w.open()
	w.snapshot()
}

// locate reads a sector's slot over the second connection (Store.SectorLocation would refresh
// the sector's last-access time).
func (w *c02World) locate(r int) (vol int64, idx uint64, ok bool) {
	root := c02RootsOf[r]
	err := w.raw.QueryRow(`SELECT vs.volume_id, vs.volume_index FROM volume_sectors vs INNER JOIN stored_sectors ss ON vs.sector_id=ss.id WHERE ss.sector_root=?`, root[:]).Scan(&vol, &idx)
	if errors.Is(err, sql.ErrNoRows) {
		return 0, 0, false
	} else if err != nil {
		w.fatalf("locate: %v", err)
	}
	return vol, idx, true
}

func (w *c02World) snapshot() {
	var rs, vs, locs, crs []string
	vols, err := w.db.Volumes()
	if err != nil {
		w.fatalf("volumes: %v", err)
	}
	for _, v := range vols {
		vs = append(vs, fmt.Sprintf("(%d, %s, %s, %s, %s)", v.ID, coqBool(v.ReadOnly), coqBool(v.Available), coqZ(int64(v.TotalSectors)), coqZ(int64(v.UsedSectors))))
	}
	m, err := w.db.Metrics(time.Now().Add(time.Hour))
	if err != nil {
		w.fatalf("metrics: %v", err)
	}
	for r := 1; r <= c02Pool; r++ {
		rs = append(rs, fmt.Sprint(r))
		if vol, idx, ok := w.locate(r); ok {
			locs = append(locs, fmt.Sprintf("Some (%d, %d)", vol, idx))
		} else {
			locs = append(locs, "None")
		}
	}
	v2, err := w.db.V2SectorRoots()
	if err != nil {
		w.fatalf("v2 roots: %v", err)
	}
	for _, c := range w.cons {
		roots := v2[c.id]
		if len(roots) == 0 {
			continue
		}
		var l []string
		for _, r := range roots {
			l = append(l, fmt.Sprint(c02RootNumbers[r]))
		}
		crs = append(crs, fmt.Sprintf("(%d, true, %s)", c.num, coqList(l)))
	}
	w.step("DMeta (Snapshot "+coqList(rs)+")", fmt.Sprintf("OM (OSnap %s (%s, %s, %s, %s, %s) %s %s)", coqList(vs),
		coqZ(int64(m.Storage.TotalSectors)), coqZ(int64(m.Storage.PhysicalSectors)), coqZ(int64(m.Storage.LostSectors)),
		coqZ(int64(m.Storage.ContractSectors)), coqZ(int64(m.Storage.TempSectors)), coqList(locs), coqList(crs)))
}

func (w *c02World) lost() uint64 {
	m, err := w.db.Metrics(time.Now().Add(time.Hour))
	if err != nil {
		w.fatalf("metrics: %v", err)
	}
	return m.Storage.LostSectors
}

// ---------------------------------------------------------------- operations

func (w *c02World) addVolume(size uint64) int64 {
	w.nvol++
	res := make(chan error, 1)
	v, err := w.vm.AddVolume(context.Background(), filepath.Join(w.dir, fmt.Sprintf("vol%d.dat", w.nvol)), size, res)
	if err != nil {
		w.fatalf("add volume: %v", err)
	}
	w.wrapFiles()
	if err := <-res; err != nil {
		w.fatalf("grow new volume: %v", err)
	}
	w.count("op:AddVolume")
	w.mu.Lock()
	delete(w.opRO, v.ID) // row ids can be reused after a removal
	w.mu.Unlock()
	w.snapshot()
	return v.ID
}

func (w *c02World) resize(id int64, size uint64) bool {
	res := make(chan error, 1)
	if err := w.vm.ResizeVolume(context.Background(), id, size, res); err != nil {
		w.count("op:Resize:refused")
		return false
	}
	err := <-res
	w.count("op:Resize:" + c02Err(err))
	w.waitReady(id)
	w.checkOperatorFlag(id, "ResizeVolume")
	w.snapshot()
	return true
}

// checkOperatorFlag: a resize only makes a volume read-only for its own duration.
func (w *c02World) checkOperatorFlag(id int64, what string) {
	v, err := w.db.Volume(id)
	if err != nil {
		return
	}
	w.mu.Lock()
	want := w.opRO[id]
	w.mu.Unlock()
	if v.ReadOnly != want {
		w.monitor("resize-changed-operator-read-only-flag", fmt.Sprintf("volume %d after %s: read_only=%v, the operator left it %v", id, what, v.ReadOnly, want))
	}
}

// setReadOnly is the operator's VolumeManager.SetReadOnly.
func (w *c02World) setReadOnly(id int64, ro bool) {
	err := w.vm.SetReadOnly(id, ro)
	w.count(fmt.Sprintf("op:SetReadOnly:%v:%s", ro, c02Err(err)))
	if err == nil {
		w.mu.Lock()
		if w.opRO == nil {
			w.opRO = map[int64]bool{}
		}
		w.opRO[id] = ro
		w.mu.Unlock()
	}
	w.snapshot()
}

func (w *c02World) waitReady(id int64) {
	for i := 0; i < 2000; i++ {
		v, err := w.vm.Volume(id)
		if err != nil || v.Status == storage.VolumeStatusReady || v.Status == storage.VolumeStatusUnavailable {
			return
		}
		time.Sleep(time.Millisecond)
	}
}

func (w *c02World) occupants(id int64) (roots []int) {
	for r := 1; r <= c02Pool; r++ {
		if vol, _, ok := w.locate(r); ok && vol == id {
			roots = append(roots, r)
		}
	}
	return
}

func (w *c02World) removeVolume(id int64, force bool) {
	before := w.occupants(id)
	lost0 := w.lost()
	res := make(chan error, 1)
	if err := w.vm.RemoveVolume(context.Background(), id, force, res); err != nil {
		w.count("op:RemoveVolume:refused")
		return
	}
	w.mu.Lock()
	if w.opRO == nil {
		w.opRO = map[int64]bool{}
	}
	w.opRO[id] = true // RemoveVolume makes the volume read-only and leaves it so when it fails
	w.mu.Unlock()
	err := <-res
	w.count(fmt.Sprintf("op:RemoveVolume:force=%v:%s", force, c02Err(err)))
	w.waitReady(id)
	// what was lost must be counted, and only a forced removal may lose anything
	var gone []int
	for _, r := range before {
		if _, _, ok := w.locate(r); !ok {
			gone = append(gone, r)
		}
	}
	if d := w.lost() - lost0; d != uint64(len(gone)) {
		w.monitor("lost-sectors-not-exact", fmt.Sprintf("RemoveVolume(%d, force=%v): lost +%d, sectors gone %v", id, force, d, gone))
	}
	if len(gone) > 0 && !force {
		w.monitor("non-forced-removal-lost-sectors", fmt.Sprintf("volume %d: %v", id, gone))
	}
	for _, r := range gone {
		w.excused[r] = true
	}
	w.forgetUnlocated()
	w.snapshot()
}

func (w *c02World) removeSector(r int) {
	lost0 := w.lost()
	err := w.vm.RemoveSector(c02RootsOf[r])
	if err != nil && strings.Contains(err.Error(), "sector is being written") {
		// only with fixes/C02-remove-sector-in-flight.patch: refused before anything was touched, not a step
		w.count("op:RemoveSector:refused-upload-in-flight")
		w.snapshot()
		return
	}
	w.step(fmt.Sprintf("DRemoveSector %d", r), c02Res(err))
	w.count("op:RemoveSector:" + c02Err(err))
	want := uint64(0)
	if err == nil {
		want = 1
		w.excused[r] = true
	}
	if d := w.lost() - lost0; d != want {
		w.monitor("lost-sectors-not-exact", fmt.Sprintf("RemoveSector(%d): lost +%d want +%d", r, d, want))
	}
	w.forgetUnlocated()
	w.snapshot()
}

// write runs VolumeManager.Write to completion; failData makes the file write fail.
func (w *c02World) write(r int, failData bool) error {
	if failData {
		w.mu.Lock()
		w.failWrite = 1
		w.mu.Unlock()
	}
	n0 := w.nthr
	err := w.vm.Write(c02RootsOf[r], c02Sectors[r])
	w.mu.Lock()
	w.failWrite = 0
	w.mu.Unlock()
	w.noteAck(r, err, n0)
	w.snapshot()
	return err
}

func (w *c02World) noteAck(r int, err error, _ int) {
	if err != nil {
		return
	}
	w.acked[r], w.synced[r] = true, false
	w.ackExists[r] = w.lastExists
	w.ackHeld[r] = w.lastExists && w.heldRoots[r]
	if !w.lastExists { // freshly placed and written
		w.dirty[r] = true
		w.holeCrash[r], w.holeFailed[r] = false, false
	}
}

// startWrite launches a writer and returns once it sits between slot commit and data write
// (or has finished because the sector exists / there is no room).
func (w *c02World) startWrite(r int) *c02Writer {
	h := &c02Writer{root: r, reached: make(chan struct{}), release: make(chan bool, 1), done: make(chan error, 1)}
	w.mu.Lock()
	w.hold = h
	w.mu.Unlock()
	go func() { h.done <- w.vm.Write(c02RootsOf[r], c02Sectors[r]) }()
	<-h.reached
	if !h.placed {
		err := <-h.done
		w.noteAck(r, err, 0)
		w.snapshot()
		return nil
	}
	w.count("op:HeldWrite")
	w.heldRoots[r] = true
	return h
}

func (w *c02World) finishWrite(h *c02Writer, fail bool) {
	h.release <- fail
	err := <-h.done
	w.mu.Lock()
	w.failWrite = 0
	w.mu.Unlock()
	delete(w.heldRoots, h.root)
	if err != nil && (w.ackHeld[h.root] || w.viaHeld[h.root]) {
		w.holeFailed[h.root] = true
	}
	w.lastExists = false
	w.noteAck(h.root, err, 0)
	w.snapshot()
}

// syncCall runs VolumeManager.Sync in the calling goroutine as model thread t: DSyncBegin, one
// DFsync (+ DClear) per fsync issued (recorded by the volume file), DSyncEnd when it returns nil.
func (w *c02World) syncCall() error {
	w.mu.Lock()
	w.nsync++
	t := 1000 + w.nsync
	g := c02Goid()
	w.syncThreads[g] = t
	w.mu.Unlock()
	w.step(fmt.Sprintf("DSyncBegin %d", t), c02Res(nil))
	err := w.vm.Sync()
	w.mu.Lock()
	delete(w.syncThreads, g)
	w.mu.Unlock()
	if err == nil && !w.st.dead {
		w.step(fmt.Sprintf("DSyncEnd %d", t), c02Res(nil))
	}
	return err
}

func (w *c02World) markSynced() {
	for r, a := range w.acked {
		if a {
			w.synced[r] = true
		}
	}
	w.dirty = map[int]bool{}
}

func (w *c02World) sync() {
	if err := w.syncCall(); err != nil {
		w.fatalf("sync: %v", err)
	}
	w.count("op:Sync")
	w.markSynced()
}

// syncFailing: the next fsync issued by Sync fails; Sync returns the error, nothing counts as synced.
func (w *c02World) syncFailing() bool {
	w.mu.Lock()
	w.failSync = 1
	w.mu.Unlock()
	err := w.syncCall()
	w.mu.Lock()
	w.failSync = 0
	w.mu.Unlock()
	w.count(fmt.Sprintf("op:Sync:fsync-error=%v", err != nil))
	if err == nil {
		w.markSynced()
	}
	return err != nil
}

// retryAfterFailedSync is what a renter does after the RPC failed: upload again (the sectors are
// stored, Write answers "exists"), then Sync again.
func (w *c02World) retryAfterFailedSync() {
	for r := 1; r <= c02Pool; r++ {
		if w.acked[r] && !w.synced[r] {
			w.write(r, false)
		}
	}
	w.sync()
}

// stalledSyncs: one session's Sync is held inside its fsync while a second session calls Sync.
// The second session goes on (commits its references) as soon as its Sync has returned nil; if
// that happens while the first fsync is still in flight, the process then dies.
func (w *c02World) stalledSyncs() {
	st := &c02Stall{entered: make(chan struct{}), release: make(chan struct{})}
	w.mu.Lock()
	w.stall = st
	w.mu.Unlock()
	done1 := make(chan error, 1)
	go func() { done1 <- w.syncCall() }()
	select {
	case <-st.entered:
	case err := <-done1: // nothing to fsync
		w.mu.Lock()
		w.stall = nil
		w.mu.Unlock()
		if err == nil {
			w.markSynced()
		}
		w.count("op:StalledSync:nothing-to-sync")
		return
	}
	done2 := make(chan error, 1)
	go func() { done2 <- w.syncCall() }()
	select {
	case err := <-done2:
		w.count("op:StalledSync:second-returned-while-first-in-flight")
		if err == nil {
			w.markSynced()
			var ok []int
			for q := 1; q <= c02Pool; q++ {
				if w.canRef(q) {
					ok = append(ok, q)
				}
			}
			if len(ok) > 0 {
				w.addTemp(ok, 100)
			}
		}
		w.stalledRelease, w.stalledDone = st.release, done1
		w.crash(nil)
		w.readAll()
	case <-time.After(120 * time.Millisecond):
		w.count("op:StalledSync:second-waited")
		close(st.release)
		e1, e2 := <-done1, <-done2
		if e1 == nil && e2 == nil {
			w.markSynced()
		}
	}
}

// age: more than a prune interval passes without any access (stored_sectors.last_access_timestamp
// is moved two hours into the past over the second connection; PruneSectors is then called with
// a cutoff one hour ago).  Sessions do not live that long.
func (w *c02World) age() {
	if _, err := w.raw.Exec(`UPDATE stored_sectors SET last_access_timestamp=last_access_timestamp-7200`); err != nil {
		w.fatalf("age: %v", err)
	}
	w.step("DAge", c02Res(nil))
	w.count("op:Age")
	w.acked, w.ackExists, w.ackHeld, w.synced = map[int]bool{}, map[int]bool{}, map[int]bool{}, map[int]bool{}
}

// read = VolumeManager.ReadSector, with the readability monitor for acknowledged references.
func (w *c02World) read(r int, failIO bool) {
	if failIO {
		w.mu.Lock()
		w.failRead = 1
		w.mu.Unlock()
	}
	h0, _ := w.vm.CacheStats()
	buf, err := w.vm.ReadSector(c02RootsOf[r])
	h1, _ := w.vm.CacheStats()
	w.mu.Lock()
	injected := failIO && w.failRead == 0
	w.failRead = 0
	w.mu.Unlock()
	op := fmt.Sprintf("DRead %d %s", r, coqBool(injected))
	c := -1
	if err != nil {
		w.step(op, "OReadErr")
	} else {
		c = c02ContentID(buf)
		w.step(op, fmt.Sprintf("ORead %s %d", coqBool(h1 > h0), c))
	}
	w.count(fmt.Sprintf("read:hit=%v,err=%v,good=%v", h1 > h0, err != nil, c == r))
	w.lastC = c
	if injected {
		return
	}
	has, herr := w.db.HasSector(c02RootsOf[r])
	if herr != nil {
		w.fatalf("has: %v", herr)
	}
	if has && w.committed[r] && !w.excused[r] && c != r {
		detail := fmt.Sprintf("root %d: err=%v content=%d", r, err, c)
		// StoreSector answers "exists" for any root that has a slot, whether or not the data was
		// (durably) written: the three ways this makes an acknowledged reference unreadable
		switch {
		case w.overwritten[r]:
			w.monitor("remove-sector-of-in-flight-upload-overwrites-new-tenant", detail)
		case w.migOverwritten[r]:
			w.monitor("migration-of-in-flight-upload-overwrites-new-tenant", detail)
		case w.relocated[r]:
			w.monitor("read-sector-relocated-serves-other-sectors-bytes", detail)
		case w.staleSize:
			w.monitor("resize-overtaken-by-earlier-resize-truncated-data", detail)
		case w.viaHole[r]:
			w.monitor("exists-ack-for-slot-left-without-data-by-crash", detail)
		case w.viaHeld[r] && w.holeFailed[r]:
			w.monitor("exists-ack-then-first-writer-failed", detail)
		case w.viaHeld[r]:
			w.monitor("exists-ack-before-first-writer-data-durable", detail)
		default:
			w.monitor("referenced-sector-unreadable", detail)
		}
	}
}

func (w *c02World) readAll() {
	for r := 1; r <= c02Pool; r++ {
		w.read(r, false)
	}
}

// reference commits a reference the way the RPC handlers do: only for roots whose Write
// returned nil and for which Sync completed afterwards.
func (w *c02World) canRef(r int) bool { return w.acked[r] && w.synced[r] }

func (w *c02World) addTemp(rs []int, exp uint64) {
	var l []storage.TempSector
	for _, r := range rs {
		l = append(l, storage.TempSector{Root: c02RootsOf[r], Expiration: exp})
	}
	if err := w.vm.AddTemporarySectors(l); err == nil {
		for _, r := range rs {
			w.commit(r)
		}
	}
	w.count("op:AddTemp")
	w.snapshot()
}

func (w *c02World) commit(r int) {
	if !w.canRef(r) { // kept from an earlier revision of the same list
		return
	}
	w.committed[r], w.excused[r] = true, false
	w.viaHole[r] = w.ackExists[r] && w.holeCrash[r]
	w.viaHeld[r] = w.ackHeld[r]
	if w.ackHeld[r] && !w.heldRoots[r] && w.holeFailed[r] {
		w.viaHeld[r] = true
	}
}

func (w *c02World) addContract() *c02Con {
	w.ncon++
	c := &c02Con{num: w.ncon}
	c.id[0], c.id[1], c.id[2] = byte(w.ncon), 0xc2, 2
	renter := types.NewPrivateKeyFromSeed(make([]byte, 32)).PublicKey()
	c.v2c = contracts.V2Contract{ID: c.id, NegotiationHeight: 1,
		V2FileContract: types.V2FileContract{RenterPublicKey: renter, HostPublicKey: renter, ProofHeight: 1000, ExpirationHeight: 1001}}
	if err := w.db.AddV2Contract(c.v2c, rhp4.TransactionSet{}); err != nil {
		w.fatalf("add contract: %v", err)
	}
	w.cons = append(w.cons, c)
	w.step(fmt.Sprintf("DMeta (AddC %d true 1001 1)", c.num), c02Res(nil))
	return c
}

func (w *c02World) revise(c *c02Con, roots []int) {
	cur, err := w.db.V2SectorRoots()
	if err != nil {
		w.fatalf("roots: %v", err)
	}
	var nr []types.Hash256
	var t []string
	for _, r := range roots {
		nr = append(nr, c02RootsOf[r])
		t = append(t, fmt.Sprint(r))
	}
	c.v2c.RevisionNumber++
	err = w.db.ReviseV2Contract(c.id, c.v2c.V2FileContract, cur[c.id], nr, proto4.Usage{})
	w.step(fmt.Sprintf("DMeta (ReviseV2 %d %s)", c.num, coqList(t)), c02Res(err))
	if err == nil {
		for _, r := range roots {
			w.commit(r)
		}
	}
	w.count("op:ReviseV2:" + c02Err(err))
	w.snapshot()
}

func (w *c02World) expireTemp(h uint64) {
	if err := w.st.ExpireTempSectors(h); err != nil {
		w.fatalf("expire: %v", err)
	}
	if h > w.tempExpired {
		w.tempExpired = h
	}
	w.count("op:ExpireTemp")
}

// prune = PruneSectors the way the volume manager calls it: with a cutoff one prune interval ago.
func (w *c02World) prune() {
	if err := w.st.PruneSectors(context.Background(), time.Now().Add(-time.Hour)); err != nil {
		w.fatalf("prune: %v", err)
	}
	w.count("op:Prune")
	w.snapshot()
}

func (w *c02World) forgetUnlocated() {
	for r := 1; r <= c02Pool; r++ {
		if _, _, ok := w.locate(r); !ok {
			w.acked[r], w.synced[r] = false, false
		}
	}
}

func (w *c02World) resizeCache(n int) {
	w.vm.ResizeCache(uint32(n))
	w.res.cacheSize = n
	w.step(fmt.Sprintf("DResizeCache %d", n), c02Res(nil))
	w.count("op:ResizeCache")
}

// referenceSome commits temp-storage references for everything the discipline allows.
func (w *c02World) referenceSome() {
	var ok []int
	for q := 1; q <= c02Pool; q++ {
		if w.canRef(q) {
			ok = append(ok, q)
		}
	}
	if len(ok) > 0 {
		w.addTemp(ok, 100)
	}
}

// reuploadDuringPrune: a sector that lost its last reference long ago and is still on disk is
// uploaded again; a prune pass runs between that Write and the commit of the new reference.
func (w *c02World) reuploadDuringPrune() {
	var cand []int
	for r := 1; r <= c02Pool; r++ {
		if _, _, ok := w.locate(r); !ok {
			continue
		}
		if has, err := w.db.HasSector(c02RootsOf[r]); err == nil && !has {
			cand = append(cand, r)
		}
	}
	if len(cand) == 0 {
		return
	}
	r := cand[w.rng.Intn(len(cand))]
	w.age()
	if w.write(r, false) != nil {
		return
	}
	w.prune()
	w.sync()
	w.referenceSome()
	w.read(r, false)
	w.count("op:ReuploadDuringPrune")
}

// ---------------------------------------------------------------- cases

func (w *c02World) directed(id int) bool {
	switch id {
	case 0: // a second uploader is told "exists" while the first writer still holds the slot; the first then fails
		w.res.desc = "directed: exists-ack, then the first writer fails (no crash)"
		w.addVolume(4)
		h := w.startWrite(1)
		w.write(1, false) // "exists": nil
		w.sync()
		w.addTemp([]int{1}, 100)
		w.finishWrite(h, true)
		w.readAll()
	case 1: // the process dies between slot commit and data write; the sector is uploaded again afterwards
		w.res.desc = "directed: crash between slot commit and data write, re-upload is told exists"
		w.addVolume(4)
		h := w.startWrite(1)
		w.crash([]*c02Writer{h})
		w.write(1, false) // "exists": nil, nothing written
		w.sync()
		w.addTemp([]int{1}, 100)
		w.readAll()
	case 2: // crash after the write but before the sync: nothing was acknowledged, nothing is referenced
		w.res.desc = "directed: crash points around write / sync / reference"
		w.addVolume(4)
		w.write(1, false)
		w.crash(nil) // data of 1 gone, slot stays (unreferenced)
		w.write(2, false)
		w.sync()
		w.addTemp([]int{2}, 100)
		w.crash(nil)
		w.readAll()
		w.age()
		w.prune()
		w.write(1, false)
		w.sync()
		c := w.addContract()
		w.revise(c, []int{1})
		w.restart()
		w.readAll()
	case 3: // shrink and non-forced removal migrate referenced sectors; reads stay good
		w.res.desc = "directed: shrink / remove with migration"
		a := w.addVolume(4)
		for r := 1; r <= 4; r++ {
			w.write(r, false)
		}
		w.sync()
		w.addTemp([]int{1, 2, 3, 4}, 100)
		w.resize(a, 2) // nowhere to go: fails
		b := w.addVolume(3)
		w.resize(a, 2)
		w.readAll()
		w.removeVolume(a, false) // two more sectors, one free slot: fails
		w.resize(b, 6)
		w.removeVolume(a, false)
		w.readAll()
		w.crash(nil)
		w.readAll()
	case 4: // cache sizes
		w.res.desc = "directed: sector cache"
		w.addVolume(6)
		for r := 1; r <= 4; r++ {
			w.write(r, false)
		}
		w.sync()
		w.addTemp([]int{1, 2, 3, 4}, 100)
		w.readAll()
		w.readAll()
		w.resizeCache(1)
		w.readAll()
		w.resizeCache(0)
		w.readAll()
		w.resizeCache(3)
		w.readAll()
		w.read(2, true)
	case 5: // the permitted losses are counted
		w.res.desc = "directed: forced removal and RemoveSector are counted as lost"
		a := w.addVolume(3)
		for r := 1; r <= 3; r++ {
			w.write(r, false)
		}
		w.sync()
		w.addTemp([]int{1, 2, 3}, 100)
		w.removeSector(1)
		w.removeSector(5)
		w.readAll()
		w.removeVolume(a, true) // no other volume: both remaining sectors are lost
		w.readAll()
	case 6: // failing migration (read error, missing data) during removal
		w.res.desc = "directed: migration failures"
		a := w.addVolume(3)
		w.write(1, false)
		w.write(2, false)
		w.sync()
		w.addTemp([]int{1, 2}, 100)
		h := w.startWrite(3) // a slot without data
		w.addVolume(4)
		w.mu.Lock()
		w.failRead = 1
		w.mu.Unlock()
		w.removeVolume(a, false) // first read fails, the held slot is corrupt: migration failed
		w.finishWrite(h, false)
		w.sync()
		w.removeVolume(a, false)
		w.readAll()
	case 7: // a second ResizeVolume while the asynchronous part of the first is in progress (no timing involved)
		w.res.desc = "directed: ResizeVolume issued while an earlier resize of the volume is in progress"
		a := w.addVolume(2)
		w.write(1, false)
		w.write(2, false)
		w.sync()
		w.addTemp([]int{1, 2}, 100)
		g := w.armAsyncGate()
		res1 := make(chan error, 1)
		if err := w.vm.ResizeVolume(context.Background(), a, 4, res1); err != nil {
			w.fatalf("first resize refused: %v", err)
		}
		<-g.entered                      // the first resize sits in front of its GrowVolume call
		w.concurrentResize(a, 6, "grow") // refused on the code as it is; accepted = both run from a stale size
		close(g.release)
		if err := <-res1; err != nil {
			w.fatalf("first resize: %v", err)
		}
		w.waitReady(a)
		w.snapshot()
		w.resize(a, 6)
		for r := 3; r <= 6; r++ {
			w.write(r, false)
		}
		w.sync()
		w.addTemp([]int{3, 4, 5, 6}, 100)
		w.readAll()
	case 8: // re-upload of a dereferenced, not yet pruned sector while a prune pass runs
		w.res.desc = "directed: prune between a re-upload and its reference commit"
		w.addVolume(4)
		w.write(1, false)
		w.write(2, false)
		w.sync()
		w.addTemp([]int{1, 2}, 10)
		w.expireTemp(10)  // both unreferenced, still on disk
		w.age()           // ... for longer than a prune interval
		w.write(1, false) // "exists": the access time is what protects it now
		w.prune()         // takes 2, must spare 1
		w.sync()
		c := w.addContract()
		w.revise(c, []int{1})
		w.readAll()
		w.crash(nil)
		w.readAll()
	case 9: // an fsync error, the renter retries the upload, the host syncs again and commits; power loss
		w.res.desc = "directed: fsync error, retry, commit, crash"
		w.addVolume(4)
		w.write(1, false)
		w.write(2, false)
		if !w.syncFailing() {
			w.fatalf("the injected fsync error did not surface")
		}
		w.retryAfterFailedSync()
		w.referenceSome()
		w.crash(nil)
		w.readAll()
	case 10: // a second session's Sync while the first one's fsync is in flight
		w.res.desc = "directed: Sync concurrent with a stalled Sync"
		w.addVolume(4)
		w.write(1, false)
		w.write(2, false)
		w.stalledSyncs()
		w.referenceSome()
		w.crash(nil)
		w.readAll()
	case 11: // the slot a writer reserved is vacated (RemoveSector) and handed to another sector; the writer then fails
		w.res.desc = "directed: a failing writer's rollback after its slot was vacated and reused"
		w.addVolume(1)
		h := w.startWrite(1)
		w.removeSector(1) // vacates the only slot
		w.write(2, false) // ... which now holds sector 2
		w.sync()
		w.addTemp([]int{2}, 100)
		if h != nil {
			w.finishWrite(h, true) // the rollback must leave the slot's new tenant alone
		}
		w.readAll()
		w.crash(nil)
		w.readAll()
	case 12: // ... vacated by a migration instead (the volume is being emptied)
		w.res.desc = "directed: a failing writer's rollback after its slot was migrated away and reused"
		a := w.addVolume(1)
		h := w.startWrite(1)
		w.addVolume(1)
		w.resize(a, 0) // fails or migrates; either way the run is recorded
		w.write(2, false)
		w.sync()
		w.addTemp([]int{2}, 100)
		if h != nil {
			w.finishWrite(h, true)
		}
		w.readAll()
	case 13: // work package W: a migration moves a sector whose upload is in flight (possible only into a stale slot)
		w.res.desc = "directed: shrink migrates a sector whose re-upload into its stale slot is in flight; the vacated slot is reused; the writer then writes"
		a := w.addVolume(3)
		for r := 1; r <= 3; r++ {
			w.write(r, false)
		}
		w.sync()
		mid, others := 0, []int{}
		for r := 1; r <= 3; r++ {
			if _, idx, ok := w.locate(r); ok && idx == 1 {
				mid = r
			} else {
				others = append(others, r)
			}
		}
		if mid == 0 {
			w.fatalf("no sector at index 1")
		}
		w.addTemp(others, 100)
		w.age()
		w.prune()              // the unreferenced sector loses its slot, its bytes stay in the file
		h := w.startWrite(mid) // handed the only free slot: the one that still holds its bytes
		w.addVolume(1)
		w.resize(a, 1)    // migrateSector reads the stale bytes, the root matches: moved; the next sector has nowhere to go: the shrink fails
		w.write(4, false) // the vacated slot goes to sector 4
		w.sync()
		w.addTemp([]int{4}, 100)
		if _, _, ok := w.locate(mid); ok && h != nil {
			if va, ia, _ := w.locate(4); va == a && ia == 1 {
				w.migOverwritten = map[int]bool{4: true}
			}
		}
		if h != nil {
			w.finishWrite(h, false) // writes the first sector's bytes into the slot that now belongs to sector 4
		}
		w.readAll()
		w.sync()
		w.crash(nil)
		w.readAll()
	case 14: // a volume that is being resized or removed can not be claimed a second time
		w.res.desc = "directed: resize / removal issued while a resize (shrink) or a removal of the same volume is in progress"
		a := w.addVolume(4)
		for r := 1; r <= 3; r++ {
			w.write(r, false)
		}
		w.sync()
		w.addTemp([]int{1, 2, 3}, 100)
		w.addVolume(4)
		// (i) a shrink held in front of its MigrateSectors call
		g := w.armAsyncGate()
		res1 := make(chan error, 1)
		if err := w.vm.ResizeVolume(context.Background(), a, 2, res1); err != nil {
			w.fatalf("first resize refused: %v", err)
		}
		<-g.entered
		w.concurrentResize(a, 1, "shrink")
		w.concurrentResize(a, 8, "grow")
		w.concurrentRemove(a, "during a resize")
		close(g.release)
		<-res1
		w.waitReady(a)
		w.snapshot()
		w.readAll()
		// (ii) a removal held in front of its MigrateSectors call
		g = w.armAsyncGate()
		res2 := make(chan error, 1)
		if err := w.vm.RemoveVolume(context.Background(), a, false, res2); err != nil {
			w.fatalf("removal refused: %v", err)
		}
		<-g.entered
		w.concurrentRemove(a, "during a removal")
		w.concurrentResize(a, 8, "grow during a removal")
		close(g.release)
		<-res2
		w.waitReady(a)
		w.forgetUnlocated()
		w.snapshot()
		w.readAll()
		w.crash(nil)
		w.readAll()
	case 15: // C08: the read-only flag the operator set survives a shrink of that volume
		w.res.desc = "directed: operator sets a volume read-only, shrinks it, the other volume fills up: the next write must fail with not-enough-storage"
		a := w.addVolume(4)
		b := w.addVolume(2)
		w.setReadOnly(a, true)
		w.write(1, false) // goes to the other volume
		w.resize(a, 2)    // a shrink of a read-only volume must leave it read-only
		w.write(2, false) // the other volume is full now
		if err := w.write(3, false); err == nil {
			w.count("op:WriteOnFullHost:accepted")
		} else {
			w.count("op:WriteOnFullHost:" + c02Err(err))
		}
		w.sync()
		w.referenceSome()
		w.resize(b, 3)
		w.write(3, false)
		w.setReadOnly(a, false)
		w.write(4, false)
		w.sync()
		w.referenceSome()
		w.readAll()
	default:
		return false
	}
	return true
}

const c02Directed = 16

func (w *c02World) armAsyncGate() *c02Stall {
	g := &c02Stall{entered: make(chan struct{}), release: make(chan struct{})}
	w.mu.Lock()
	w.asyncGate = g
	w.mu.Unlock()
	return g
}

// concurrentResize issues ResizeVolume while another operation owns the volume: it must be refused.
func (w *c02World) concurrentResize(id int64, size uint64, what string) {
	res := make(chan error, 1)
	err := w.vm.ResizeVolume(context.Background(), id, size, res)
	w.count(fmt.Sprintf("op:ConcurrentResize:refused=%v", err != nil))
	if err == nil {
		w.staleSize = true
		w.monitor("second-resize-accepted-while-first-in-progress", fmt.Sprintf("ResizeVolume(%d, %d) (%s) accepted while the volume was claimed", id, size, what))
		go func() { <-res }()
	}
}

// concurrentRemove issues RemoveVolume while another operation owns the volume: it must be refused.
func (w *c02World) concurrentRemove(id int64, what string) {
	res := make(chan error, 1)
	err := w.vm.RemoveVolume(context.Background(), id, false, res)
	w.count(fmt.Sprintf("op:ConcurrentRemove:refused=%v", err != nil))
	if err == nil {
		w.monitor("second-removal-accepted-while-first-in-progress", fmt.Sprintf("RemoveVolume(%d) accepted %s", id, what))
		go func() { <-res }()
	}
}

func (w *c02World) volumeIDs() (ids []int64) {
	vols, err := w.db.Volumes()
	if err != nil {
		w.fatalf("volumes: %v", err)
	}
	for _, v := range vols {
		ids = append(ids, v.ID)
	}
	return
}

func (w *c02World) generated() {
	rng := w.rng
	w.res.desc = "generated trace"
	for i := 1 + rng.Intn(2); i > 0; i-- {
		w.addVolume(uint64(2 + rng.Intn(4)))
	}
	var held []*c02Writer
	heldRoot := func(r int) bool {
		for _, h := range held {
			if h.root == r {
				return true
			}
		}
		return false
	}
	steps := 14 + rng.Intn(22)
	for i := 0; i < steps; i++ {
		r := 1 + rng.Intn(c02Pool)
		switch x := rng.Intn(100); {
		case x < 18:
			w.write(r, rng.Intn(7) == 0)
		case x < 24:
			if len(held) < 2 && !heldRoot(r) {
				if h := w.startWrite(r); h != nil {
					held = append(held, h)
				}
			}
		case x < 33:
			if len(held) > 0 {
				k := rng.Intn(len(held))
				w.finishWrite(held[k], rng.Intn(3) == 0)
				held = append(held[:k], held[k+1:]...)
			}
		case x < 43:
			w.sync()
		case x < 59: // reference what may be referenced
			var ok []int
			for q := 1; q <= c02Pool; q++ {
				if w.canRef(q) {
					ok = append(ok, q)
				}
			}
			if len(ok) == 0 {
				continue
			}
			rng.Shuffle(len(ok), func(a, b int) { ok[a], ok[b] = ok[b], ok[a] })
			ok = ok[:1+rng.Intn(len(ok))]
			if rng.Intn(2) == 0 {
				w.addTemp(ok, uint64(10+rng.Intn(3)))
			} else {
				if len(w.cons) == 0 || (len(w.cons) < 2 && rng.Intn(3) == 0) {
					w.addContract()
				}
				c := w.cons[rng.Intn(len(w.cons))]
				cur, _ := w.db.V2SectorRoots()
				var nr []int
				for _, h := range cur[c.id] {
					nr = append(nr, c02RootNumbers[h])
				}
				if len(nr) > 0 && rng.Intn(4) == 0 {
					nr = nr[:rng.Intn(len(nr))]
				}
				w.revise(c, append(nr, ok...))
			}
		case x < 67:
			w.read(r, rng.Intn(12) == 0)
		case x < 70:
			w.readAll()
		case x < 74:
			if len(held) == 0 {
				w.expireTemp(uint64(9 + rng.Intn(4)))
				if rng.Intn(2) == 0 {
					w.age()
				}
				w.prune()
			}
		case x < 77:
			if ids := w.volumeIDs(); len(held) == 0 && len(ids) > 0 && rng.Intn(2) == 0 {
				w.setReadOnly(ids[rng.Intn(len(ids))], rng.Intn(3) != 0)
			} else {
				w.resizeCache(rng.Intn(4))
			}
		case x < 81:
			if len(held) == 0 {
				ids := w.volumeIDs()
				if len(ids) > 0 {
					id := ids[rng.Intn(len(ids))]
					v, _ := w.db.Volume(id)
					n := uint64(1 + rng.Intn(6))
					if n != v.TotalSectors {
						if rng.Intn(5) == 0 {
							w.mu.Lock()
							w.failRead = 1 + rng.Intn(2)
							w.mu.Unlock()
						}
						w.resize(id, n)
						w.mu.Lock()
						w.failRead = 0
						w.mu.Unlock()
					}
				}
			}
		case x < 84:
			if ids := w.volumeIDs(); len(held) == 0 && len(ids) > 1 {
				w.removeVolume(ids[rng.Intn(len(ids))], rng.Intn(4) == 0)
			}
		case x < 86:
			if len(held) == 0 {
				w.removeSector(r)
			}
		case x < 88:
			if len(w.volumeIDs()) < 3 {
				w.addVolume(uint64(2 + rng.Intn(3)))
			}
		case x < 90:
			w.crash(held)
			held = nil
		case x < 91:
			if len(held) == 0 {
				w.restart()
			}
		case x < 93:
			if len(held) == 0 {
				w.age()
			}
		case x < 96: // an unreferenced sector that is still on disk is uploaded again while a prune pass runs
			if len(held) == 0 {
				w.reuploadDuringPrune()
			}
		case x < 98: // an fsync error, the renter retries, commits; sometimes the power goes right after
			if w.syncFailing() {
				w.retryAfterFailedSync()
				w.referenceSome()
				if rng.Intn(2) == 0 {
					w.crash(held)
					held = nil
					w.readAll()
				}
			}
		default:
			if len(held) == 0 {
				w.stalledSyncs()
			}
		}
	}
	for _, h := range held {
		w.finishWrite(h, false)
	}
	w.readAll()
	if rng.Intn(2) == 0 {
		w.crash(nil)
		w.readAll()
	}
}

func c02RunCase(id int, base string) (res *c02Result) {
	res = &c02Result{id: id}
	defer func() {
		if r := recover(); r != nil {
			res.fatal = fmt.Sprint(r)
		}
	}()
	rng := verifCaseRand(id)
	res.cacheSize = []int{0, 0, 1, 2, 4}[rng.Intn(5)]
	if id == 4 {
		res.cacheSize = 2
	}
	if id == 13 { // the overwritten sector must be read from the file
		res.cacheSize = 0
	}
	initial := res.cacheSize
	dir := filepath.Join(base, fmt.Sprintf("c02_%d", id))
	if err := os.MkdirAll(dir, 0o755); err != nil {
		res.fatal = err.Error()
		return
	}
	defer os.RemoveAll(dir)
	w := &c02World{res: res, rng: rng, dir: dir, committed: map[int]bool{}, excused: map[int]bool{},
		holeCrash: map[int]bool{}, holeFailed: map[int]bool{}, viaHole: map[int]bool{}, viaHeld: map[int]bool{}}
	w.clearSession()
	w.open()
	defer func() {
		w.st.dead = true
		w.vm.Close()
		w.raw.Close() // one connection (3 descriptors) per case otherwise: the thorough tier ran out of them
		w.db.Close()
		res.cacheSize = initial
	}()
	if !w.directed(id) {
		w.generated()
	}
	res.nontriv = len(w.committed) > 0
	return
}

func TestVerifC02(t *testing.T) {
	c02InitPool()
	em := newVerifEmitter(t, "From HostdBase Require Import Base.\nFrom HostdStorage Require Import Model DataModel.\nOpen Scope N_scope.", "dcase", "dcheck")
	defer em.Close()

	n := verifN(60) + c02Directed
	base, err := os.MkdirTemp("", "verif-c02-")
	if err != nil {
		t.Fatal(err)
	}
	defer os.RemoveAll(base)

	var ids []int
	for id := 0; id < n; id++ {
		if !em.Skip(id) {
			ids = append(ids, id)
		}
	}
	results := make([]*c02Result, len(ids))
	var wg sync.WaitGroup
	sem := make(chan struct{}, 10)
	for i, id := range ids {
		wg.Add(1)
		sem <- struct{}{}
		go func(i, id int) {
			defer wg.Done()
			defer func() { <-sem }()
			results[i] = c02RunCase(id, base)
		}(i, id)
	}
	wg.Wait()
	sort.Slice(results, func(i, j int) bool { return results[i].id < results[j].id })
	for _, r := range results {
		if r.fatal != "" {
			t.Fatalf("case %d: %s", r.id, r.fatal)
		}
		for _, k := range r.counts {
			em.Count(k)
		}
		em.BeginCase(r.id, r.desc)
		for _, m := range r.monitors {
			em.Monitor(m[0], m[1])
		}
		em.FunCase(r.id, fmt.Sprint(r.cacheSize), "["+strings.Join(r.steps, ";\n   ")+"]", r.nontriv)
	}
}
