//go:build verif

package storage_test

// C02, work package W — the status claim of a volume: sequences of real (*volume).SetStatus calls
// against coq/Storage/StatusModel.v (set_status false).  Cases 0..24 are the 25 (current, new)
// pairs, the rest random sequences.  Monitor: a claim (resizing / removing) must be refused on a
// volume that is already claimed or being created.

import (
	"fmt"
	"strings"
	"testing"

	"go.sia.tech/hostd/v2/host/storage"
)

var c02Statuses = []string{storage.VolumeStatusUnavailable, storage.VolumeStatusCreating, storage.VolumeStatusResizing, storage.VolumeStatusRemoving, storage.VolumeStatusReady}

func c02StatusTerm(s string) string {
	switch s {
	case storage.VolumeStatusUnavailable:
		return "VUnavailable"
	case storage.VolumeStatusCreating:
		return "VCreating"
	case storage.VolumeStatusResizing:
		return "VResizing"
	case storage.VolumeStatusRemoving:
		return "VRemoving"
	case storage.VolumeStatusReady:
		return "VReady"
	}
	return "VBad_" + s
}

func TestVerifC02Status(t *testing.T) {
	em := newVerifEmitter(t, "From HostdBase Require Import Base.\nFrom HostdStorage Require Import StatusModel.", "scase", "scheck")
	defer em.Close()
	n := verifN(100) + 25
	for id := 0; id < n; id++ {
		if em.Skip(id) {
			continue
		}
		rng := verifCaseRand(id)
		var initial string
		var calls []string
		if id < 25 {
			initial, calls = c02Statuses[id/5], []string{c02Statuses[id%5]}
		} else {
			initial = c02Statuses[rng.Intn(5)]
			for k := 3 + rng.Intn(10); k > 0; k-- {
				if rng.Intn(3) == 0 { // claims are what matters
					calls = append(calls, c02Statuses[2+rng.Intn(2)])
				} else {
					calls = append(calls, c02Statuses[rng.Intn(5)])
				}
			}
		}
		out := storage.VerifSetStatusSeq(initial, calls)
		em.BeginCase(id, fmt.Sprintf("SetStatus sequence from %s: %v", initial, calls))
		cur := initial
		var terms []string
		for i, c := range calls {
			after, res := out[i][0], out[i][1]
			claimed := cur == storage.VolumeStatusResizing || cur == storage.VolumeStatusRemoving || cur == storage.VolumeStatusCreating
			if (c == storage.VolumeStatusResizing || c == storage.VolumeStatusRemoving) && claimed && res == "ok" {
				em.Monitor("claim-accepted-on-claimed-volume", fmt.Sprintf("SetStatus(%s) on a volume that is %s returned nil", c, cur))
			}
			em.Count("setstatus:" + cur + "->" + c + ":" + res)
			r := map[string]string{"ok": "SOk", "err": "SErr", "panic": "SPanic"}[res]
			terms = append(terms, fmt.Sprintf("(%s, (%s, %s))", c02StatusTerm(c), c02StatusTerm(after), r))
			cur = after
		}
		em.FunCase(id, c02StatusTerm(initial), "["+strings.Join(terms, "; ")+"]", true)
	}
}
