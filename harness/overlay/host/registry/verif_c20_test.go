//go:build verif

package registry_test

import (
	"bytes"
	"database/sql"
	"errors"
	"encoding/binary"
	"encoding/hex"
	"fmt"
	"path/filepath"
	"sync/atomic"
	"testing"
	"time"

	rhp3 "go.sia.tech/core/rhp/v3"
	"go.sia.tech/core/types"
	"go.sia.tech/hostd/v2/host/registry"
	"go.sia.tech/hostd/v2/host/settings"
	"go.sia.tech/hostd/v2/index"
	"go.sia.tech/hostd/v2/persist/sqlite"
	"go.uber.org/zap"
)

// parkStore lets the harness hold a Put between its read of the stored entry and what
// follows, so that a second Put can be raced against it (schedule exploration at the
// granularity of the manager's store calls).
//
// It also injects one-shot faults into the manager's store calls (an error that is neither
// ErrEntryNotFound nor ErrNotEnoughSpace, as the sqlite store returns when it gives up on a busy
// database), and notes flushes of the access recorder that the harness did not ask for.
type parkStore struct {
	*sqlite.Store
	armed   atomic.Bool
	parked  chan struct{}
	release chan struct{}

	failGet, failSet, failEntries, failAccess atomic.Bool
	expectFlush                               atomic.Bool
	timerFlushes                              atomic.Int32
}

var errVerifInjected = errors.New("transaction failed (attempt 10): database is locked (injected)")

func (p *parkStore) SetRegistryValue(entry rhp3.RegistryEntry, expiration uint64) error {
	if p.failSet.CompareAndSwap(true, false) {
		return errVerifInjected
	}
	return p.Store.SetRegistryValue(entry, expiration)
}

func (p *parkStore) RegistryEntries() (uint64, uint64, error) {
	if p.failEntries.CompareAndSwap(true, false) {
		return 0, 0, errVerifInjected
	}
	return p.Store.RegistryEntries()
}

func (p *parkStore) IncrementRegistryAccess(read, write uint64) error {
	if !p.expectFlush.Load() {
		p.timerFlushes.Add(1) // the recorder's 10 s timer fired inside a case
	}
	if p.failAccess.CompareAndSwap(true, false) {
		return errVerifInjected
	}
	return p.Store.IncrementRegistryAccess(read, write)
}

func (p *parkStore) GetRegistryValue(key rhp3.RegistryKey) (rhp3.RegistryValue, error) {
	if p.failGet.CompareAndSwap(true, false) {
		return rhp3.RegistryValue{}, errVerifInjected
	}
	v, err := p.Store.GetRegistryValue(key)
	if p.armed.CompareAndSwap(true, false) {
		p.parked <- struct{}{}
		<-p.release
	}
	return v, err
}

// TestVerifC20 drives the real registry.Manager over a real sqlite.Store with generated
// Put/Get/limit-change histories and records what it did for the Coq model (Registry/Model.v).
func TestVerifC20(t *testing.T) {
	em := newVerifEmitter(t, "From HostdBase Require Import Base.\nFrom HostdRegistry Require Import Model.", "case", "check")
	defer em.Close()

	hostKey := types.NewPrivateKeyFromSeed(make([]byte, 32))
	hostID := rhp3.RegistryHostID(hostKey.PublicKey())
	renters := []types.PrivateKey{
		types.NewPrivateKeyFromSeed(bytes.Repeat([]byte{1}, 32)),
		types.NewPrivateKeyFromSeed(bytes.Repeat([]byte{2}, 32)),
	}
	tweaks := []types.Hash256{{1}, {2}}

	n := verifN(150)
	// thorough tier: after the generated cases, every sequence of <= enumLen ops over the
	// alphabet {Put(k in 0..1, rev in 0..2), SetLimit 0..2} (small-scope exhaustive search)
	enumLen := verifEnvInt("VERIF_C20_ENUM", 0)
	const alpha = 10
	const directed = 5 // ids 0..4
	enumTotal := 0
	for l, p := 1, alpha; l <= enumLen; l, p = l+1, p*alpha {
		enumTotal += p
	}
	for id := 0; id < n+directed+enumTotal; id++ {
		if em.Skip(id) {
			continue
		}
		rng := verifCaseRand(id)
		log := zap.NewNop()
		dbPath := filepath.Join(t.TempDir(), fmt.Sprintf("c20_%d.db", id))
		db, err := sqlite.OpenDatabase(dbPath, log)
		if err != nil {
			t.Fatal(err)
		}
		// the harness's own connection: the expiration_height column has no accessor
		raw, err := sql.Open("sqlite3", "file:"+dbPath+"?_busy_timeout=5000&_journal_mode=WAL")
		if err != nil {
			t.Fatal(err)
		}
		ps := &parkStore{Store: db, parked: make(chan struct{}), release: make(chan struct{})}
		reg := registry.NewManager(hostKey, ps, log) // replaced by flush()

		vids := map[string]uint64{}
		vidOf := func(v rhp3.RegistryValue) string {
			if v.Revision == 0 && v.Type == 0 && len(v.Data) == 0 && v.Signature == (types.Signature{}) {
				return "None"
			}
			k := hex.EncodeToString(v.Data) + "/" + hex.EncodeToString(v.Signature[:])
			if _, ok := vids[k]; !ok {
				vids[k] = uint64(len(vids) + 1)
			}
			return fmt.Sprintf("(Some {| rev := %d; ety := %d; vid := %d |})", v.Revision, v.Type, vids[k])
		}
		entryOf := func(v rhp3.RegistryValue) string {
			s := vidOf(v)
			if s == "None" { // a zero value used as an entry still needs an id
				return "{| rev := 0; ety := 0; vid := 0 |}"
			}
			return s[len("(Some ") : len(s)-1]
		}

		em.BeginCase(id, "registry history")
		shadow := map[int]string{} // reference spec: last accepted entry per key
		shadowExp := map[int]uint64{} // and the expiration height passed with it
		lowered := false
		curLimit := uint64(0)
		flushed := false             // the access recorder has been flushed in this case
		var accR, accW, perR, perW int64 // reference: pending and persisted access counts

		setLimit := func(l uint64) {
			cnt, _, _ := reg.Entries()
			if l < cnt {
				lowered = true
			}
			if err := db.UpdateSettings(settings.Settings{MaxRegistryEntries: l}); err != nil {
				t.Fatal(err)
			}
			curLimit = l
			em.Step(fmt.Sprintf("SetLimit %d", l), "ODone")
			em.Count("op:SetLimit")
		}
		info := func() {
			cnt, lim, err := reg.Entries()
			if err != nil {
				t.Fatal(err)
			}
			m, err := db.Metrics(time.Now().Add(time.Hour))
			if err != nil {
				t.Fatal(err)
			}
			em.Step("Info", fmt.Sprintf("OInfo %d %d %d", cnt, lim, m.Registry.Entries))
			if lim != curLimit {
				em.Monitor("limit-not-applied", fmt.Sprintf("limit %d, set %d", lim, curLimit))
			}
			if cnt > lim {
				if lowered {
					em.Monitor("count-exceeds-limit-after-limit-lowered", fmt.Sprintf("count %d > limit %d", cnt, lim))
				} else {
					em.Monitor("count-exceeds-limit", fmt.Sprintf("count %d > limit %d", cnt, lim))
				}
			}
			if cnt != m.Registry.Entries {
				if flushed {
					em.Monitor("metric-differs-from-count-after-flush", fmt.Sprintf("count %d, registry-entries metric %d after the access recorder was flushed", cnt, m.Registry.Entries))
				} else {
					em.Monitor("count-differs-from-metric", fmt.Sprintf("count %d metric %d", cnt, m.Registry.Entries))
				}
			}
			if int(cnt) != len(shadow) {
				em.Monitor("count-differs-from-accepted-keys", fmt.Sprintf("count %d accepted keys %d", cnt, len(shadow)))
			}
		}
		keyOf := func(k int) rhp3.RegistryKey {
			return rhp3.RegistryKey{PublicKey: renters[k/2].PublicKey(), Tweak: tweaks[k%2]}
		}
		// the stored expiration_height of key k (8-byte little-endian blob)
		expOf := func(k int) {
			kh := keyOf(k)
			h := kh.Hash()
			var blob []byte
			err := raw.QueryRow(`SELECT expiration_height FROM registry_entries WHERE registry_key=$1`, h[:]).Scan(&blob)
			got, have := uint64(0), false
			if err == nil && len(blob) == 8 {
				got, have = binary.LittleEndian.Uint64(blob), true
			} else if err != sql.ErrNoRows {
				t.Fatalf("expiration_height of key %d: %v (%d bytes)", k, err, len(blob))
			}
			obs := "OExp None"
			if have {
				obs = fmt.Sprintf("OExp (Some %d%%N)", got)
			}
			em.Step(fmt.Sprintf("Exp %d", k), obs)
			want, ok := shadowExp[k]
			if ok != have || want != got {
				em.Monitor("expiration-height-differs-from-last-accepted", fmt.Sprintf("key %d stored %d (%v) want %d (%v)", k, got, have, want, ok))
			}
		}
		get := func(k int) rhp3.RegistryValue {
			v, err := reg.Get(keyOf(k))
			obs := "OGet None"
			got := "None"
			if err == nil {
				accR++
				got = vidOf(v)
				obs = "OGet " + got
			}
			em.Step(fmt.Sprintf("Get %d", k), obs)
			want, ok := shadow[k]
			if !ok {
				want = "None"
			}
			if got != want {
				em.Monitor("read-differs-from-last-accepted", fmt.Sprintf("key %d got %s want %s", k, got, want))
			}
			return v
		}
		var putWith func(k int, fault string)
		put := func(k int) { putWith(k, "") }
		putWith = func(k int, fault string) {
			key := keyOf(k)
			e := rhp3.RegistryEntry{RegistryKey: key}
			e.Revision = uint64(rng.Intn(4))
			kind := rng.Intn(10)
			switch {
			case kind < 5:
				e.Type = rhp3.EntryTypeArbitrary
				e.Data = []byte{byte(rng.Intn(3))}
			case kind < 7: // primary pubkey entry
				e.Type = rhp3.EntryTypePubKey
				e.Data = append(append([]byte{}, hostID[:20]...), byte(rng.Intn(2)))
			case kind < 8: // secondary pubkey entry
				e.Type = rhp3.EntryTypePubKey
				e.Data = append(bytes.Repeat([]byte{9}, 20), byte(rng.Intn(2)))
			case kind < 9: // too short / oversized
				if rng.Intn(2) == 0 {
					e.Type = rhp3.EntryTypePubKey
					e.Data = []byte{1, 2, 3}
				} else {
					e.Type = rhp3.EntryTypeArbitrary
					e.Data = bytes.Repeat([]byte{7}, rhp3.MaxValueDataSize+1+rng.Intn(3))
				}
			default:
				e.Type = uint8(3 + rng.Intn(3)) // unknown type
				e.Data = []byte{1}
			}
			e.Signature = renters[k/2].SignHash(e.Hash())
			if rng.Intn(8) == 0 {
				e.Signature[3] ^= 0xff // forged
				em.Count("put:bad-signature")
			}
			valid := rhp3.ValidateRegistryEntry(e) == nil
			// core's ordering verdict against what the host currently stores
			tie := false
			old, gerr := db.GetRegistryValue(key) // not through the manager: its Get counts as an access
			hasOld := gerr == nil
			if hasOld && valid {
				tie = rhp3.ValidateRegistryUpdate(rhp3.RegistryEntry{RegistryKey: key, RegistryValue: old}, e, hostID) == nil
			}
			cntBefore, limBefore, _ := reg.Entries()
			exp := uint64(90 + rng.Intn(40)) // expiration heights around the tips of `tip` below
			if rng.Intn(16) == 0 {
				exp = []uint64{0, 1<<63 - 1, 1 << 63, ^uint64(0)}[rng.Intn(4)]
			}
			if fault != "" {
				// the manager's lookup of the stored entry (or its write) fails once
				if fault == "lookup" {
					ps.failGet.Store(true)
				} else {
					ps.failSet.Store(true)
				}
				ret, err := reg.Put(e, exp)
				ps.failGet.Store(false)
				ps.failSet.Store(false)
				f := map[string]string{"lookup": "FLookup", "write": "FWrite"}[fault]
				em.Step(fmt.Sprintf("PutF %d %s %s %s", k, entryOf(e.RegistryValue), coqBool(valid), f),
					fmt.Sprintf("OPut %s %s", coqBool(err == nil), vidOf(ret)))
				em.Count(fmt.Sprintf("putfault:%s,valid=%v,stored=%v,accepted=%v", fault, valid, hasOld, err == nil))
				if err == nil {
					em.Monitor("update-accepted-although-"+fault+"-failed", fmt.Sprintf("key %d: Put returned nil although the store's %s failed (stored: %v)", k, fault, hasOld))
					if hasOld && !tie {
						em.Monitor("accepted-non-superseding-update", fmt.Sprintf("key %d old rev %d new rev %d (the lookup of the stored entry failed)", k, old.Revision, e.Revision))
					}
				}
				return
			}
			ret, err := reg.Put(e, exp)
			if err == nil && hasOld {
				accW++
			}
			if err == nil && !hasOld && cntBefore >= limBefore {
				em.Monitor("insert-accepted-without-room", fmt.Sprintf("new key %d accepted with count %d >= limit %d", k, cntBefore, limBefore))
			}
			em.Step(fmt.Sprintf("Put %d %s %d %s %s", k, entryOf(e.RegistryValue), exp, coqBool(valid), coqBool(tie)),
				fmt.Sprintf("OPut %s %s", coqBool(err == nil), vidOf(ret)))
			em.Count("op:Put")
			em.Count(fmt.Sprintf("put:valid=%v,stored=%v,accepted=%v", valid, hasOld, err == nil))
			// property monitors
			if err == nil {
				if !valid {
					em.Monitor("accepted-invalid-entry", fmt.Sprintf("key %d", k))
				}
				if hasOld && !tie {
					em.Monitor("accepted-non-superseding-update", fmt.Sprintf("key %d old rev %d new rev %d", k, old.Revision, e.Revision))
				}
				shadow[k] = vidOf(e.RegistryValue)
				shadowExp[k] = exp
			} else if hasOld && valid && vidOf(ret) != vidOf(old) {
				em.Monitor("rejected-update-did-not-return-stored-entry", fmt.Sprintf("key %d", k))
			}
		}

		// access: host_stats registryReads / registryWrites against the reference counts.  Skipped once
		// the recorder's own 10 s timer has fired inside the case (an unrecorded flush).
		access := func() {
			if ps.timerFlushes.Load() > 0 {
				em.Count("access:skipped-timer-flush")
				return
			}
			m, err := db.Metrics(time.Now().Add(time.Hour))
			if err != nil {
				t.Fatal(err)
			}
			em.Step("Access", fmt.Sprintf("OAccess %d %d", m.Registry.Reads, m.Registry.Writes))
			if int64(m.Registry.Reads) != perR || int64(m.Registry.Writes) != perW {
				em.Monitor("access-metrics-differ-from-flushed-accesses", fmt.Sprintf("reads %d writes %d, flushed %d / %d", m.Registry.Reads, m.Registry.Writes, perR, perW))
			}
		}
		// flush: Manager.Close flushes the access recorder; a new manager takes over the same store
		flush := func(ok bool) {
			if !ok {
				ps.failAccess.Store(true)
			}
			ps.expectFlush.Store(true)
			func() {
				defer func() {
					if r := recover(); r != nil {
						em.Monitor("registry-close-panics", fmt.Sprint(r))
					}
				}()
				reg.Close()
			}()
			ps.expectFlush.Store(false)
			ps.failAccess.Store(false)
			reg = registry.NewManager(hostKey, ps, log)
			if ok {
				perR, perW = perR+accR, perW+accW
			}
			accR, accW = 0, 0
			flushed = true
			em.Step("Flush "+coqBool(ok), "ODone")
			em.Count(fmt.Sprintf("op:Flush,ok=%v", ok))
			access()
		}
		getFault := func(k int) {
			ps.failGet.Store(true)
			v, err := reg.Get(keyOf(k))
			ps.failGet.Store(false)
			obs := "OGet None"
			if err == nil {
				obs = "OGet " + vidOf(v)
				em.Monitor("read-succeeded-although-lookup-failed", fmt.Sprintf("key %d", k))
			}
			em.Step(fmt.Sprintf("GetF %d", k), obs)
			em.Count("op:GetF")
		}
		infoFault := func() {
			ps.failEntries.Store(true)
			_, _, err := reg.Entries()
			ps.failEntries.Store(false)
			obs := "OFail"
			if err == nil {
				obs = "ODone"
				em.Monitor("entries-succeeded-although-count-read-failed", "")
			}
			em.Step("InfoF", obs)
			em.Count("op:InfoF")
		}

		// race: two Puts on one key, the first held right after it read the stored entry.
		// Whatever the interleaving, the outcome must be that of one of the two orders;
		// the steps are recorded in the order in which the Puts took effect.
		race := func(k int) {
			key := keyOf(k)
			mk := func(rev uint64, d byte) rhp3.RegistryEntry {
				e := rhp3.RegistryEntry{RegistryKey: key, RegistryValue: rhp3.RegistryValue{Revision: rev, Type: rhp3.EntryTypeArbitrary, Data: []byte{d, 0xee}}}
				e.Signature = renters[k/2].SignHash(e.Hash())
				return e
			}
			ea, eb := mk(uint64(rng.Intn(4)), 1), mk(uint64(rng.Intn(4)), 2)
			pre, perr := db.GetRegistryValue(key)
			hasPre := perr == nil
			type result struct {
				ret rhp3.RegistryValue
				err error
			}
			ra, rb := make(chan result, 1), make(chan result, 1)
			ps.armed.Store(true)
			go func() { v, err := reg.Put(ea, 100); ra <- result{v, err} }()
			<-ps.parked
			go func() { v, err := reg.Put(eb, 100); rb <- result{v, err} }()
			var resA, resB result
			first, second := ea, eb
			select {
			case resB = <-rb: // B overtook the parked A
				first, second = eb, ea
				ps.release <- struct{}{}
				resA = <-ra
				em.Count("race:second-put-overtook")
			case <-time.After(60 * time.Millisecond): // B waits for A: Put is atomic
				ps.release <- struct{}{}
				resA = <-ra
				resB = <-rb
				em.Count("race:second-put-waited")
			}
			res1, res2 := resA, resB
			if first.Data[0] == 2 {
				res1, res2 = resB, resA
			}
			stored, has := pre, hasPre
			for i, e := range []rhp3.RegistryEntry{first, second} {
				r := res1
				if i == 1 {
					r = res2
				}
				tie := false
				if has {
					tie = rhp3.ValidateRegistryUpdate(rhp3.RegistryEntry{RegistryKey: key, RegistryValue: stored}, e, hostID) == nil
				}
				em.Step(fmt.Sprintf("Put %d %s 100 true %s", k, entryOf(e.RegistryValue), coqBool(tie)),
					fmt.Sprintf("OPut %s %s", coqBool(r.err == nil), vidOf(r.ret)))
				if r.err == nil {
					if has {
						accW++
					}
					if has && !tie {
						em.Monitor("accepted-non-superseding-update", fmt.Sprintf("racing puts on key %d: stored rev %d, accepted rev %d", k, stored.Revision, e.Revision))
					}
					stored, has = e.RegistryValue, true
					shadow[k] = vidOf(e.RegistryValue)
					shadowExp[k] = 100
				}
			}
			em.Count("op:RacePut")
		}

		// the store's processed chain tip moves (below, at and beyond the entries' expiration heights):
		// no entry is dropped, hidden or uncounted by that
		tip := func(h uint64) {
			err := db.UpdateChainState(func(tx index.UpdateTx) error {
				return tx.SetLastIndex(types.ChainIndex{Height: h, ID: types.BlockID{byte(h), 1}})
			})
			if err != nil {
				t.Fatal(err)
			}
			em.Step(fmt.Sprintf("Tip %d", h), "ODone")
			em.Count("op:Tip")
		}

		dput := func(k int, rev uint64, d byte, exp uint64) {
			e := rhp3.RegistryEntry{RegistryKey: keyOf(k), RegistryValue: rhp3.RegistryValue{Revision: rev, Type: rhp3.EntryTypeArbitrary, Data: []byte{d}}}
			e.Signature = renters[k/2].SignHash(e.Hash())
			tie := false
			old, gerr := db.GetRegistryValue(e.RegistryKey)
			if gerr == nil {
				tie = rhp3.ValidateRegistryUpdate(rhp3.RegistryEntry{RegistryKey: e.RegistryKey, RegistryValue: old}, e, hostID) == nil
			}
			ret, err := reg.Put(e, exp)
			em.Step(fmt.Sprintf("Put %d %s %d true %s", k, entryOf(e.RegistryValue), exp, coqBool(tie)), fmt.Sprintf("OPut %s %s", coqBool(err == nil), vidOf(ret)))
			if err == nil && gerr == nil {
				accW++
			}
			if err == nil {
				shadow[k] = vidOf(e.RegistryValue)
				shadowExp[k] = exp
			}
		}
		all := func() {
			for k := 0; k < 4; k++ {
				get(k)
				expOf(k)
			}
			info()
		}
		// a directed Put during which the store's lookup or write fails once
		dputF := func(k int, rev uint64, d byte, fault string) {
			e := rhp3.RegistryEntry{RegistryKey: keyOf(k), RegistryValue: rhp3.RegistryValue{Revision: rev, Type: rhp3.EntryTypeArbitrary, Data: []byte{d}}}
			e.Signature = renters[k/2].SignHash(e.Hash())
			old, gerr := db.GetRegistryValue(e.RegistryKey)
			if fault == "lookup" {
				ps.failGet.Store(true)
			} else {
				ps.failSet.Store(true)
			}
			ret, err := reg.Put(e, 100)
			ps.failGet.Store(false)
			ps.failSet.Store(false)
			f := map[string]string{"lookup": "FLookup", "write": "FWrite"}[fault]
			em.Step(fmt.Sprintf("PutF %d %s true %s", k, entryOf(e.RegistryValue), f), fmt.Sprintf("OPut %s %s", coqBool(err == nil), vidOf(ret)))
			if err == nil {
				em.Monitor("update-accepted-although-"+fault+"-failed", fmt.Sprintf("key %d: Put returned nil although the store's %s failed (stored: %v)", k, fault, gerr == nil))
				if gerr == nil && rhp3.ValidateRegistryUpdate(rhp3.RegistryEntry{RegistryKey: e.RegistryKey, RegistryValue: old}, e, hostID) != nil {
					em.Monitor("accepted-non-superseding-update", fmt.Sprintf("key %d old rev %d new rev %d (the lookup of the stored entry failed)", k, old.Revision, e.Revision))
				}
			}
		}
		if id == 0 {
			// directed corpus case: the capacity witness of c20_capacity_refuted
			setLimit(2)
			for k := 0; k < 2; k++ {
				e := rhp3.RegistryEntry{RegistryKey: keyOf(k), RegistryValue: rhp3.RegistryValue{Revision: 1, Type: rhp3.EntryTypeArbitrary, Data: []byte{1}}}
				e.Signature = renters[k/2].SignHash(e.Hash())
				ret, err := reg.Put(e, 100)
				em.Step(fmt.Sprintf("Put %d %s 100 true false", k, entryOf(e.RegistryValue)), fmt.Sprintf("OPut %s %s", coqBool(err == nil), vidOf(ret)))
				if err == nil {
					shadow[k] = vidOf(e.RegistryValue)
					shadowExp[k] = 100
				}
			}
			setLimit(1)
			info()
		} else if id == 1 || id == 2 {
			// directed: the tip beyond every expiration height.  Nothing is dropped, hidden or
			// uncounted; a superseding update whose own expiration height is already below the
			// tip is accepted; a full registry stays full although every entry is past its height.
			setLimit(3)
			dput(0, 1, 1, 100)
			dput(1, 1, 2, 110)
			dput(2, 1, 3, 120)
			all()
			heights := []uint64{121, 1 << 40}
			if id == 2 {
				heights = []uint64{100, 119, 120, 52560 + 200, 1<<63 - 1}
			}
			for _, h := range heights {
				tip(h)
				all()
				dput(3, 1, 9, h+10) // no room although every stored entry is past its height
				dput(0, 0, 7, h+10) // stale
				all()
			}
			dput(0, 2, 8, 50) // accepted with an expiration height that has long passed
			all()
			if id == 2 {
				tip(0) // the tip moves back (reorg to a shorter chain index)
				all()
			}
		} else if id == 3 {
			// directed: the lookup of the stored entry fails while a stale, an equal and a newer update
			// arrive (seeded C20-mut9: a failed lookup is not "key not stored"); the write fails; the
			// count/limit read fails.  Nothing changes, reads return the last accepted update.
			setLimit(2)
			dput(0, 5, 1, 100)
			dputF(0, 3, 2, "lookup")
			all()
			dputF(0, 5, 1, "lookup")
			dputF(0, 7, 3, "lookup")
			all()
			dputF(0, 8, 4, "write")
			dputF(1, 1, 5, "write")
			dputF(1, 1, 5, "lookup")
			all()
			getFault(0)
			getFault(2)
			infoFault()
			all()
			dput(0, 6, 6, 100)
			dput(1, 1, 7, 100)
			all()
		} else if id == 4 {
			// directed: updates of a stored key, reads, then the access recorder is flushed (seeded
			// C20-mut10: the flush must not touch the registry-entries metric); a failing flush loses
			// the pending counts and nothing else
			setLimit(2)
			dput(0, 1, 1, 100)
			dput(0, 2, 2, 100)
			dput(0, 3, 3, 100)
			get(0)
			info()
			flush(true)
			info()
			dput(1, 1, 4, 100)
			dput(0, 4, 5, 100)
			get(1)
			flush(false)
			info()
			dput(0, 5, 6, 100)
			dput(0, 5, 6, 100)
			get(0)
			get(3)
			flush(true)
			all()
		} else if id >= n+directed {
			// decode id-n-directed into a sequence over the alphabet
			e := id - n - directed
			l, p := 1, alpha
			for e >= p {
				e -= p
				l++
				p *= alpha
			}
			em.Count(fmt.Sprintf("enum:len=%d", l))
			for i := 0; i < l; i++ {
				a := e % alpha
				e /= alpha
				if a < 6 {
					k, rev := a/3, uint64(a%3)
					ent := rhp3.RegistryEntry{RegistryKey: keyOf(k), RegistryValue: rhp3.RegistryValue{Revision: rev, Type: rhp3.EntryTypeArbitrary, Data: []byte{byte(i)}}}
					ent.Signature = renters[k/2].SignHash(ent.Hash())
					tie := false
					old, gerr := db.GetRegistryValue(ent.RegistryKey)
					if gerr == nil {
						tie = rhp3.ValidateRegistryUpdate(rhp3.RegistryEntry{RegistryKey: ent.RegistryKey, RegistryValue: old}, ent, hostID) == nil
					}
					ret, err := reg.Put(ent, 100)
					if err == nil && gerr == nil {
						accW++
					}
					em.Step(fmt.Sprintf("Put %d %s 100 true %s", k, entryOf(ent.RegistryValue), coqBool(tie)), fmt.Sprintf("OPut %s %s", coqBool(err == nil), vidOf(ret)))
					if err == nil {
						if gerr == nil && !tie {
							em.Monitor("accepted-non-superseding-update", fmt.Sprintf("key %d", k))
						}
						shadow[k] = vidOf(ent.RegistryValue)
						shadowExp[k] = 100
					}
					get(k)
				} else if a < 9 {
					setLimit(uint64(a - 6))
				} else {
					tip(200) // beyond the expiration height of every enumerated Put
					get(0)
					get(1)
				}
				info()
			}
			get(0)
			get(1)
		} else {
			setLimit(uint64(rng.Intn(4)))
			steps := 5 + rng.Intn(25)
			for i := 0; i < steps; i++ {
				switch r := rng.Intn(24); {
				case r >= 20 && r < 22:
					// a Put whose lookup or write fails, mostly on a stored key
					k := rng.Intn(4)
					if len(shadow) > 0 && rng.Intn(4) != 0 {
						for shadow[k] == "" {
							k = (k + 1) % 4
						}
					}
					putWith(k, []string{"lookup", "lookup", "write"}[rng.Intn(3)])
					get(k)
					expOf(k)
					info()
				case r == 22:
					flush(rng.Intn(4) != 0)
					info()
				case r == 23:
					if rng.Intn(2) == 0 {
						getFault(rng.Intn(4))
					} else {
						infoFault()
					}
					info()
				case r < 12:
					k := rng.Intn(4)
					put(k)
					get(k)
					expOf(k)
					info()
				case r < 14 && id%4 == 1:
					k := rng.Intn(4)
					race(k)
					get(k)
					info()
				case r < 16:
					em.Count("op:Get")
					get(rng.Intn(4))
				case r < 18:
					setLimit(uint64(rng.Intn(5)))
					info()
				case r < 19:
					tip(uint64(80 + rng.Intn(70)))
					for k := 0; k < 4; k++ {
						get(k)
						expOf(k)
					}
					info()
				default:
					em.Count("op:Info")
					info()
				}
			}
			for k := 0; k < 4; k++ {
				get(k)
				expOf(k)
			}
			info()
			flush(true)
			info()
		}
		// Close flushes the access recorder into the store; it must not crash the host
		func() {
			defer func() {
				if r := recover(); r != nil {
					em.Monitor("registry-close-panics", fmt.Sprint(r))
				}
			}()
			reg.Close()
		}()
		em.EndCase(len(shadow) > 0)
		raw.Close()
		db.Close()
	}
}
