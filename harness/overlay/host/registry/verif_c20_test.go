//go:build verif

package registry_test

import (
	"bytes"
	"database/sql"
	"encoding/binary"
	"encoding/hex"
	"fmt"
	"path/filepath"
	"sync/atomic"
	"testing"
	"time"

	rhp3 "go.sia.tech/core/rhp/v3"
	"go.sia.tech/core/types"
	"go.sia.tech/hostd/v2/host/registry"
	"go.sia.tech/hostd/v2/host/settings"
	"go.sia.tech/hostd/v2/index"
	"go.sia.tech/hostd/v2/persist/sqlite"
	"go.uber.org/zap"
)

// parkStore lets the harness hold a Put between its read of the stored entry and what
// follows, so that a second Put can be raced against it (schedule exploration at the
// granularity of the manager's store calls).
type parkStore struct {
	*sqlite.Store
	armed   atomic.Bool
	parked  chan struct{}
	release chan struct{}
}

func (p *parkStore) GetRegistryValue(key rhp3.RegistryKey) (rhp3.RegistryValue, error) {
	v, err := p.Store.GetRegistryValue(key)
	if p.armed.CompareAndSwap(true, false) {
		p.parked <- struct{}{}
		<-p.release
	}
	return v, err
}

// TestVerifC20 drives the real registry.Manager over a real sqlite.Store with generated
// Put/Get/limit-change histories and records what it did for the Coq model (Registry/Model.v).
func TestVerifC20(t *testing.T) {
	em := newVerifEmitter(t, "From HostdBase Require Import Base.\nFrom HostdRegistry Require Import Model.", "case", "check")
	defer em.Close()

	hostKey := types.NewPrivateKeyFromSeed(make([]byte, 32))
	hostID := rhp3.RegistryHostID(hostKey.PublicKey())
	renters := []types.PrivateKey{
		types.NewPrivateKeyFromSeed(bytes.Repeat([]byte{1}, 32)),
		types.NewPrivateKeyFromSeed(bytes.Repeat([]byte{2}, 32)),
	}
	tweaks := []types.Hash256{{1}, {2}}

	n := verifN(150)
	// thorough tier: after the generated cases, every sequence of <= enumLen ops over the
	// alphabet {Put(k in 0..1, rev in 0..2), SetLimit 0..2} (small-scope exhaustive search)
	enumLen := verifEnvInt("VERIF_C20_ENUM", 0)
	const alpha = 10
	const directed = 3 // ids 0..2
	enumTotal := 0
	for l, p := 1, alpha; l <= enumLen; l, p = l+1, p*alpha {
		enumTotal += p
	}
	for id := 0; id < n+directed+enumTotal; id++ {
		if em.Skip(id) {
			continue
		}
		rng := verifCaseRand(id)
		log := zap.NewNop()
		dbPath := filepath.Join(t.TempDir(), fmt.Sprintf("c20_%d.db", id))
		db, err := sqlite.OpenDatabase(dbPath, log)
		if err != nil {
			t.Fatal(err)
		}
		// the harness's own connection: the expiration_height column has no accessor
		raw, err := sql.Open("sqlite3", "file:"+dbPath+"?_busy_timeout=5000&_journal_mode=WAL")
		if err != nil {
			t.Fatal(err)
		}
		ps := &parkStore{Store: db, parked: make(chan struct{}), release: make(chan struct{})}
		reg := registry.NewManager(hostKey, ps, log)

		vids := map[string]uint64{}
		vidOf := func(v rhp3.RegistryValue) string {
			if v.Revision == 0 && v.Type == 0 && len(v.Data) == 0 && v.Signature == (types.Signature{}) {
				return "None"
			}
			k := hex.EncodeToString(v.Data) + "/" + hex.EncodeToString(v.Signature[:])
			if _, ok := vids[k]; !ok {
				vids[k] = uint64(len(vids) + 1)
			}
			return fmt.Sprintf("(Some {| rev := %d; ety := %d; vid := %d |})", v.Revision, v.Type, vids[k])
		}
		entryOf := func(v rhp3.RegistryValue) string {
			s := vidOf(v)
			if s == "None" { // a zero value used as an entry still needs an id
				return "{| rev := 0; ety := 0; vid := 0 |}"
			}
			return s[len("(Some ") : len(s)-1]
		}

		em.BeginCase(id, "registry history")
		shadow := map[int]string{} // reference spec: last accepted entry per key
		shadowExp := map[int]uint64{} // and the expiration height passed with it
		lowered := false
		curLimit := uint64(0)

		setLimit := func(l uint64) {
			cnt, _, _ := reg.Entries()
			if l < cnt {
				lowered = true
			}
			if err := db.UpdateSettings(settings.Settings{MaxRegistryEntries: l}); err != nil {
				t.Fatal(err)
			}
			curLimit = l
			em.Step(fmt.Sprintf("SetLimit %d", l), "ODone")
			em.Count("op:SetLimit")
		}
		info := func() {
			cnt, lim, err := reg.Entries()
			if err != nil {
				t.Fatal(err)
			}
			m, err := db.Metrics(time.Now().Add(time.Hour))
			if err != nil {
				t.Fatal(err)
			}
			em.Step("Info", fmt.Sprintf("OInfo %d %d %d", cnt, lim, m.Registry.Entries))
			if lim != curLimit {
				em.Monitor("limit-not-applied", fmt.Sprintf("limit %d, set %d", lim, curLimit))
			}
			if cnt > lim {
				if lowered {
					em.Monitor("count-exceeds-limit-after-limit-lowered", fmt.Sprintf("count %d > limit %d", cnt, lim))
				} else {
					em.Monitor("count-exceeds-limit", fmt.Sprintf("count %d > limit %d", cnt, lim))
				}
			}
			if cnt != m.Registry.Entries {
				em.Monitor("count-differs-from-metric", fmt.Sprintf("count %d metric %d", cnt, m.Registry.Entries))
			}
			if int(cnt) != len(shadow) {
				em.Monitor("count-differs-from-accepted-keys", fmt.Sprintf("count %d accepted keys %d", cnt, len(shadow)))
			}
		}
		keyOf := func(k int) rhp3.RegistryKey {
			return rhp3.RegistryKey{PublicKey: renters[k/2].PublicKey(), Tweak: tweaks[k%2]}
		}
		// the stored expiration_height of key k (8-byte little-endian blob)
		expOf := func(k int) {
			kh := keyOf(k)
			h := kh.Hash()
			var blob []byte
			err := raw.QueryRow(`SELECT expiration_height FROM registry_entries WHERE registry_key=$1`, h[:]).Scan(&blob)
			got, have := uint64(0), false
			if err == nil && len(blob) == 8 {
				got, have = binary.LittleEndian.Uint64(blob), true
			} else if err != sql.ErrNoRows {
				t.Fatalf("expiration_height of key %d: %v (%d bytes)", k, err, len(blob))
			}
			obs := "OExp None"
			if have {
				obs = fmt.Sprintf("OExp (Some %d%%N)", got)
			}
			em.Step(fmt.Sprintf("Exp %d", k), obs)
			want, ok := shadowExp[k]
			if ok != have || want != got {
				em.Monitor("expiration-height-differs-from-last-accepted", fmt.Sprintf("key %d stored %d (%v) want %d (%v)", k, got, have, want, ok))
			}
		}
		get := func(k int) rhp3.RegistryValue {
			v, err := reg.Get(keyOf(k))
			obs := "OGet None"
			got := "None"
			if err == nil {
				got = vidOf(v)
				obs = "OGet " + got
			}
			em.Step(fmt.Sprintf("Get %d", k), obs)
			want, ok := shadow[k]
			if !ok {
				want = "None"
			}
			if got != want {
				em.Monitor("read-differs-from-last-accepted", fmt.Sprintf("key %d got %s want %s", k, got, want))
			}
			return v
		}
		put := func(k int) {
			key := keyOf(k)
			e := rhp3.RegistryEntry{RegistryKey: key}
			e.Revision = uint64(rng.Intn(4))
			kind := rng.Intn(10)
			switch {
			case kind < 5:
				e.Type = rhp3.EntryTypeArbitrary
				e.Data = []byte{byte(rng.Intn(3))}
			case kind < 7: // primary pubkey entry
				e.Type = rhp3.EntryTypePubKey
				e.Data = append(append([]byte{}, hostID[:20]...), byte(rng.Intn(2)))
			case kind < 8: // secondary pubkey entry
				e.Type = rhp3.EntryTypePubKey
				e.Data = append(bytes.Repeat([]byte{9}, 20), byte(rng.Intn(2)))
			case kind < 9: // too short / oversized
				if rng.Intn(2) == 0 {
					e.Type = rhp3.EntryTypePubKey
					e.Data = []byte{1, 2, 3}
				} else {
					e.Type = rhp3.EntryTypeArbitrary
					e.Data = bytes.Repeat([]byte{7}, rhp3.MaxValueDataSize+1+rng.Intn(3))
				}
			default:
				e.Type = uint8(3 + rng.Intn(3)) // unknown type
				e.Data = []byte{1}
			}
			e.Signature = renters[k/2].SignHash(e.Hash())
			if rng.Intn(8) == 0 {
				e.Signature[3] ^= 0xff // forged
				em.Count("put:bad-signature")
			}
			valid := rhp3.ValidateRegistryEntry(e) == nil
			// core's ordering verdict against what the host currently stores
			tie := false
			old, gerr := reg.Get(key)
			hasOld := gerr == nil
			if hasOld && valid {
				tie = rhp3.ValidateRegistryUpdate(rhp3.RegistryEntry{RegistryKey: key, RegistryValue: old}, e, hostID) == nil
			}
			cntBefore, limBefore, _ := reg.Entries()
			exp := uint64(90 + rng.Intn(40)) // expiration heights around the tips of `tip` below
			if rng.Intn(16) == 0 {
				exp = []uint64{0, 1<<63 - 1, 1 << 63, ^uint64(0)}[rng.Intn(4)]
			}
			ret, err := reg.Put(e, exp)
			if err == nil && !hasOld && cntBefore >= limBefore {
				em.Monitor("insert-accepted-without-room", fmt.Sprintf("new key %d accepted with count %d >= limit %d", k, cntBefore, limBefore))
			}
			em.Step(fmt.Sprintf("Put %d %s %d %s %s", k, entryOf(e.RegistryValue), exp, coqBool(valid), coqBool(tie)),
				fmt.Sprintf("OPut %s %s", coqBool(err == nil), vidOf(ret)))
			em.Count("op:Put")
			em.Count(fmt.Sprintf("put:valid=%v,stored=%v,accepted=%v", valid, hasOld, err == nil))
			// property monitors
			if err == nil {
				if !valid {
					em.Monitor("accepted-invalid-entry", fmt.Sprintf("key %d", k))
				}
				if hasOld && !tie {
					em.Monitor("accepted-non-superseding-update", fmt.Sprintf("key %d old rev %d new rev %d", k, old.Revision, e.Revision))
				}
				shadow[k] = vidOf(e.RegistryValue)
				shadowExp[k] = exp
			} else if hasOld && valid && vidOf(ret) != vidOf(old) {
				em.Monitor("rejected-update-did-not-return-stored-entry", fmt.Sprintf("key %d", k))
			}
		}

		// race: two Puts on one key, the first held right after it read the stored entry.
		// Whatever the interleaving, the outcome must be that of one of the two orders;
		// the steps are recorded in the order in which the Puts took effect.
		race := func(k int) {
			key := keyOf(k)
			mk := func(rev uint64, d byte) rhp3.RegistryEntry {
				e := rhp3.RegistryEntry{RegistryKey: key, RegistryValue: rhp3.RegistryValue{Revision: rev, Type: rhp3.EntryTypeArbitrary, Data: []byte{d, 0xee}}}
				e.Signature = renters[k/2].SignHash(e.Hash())
				return e
			}
			ea, eb := mk(uint64(rng.Intn(4)), 1), mk(uint64(rng.Intn(4)), 2)
			pre, perr := reg.Get(key)
			hasPre := perr == nil
			type result struct {
				ret rhp3.RegistryValue
				err error
			}
			ra, rb := make(chan result, 1), make(chan result, 1)
			ps.armed.Store(true)
			go func() { v, err := reg.Put(ea, 100); ra <- result{v, err} }()
			<-ps.parked
			go func() { v, err := reg.Put(eb, 100); rb <- result{v, err} }()
			var resA, resB result
			first, second := ea, eb
			select {
			case resB = <-rb: // B overtook the parked A
				first, second = eb, ea
				ps.release <- struct{}{}
				resA = <-ra
				em.Count("race:second-put-overtook")
			case <-time.After(60 * time.Millisecond): // B waits for A: Put is atomic
				ps.release <- struct{}{}
				resA = <-ra
				resB = <-rb
				em.Count("race:second-put-waited")
			}
			res1, res2 := resA, resB
			if first.Data[0] == 2 {
				res1, res2 = resB, resA
			}
			stored, has := pre, hasPre
			for i, e := range []rhp3.RegistryEntry{first, second} {
				r := res1
				if i == 1 {
					r = res2
				}
				tie := false
				if has {
					tie = rhp3.ValidateRegistryUpdate(rhp3.RegistryEntry{RegistryKey: key, RegistryValue: stored}, e, hostID) == nil
				}
				em.Step(fmt.Sprintf("Put %d %s 100 true %s", k, entryOf(e.RegistryValue), coqBool(tie)),
					fmt.Sprintf("OPut %s %s", coqBool(r.err == nil), vidOf(r.ret)))
				if r.err == nil {
					if has && !tie {
						em.Monitor("accepted-non-superseding-update", fmt.Sprintf("racing puts on key %d: stored rev %d, accepted rev %d", k, stored.Revision, e.Revision))
					}
					stored, has = e.RegistryValue, true
					shadow[k] = vidOf(e.RegistryValue)
					shadowExp[k] = 100
				}
			}
			em.Count("op:RacePut")
		}

		// the store's processed chain tip moves (below, at and beyond the entries' expiration heights):
		// no entry is dropped, hidden or uncounted by that
		tip := func(h uint64) {
			err := db.UpdateChainState(func(tx index.UpdateTx) error {
				return tx.SetLastIndex(types.ChainIndex{Height: h, ID: types.BlockID{byte(h), 1}})
			})
			if err != nil {
				t.Fatal(err)
			}
			em.Step(fmt.Sprintf("Tip %d", h), "ODone")
			em.Count("op:Tip")
		}

		if id == 0 {
			// directed corpus case: the capacity witness of c20_capacity_refuted
			setLimit(2)
			for k := 0; k < 2; k++ {
				e := rhp3.RegistryEntry{RegistryKey: keyOf(k), RegistryValue: rhp3.RegistryValue{Revision: 1, Type: rhp3.EntryTypeArbitrary, Data: []byte{1}}}
				e.Signature = renters[k/2].SignHash(e.Hash())
				ret, err := reg.Put(e, 100)
				em.Step(fmt.Sprintf("Put %d %s 100 true false", k, entryOf(e.RegistryValue)), fmt.Sprintf("OPut %s %s", coqBool(err == nil), vidOf(ret)))
				if err == nil {
					shadow[k] = vidOf(e.RegistryValue)
					shadowExp[k] = 100
				}
			}
			setLimit(1)
			info()
		} else if id == 1 || id == 2 {
			// directed: the tip beyond every expiration height.  Nothing is dropped, hidden or
			// uncounted; a superseding update whose own expiration height is already below the
			// tip is accepted; a full registry stays full although every entry is past its height.
			dput := func(k int, rev uint64, d byte, exp uint64) {
				e := rhp3.RegistryEntry{RegistryKey: keyOf(k), RegistryValue: rhp3.RegistryValue{Revision: rev, Type: rhp3.EntryTypeArbitrary, Data: []byte{d}}}
				e.Signature = renters[k/2].SignHash(e.Hash())
				tie := false
				old, gerr := reg.Get(e.RegistryKey)
				if gerr == nil {
					tie = rhp3.ValidateRegistryUpdate(rhp3.RegistryEntry{RegistryKey: e.RegistryKey, RegistryValue: old}, e, hostID) == nil
				}
				ret, err := reg.Put(e, exp)
				em.Step(fmt.Sprintf("Put %d %s %d true %s", k, entryOf(e.RegistryValue), exp, coqBool(tie)), fmt.Sprintf("OPut %s %s", coqBool(err == nil), vidOf(ret)))
				if err == nil {
					shadow[k] = vidOf(e.RegistryValue)
					shadowExp[k] = exp
				}
			}
			all := func() {
				for k := 0; k < 4; k++ {
					get(k)
					expOf(k)
				}
				info()
			}
			setLimit(3)
			dput(0, 1, 1, 100)
			dput(1, 1, 2, 110)
			dput(2, 1, 3, 120)
			all()
			heights := []uint64{121, 1 << 40}
			if id == 2 {
				heights = []uint64{100, 119, 120, 52560 + 200, 1<<63 - 1}
			}
			for _, h := range heights {
				tip(h)
				all()
				dput(3, 1, 9, h+10) // no room although every stored entry is past its height
				dput(0, 0, 7, h+10) // stale
				all()
			}
			dput(0, 2, 8, 50) // accepted with an expiration height that has long passed
			all()
			if id == 2 {
				tip(0) // the tip moves back (reorg to a shorter chain index)
				all()
			}
		} else if id >= n+directed {
			// decode id-n-directed into a sequence over the alphabet
			e := id - n - directed
			l, p := 1, alpha
			for e >= p {
				e -= p
				l++
				p *= alpha
			}
			em.Count(fmt.Sprintf("enum:len=%d", l))
			for i := 0; i < l; i++ {
				a := e % alpha
				e /= alpha
				if a < 6 {
					k, rev := a/3, uint64(a%3)
					ent := rhp3.RegistryEntry{RegistryKey: keyOf(k), RegistryValue: rhp3.RegistryValue{Revision: rev, Type: rhp3.EntryTypeArbitrary, Data: []byte{byte(i)}}}
					ent.Signature = renters[k/2].SignHash(ent.Hash())
					tie := false
					old, gerr := reg.Get(ent.RegistryKey)
					if gerr == nil {
						tie = rhp3.ValidateRegistryUpdate(rhp3.RegistryEntry{RegistryKey: ent.RegistryKey, RegistryValue: old}, ent, hostID) == nil
					}
					ret, err := reg.Put(ent, 100)
					em.Step(fmt.Sprintf("Put %d %s 100 true %s", k, entryOf(ent.RegistryValue), coqBool(tie)), fmt.Sprintf("OPut %s %s", coqBool(err == nil), vidOf(ret)))
					if err == nil {
						if gerr == nil && !tie {
							em.Monitor("accepted-non-superseding-update", fmt.Sprintf("key %d", k))
						}
						shadow[k] = vidOf(ent.RegistryValue)
						shadowExp[k] = 100
					}
					get(k)
				} else if a < 9 {
					setLimit(uint64(a - 6))
				} else {
					tip(200) // beyond the expiration height of every enumerated Put
					get(0)
					get(1)
				}
				info()
			}
			get(0)
			get(1)
		} else {
			setLimit(uint64(rng.Intn(4)))
			steps := 5 + rng.Intn(25)
			for i := 0; i < steps; i++ {
				switch r := rng.Intn(20); {
				case r < 12:
					k := rng.Intn(4)
					put(k)
					get(k)
					expOf(k)
					info()
				case r < 14 && id%4 == 1:
					k := rng.Intn(4)
					race(k)
					get(k)
					info()
				case r < 16:
					em.Count("op:Get")
					get(rng.Intn(4))
				case r < 18:
					setLimit(uint64(rng.Intn(5)))
					info()
				case r < 19:
					tip(uint64(80 + rng.Intn(70)))
					for k := 0; k < 4; k++ {
						get(k)
						expOf(k)
					}
					info()
				default:
					em.Count("op:Info")
					info()
				}
			}
			for k := 0; k < 4; k++ {
				get(k)
				expOf(k)
			}
			info()
		}
		// Close flushes the access recorder into the store; it must not crash the host
		func() {
			defer func() {
				if r := recover(); r != nil {
					em.Monitor("registry-close-panics", fmt.Sprint(r))
				}
			}()
			reg.Close()
		}()
		em.EndCase(len(shadow) > 0)
		raw.Close()
		db.Close()
	}
}
