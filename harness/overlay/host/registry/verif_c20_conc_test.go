//go:build verif

package registry_test

import (
	"bytes"
	"encoding/hex"
	"fmt"
	"path/filepath"
	"sync"
	"testing"
	"time"

	rhp3 "go.sia.tech/core/rhp/v3"
	"go.sia.tech/core/types"
	"go.sia.tech/hostd/v2/host/registry"
	"go.sia.tech/hostd/v2/host/settings"
	"go.sia.tech/hostd/v2/persist/sqlite"
	"go.uber.org/zap"
)

// gateStore parks one caller of the manager at a chosen boundary of its store calls — all of
// them lie between mu.Lock and mu.Unlock of Manager.Put / Manager.Get — and notes whether any
// other registry store call arrives while it is parked there.
//
//	before-read   the caller holds mu and has not read the stored entry yet
//	after-read    between GetRegistryValue and what follows (SetRegistryValue / Unlock)
//	after-write   SetRegistryValue has committed, mu not yet released
type gateStore struct {
	*sqlite.Store
	mu       sync.Mutex
	point    string // armed boundary, "" = none
	inside   bool   // a caller is parked
	intruded int    // registry store calls that arrived meanwhile
	parked   chan struct{}
	release  chan struct{}
}

func (g *gateStore) gate(point string) {
	g.mu.Lock()
	if g.inside {
		g.intruded++
		g.mu.Unlock()
		return
	}
	if g.point != point {
		g.mu.Unlock()
		return
	}
	g.point, g.inside = "", true
	g.mu.Unlock()
	g.parked <- struct{}{}
	<-g.release
	g.mu.Lock()
	g.inside = false
	g.mu.Unlock()
}

func (g *gateStore) GetRegistryValue(key rhp3.RegistryKey) (rhp3.RegistryValue, error) {
	g.gate("before-read")
	v, err := g.Store.GetRegistryValue(key)
	g.gate("after-read")
	return v, err
}

func (g *gateStore) SetRegistryValue(entry rhp3.RegistryEntry, expiration uint64) error {
	g.gate("before-write")
	err := g.Store.SetRegistryValue(entry, expiration)
	g.gate("after-write")
	return err
}

// TestVerifC20Conc races a second caller against a Put or Get that is parked at every boundary of
// its store calls: Put x Put, Put x Get, Get x Put on the same and on different keys (the
// second must wait: registry store calls never overlap), Put/Get x limit change and x Entries
// (which do not take the mutex and must go through).  The operations are recorded in the order
// of their linearisation points (Conc.v) for the sequential model.
func TestVerifC20Conc(t *testing.T) {
	em := newVerifEmitter(t, "From HostdBase Require Import Base.\nFrom HostdRegistry Require Import Model.", "case", "check")
	defer em.Close()

	hostKey := types.NewPrivateKeyFromSeed(make([]byte, 32))
	hostID := rhp3.RegistryHostID(hostKey.PublicKey())
	renters := []types.PrivateKey{
		types.NewPrivateKeyFromSeed(bytes.Repeat([]byte{1}, 32)),
		types.NewPrivateKeyFromSeed(bytes.Repeat([]byte{2}, 32)),
	}
	tweaks := []types.Hash256{{1}, {2}}
	keyOf := func(k int) rhp3.RegistryKey {
		return rhp3.RegistryKey{PublicKey: renters[k/2].PublicKey(), Tweak: tweaks[k%2]}
	}
	aKinds := []string{"put", "get"}
	points := map[string][]string{"put": {"before-read", "after-read", "before-write", "after-write"}, "get": {"before-read", "after-read"}}
	bKinds := []string{"put-same", "put-other", "get-same", "get-other", "limit", "entries"}
	// directed: every (first caller, boundary, second caller) once
	type combo struct{ a, point, b string }
	var combos []combo
	for _, a := range aKinds {
		for _, p := range points[a] {
			for _, b := range bKinds {
				combos = append(combos, combo{a, p, b})
			}
		}
	}

	n := verifN(60)
	for id := 0; id < n+len(combos); id++ {
		if em.Skip(id) {
			continue
		}
		rng := verifCaseRand(id)
		log := zap.NewNop()
		db, err := sqlite.OpenDatabase(filepath.Join(t.TempDir(), fmt.Sprintf("c20c_%d.db", id)), log)
		if err != nil {
			t.Fatal(err)
		}
		gs := &gateStore{Store: db, parked: make(chan struct{}), release: make(chan struct{})}
		reg := registry.NewManager(hostKey, gs, log)

		vids := map[string]uint64{}
		entryTerm := func(v rhp3.RegistryValue) string {
			k := hex.EncodeToString(v.Data) + "/" + hex.EncodeToString(v.Signature[:])
			if _, ok := vids[k]; !ok {
				vids[k] = uint64(len(vids) + 1)
			}
			return fmt.Sprintf("{| rev := %d; ety := %d; vid := %d |}", v.Revision, v.Type, vids[k])
		}
		opt := func(v rhp3.RegistryValue, some bool) string {
			if !some || (v.Revision == 0 && v.Type == 0 && len(v.Data) == 0 && v.Signature == (types.Signature{})) {
				return "None"
			}
			return "(Some " + entryTerm(v) + ")"
		}
		same := func(a, b rhp3.RegistryValue) bool {
			return a.Revision == b.Revision && a.Type == b.Type && bytes.Equal(a.Data, b.Data) && a.Signature == b.Signature
		}
		shadow := map[int]rhp3.RegistryValue{} // last accepted entry per key, in linearisation order
		curLimit, lowered := uint64(0), false
		nextData := byte(0)
		mkEntry := func(k int) rhp3.RegistryEntry {
			e := rhp3.RegistryEntry{RegistryKey: keyOf(k)}
			e.Revision = uint64(rng.Intn(3))
			if old, ok := shadow[k]; ok {
				e.Revision = old.Revision + uint64(rng.Intn(3))
				if old.Revision > 0 && rng.Intn(4) == 0 {
					e.Revision = old.Revision - 1
				}
			}
			nextData++
			e.Type, e.Data = rhp3.EntryTypeArbitrary, []byte{nextData, byte(rng.Intn(2))}
			e.Signature = renters[k/2].SignHash(e.Hash())
			return e
		}

		type putRes struct {
			ret rhp3.RegistryValue
			err error
		}
		// record* append one operation to the case at its linearisation point
		recordPut := func(k int, e rhp3.RegistryEntry, r putRes, what string) {
			old, has := shadow[k]
			tie := false
			if has {
				tie = rhp3.ValidateRegistryUpdate(rhp3.RegistryEntry{RegistryKey: e.RegistryKey, RegistryValue: old}, e, hostID) == nil
			}
			em.Step(fmt.Sprintf("Put %d %s 100 true %s", k, entryTerm(e.RegistryValue), coqBool(tie)),
				fmt.Sprintf("OPut %s %s", coqBool(r.err == nil), opt(r.ret, true)))
			em.Count(fmt.Sprintf("put:%s,stored=%v,accepted=%v", what, has, r.err == nil))
			if r.err == nil {
				if has && !tie {
					em.Monitor("accepted-non-superseding-update", fmt.Sprintf("%s: key %d stored rev %d accepted rev %d", what, k, old.Revision, e.Revision))
				}
				shadow[k] = e.RegistryValue
			} else if has && !same(r.ret, old) {
				em.Monitor("rejected-update-did-not-return-stored-entry", fmt.Sprintf("%s: key %d", what, k))
			}
		}
		recordGet := func(k int, v rhp3.RegistryValue, err error, what string) {
			em.Step(fmt.Sprintf("Get %d", k), "OGet "+opt(v, err == nil))
			want, has := shadow[k]
			if has != (err == nil) || (has && !same(v, want)) {
				em.Monitor("read-differs-from-last-accepted", fmt.Sprintf("%s: key %d got rev %d (%v), last accepted rev %d (%v)", what, k, v.Revision, err, want.Revision, has))
			}
		}
		setLimit := func(l uint64) {
			cnt, _, _ := reg.Entries()
			if l < cnt {
				lowered = true
			}
			if err := db.UpdateSettings(settings.Settings{MaxRegistryEntries: l}); err != nil {
				t.Fatal(err)
			}
			curLimit = l
			em.Step(fmt.Sprintf("SetLimit %d", l), "ODone")
		}
		info := func() {
			cnt, lim, err := reg.Entries()
			if err != nil {
				t.Fatal(err)
			}
			m, err := db.Metrics(time.Now().Add(time.Hour))
			if err != nil {
				t.Fatal(err)
			}
			em.Step("Info", fmt.Sprintf("OInfo %d %d %d", cnt, lim, m.Registry.Entries))
			if lim != curLimit {
				em.Monitor("limit-not-applied", fmt.Sprintf("limit %d, set %d", lim, curLimit))
			}
			if cnt > lim {
				if lowered {
					em.Monitor("count-exceeds-limit-after-limit-lowered", fmt.Sprintf("count %d > limit %d", cnt, lim))
				} else {
					em.Monitor("count-exceeds-limit", fmt.Sprintf("count %d > limit %d", cnt, lim))
				}
			}
			if cnt != m.Registry.Entries {
				em.Monitor("count-differs-from-metric", fmt.Sprintf("count %d metric %d", cnt, m.Registry.Entries))
			}
			if int(cnt) != len(shadow) {
				em.Monitor("count-differs-from-accepted-keys", fmt.Sprintf("count %d accepted keys %d", cnt, len(shadow)))
			}
		}

		// pair parks the first caller (a on key ka) at point and runs the second (b) against it
		pair := func(c combo, ka int) {
			what := c.a + "@" + c.point + " x " + c.b
			em.Count("pair:" + what)
			kb := ka
			if c.b == "put-other" || c.b == "get-other" {
				kb = (ka + 1 + rng.Intn(3)) % 4
			}
			ea := mkEntry(ka)
			if c.a == "put" && (c.point == "before-write" || c.point == "after-write") {
				// the first caller must reach SetRegistryValue: a superseding update or a new key
				if old, ok := shadow[ka]; ok {
					ea.Revision = old.Revision + 1
					ea.Signature = renters[ka/2].SignHash(ea.Hash())
				}
			}
			var ra putRes
			var ga rhp3.RegistryValue
			var gaErr error
			aDone := make(chan struct{})
			gs.mu.Lock()
			gs.point, gs.intruded = c.point, 0
			gs.mu.Unlock()
			go func() {
				defer close(aDone)
				if c.a == "put" {
					ra.ret, ra.err = reg.Put(ea, 100)
				} else {
					ga, gaErr = reg.Get(keyOf(ka))
				}
			}()
			reached := false
			select {
			case <-gs.parked:
				reached = true
			case <-aDone: // the first caller never came to that boundary (e.g. a full registry is not written)
				gs.mu.Lock()
				gs.point = ""
				gs.mu.Unlock()
			}
			recA := func() {
				if c.a == "put" {
					recordPut(ka, ea, ra, what+" (first)")
				} else {
					recordGet(ka, ga, gaErr, what+" (first)")
				}
			}
			if !reached {
				em.Count("pair-boundary-not-reached:" + c.a + "@" + c.point)
				recA()
				return
			}
			// the first caller takes effect before the second iff it is parked after its last store call
			// that matters: a Put at its write, a Get at its read
			aFirst := (c.a == "put" && c.point == "after-write") || (c.a == "get" && c.point == "after-read")
			switch c.b {
			case "limit", "entries":
				// no mutex: must go through while the first caller is parked inside Put/Get; recorded
				// before or after the first caller according to the linearisation points
				var recB func()
				if c.b == "limit" {
					cnt, _, _ := reg.Entries()
					l := []uint64{cnt, cnt + 1, cnt + 1, curLimit}[rng.Intn(4)]
					if cnt > 0 && rng.Intn(3) == 0 {
						l = uint64(rng.Intn(4))
					}
					if l < cnt {
						lowered = true
					}
					if err := db.UpdateSettings(settings.Settings{MaxRegistryEntries: l}); err != nil {
						t.Fatal(err)
					}
					curLimit = l
					recB = func() { em.Step(fmt.Sprintf("SetLimit %d", l), "ODone") }
				} else {
					cnt, lim, err := reg.Entries()
					if err != nil {
						t.Fatal(err)
					}
					m, err := db.Metrics(time.Now().Add(time.Hour))
					if err != nil {
						t.Fatal(err)
					}
					recB = func() {
						em.Step("Info", fmt.Sprintf("OInfo %d %d %d", cnt, lim, m.Registry.Entries))
						if cnt != m.Registry.Entries {
							em.Monitor("count-differs-from-metric", fmt.Sprintf("%s: count %d metric %d", what, cnt, m.Registry.Entries))
						}
						if cnt > lim && !lowered {
							em.Monitor("count-exceeds-limit", fmt.Sprintf("%s: count %d > limit %d", what, cnt, lim))
						}
					}
				}
				gs.release <- struct{}{}
				<-aDone
				if aFirst {
					recA()
					recB()
				} else {
					recB()
					recA()
				}
			default:
				// a mutex user: it must wait until the first caller has released the mutex.  Give it
				// a moment to run into the parked caller's critical section if it can; the wait only
				// bounds how long a missing mutex gets to show itself, it decides no observation.
				eb := mkEntry(kb)
				var rb putRes
				var gb rhp3.RegistryValue
				var gbErr error
				bDone := make(chan struct{})
				go func() {
					defer close(bDone)
					if c.b == "put-same" || c.b == "put-other" {
						rb.ret, rb.err = reg.Put(eb, 100)
					} else {
						gb, gbErr = reg.Get(keyOf(kb))
					}
				}()
				overtook := false
				select {
				case <-bDone:
					overtook = true
				case <-time.After(3 * time.Millisecond):
				}
				gs.mu.Lock()
				intruded := gs.intruded
				gs.mu.Unlock()
				if overtook || intruded > 0 {
					em.Monitor("registry-store-call-while-another-holds-the-mutex", fmt.Sprintf("%s: %d store calls arrived while the first caller was parked inside Put/Get (second finished: %v)", what, intruded, overtook))
				}
				gs.release <- struct{}{}
				<-aDone
				<-bDone
				recB := func() {
					if c.b == "put-same" || c.b == "put-other" {
						recordPut(kb, eb, rb, what+" (second)")
					} else {
						recordGet(kb, gb, gbErr, what+" (second)")
					}
				}
				if overtook && !aFirst {
					recB()
					recA()
				} else {
					recA()
					recB()
				}
			}
		}

		em.BeginCase(id, "registry callers raced at store-call boundaries")
		setLimit(uint64(1 + rng.Intn(3)))
		for i := 0; i < rng.Intn(3); i++ { // some stored entries to start from
			k := rng.Intn(4)
			e := mkEntry(k)
			ret, err := reg.Put(e, 100)
			recordPut(k, e, putRes{ret, err}, "setup")
		}
		if id < len(combos) {
			pair(combos[id], rng.Intn(4))
			info()
			pair(combos[id], rng.Intn(4))
		} else {
			for i := 0; i < 3+rng.Intn(4); i++ {
				a := aKinds[rng.Intn(2)]
				pair(combo{a, points[a][rng.Intn(len(points[a]))], bKinds[rng.Intn(len(bKinds))]}, rng.Intn(4))
				if rng.Intn(2) == 0 {
					info()
				}
			}
		}
		for k := 0; k < 4; k++ {
			v, err := reg.Get(keyOf(k))
			recordGet(k, v, err, "end")
		}
		info()
		func() {
			defer func() {
				if r := recover(); r != nil {
					em.Monitor("registry-close-panics", fmt.Sprint(r))
				}
			}()
			reg.Close()
		}()
		em.EndCase(len(shadow) > 0)
		db.Close()
	}
}
