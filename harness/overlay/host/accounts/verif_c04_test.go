//go:build verif

package accounts_test

import (
	"database/sql"
	"encoding/binary"
	"errors"
	"fmt"
	"math/big"
	"math/rand"
	"os"
	"path/filepath"
	"sort"
	"strings"
	"sync"
	"testing"
	"time"

	rhp3 "go.sia.tech/core/rhp/v3"
	proto4 "go.sia.tech/core/rhp/v4"
	"go.sia.tech/core/types"
	rhp4 "go.sia.tech/coreutils/rhp/v4"
	"go.sia.tech/hostd/v2/host/accounts"
	"go.sia.tech/hostd/v2/host/contracts"
	"go.sia.tech/hostd/v2/host/settings"
	"go.sia.tech/hostd/v2/persist/sqlite"
	"go.uber.org/zap"
)

// ---- fixtures -------------------------------------------------------------------------------

type c04Settings struct {
	mu  sync.Mutex
	max types.Currency
}

func (s *c04Settings) Settings() settings.Settings {
	s.mu.Lock()
	defer s.mu.Unlock()
	return settings.Settings{MaxAccountBalance: s.max}
}

// c04Store is the real store with two switches that make the next DebitAccount /
// AccountBalance call fail the way a broken database would (before touching it).
type c04Store struct {
	*sqlite.Store
	failDebit bool
	failRead  bool
}

var errC04Injected = errors.New("injected store failure")

func (s *c04Store) DebitAccount(id rhp3.Account, u accounts.Usage) error {
	if s.failDebit {
		return errC04Injected
	}
	return s.Store.DebitAccount(id, u)
}

func (s *c04Store) AccountBalance(id rhp3.Account) (types.Currency, error) {
	if s.failRead {
		return types.ZeroCurrency, errC04Injected
	}
	return s.Store.AccountBalance(id)
}

func c04Key(i int) types.PublicKey {
	var pk types.PublicKey
	pk[0] = 0xA0
	pk[1] = byte(i + 1)
	return pk
}

func c04Rev(id byte) contracts.SignedRevision {
	return contracts.SignedRevision{Revision: types.FileContractRevision{
		ParentID: types.FileContractID{0xC1, id},
		UnlockConditions: types.UnlockConditions{PublicKeys: []types.UnlockKey{
			{Algorithm: types.SpecifierEd25519, Key: make([]byte, 32)},
			{Algorithm: types.SpecifierEd25519, Key: make([]byte, 32)},
		}},
	}}
}

func c04Err(err error) string {
	switch {
	case err == nil:
		return "ODone"
	case errors.Is(err, accounts.ErrInsufficientFunds), errors.Is(err, proto4.ErrNotEnoughFunds):
		return "(OErr EInsufficient)"
	case errors.Is(err, accounts.ErrBalanceExceeded):
		return "(OErr EInvalid)"
	default:
		return "(OErr EOther)"
	}
}

func c04Cur(b *big.Int) types.Currency {
	lo := new(big.Int).And(b, new(big.Int).SetUint64(^uint64(0))).Uint64()
	hi := new(big.Int).Rsh(b, 64).Uint64()
	return types.NewCurrency(lo, hi)
}

func c04Usage(u accounts.Usage) string {
	return fmt.Sprintf("{| uRpc := %s; uStorage := %s; uEgress := %s; uIngress := %s; uRegR := %s; uRegW := %s |}",
		u.RPCRevenue.ExactString(), u.StorageRevenue.ExactString(), u.EgressRevenue.ExactString(),
		u.IngressRevenue.ExactString(), u.RegistryRead.ExactString(), u.RegistryWrite.ExactString())
}

// c04Split spreads total over the six usage categories.
func c04Split(rng *rand.Rand, total types.Currency) accounts.Usage {
	var u accounts.Usage
	fields := []*types.Currency{&u.RPCRevenue, &u.StorageRevenue, &u.EgressRevenue, &u.IngressRevenue, &u.RegistryRead, &u.RegistryWrite}
	rem := total
	for n := 1 + rng.Intn(3); n > 1 && !rem.IsZero(); n-- {
		part := rem.Div64(uint64(1 + rng.Intn(3)))
		f := fields[rng.Intn(6)]
		*f = f.Add(part)
		rem = rem.Sub(part)
	}
	f := fields[rng.Intn(6)]
	*f = f.Add(rem)
	return u
}

type c04Budget struct {
	b     *accounts.Budget
	acct  int
	max   types.Currency
	usage accounts.Usage // what the harness successfully spent/refunded on it
	done  bool
}

// TestVerifC04 drives the real AccountManager over the real sqlite.Store (plus the RHP4 store
// methods on the same account keys) with generated operation sequences, records them for
// coq/Ledger/Model.v and evaluates the C04 monitors on what the implementation returned.
func TestVerifC04(t *testing.T) {
	em := newVerifEmitter(t, "From HostdBase Require Import Base.\nFrom HostdLedger Require Import Model.", "case", "check")
	defer em.Close()

	const nAcct = 3
	two128 := new(big.Int).Lsh(big.NewInt(1), 128)
	maxCur := c04Cur(new(big.Int).Sub(two128, big.NewInt(1)))

	n := verifN(300)
	const nDirected = 6
	for id := 0; id < n+nDirected; id++ {
		if em.Skip(id) {
			continue
		}
		rng := verifCaseRand(id)
		dir := filepath.Join(t.TempDir(), fmt.Sprintf("c04_%d", id))
		os.MkdirAll(dir, 0o755)
		db, err := sqlite.OpenDatabase(filepath.Join(dir, "hostd.db"), zap.NewNop())
		if err != nil {
			t.Fatal(err)
		}
		closed := false
		rev := c04Rev(1)
		if err := db.AddContract(rev, []types.Transaction{{}}, types.Siacoins(1), contracts.Usage{}, 1); err != nil {
			t.Fatal(err)
		}
		missingRev := c04Rev(99) // never added: crediting through it fails in the store
		v2ID := types.FileContractID{0xC2, 1}
		if err := db.AddV2Contract(contracts.V2Contract{ID: v2ID, V2FileContract: types.V2FileContract{ProofHeight: 100, ExpirationHeight: 200}}, rhp4.TransactionSet{}); err != nil {
			t.Fatal(err)
		}
		missingV2 := types.FileContractID{0xC2, 99}

		st := &c04Store{Store: db}
		cfg := &c04Settings{}
		am := accounts.NewManager(st, cfg)

		em.BeginCase(id, "account ledger history")
		reported := map[string]bool{}
		monitor := func(sig, detail string) { // one report per case and sig
			if !reported[sig] {
				reported[sig] = true
				em.Monitor(sig, detail)
			}
		}

		// ---- the harness' own ledger, built only from what the implementation accepted ----
		dep := make([]*big.Int, nAcct) // accepted deposits
		wd := make([]*big.Int, nAcct)  // committed withdrawals
		for i := range dep {
			dep[i], wd[i] = new(big.Int), new(big.Int)
		}
		var budgets []*c04Budget
		r4DebitWhileOpen := make([]bool, nAcct) // an RHP4 debit hit the account while RHP3 budgets were open
		huge := false                           // the case uses amounts near 2^128 (overflow panics are expected)
		nAccepted := 0

		openMax := func(a int, except *c04Budget) *big.Int {
			s := new(big.Int)
			for _, b := range budgets {
				if b.acct == a && !b.done && b != except {
					s.Add(s, b.max.Big())
				}
			}
			return s
		}
		openCount := func(a int) int {
			c := 0
			for _, b := range budgets {
				if b.acct == a && !b.done {
					c++
				}
			}
			return c
		}
		evicted := func(a int) { // the last open budget of a is gone: the manager drops its cached balance
			if openCount(a) == 0 {
				r4DebitWhileOpen[a] = false
			}
		}
		storeBal := func(a int) types.Currency {
			b, err := db.AccountBalance(rhp3.Account(c04Key(a)))
			if err != nil {
				t.Fatal(err)
			}
			return b
		}
		// read-only view of the accounts table (independent of Store.Accounts)
		ro, err := sql.Open("sqlite3", "file:"+filepath.Join(dir, "hostd.db")+"?mode=ro&_busy_timeout=5000")
		if err != nil {
			t.Fatal(err)
		}
		rawAccounts := func() (out []types.Currency) {
			rows, err := ro.Query(`SELECT balance FROM accounts`)
			if err != nil {
				t.Fatal(err)
			}
			defer rows.Close()
			for rows.Next() {
				var b []byte
				if err := rows.Scan(&b); err != nil || len(b) != 16 {
					t.Fatal("unreadable balance", err)
				}
				out = append(out, types.NewCurrency(binary.LittleEndian.Uint64(b[:8]), binary.LittleEndian.Uint64(b[8:])))
			}
			return
		}
		guard := func(what string, f func()) (panicked bool) {
			defer func() {
				if r := recover(); r != nil {
					panicked = true
					if !huge && !strings.HasPrefix(what, "expected:") {
						monitor("ledger-op-panics", fmt.Sprintf("%s: %v", what, r))
					}
				}
			}()
			f()
			return false
		}

		// ---- observers (recorded as steps) + monitors ------------------------------------
		obsBalance := func(a int) types.Currency {
			b, err := am.Balance(rhp3.Account(c04Key(a)))
			if err != nil {
				t.Fatal(err)
			}
			em.Step(fmt.Sprintf("Balance %d", a), "OBal "+b.ExactString())
			return b
		}
		obsStore := func(a int) {
			if closed {
				return
			}
			b := storeBal(a)
			em.Step(fmt.Sprintf("StoreBalance %d", a), "OBal "+b.ExactString())
			b4, err := db.RHP4AccountBalance(proto4.Account(c04Key(a)))
			if err != nil {
				t.Fatal(err)
			}
			em.Step(fmt.Sprintf("R4Balance %d", a), "OBal "+b4.ExactString())
			if !b.Equals(b4) {
				monitor("rhp3-and-rhp4-balance-views-differ", fmt.Sprintf("account %d: %v vs %v", a, b, b4))
			}
			want := new(big.Int).Sub(dep[a], wd[a])
			if want.Sign() < 0 {
				monitor("withdrawals-exceed-deposits", fmt.Sprintf("account %d: deposits %v withdrawals %v", a, dep[a], wd[a]))
			} else if b.Big().Cmp(want) != 0 {
				monitor("balance-differs-from-deposits-minus-withdrawals", fmt.Sprintf("account %d: balance %v, deposits %v - withdrawals %v", a, b, dep[a], wd[a]))
			}
		}
		obsMetrics := func() {
			if closed {
				return
			}
			m, err := db.Metrics(time.Now().Add(time.Hour))
			if err != nil {
				t.Fatal(err)
			}
			em.Step("Metrics", fmt.Sprintf("OMetrics %s %d", m.Accounts.Balance.ExactString(), m.Accounts.Active))
			accs := rawAccounts()
			sum := new(big.Int)
			for _, a := range accs {
				sum.Add(sum, a.Big())
			}
			if m.Accounts.Balance.Big().Cmp(sum) != 0 {
				monitor("balance-metric-differs-from-sum-of-balances", fmt.Sprintf("metric %v, sum of %d balances %v", m.Accounts.Balance, len(accs), sum))
			}
			if m.Accounts.Active != uint64(len(accs)) {
				monitor("active-accounts-metric-differs-from-account-count", fmt.Sprintf("metric %d, accounts %d", m.Accounts.Active, len(accs)))
			}
		}
		obsAccounts := func() {
			if closed {
				return
			}
			accs, err := db.Accounts(1000, 0)
			if err != nil {
				// an RHP4 debit stores the row's expiration un-encoded, after which the listing cannot
				// be scanned (side finding, fixes/C04-rhp4-debit-expiration.patch); not part of C04's
				// statement: the monitors read the table directly instead
				em.Count("accounts-listing-unreadable")
				return
			}
			var items []string
			for _, a := range accs {
				idx := -1
				for i := 0; i < nAcct; i++ {
					if types.PublicKey(a.ID) == c04Key(i) {
						idx = i
					}
				}
				items = append(items, fmt.Sprintf("(%d%%N, %s%%N)", idx, a.Balance.ExactString()))
			}
			sort.Strings(items)
			em.Step("Accounts", "OAccounts "+coqList(items))
		}
		probe := func(a int) {
			obsBalance(a)
			obsStore(a)
			obsMetrics()
		}

		// ---- operations ------------------------------------------------------------------
		setMax := func(m types.Currency) {
			cfg.mu.Lock()
			cfg.max = m
			cfg.mu.Unlock()
			em.Step("SetMax "+m.ExactString(), "ODone")
			em.Count("op:SetMax")
		}
		credit := func(a int, amt types.Currency, refund, expired, cok bool) {
			req := accounts.FundAccountWithContract{Account: rhp3.Account(c04Key(a)), Cost: types.NewCurrency64(1), Amount: amt,
				Revision: rev, Expiration: time.Now().Add(time.Hour)}
			if expired {
				req.Expiration = time.Now().Add(-time.Hour)
			}
			if huge {
				// keep the funding contract's own revenue columns (not part of the ledger model) below 2^128
				req.Cost = types.ZeroCurrency
			}
			if !cok {
				req.Revision = missingRev
			}
			var nb types.Currency
			var err error
			obs := ""
			if guard("Credit", func() { nb, err = am.Credit(req, refund) }) {
				obs = "OPanic"
			} else if err == nil {
				obs = "OBal " + nb.ExactString()
				dep[a].Add(dep[a], amt.Big())
				nAccepted++
			} else {
				obs = c04Err(err)
			}
			em.Step(fmt.Sprintf("Credit %d %s %s %s %s", a, amt.ExactString(), coqBool(refund), coqBool(expired), coqBool(cok)), obs)
			em.Count("op:Credit")
			em.Count("credit:" + strings.SplitN(obs, " ", 2)[0] + fmt.Sprintf(",refund=%v", refund))
			if err == nil && obs != "OPanic" && !refund {
				cfg.mu.Lock()
				max := cfg.max
				cfg.mu.Unlock()
				if nb.Cmp(max) > 0 {
					monitor("capped-credit-exceeds-max-balance", fmt.Sprintf("account %d: balance %v > max %v", a, nb, max))
				}
			}
			probe(a)
		}
		newBudget := func(a int, amt types.Currency, rok bool) {
			before := storeBal(a)
			others := openMax(a, nil)
			st.failRead = !rok
			var b *accounts.Budget
			var err error
			panicked := guard("Budget", func() { b, err = am.Budget(rhp3.Account(c04Key(a)), amt) })
			st.failRead = false
			obs := c04Err(err)
			if panicked {
				obs = "OPanic"
			}
			em.Step(fmt.Sprintf("NewBudget %d %s %s", a, amt.ExactString(), coqBool(rok)), obs)
			em.Count("op:NewBudget")
			em.Count("budget:" + obs)
			if err == nil && !panicked {
				budgets = append(budgets, &c04Budget{b: b, acct: a, max: amt})
				// property: succeeds only if balance - other outstanding reservations covers it
				avail := new(big.Int).Sub(before.Big(), others)
				if amt.Big().Cmp(avail) > 0 {
					if r4DebitWhileOpen[a] {
						monitor("budget-granted-beyond-available-after-rhp4-debit", fmt.Sprintf("account %d: budget %v, balance %v, other open reservations %v", a, amt, before, others))
					} else {
						monitor("budget-granted-beyond-available", fmt.Sprintf("account %d: budget %v, balance %v, other open reservations %v", a, amt, before, others))
					}
				}
			}
			probe(a)
		}
		spend := func(bi int, u accounts.Usage) {
			b := budgets[bi]
			var err error
			panicked := guard("Spend", func() { err = b.b.Spend(u) })
			obs := c04Err(err)
			if panicked {
				obs = "OPanic"
			} else if err == nil {
				b.usage = b.usage.Add(u)
				if !b.done && b.usage.Total().Cmp(b.max) > 0 {
					monitor("budget-spent-beyond-reservation", fmt.Sprintf("budget %d: spent %v of %v", bi, b.usage.Total(), b.max))
				}
			}
			em.Step(fmt.Sprintf("Spend %d %s", bi, c04Usage(u)), obs)
			em.Count("op:Spend")
			em.Count("spend:" + obs)
		}
		refund := func(bi int, u accounts.Usage) {
			b := budgets[bi]
			// Refund documents that it panics on a committed budget or an over-refund
			what := "Refund"
			over := u.RPCRevenue.Cmp(b.usage.RPCRevenue) > 0 || u.StorageRevenue.Cmp(b.usage.StorageRevenue) > 0 ||
				u.EgressRevenue.Cmp(b.usage.EgressRevenue) > 0 || u.IngressRevenue.Cmp(b.usage.IngressRevenue) > 0 ||
				u.RegistryRead.Cmp(b.usage.RegistryRead) > 0 || u.RegistryWrite.Cmp(b.usage.RegistryWrite) > 0
			if b.done || over {
				what = "expected:Refund"
			}
			obs := "ODone"
			if guard(what, func() { b.b.Refund(u) }) {
				obs = "OPanic"
			} else {
				b.usage = b.usage.Sub(u)
			}
			em.Step(fmt.Sprintf("Refund %d %s", bi, c04Usage(u)), obs)
			em.Count("op:Refund")
			em.Count("refund:" + obs)
		}
		commit := func(bi int, sok bool) {
			b := budgets[bi]
			a := b.acct
			var before, balBefore types.Currency
			if !closed {
				before = storeBal(a)
			}
			balBefore, _ = am.Balance(rhp3.Account(c04Key(a)))
			wasDone := b.done
			spent := b.usage.Total()
			st.failDebit = !sok
			var err error
			panicked := guard("Commit", func() { err = b.b.Commit() })
			st.failDebit = false
			obs := c04Err(err)
			if panicked {
				obs = "OPanic"
			}
			em.Step(fmt.Sprintf("Commit %d %s", bi, coqBool(sok && !closed)), obs)
			em.Count("op:Commit")
			em.Count(fmt.Sprintf("commit:%s,already-done=%v", obs, wasDone))
			if panicked {
				return
			}
			if err == nil && !wasDone {
				reserved := b.max
				b.done, b.max, b.usage = true, types.ZeroCurrency, accounts.Usage{} // Commit zeroes the budget
				evicted(a)
				wd[a].Add(wd[a], spent.Big())
				nAccepted++
				after := storeBal(a)
				if new(big.Int).Sub(before.Big(), after.Big()).Cmp(spent.Big()) != 0 {
					monitor("commit-did-not-deduct-exactly-what-was-spent", fmt.Sprintf("account %d: store %v -> %v, spent %v", a, before, after, spent))
				}
				// the unspent part of the reservation is available again
				if openCount(a) > 0 {
					balAfter, _ := am.Balance(rhp3.Account(c04Key(a)))
					want := new(big.Int).Add(balBefore.Big(), new(big.Int).Sub(reserved.Big(), spent.Big()))
					if balAfter.Big().Cmp(want) != 0 {
						monitor("commit-did-not-return-unspent-reservation", fmt.Sprintf("account %d: spendable %v -> %v, reserved %v spent %v", a, balBefore, balAfter, reserved, spent))
					}
				}
			} else if !closed {
				// a failed (or repeated) commit changes nothing
				after := storeBal(a)
				balAfter, _ := am.Balance(rhp3.Account(c04Key(a)))
				if !after.Equals(before) || !balAfter.Equals(balBefore) {
					monitor("failed-or-repeated-commit-changed-balances", fmt.Sprintf("account %d: store %v -> %v, spendable %v -> %v", a, before, after, balBefore, balAfter))
				}
			}
			if !closed {
				probe(a)
			}
		}
		rollback := func(bi int) {
			b := budgets[bi]
			a := b.acct
			var before types.Currency
			if !closed {
				before = storeBal(a)
			}
			balBefore, berr := am.Balance(rhp3.Account(c04Key(a)))
			wasDone := b.done
			var err error
			panicked := guard("Rollback", func() { err = b.b.Rollback() })
			obs := c04Err(err)
			if panicked {
				obs = "OPanic"
			}
			em.Step(fmt.Sprintf("Rollback %d", bi), obs)
			em.Count("op:Rollback")
			em.Count(fmt.Sprintf("rollback:%s,already-done=%v", obs, wasDone))
			if panicked {
				return
			}
			if !wasDone {
				b.done = true
				evicted(a)
			}
			if !closed {
				after := storeBal(a)
				if !after.Equals(before) {
					monitor("rollback-changed-store-balance", fmt.Sprintf("account %d: %v -> %v", a, before, after))
				}
			}
			if berr == nil && (openCount(a) > 0 || !closed) {
				balAfter, err := am.Balance(rhp3.Account(c04Key(a)))
				if err == nil {
					want := balBefore.Big()
					if !wasDone {
						if openCount(a) > 0 {
							want = new(big.Int).Add(want, b.max.Big())
						} else {
							want = storeBal(a).Big() // nothing reserved any more: the whole balance is spendable
						}
					}
					if balAfter.Big().Cmp(want) != 0 {
						monitor("rollback-did-not-return-funds", fmt.Sprintf("account %d: spendable %v -> %v, reservation %v, already done %v", a, balBefore, balAfter, b.max, wasDone))
					}
				}
			}
			if !closed {
				probe(a)
			} else if openCount(a) > 0 {
				obsBalance(a)
			}
		}
		r4credit := func(deps []proto4.AccountDeposit, idx []int, cok bool) {
			var total types.Currency
			var items []string
			tb := new(big.Int)
			for i, d := range deps {
				if tb.Add(tb, d.Amount.Big()).Cmp(two128) >= 0 { // usage.AccountFunding could not be formed
					deps, idx = deps[:i], idx[:i]
					break
				}
			}
			for i, d := range deps {
				total = total.Add(d.Amount)
				items = append(items, fmt.Sprintf("(%d%%N, %s%%N)", idx[i], d.Amount.ExactString()))
			}
			cid := v2ID
			if !cok {
				cid = missingV2
			}
			var bals []types.Currency
			var err error
			panicked := guard("RHP4CreditAccounts", func() {
				bals, err = db.RHP4CreditAccounts(deps, cid, types.V2FileContract{RevisionNumber: 1, ProofHeight: 100, ExpirationHeight: 200}, proto4.Usage{AccountFunding: total})
			})
			obs := c04Err(err)
			if panicked {
				obs = "OPanic"
			} else if err == nil {
				var bs []string
				for _, b := range bals {
					bs = append(bs, b.ExactString()+"%N")
				}
				obs = "OBals " + coqList(bs)
				for i, d := range deps {
					dep[idx[i]].Add(dep[idx[i]], d.Amount.Big())
				}
				nAccepted++
			}
			em.Step(fmt.Sprintf("R4Credit %s %s %s", coqList(items), total.ExactString(), coqBool(cok)), obs)
			em.Count("op:R4Credit")
			em.Count("r4credit:" + strings.SplitN(obs, " ", 2)[0])
			for _, a := range idx {
				probe(a)
			}
		}
		r4debit := func(a int, amt types.Currency) {
			before := storeBal(a)
			others := openMax(a, nil)
			u := proto4.Usage{}
			switch rng.Intn(4) {
			case 0:
				u.RPC = amt
			case 1:
				u.Storage = amt
			case 2:
				u.Egress = amt
			default:
				u.Ingress = amt
			}
			var err error
			panicked := guard("RHP4DebitAccount", func() { err = db.RHP4DebitAccount(proto4.Account(c04Key(a)), u) })
			obs := c04Err(err)
			if panicked {
				obs = "OPanic"
			}
			em.Step(fmt.Sprintf("R4Debit %d %s", a, amt.ExactString()), obs)
			em.Count("op:R4Debit")
			em.Count("r4debit:" + obs)
			if err == nil && !panicked {
				wd[a].Add(wd[a], amt.Big())
				nAccepted++
				if before.Cmp(amt) < 0 {
					monitor("rhp4-debit-exceeds-balance", fmt.Sprintf("account %d: debit %v, balance %v", a, amt, before))
				} else if openCount(a) > 0 && !amt.IsZero() {
					r4DebitWhileOpen[a] = true // the manager's cached balance of a is now stale
					if amt.Big().Cmp(new(big.Int).Sub(before.Big(), others)) > 0 {
						monitor("rhp4-debit-ignores-open-rhp3-reservations", fmt.Sprintf("account %d: debit %v, balance %v, open RHP3 reservations %v", a, amt, before, others))
					}
				}
			}
			probe(a)
		}
		finalObs := func() {
			for a := 0; a < nAcct; a++ {
				obsBalance(a)
				obsStore(a)
			}
			var keys []proto4.Account
			var ks []string
			for a := nAcct - 1; a >= 0; a-- {
				keys = append(keys, proto4.Account(c04Key(a)))
				ks = append(ks, fmt.Sprintf("%d%%N", a))
			}
			bals, err := db.RHP4AccountBalances(keys)
			if err != nil {
				t.Fatal(err)
			}
			var bs []string
			for _, b := range bals {
				bs = append(bs, b.ExactString()+"%N")
			}
			em.Step("R4Balances "+coqList(ks), "OBals "+coqList(bs))
			obsMetrics()
			obsAccounts()
			if err := db.PruneAccounts(1 << 40); err != nil {
				em.Step("Prune", "(OErr EOther)")
			} else {
				em.Step("Prune", "ODone")
			}
			obsAccounts()
		}
		cur := func(v uint64) types.Currency { return types.NewCurrency64(v) }

		// ---- the cases --------------------------------------------------------------------
		switch id {
		case 0: // metric after an RHP4 debit (witness of the defect repaired by fixes/C04-rhp4-debit-metric.patch)
			setMax(cur(100))
			r4credit([]proto4.AccountDeposit{{Account: proto4.Account(c04Key(0)), Amount: cur(2)}}, []int{0}, true)
			r4debit(0, cur(1))
			finalObs()
		case 1: // stale in-memory balance: budget, RHP4 debit on the same key, second budget (c04_budget_guard_refuted)
			setMax(cur(100))
			r4credit([]proto4.AccountDeposit{{Account: proto4.Account(c04Key(0)), Amount: cur(10)}}, []int{0}, true)
			newBudget(0, cur(8), true)
			r4debit(0, cur(5))
			newBudget(0, cur(2), true)
			spend(0, accounts.Usage{StorageRevenue: cur(8)})
			commit(0, true) // the store re-checks: fails, nothing is deducted
			rollback(0)
			commit(1, true)
			finalObs()
		case 2: // two budgets on one account, failing commit, rollback, double commit
			setMax(cur(100))
			credit(0, cur(50), false, false, true)
			newBudget(0, cur(30), true)
			newBudget(0, cur(20), true)
			newBudget(0, cur(1), true) // nothing left
			spend(0, accounts.Usage{RPCRevenue: cur(10), EgressRevenue: cur(5)})
			spend(1, accounts.Usage{RegistryRead: cur(20)})
			spend(1, accounts.Usage{RegistryWrite: cur(1)}) // over budget
			commit(0, false)
			commit(0, true)
			commit(0, true) // no double spend
			rollback(0)
			rollback(1)
			rollback(1)
			finalObs()
		case 3: // max-balance cap: exact, one over, refund bypasses the cap
			setMax(cur(10))
			credit(1, cur(10), false, false, true)
			credit(1, cur(1), false, false, true)
			credit(1, cur(1), true, false, true)
			credit(1, cur(0), false, false, true)
			credit(2, cur(5), false, true, true)
			credit(2, cur(5), false, false, false)
			finalObs()
		case 4: // overflow near 2^128: Credit panics, nothing is recorded
			huge = true
			setMax(maxCur)
			credit(0, maxCur, false, false, true)
			credit(0, cur(1), false, false, true)
			newBudget(0, maxCur, true)
			spend(0, accounts.Usage{RPCRevenue: maxCur})
			spend(0, accounts.Usage{StorageRevenue: cur(1)})
			commit(0, true)
			finalObs()
		case 5: // commit after the database went away fails, rollback returns the reservation
			setMax(cur(100))
			credit(0, cur(40), false, false, true)
			newBudget(0, cur(10), true)
			newBudget(0, cur(5), true)
			spend(0, accounts.Usage{IngressRevenue: cur(3)})
			obsAccounts()
			db.Close()
			closed = true
			commit(0, true)
			rollback(0)
			commit(1, true)
			rollback(1)
		default:
			caps := []types.Currency{cur(0), cur(10), cur(50), cur(1000), maxCur}
			setMax(caps[rng.Intn(len(caps))])
			amount := func(ref types.Currency) types.Currency {
				// boundary-dense around a reference value
				switch rng.Intn(10) {
				case 0:
					return cur(0)
				case 1:
					return cur(1)
				case 2:
					return ref
				case 3:
					return ref.Add(cur(1))
				case 4:
					if !ref.IsZero() {
						return ref.Sub(cur(1))
					}
					return cur(2)
				case 5:
					return ref.Div64(2)
				case 6:
					if huge {
						return maxCur.Sub(cur(uint64(rng.Intn(3))))
					}
					return cur(uint64(rng.Intn(100)))
				default:
					return cur(uint64(rng.Intn(25)))
				}
			}
			pickBudget := func(preferOpen bool) int {
				if len(budgets) == 0 {
					return -1
				}
				if preferOpen && rng.Intn(5) != 0 {
					var open []int
					for i, b := range budgets {
						if !b.done {
							open = append(open, i)
						}
					}
					if len(open) > 0 {
						return open[rng.Intn(len(open))]
					}
				}
				return rng.Intn(len(budgets))
			}
			steps := 6 + rng.Intn(30)
			for i := 0; i < steps; i++ {
				a := rng.Intn(nAcct)
				if rng.Intn(3) > 0 {
					a = 0 // concentrate on one account so several budgets overlap
				}
				switch r := rng.Intn(100); {
				case r < 18:
					bal, _ := am.Balance(rhp3.Account(c04Key(a)))
					cfg.mu.Lock()
					room := types.ZeroCurrency
					if cfg.max.Cmp(bal) > 0 {
						room = cfg.max.Sub(bal)
					}
					cfg.mu.Unlock()
					if room.Cmp(cur(1000)) > 0 && !huge {
						room = cur(uint64(rng.Intn(40)))
					}
					credit(a, amount(room), rng.Intn(4) == 0, rng.Intn(14) == 0, rng.Intn(14) != 0)
				case r < 36:
					bal, _ := am.Balance(rhp3.Account(c04Key(a)))
					newBudget(a, amount(bal), rng.Intn(15) != 0)
				case r < 52:
					if bi := pickBudget(true); bi >= 0 {
						b := budgets[bi]
						rem := types.ZeroCurrency
						if b.max.Cmp(b.usage.Total()) > 0 {
							rem = b.max.Sub(b.usage.Total())
						}
						spend(bi, c04Split(rng, amount(rem)))
					}
				case r < 57:
					if bi := pickBudget(true); bi >= 0 {
						b := budgets[bi]
						u := b.usage
						switch rng.Intn(4) {
						case 0: // partial
							u = accounts.Usage{RPCRevenue: b.usage.RPCRevenue.Div64(2), EgressRevenue: b.usage.EgressRevenue}
						case 1: // over-refund
							u.IngressRevenue = u.IngressRevenue.Add(cur(1))
						}
						refund(bi, u)
					}
				case r < 70:
					if bi := pickBudget(true); bi >= 0 {
						commit(bi, rng.Intn(6) != 0)
					}
				case r < 78:
					if bi := pickBudget(true); bi >= 0 {
						rollback(bi)
					}
				case r < 86:
					nd := 1 + rng.Intn(3)
					var deps []proto4.AccountDeposit
					var idx []int
					for j := 0; j < nd; j++ {
						x := rng.Intn(nAcct)
						sb := storeBal(x)
						_ = sb
						deps = append(deps, proto4.AccountDeposit{Account: proto4.Account(c04Key(x)), Amount: amount(cur(uint64(rng.Intn(30))))})
						idx = append(idx, x)
					}
					r4credit(deps, idx, rng.Intn(14) != 0)
				case r < 96:
					r4debit(a, amount(storeBal(a)))
				case r < 98:
					setMax(caps[rng.Intn(len(caps))])
				default:
					obsAccounts()
					em.Count("op:Accounts")
				}
			}
			// wind down: a share of the cases loses the database first
			if rng.Intn(5) == 0 {
				obsMetrics()
				db.Close()
				closed = true
				em.Count("case:db-closed-before-wind-down")
			}
			for bi, b := range budgets {
				if b.done {
					continue
				}
				if rng.Intn(2) == 0 {
					commit(bi, true)
				}
				rollback(bi)
			}
			if !closed {
				finalObs()
			}
		}

		if !closed {
			// no reservation is outstanding any more: every view agrees with the store
			allDone := true
			for _, b := range budgets {
				allDone = allDone && b.done
			}
			if allDone {
				for a := 0; a < nAcct; a++ {
					mb, _ := am.Balance(rhp3.Account(c04Key(a)))
					if sb := storeBal(a); !mb.Equals(sb) {
						monitor("balance-views-differ-with-no-open-budget", fmt.Sprintf("account %d: manager %v store %v", a, mb, sb))
					}
				}
			}
			db.Close()
		}
		ro.Close()
		em.EndCase(nAccepted > 0)
	}
}
