//go:build verif

package accounts_test

import (
	"fmt"
	"math/big"
	"os"
	"path/filepath"
	"sync"
	"testing"
	"time"

	rhp3 "go.sia.tech/core/rhp/v3"
	proto4 "go.sia.tech/core/rhp/v4"
	"go.sia.tech/core/types"
	rhp4 "go.sia.tech/coreutils/rhp/v4"
	"go.sia.tech/hostd/v2/host/accounts"
	"go.sia.tech/hostd/v2/host/contracts"
	"go.sia.tech/hostd/v2/persist/sqlite"
	"go.uber.org/zap"
)

// TestVerifC04Race is support for the atomicity assumption of coq/Ledger/Model.v (every
// AccountManager/Budget method is one step): goroutines hammer one real AccountManager with
// credits, budgets, spends, commits and rollbacks on shared accounts; afterwards the persisted
// balances must equal accepted deposits minus committed withdrawals, nothing may be reserved any
// more and the metrics must equal the sums.  Run under -race in the thorough tier.  It is a
// stress test, not a proof; it records no cases for the model.
func TestVerifC04Race(t *testing.T) {
	em := newVerifEmitter(t, "From HostdBase Require Import Base.\nFrom HostdLedger Require Import Model.", "case", "check")
	defer em.Close()

	const nAcct, nWorkers = 3, 8
	rounds := verifN(2)
	opsPerWorker := 40
	if os.Getenv("VERIF_TIER") == "thorough" {
		opsPerWorker = 150
	}
	for round := 0; round < rounds; round++ {
		if em.Skip(round) {
			continue
		}
		em.BeginCase(round, "concurrent ledger stress")
		dir := filepath.Join(t.TempDir(), fmt.Sprintf("c04race_%d", round))
		os.MkdirAll(dir, 0o755)
		db, err := sqlite.OpenDatabase(filepath.Join(dir, "hostd.db"), zap.NewNop())
		if err != nil {
			t.Fatal(err)
		}
		rev := c04Rev(1)
		if err := db.AddContract(rev, []types.Transaction{{}}, types.Siacoins(1), contracts.Usage{}, 1); err != nil {
			t.Fatal(err)
		}
		cfg := &c04Settings{max: types.NewCurrency64(1 << 40)}
		am := accounts.NewManager(db, cfg)

		var mu sync.Mutex
		dep := make([]*big.Int, nAcct)
		wd := make([]*big.Int, nAcct)
		for i := range dep {
			dep[i], wd[i] = new(big.Int), new(big.Int)
		}
		var wg sync.WaitGroup
		panics := make(chan string, nWorkers)
		for w := 0; w < nWorkers; w++ {
			wg.Add(1)
			go func(w int) {
				defer wg.Done()
				defer func() {
					if r := recover(); r != nil {
						panics <- fmt.Sprint(r)
					}
				}()
				rng := verifCaseRand(round*1000 + w + 1)
				for i := 0; i < opsPerWorker; i++ {
					a := rng.Intn(nAcct)
					acct := rhp3.Account(c04Key(a))
					switch rng.Intn(10) {
					case 0, 1, 2:
						amt := types.NewCurrency64(uint64(rng.Intn(50)))
						if _, err := am.Credit(accounts.FundAccountWithContract{Account: acct, Cost: types.NewCurrency64(1), Amount: amt,
							Revision: rev, Expiration: time.Now().Add(time.Hour)}, rng.Intn(2) == 0); err == nil {
							mu.Lock()
							dep[a].Add(dep[a], amt.Big())
							mu.Unlock()
						}
					case 3:
						am.Balance(acct)
					default:
						max := types.NewCurrency64(uint64(rng.Intn(30)))
						b, err := am.Budget(acct, max)
						if err != nil {
							continue
						}
						spent := types.ZeroCurrency
						for k := rng.Intn(3); k > 0; k-- {
							u := accounts.Usage{EgressRevenue: types.NewCurrency64(uint64(rng.Intn(12)))}
							if b.Spend(u) == nil {
								spent = spent.Add(u.EgressRevenue)
							}
						}
						if rng.Intn(3) > 0 {
							if err := b.Commit(); err == nil {
								mu.Lock()
								wd[a].Add(wd[a], spent.Big())
								mu.Unlock()
							}
						}
						b.Rollback()
					}
				}
			}(w)
		}
		wg.Wait()

		// second phase, RHP4: concurrent deposits into and withdrawals from store-level accounts
		// (distinct keys from the RHP3 phase).  Every accepted call is one atomic step: the final
		// balance is deposits minus accepted withdrawals, never negative, whatever the schedule.
		const nAcct4 = 2
		v2ID := types.FileContractID{0xC2, 1}
		if err := db.AddV2Contract(contracts.V2Contract{ID: v2ID, V2FileContract: types.V2FileContract{ProofHeight: 100, ExpirationHeight: 200}}, rhp4.TransactionSet{}); err != nil {
			t.Fatal(err)
		}
		dep4 := make([]*big.Int, nAcct4)
		wd4 := make([]*big.Int, nAcct4)
		for i := range dep4 {
			dep4[i], wd4[i] = new(big.Int), new(big.Int)
		}
		for w := 0; w < nWorkers; w++ {
			wg.Add(1)
			go func(w int) {
				defer wg.Done()
				defer func() {
					if r := recover(); r != nil {
						panics <- fmt.Sprint(r)
					}
				}()
				rng := verifCaseRand(round*1000 + 500 + w)
				for i := 0; i < opsPerWorker; i++ {
					a := rng.Intn(nAcct4)
					acct := proto4.Account(c04Key(100 + a))
					if rng.Intn(4) == 0 {
						amt := types.NewCurrency64(uint64(1 + rng.Intn(20)))
						if _, err := db.RHP4CreditAccounts([]proto4.AccountDeposit{{Account: acct, Amount: amt}}, v2ID,
							types.V2FileContract{RevisionNumber: 1, ProofHeight: 100, ExpirationHeight: 200}, proto4.Usage{AccountFunding: amt}); err == nil {
							mu.Lock()
							dep4[a].Add(dep4[a], amt.Big())
							mu.Unlock()
						}
					} else {
						amt := types.NewCurrency64(uint64(1 + rng.Intn(6)))
						if err := db.RHP4DebitAccount(acct, proto4.Usage{Egress: amt}); err == nil {
							mu.Lock()
							wd4[a].Add(wd4[a], amt.Big())
							mu.Unlock()
						}
					}
				}
			}(w)
		}
		wg.Wait()
		close(panics)
		for p := range panics {
			em.Monitor("concurrent-ledger-op-panics", p)
		}
		sum := new(big.Int)
		for a := 0; a < nAcct4; a++ {
			sb, err := db.RHP4AccountBalance(proto4.Account(c04Key(100 + a)))
			if err != nil {
				t.Fatal(err)
			}
			want := new(big.Int).Sub(dep4[a], wd4[a])
			if want.Sign() < 0 || sb.Big().Cmp(want) != 0 {
				em.Monitor("concurrent-balance-differs-from-deposits-minus-withdrawals", fmt.Sprintf("rhp4 account %d: balance %v, deposits %v, accepted withdrawals %v", a, sb, dep4[a], wd4[a]))
			}
			sum.Add(sum, sb.Big())
		}
		for a := 0; a < nAcct; a++ {
			sb, err := db.AccountBalance(rhp3.Account(c04Key(a)))
			if err != nil {
				t.Fatal(err)
			}
			mb, _ := am.Balance(rhp3.Account(c04Key(a)))
			want := new(big.Int).Sub(dep[a], wd[a])
			if want.Sign() < 0 || sb.Big().Cmp(want) != 0 {
				em.Monitor("concurrent-balance-differs-from-deposits-minus-withdrawals", fmt.Sprintf("account %d: balance %v, deposits %v, withdrawals %v", a, sb, dep[a], wd[a]))
			}
			if !mb.Equals(sb) {
				em.Monitor("concurrent-reservation-leaked", fmt.Sprintf("account %d: spendable %v, balance %v with no open budget", a, mb, sb))
			}
			sum.Add(sum, sb.Big())
		}
		m, err := db.Metrics(time.Now().Add(time.Hour))
		if err != nil {
			t.Fatal(err)
		}
		if m.Accounts.Balance.Big().Cmp(sum) != 0 {
			em.Monitor("concurrent-balance-metric-differs-from-sum-of-balances", fmt.Sprintf("metric %v sum %v", m.Accounts.Balance, sum))
		}
		em.Count("race:rounds")
		em.Count(fmt.Sprintf("race:workers=%d,ops=%d", nWorkers, opsPerWorker))
		em.EndCase(true)
		db.Close()
	}
}
