//go:build verif

package settings_test

import (
	"fmt"
	"math/rand"
	"os"
	"path/filepath"
	"sort"
	"testing"
	"time"

	"go.sia.tech/core/consensus"
	"go.sia.tech/core/types"
	"go.sia.tech/coreutils"
	"go.sia.tech/coreutils/chain"
	"go.sia.tech/coreutils/wallet"
	"go.sia.tech/hostd/v2/host/contracts"
	"go.sia.tech/hostd/v2/host/settings"
	"go.sia.tech/hostd/v2/host/storage"
	"go.sia.tech/hostd/v2/index"
	"go.sia.tech/hostd/v2/internal/testutil"
	"go.sia.tech/hostd/v2/persist/sqlite"
	"go.uber.org/zap"
)

// Real-chain driver for C16: a complete host node (wallet, contract manager, ConfigManager and
// the real index.Manager) on a test network that passes from v1 to v2, with mined payouts,
// wallet transactions, v1/v2 announcements and reorgs built on a scratch chain manager.

type c16RealBlock struct {
	idx     types.ChainIndex
	parent  types.ChainIndex
	ts      uint64
	created []c16Elem
	spent   []c16Elem
	events  []c16Event // filled from the linear replay
	haveEv  bool
	v1      []c16Ann1
	v2      []c16Ann2
	blk     types.Block
}

type c16Chain struct {
	t   *testing.T
	em  *verifEmitter
	rng *rand.Rand
	env *c16Env // numbering helpers shared with the store-level harness

	network *consensus.Network
	genesis types.Block
	cn      *testutil.ConsensusNode
	db      *sqlite.Store
	cm      *chain.Manager
	w       *wallet.SingleAddressWallet
	sm      *settings.ConfigManager
	idx     *index.Manager
	hostKey types.PrivateKey

	batchSize int
	processed types.ChainIndex

	elemNo  map[types.SiacoinOutputID]uint64
	eventNo map[types.Hash256]uint64
	blocks  map[types.BlockID]*c16RealBlock

	// linear replay of the best chain on a second store (apply path only)
	refDir string
	refDB  *sqlite.Store
	refW   *wallet.SingleAddressWallet
	refTip types.ChainIndex
	refN   int

	maturityEdge bool
	nReorgs      int
	nAnnounced   int
	nBlocks      int
}

func c16NewChain(t *testing.T, em *verifEmitter, rng *rand.Rand, batchSize int) *c16Chain {
	network, genesis := testutil.V1Network()
	network.HardforkV2.AllowHeight = 30
	network.HardforkV2.RequireHeight = 45
	seed := make([]byte, 32)
	rng.Read(seed)
	hostKey := types.NewPrivateKeyFromSeed(seed)
	log := zap.NewNop()
	cn := testutil.NewConsensusNode(t, network, genesis, log)
	wm, err := wallet.NewSingleAddressWallet(hostKey, cn.Chain, cn.Store)
	if err != nil {
		t.Fatal(err)
	}
	t.Cleanup(func() { wm.Close() })
	vm, err := storage.NewVolumeManager(cn.Store)
	if err != nil {
		t.Fatal(err)
	}
	t.Cleanup(func() { vm.Close() })
	cman, err := contracts.NewManager(cn.Store, vm, cn.Chain, cn.Syncer, wm, contracts.WithRejectAfter(10), contracts.WithRevisionSubmissionBuffer(5))
	if err != nil {
		t.Fatal(err)
	}
	t.Cleanup(func() { cman.Close() })
	initial := settings.DefaultSettings
	initial.NetAddress = "foo.bar"
	sm, err := settings.NewConfigManager(hostKey, cn.Store, cn.Chain, cn.Syncer, vm, wm, settings.WithAnnounceInterval(uint64(6+rng.Intn(10))), settings.WithValidateNetAddress(false), settings.WithInitialSettings(initial))
	if err != nil {
		t.Fatal(err)
	}
	t.Cleanup(func() { sm.Close() })
	idx, err := index.NewManager(cn.Store, cn.Chain, cman, wm, sm, vm, index.WithBatchSize(batchSize))
	if err != nil {
		t.Fatal(err)
	}
	t.Cleanup(func() { idx.Close() })

	env := &c16Env{t: t, em: em, hostKey: hostKey, walletAd: wm.Address(),
		blockNo: map[types.BlockID]int{}, addrNo: map[string]int{}, hashNo: map[types.Hash256]int{}}
	env.blockNum(types.BlockID{}) // the zero index is number 0
	c := &c16Chain{t: t, em: em, rng: rng, env: env, network: network, genesis: genesis, cn: cn, db: cn.Store, cm: cn.Chain, w: wm, sm: sm, idx: idx,
		hostKey: hostKey, batchSize: batchSize, elemNo: map[types.SiacoinOutputID]uint64{}, eventNo: map[types.Hash256]uint64{},
		blocks: map[types.BlockID]*c16RealBlock{}, refDir: t.TempDir()}
	return c
}

func (c *c16Chain) elemNum(id types.SiacoinOutputID) uint64 {
	if n, ok := c.elemNo[id]; ok {
		return n
	}
	n := uint64(len(c.elemNo) + 1)
	c.elemNo[id] = n
	return n
}

func (c *c16Chain) eventNum(id types.Hash256) uint64 {
	if n, ok := c.eventNo[id]; ok {
		return n
	}
	n := uint64(len(c.eventNo) + 1)
	c.eventNo[id] = n
	return n
}

// blockInfo derives what the update transaction will be handed for a block (as coreutils'
// wallet and hostd's ConfigManager read it off the consensus update).
func (c *c16Chain) blockInfo(cau chain.ApplyUpdate) *c16RealBlock {
	id := cau.State.Index.ID
	if b, ok := c.blocks[id]; ok {
		return b
	}
	b := &c16RealBlock{idx: cau.State.Index, ts: uint64(cau.Block.Timestamp.Unix()), blk: cau.Block}
	if cau.State.Index.Height > 0 {
		b.parent = types.ChainIndex{Height: cau.State.Index.Height - 1, ID: cau.Block.ParentID}
	}
	for _, d := range cau.SiacoinElementDiffs() {
		if (d.Created && d.Spent) || d.SiacoinElement.SiacoinOutput.Address != c.w.Address() {
			continue
		}
		x := c16Elem{id: c.elemNum(d.SiacoinElement.ID), val: d.SiacoinElement.SiacoinOutput.Value, mat: d.SiacoinElement.MaturityHeight}
		if d.Created {
			b.created = append(b.created, x)
		} else {
			b.spent = append(b.spent, x)
		}
	}
	pk := c.hostKey.PublicKey()
	chain.ForEachHostAnnouncement(cau.Block, func(a chain.HostAnnouncement) {
		k := 1
		if a.PublicKey == pk {
			k = 0
		}
		b.v1 = append(b.v1, c16Ann1{kind: k, addr: a.NetAddress})
	})
	chain.ForEachV2HostAnnouncement(cau.Block, func(hk types.PublicKey, addrs []chain.NetAddress) {
		b.v2 = append(b.v2, c16Ann2{host: hk == pk, addrs: addrs})
	})
	c.env.blockNum(id)
	c.blocks[id] = b
	return b
}

func (b *c16RealBlock) hostAnnounced() bool {
	for _, a := range b.v1 {
		if a.kind == 0 {
			return true
		}
	}
	for _, a := range b.v2 {
		if a.host {
			return true
		}
	}
	return false
}

// replay brings the reference store to the chain manager's tip using applies only; when the
// best chain no longer extends what was replayed, it starts again from genesis on a new store.
func (c *c16Chain) replay() {
	tip := c.cm.Tip()
	if c.refDB != nil {
		if bi, ok := c.cm.BestIndex(c.refTip.Height); !ok || bi != c.refTip {
			c.refW.Close()
			c.refDB.Close()
			c.refDB = nil
		}
	}
	if c.refDB == nil {
		c.refN++
		db, err := sqlite.OpenDatabase(filepath.Join(c.refDir, fmt.Sprintf("ref%d.db", c.refN)), zap.NewNop())
		if err != nil {
			c.t.Fatal(err)
		}
		w, err := wallet.NewSingleAddressWallet(c.hostKey, c.cm, db)
		if err != nil {
			c.t.Fatal(err)
		}
		c.refDB, c.refW, c.refTip = db, w, types.ChainIndex{}
		c.em.Count("reference:replayed-from-genesis")
	}
	for c.refTip != tip {
		reverted, applied, err := c.cm.UpdatesSince(c.refTip, 100)
		if err != nil || len(reverted) > 0 {
			c.t.Fatalf("reference replay: %v (%d reverts)", err, len(reverted))
		}
		err = c.refDB.UpdateChainState(func(tx index.UpdateTx) error {
			if err := c.refW.UpdateChainState(tx, nil, applied); err != nil {
				return err
			}
			return tx.SetLastIndex(applied[len(applied)-1].State.Index)
		})
		if err != nil {
			c.t.Fatalf("reference replay failed: %v", err)
		}
		for _, cau := range applied {
			c.blockInfo(cau)
		}
		c.refTip = applied[len(applied)-1].State.Index
	}
	// events per block, from the replay
	evs, err := c.refDB.WalletEvents(0, 1000000)
	if err != nil {
		c.t.Fatal(err)
	}
	per := map[types.BlockID][]c16Event{}
	for _, ev := range evs {
		per[ev.Index.ID] = append(per[ev.Index.ID], c16Event{id: c.eventNum(ev.ID), mat: ev.MaturityHeight})
	}
	for h := uint64(0); h <= tip.Height; h++ {
		bi, _ := c.cm.BestIndex(h)
		if b, ok := c.blocks[bi.ID]; ok && !b.haveEv {
			b.events = per[bi.ID]
			sort.Slice(b.events, func(i, j int) bool { return b.events[i].id < b.events[j].id })
			b.haveEv = true
		}
	}
}

func (c *c16Chain) coqABlock(b *c16RealBlock) string {
	var evs, v1, v2 []string
	for _, ev := range b.events {
		evs = append(evs, c.env.coqEvent(ev.id, b.idx, ev.mat))
	}
	for _, a := range b.v1 {
		v1 = append(v1, fmt.Sprintf("(%s, %d%%N)", coqBool(a.kind == 0), c.env.addrNum(a.addr)))
	}
	for _, a := range b.v2 {
		v2 = append(v2, fmt.Sprintf("(%s, %d%%N, %s)", coqBool(a.host), c.env.hashNum(c16AddrHash(a.addrs)), coqBool(len(a.addrs) > 0)))
	}
	return fmt.Sprintf("{| ab_idx := %s; ab_ts := %d; ab_created := %s; ab_spent := %s; ab_events := %s; ab_v1 := %s; ab_v2 := %s |}",
		c.env.coqIdx(b.idx), b.ts, c16CoqElems(b.created), c16CoqElems(b.spent), coqList(evs), coqList(v1), coqList(v2))
}

func (c *c16Chain) coqRBlock(b *c16RealBlock) string {
	return fmt.Sprintf("{| rb_idx := %s; rb_parent := %s; rb_ts := %d; rb_removed := %s; rb_unspent := %s |}",
		c.env.coqIdx(b.idx), c.env.coqIdx(b.parent), b.ts, c16CoqElems(b.created), c16CoqElems(b.spent))
}

// settle waits for the index manager, then records the batches it must have processed (the
// chain manager received all new blocks in one AddBlocks call, so syncDB's UpdatesSince
// sequence from the previously processed tip is determined) and evaluates the monitors.
func (c *c16Chain) settle() {
	deadline := time.Now().Add(60 * time.Second)
	for c.idx.Tip() != c.cm.Tip() {
		if time.Now().After(deadline) {
			c.em.Monitor("index-manager-does-not-reach-chain-tip", fmt.Sprintf("index %v chain %v", c.idx.Tip(), c.cm.Tip()))
			c.t.Fatalf("index manager stuck at %v, chain tip %v", c.idx.Tip(), c.cm.Tip())
		}
		time.Sleep(time.Millisecond)
	}
	c.replay()
	prevAnn, _ := c.db.LastAnnouncement()
	_ = prevAnn
	from := c.processed
	for from != c.cm.Tip() {
		reverted, applied, err := c.cm.UpdatesSince(from, c.batchSize)
		if err != nil {
			c.t.Fatal(err)
		}
		var rs, as []string
		for _, cru := range reverted {
			b := c.blocks[cru.Block.ID()]
			if b == nil {
				c.t.Fatalf("reverted block %v unknown to the harness", cru.Block.ID())
			}
			rs = append(rs, c.coqRBlock(b))
			c.note(b)
		}
		for _, cau := range applied {
			b := c.blockInfo(cau)
			as = append(as, c.coqABlock(b))
			c.note(b)
		}
		if len(applied) > 0 {
			from = applied[len(applied)-1].State.Index
		} else {
			from = reverted[len(reverted)-1].State.Index
		}
		obs := "OSkip" // the outcome of an intermediate batch is not observable from outside
		if from == c.cm.Tip() {
			obs = "ODone COk"
		}
		c.em.Step(fmt.Sprintf("Batch %s %s", coqList(rs), coqList(as)), obs)
		c.em.Count(fmt.Sprintf("batch:reverts=%s,applies=%s", c16Bin(len(reverted)), c16Bin(len(applied))))
		if len(reverted) > 0 {
			c.nReorgs++
		}
	}
	c.processed = c.cm.Tip()
	c.check()
}

func (c *c16Chain) note(b *c16RealBlock) {
	for _, x := range b.created {
		if x.mat == b.idx.Height {
			c.maturityEdge = true
		}
	}
	for _, x := range b.spent {
		if x.mat == b.idx.Height {
			c.maturityEdge = true
			c.em.Count("block:spends-output-at-its-maturity-height")
		}
	}
}

func (c *c16Chain) sig(base string) string {
	if c.maturityEdge {
		return base + "-after-output-created-or-spent-at-its-maturity-height"
	}
	return base
}

// check compares the host's store and wallet with the linear replay of the best chain and
// with a recomputation from the store's own unspent outputs.
func (c *c16Chain) check() {
	em := c.em
	tip := c.cm.Tip()
	now := uint64(time.Now().Unix()) + 100000

	obsOf := func(db *sqlite.Store) (us []c16Elem, evs []c16Event, evIdx map[uint64]types.ChainIndex, bal, imm types.Currency) {
		raw, err := db.UnspentSiacoinElements()
		if err != nil {
			c.t.Fatal(err)
		}
		for _, u := range raw {
			us = append(us, c16Elem{id: c.elemNum(u.ID), val: u.SiacoinOutput.Value, mat: u.MaturityHeight})
		}
		sort.Slice(us, func(i, j int) bool { return us[i].id < us[j].id })
		revs, err := db.WalletEvents(0, 1000000)
		if err != nil {
			c.t.Fatal(err)
		}
		evIdx = map[uint64]types.ChainIndex{}
		for _, ev := range revs {
			n := c.eventNum(ev.ID)
			evs = append(evs, c16Event{id: n, mat: ev.MaturityHeight})
			evIdx[n] = ev.Index
		}
		sort.Slice(evs, func(i, j int) bool { return evs[i].id < evs[j].id })
		m, err := db.Metrics(time.Unix(int64(now), 0))
		if err != nil {
			c.t.Fatal(err)
		}
		return us, evs, evIdx, m.Wallet.Balance, m.Wallet.ImmatureBalance
	}
	us, evs, evIdx, bal, imm := obsOf(c.db)
	rus, revs, revIdx, rbal, rimm := obsOf(c.refDB)

	same := len(us) == len(rus)
	for i := 0; same && i < len(us); i++ {
		same = us[i].id == rus[i].id && us[i].val.Equals(rus[i].val) && us[i].mat == rus[i].mat
	}
	if !same {
		em.Monitor("utxo-set-differs-from-best-chain", fmt.Sprintf("stored %d outputs, linear replay of the best chain %d", len(us), len(rus)))
	}
	same = len(evs) == len(revs)
	for i := 0; same && i < len(evs); i++ {
		same = evs[i].id == revs[i].id && evIdx[evs[i].id] == revIdx[revs[i].id]
	}
	if !same {
		em.Monitor("event-list-differs-from-best-chain", fmt.Sprintf("stored %d events, linear replay of the best chain %d", len(evs), len(revs)))
	}
	var mature, immature types.Currency
	for _, u := range us {
		if u.mat <= tip.Height {
			mature = mature.Add(u.val)
		} else {
			immature = immature.Add(u.val)
		}
	}
	if !mature.Equals(bal) {
		em.Monitor(c.sig("wallet-balance-metric-differs-from-mature-outputs"), fmt.Sprintf("metric %v, outputs with maturity <= %d: %v (replay metric %v)", bal.ExactString(), tip.Height, mature.ExactString(), rbal.ExactString()))
	}
	if !immature.Equals(imm) {
		em.Monitor(c.sig("wallet-immature-metric-differs-from-immature-outputs"), fmt.Sprintf("metric %v, outputs with maturity > %d: %v (replay metric %v)", imm.ExactString(), tip.Height, immature.ExactString(), rimm.ExactString()))
	}
	// the wallet's own view
	wb, err := c.w.Balance()
	if err != nil {
		c.t.Fatal(err)
	}
	if !wb.Confirmed.Equals(mature) || !wb.Immature.Equals(immature) {
		em.Monitor("wallet-balance-differs-from-best-chain", fmt.Sprintf("confirmed %v immature %v, derived %v / %v", wb.Confirmed, wb.Immature, mature, immature))
	}
	if !wb.Confirmed.Equals(bal) || !wb.Immature.Equals(imm) {
		em.Monitor(c.sig("wallet-metric-differs-from-wallet-balance"), fmt.Sprintf("wallet %v/%v metrics %v/%v", wb.Confirmed, wb.Immature, bal, imm))
	}
	spendable, err := c.w.SpendableOutputs()
	if err != nil {
		c.t.Fatal(err)
	}
	for _, sce := range spendable {
		if sce.MaturityHeight > tip.Height {
			em.Monitor("immature-output-reported-spendable", fmt.Sprintf("maturity %d tip %d", sce.MaturityHeight, tip.Height))
		}
	}
	// announcement record
	ann, err := c.db.LastAnnouncement()
	if err != nil {
		c.t.Fatal(err)
	}
	h, hidx, err := c.db.LastV2AnnouncementHash()
	if err != nil {
		c.t.Fatal(err)
	}
	if ann.Index != (types.ChainIndex{}) {
		bi, ok := c.cm.BestIndex(ann.Index.Height)
		if !ok || bi != ann.Index {
			em.Monitor("announcement-refers-to-block-not-on-best-chain", fmt.Sprintf("record %v, tip %v", ann.Index, tip))
		} else if b := c.blocks[ann.Index.ID]; b == nil || !b.hostAnnounced() {
			em.Monitor("announcement-refers-to-block-without-host-announcement", fmt.Sprintf("record %v", ann.Index))
		} else {
			c.nAnnounced++
		}
	}
	if ann.Index == (types.ChainIndex{}) && (ann.Address != "" || h != (types.Hash256{})) {
		em.Monitor("announcement-address-or-hash-kept-after-record-cleared", fmt.Sprintf("index empty, address %q hash %v", ann.Address, h))
	}
	storeTip, err := c.db.Tip()
	if err != nil {
		c.t.Fatal(err)
	}
	if storeTip != tip {
		em.Monitor("tip-marker-differs-from-processed-tip", fmt.Sprintf("marker %v, tip %v", storeTip, tip))
	}

	var evTerms []string
	for _, ev := range evs {
		evTerms = append(evTerms, c.env.coqEvent(ev.id, evIdx[ev.id], ev.mat))
	}
	aa, ah := "None", "None"
	if ann.Address != "" {
		aa = fmt.Sprintf("(Some %d%%N)", c.env.addrNum(ann.Address))
	}
	if h != (types.Hash256{}) {
		ah = fmt.Sprintf("(Some %d%%N)", c.env.hashNum(h))
	}
	_ = hidx
	em.Step(fmt.Sprintf("Observe %d", now), fmt.Sprintf("OState %s %s %s %s %s %s %s %s", c16CoqElems(us), coqList(evTerms), bal.ExactString(), imm.ExactString(),
		c.env.coqOptIdx(ann.Index), aa, ah, c.env.coqOptIdx(storeTip)))
}

// ---- actions ----------------------------------------------------------------------------------------

// mineOn mines n blocks (the first carries the pool's transactions) and hands them to the
// chain manager in one call.
func (c *c16Chain) mine(n int, addr types.Address) {
	first, ok := coreutils.MineBlock(c.cm, addr, 5*time.Second)
	if !ok {
		c.t.Fatal("failed to mine")
	}
	blocks := []types.Block{first}
	if n > 1 {
		scratch := c.scratch(c.cm.Tip().Height)
		if err := scratch.AddBlocks(blocks); err != nil {
			c.t.Fatal(err)
		}
		for i := 1; i < n; i++ {
			b, ok := coreutils.MineBlock(scratch, addr, 5*time.Second)
			if !ok {
				c.t.Fatal("failed to mine")
			}
			if err := scratch.AddBlocks([]types.Block{b}); err != nil {
				c.t.Fatal(err)
			}
			blocks = append(blocks, b)
		}
	}
	if err := c.cm.AddBlocks(blocks); err != nil {
		c.t.Fatal(err)
	}
	c.nBlocks += n
	c.settle()
}

// scratch returns a chain manager holding the best chain up to the given height
func (c *c16Chain) scratch(height uint64) *chain.Manager {
	store, tipState, err := chain.NewDBStore(chain.NewMemDB(), c.network, c.genesis, nil)
	if err != nil {
		c.t.Fatal(err)
	}
	scratch := chain.NewManager(store, tipState)
	var prefix []types.Block
	for h := uint64(1); h <= height; h++ {
		bi, _ := c.cm.BestIndex(h)
		b, ok := c.cm.Block(bi.ID)
		if !ok {
			c.t.Fatal("missing block")
		}
		prefix = append(prefix, b)
	}
	if err := scratch.AddBlocks(prefix); err != nil {
		c.t.Fatal(err)
	}
	return scratch
}

func (c *c16Chain) reorg(depth, extra int) {
	tip := c.cm.Tip()
	if uint64(depth) >= tip.Height {
		depth = int(tip.Height) - 1
	}
	if depth < 1 {
		return
	}
	scratch := c.scratch(tip.Height - uint64(depth))
	addr := types.VoidAddress
	if c.rng.Intn(2) == 0 {
		addr = c.w.Address()
	}
	var branch []types.Block
	for i := 0; i < depth+extra; i++ {
		b, ok := coreutils.MineBlock(scratch, addr, 5*time.Second)
		if !ok {
			c.t.Fatal("failed to mine")
		}
		if err := scratch.AddBlocks([]types.Block{b}); err != nil {
			c.t.Fatal(err)
		}
		branch = append(branch, b)
	}
	if err := c.cm.AddBlocks(branch); err != nil {
		c.t.Fatal(err)
	}
	if c.cm.Tip() == tip {
		c.em.Count("reorg:branch-not-heavier")
		return
	}
	c.em.Count(fmt.Sprintf("op:reorg depth=%s", c16Bin(depth)))
	c.settle()
}

// send moves coins from the wallet to the void or back to itself
func (c *c16Chain) send() {
	cs := c.cm.TipState()
	amount := types.Siacoins(uint32(1 + c.rng.Intn(50)))
	dest := types.VoidAddress
	if c.rng.Intn(2) == 0 {
		dest = c.w.Address()
	}
	if cs.Index.Height+1 < c.network.HardforkV2.RequireHeight {
		txn := types.Transaction{SiacoinOutputs: []types.SiacoinOutput{{Address: dest, Value: amount}}}
		toSign, err := c.w.FundTransaction(&txn, amount, false)
		if err != nil {
			c.em.Count("send:cannot-fund")
			return
		}
		c.w.SignTransaction(&txn, toSign, types.CoveredFields{WholeTransaction: true})
		if _, err := c.cm.AddPoolTransactions([]types.Transaction{txn}); err != nil {
			c.w.ReleaseInputs([]types.Transaction{txn}, nil)
			c.em.Count("send:pool-refused")
			return
		}
		c.em.Count("op:send-v1")
		return
	}
	txn := types.V2Transaction{SiacoinOutputs: []types.SiacoinOutput{{Address: dest, Value: amount}}}
	basis, toSign, err := c.w.FundV2Transaction(&txn, amount, false)
	if err != nil {
		c.em.Count("send:cannot-fund")
		return
	}
	c.w.SignV2Inputs(&txn, toSign)
	if _, err := c.cm.AddV2PoolTransactions(basis, []types.V2Transaction{txn}); err != nil {
		c.w.ReleaseInputs(nil, []types.V2Transaction{txn})
		c.em.Count("send:pool-refused")
		return
	}
	c.em.Count("op:send-v2")
}

// spendAtMaturity spends, in the next block, an output whose maturity height is that block's height.
func (c *c16Chain) spendAtMaturity() bool {
	cs := c.cm.TipState()
	us, err := c.db.UnspentSiacoinElements()
	if err != nil {
		c.t.Fatal(err)
	}
	for _, u := range us {
		if u.MaturityHeight != cs.Index.Height+1 {
			continue
		}
		if cs.Index.Height+1 < c.network.HardforkV2.RequireHeight {
			txn := types.Transaction{
				SiacoinInputs:  []types.SiacoinInput{{ParentID: u.ID, UnlockConditions: types.StandardUnlockConditions(c.hostKey.PublicKey())}},
				SiacoinOutputs: []types.SiacoinOutput{{Address: types.VoidAddress, Value: u.SiacoinOutput.Value}},
				Signatures:     []types.TransactionSignature{{ParentID: types.Hash256(u.ID), CoveredFields: types.CoveredFields{WholeTransaction: true}}},
			}
			sig := c.hostKey.SignHash(cs.WholeSigHash(txn, types.Hash256(u.ID), 0, 0, nil))
			txn.Signatures[0].Signature = sig[:]
			if _, err := c.cm.AddPoolTransactions([]types.Transaction{txn}); err != nil {
				c.em.Count("spend-at-maturity:pool-refused")
				return false
			}
		} else {
			txn := types.V2Transaction{
				SiacoinInputs:  []types.V2SiacoinInput{{Parent: u.Copy(), SatisfiedPolicy: types.SatisfiedPolicy{Policy: c.w.SpendPolicy()}}},
				SiacoinOutputs: []types.SiacoinOutput{{Address: types.VoidAddress, Value: u.SiacoinOutput.Value}},
			}
			txn.SiacoinInputs[0].SatisfiedPolicy.Signatures = []types.Signature{c.hostKey.SignHash(cs.InputSigHash(txn))}
			if _, err := c.cm.AddV2PoolTransactions(c.processed, []types.V2Transaction{txn}); err != nil {
				c.em.Count("spend-at-maturity:pool-refused")
				return false
			}
		}
		c.em.Count("op:spend-at-maturity-height")
		return true
	}
	return false
}

func (c *c16Chain) setAddress() {
	s := c.sm.Settings()
	s.NetAddress = []string{"foo.bar", "baz.qux", "host.example"}[c.rng.Intn(3)]
	if err := c.sm.UpdateSettings(s); err != nil {
		c.t.Fatal(err)
	}
	c.em.Count("op:change-net-address")
}

func TestVerifC16Chain(t *testing.T) {
	em := newVerifEmitter(t, "From HostdBase Require Import Base.\nFrom HostdWallet Require Import Model.", "case", "check")
	defer em.Close()
	thorough := os.Getenv("VERIF_TIER") == "thorough"
	cases := verifN(2)

	id := 0
	run := func(desc string, batchSize int, body func(c *c16Chain)) {
		defer func() { id++ }()
		if em.Skip(id) {
			return
		}
		c := c16NewChain(t, em, verifCaseRand(id), batchSize)
		em.BeginCase(id, desc)
		body(c)
		em.Count(fmt.Sprintf("case:blocks=%s", c16Bin(c.nBlocks)))
		em.EndCase(c.nReorgs > 0 && c.nAnnounced > 0)
	}

	// directed 0: the host announces; the tip block alone (holding the announcement) is disconnected;
	// later the block after a new announcement alone is disconnected
	run("directed: disconnect the announcement block / the block after it", 1, func(c *c16Chain) {
		c.mine(int(c.network.MaturityDelay)+2, c.w.Address()) // funds mature, the host announces into the pool
		for i := 0; i < 6; i++ {
			c.mine(1, types.VoidAddress)
			if ann, _ := c.db.LastAnnouncement(); ann.Index == c.cm.Tip() {
				break
			}
		}
		c.reorg(1, 1) // the tip block alone
		c.mine(2, types.VoidAddress)
		for i := 0; i < 12; i++ {
			c.mine(1, types.VoidAddress)
			if ann, _ := c.db.LastAnnouncement(); ann.Index == c.cm.Tip() {
				c.mine(1, types.VoidAddress)
				c.reorg(1, 1) // the block after the announcement alone
				break
			}
		}
		c.mine(1, types.VoidAddress)
	})
	// directed 1: an output spent at its maturity height, then the spending block is disconnected
	run("directed: payout spent at its maturity height", 2, func(c *c16Chain) {
		c.mine(int(c.network.MaturityDelay), c.w.Address())
		if c.spendAtMaturity() {
			c.mine(1, types.VoidAddress)
			c.reorg(1, 1)
		}
		c.mine(3, c.w.Address())
		if c.spendAtMaturity() {
			c.mine(2, types.VoidAddress)
		}
		c.reorg(3, 1)
		c.mine(2, types.VoidAddress)
	})
	for i := 0; i < cases; i++ {
		bs := []int{1, 2, 3, 100}[i%4]
		run("generated wallet/announcement history on a real chain", bs, func(c *c16Chain) {
			steps := 30
			if thorough {
				steps = 90
			}
			c.mine(int(c.network.MaturityDelay)+1, c.w.Address())
			for s := 0; s < steps; s++ {
				switch r := c.rng.Intn(20); {
				case r < 6:
					addr := types.VoidAddress
					if c.rng.Intn(2) == 0 {
						addr = c.w.Address()
					}
					c.mine(1+c.rng.Intn(3), addr)
				case r < 10:
					c.send()
					c.mine(1, types.VoidAddress)
				case r < 12:
					if c.spendAtMaturity() {
						c.mine(1, types.VoidAddress)
					} else {
						c.mine(1, c.w.Address())
					}
				case r < 13:
					c.setAddress()
					c.mine(2, types.VoidAddress)
				case r < 17:
					c.reorg(1+c.rng.Intn(4), 1+c.rng.Intn(2))
				case r < 18:
					c.reorg(1, 1)
				default:
					c.mine(2+c.rng.Intn(5), c.w.Address())
				}
			}
		})
	}
}
