//go:build verif

package settings

import (
	"go.sia.tech/core/types"
	"go.uber.org/zap"
)

// VerifBareConfigManager returns a ConfigManager that has only what
// UpdateChainState uses (host key, logger).  Used by the C16 store-level harness,
// which feeds synthetic chain updates through the real UpdateChainState.
func VerifBareConfigManager(hostKey types.PrivateKey) *ConfigManager {
	return &ConfigManager{hostKey: hostKey, log: zap.NewNop()}
}
