//go:build verif

package settings_test

import (
	"encoding/binary"
	"fmt"
	"math/rand"
	"path/filepath"
	"sort"
	"strings"
	"testing"
	"time"

	"go.sia.tech/core/consensus"
	"go.sia.tech/core/types"
	"go.sia.tech/coreutils/chain"
	"go.sia.tech/coreutils/testutil"
	"go.sia.tech/coreutils/wallet"
	"go.sia.tech/hostd/v2/host/settings"
	"go.sia.tech/hostd/v2/index"
	"go.sia.tech/hostd/v2/persist/sqlite"
	"go.uber.org/zap"
)

// ---- synthetic blocks -------------------------------------------------------------------

type c16Elem struct {
	id  uint64
	val types.Currency
	mat uint64
}

type c16Event struct {
	id  uint64
	mat uint64
}

type c16Ann1 struct {
	kind int // 0 signed by the host, 1 signed by another key, 2 host key with a forged signature
	addr string
}

type c16Ann2 struct {
	host  bool
	addrs []chain.NetAddress
}

type c16Block struct {
	height  uint64
	parent  types.ChainIndex
	ts      uint64
	created []c16Elem
	spent   []c16Elem
	events  []c16Event
	v1      []c16Ann1
	v2      []c16Ann2
	blk     types.Block
	idx     types.ChainIndex
}

func (b *c16Block) hostAnnounced() bool {
	for _, a := range b.v1 {
		if a.kind == 0 {
			return true
		}
	}
	for _, a := range b.v2 {
		if a.host {
			return true
		}
	}
	return false
}

// recordable reports whether applying the block alone would set the announcement record
func (b *c16Block) recordable() bool {
	for _, a := range b.v1 {
		if a.kind == 0 {
			return true
		}
	}
	last := -1
	for i, a := range b.v2 {
		if a.host {
			last = i
		}
	}
	return last >= 0 && len(b.v2[last].addrs) > 0
}

type c16Env struct {
	t        *testing.T
	em       *verifEmitter
	hostKey  types.PrivateKey
	otherKey types.PrivateKey
	genesis  consensus.State
	cm       *settings.ConfigManager
	walletAd types.Address

	blockNo map[types.BlockID]int
	addrNo  map[string]int
	hashNo  map[types.Hash256]int
	nextEl  uint64
	nextEv  uint64
}

func (e *c16Env) blockNum(id types.BlockID) int {
	if n, ok := e.blockNo[id]; ok {
		return n
	}
	n := len(e.blockNo)
	e.blockNo[id] = n
	return n
}

func (e *c16Env) addrNum(a string) int {
	if n, ok := e.addrNo[a]; ok {
		return n
	}
	n := len(e.addrNo) + 1
	e.addrNo[a] = n
	return n
}

func c16AddrHash(addrs []chain.NetAddress) types.Hash256 {
	h := types.NewHasher()
	types.EncodeSlice(h.E, addrs)
	h.E.Flush()
	return h.Sum()
}

func (e *c16Env) hashNum(h types.Hash256) int {
	if n, ok := e.hashNo[h]; ok {
		return n
	}
	n := len(e.hashNo) + 1
	e.hashNo[h] = n
	return n
}

func c16ElemID(n uint64) (id types.SiacoinOutputID) {
	binary.LittleEndian.PutUint64(id[:8], n)
	id[31] = 0xe1
	return
}

func c16EventID(n uint64) (id types.Hash256) {
	binary.LittleEndian.PutUint64(id[:8], n)
	id[31] = 0xe7
	return
}

func (e *c16Env) sce(x c16Elem) types.SiacoinElement {
	return types.SiacoinElement{
		ID:             c16ElemID(x.id),
		StateElement:   types.StateElement{LeafIndex: x.id, MerkleProof: []types.Hash256{{1}, {2}}},
		SiacoinOutput:  types.SiacoinOutput{Value: x.val, Address: e.walletAd},
		MaturityHeight: x.mat,
	}
}

func (e *c16Env) sces(xs []c16Elem) (out []types.SiacoinElement) {
	for _, x := range xs {
		out = append(out, e.sce(x))
	}
	return
}

// finish builds the real types.Block carrying the announcements and fixes the block's index.
func (e *c16Env) finish(b *c16Block, nonce uint64) {
	blk := types.Block{
		ParentID:  b.parent.ID,
		Nonce:     nonce,
		Timestamp: time.Unix(int64(b.ts), 0),
		MinerPayouts: []types.SiacoinOutput{{Address: e.walletAd, Value: types.Siacoins(1)}},
	}
	var txn types.Transaction
	for _, a := range b.v1 {
		switch a.kind {
		case 0:
			txn.ArbitraryData = append(txn.ArbitraryData, chain.HostAnnouncement{PublicKey: e.hostKey.PublicKey(), NetAddress: a.addr}.ToArbitraryData(e.hostKey))
		case 1:
			txn.ArbitraryData = append(txn.ArbitraryData, chain.HostAnnouncement{PublicKey: e.otherKey.PublicKey(), NetAddress: a.addr}.ToArbitraryData(e.otherKey))
		default:
			arb := chain.HostAnnouncement{PublicKey: e.hostKey.PublicKey(), NetAddress: a.addr}.ToArbitraryData(e.hostKey)
			arb[len(arb)-5] ^= 0x40 // host key, signature does not verify
			txn.ArbitraryData = append(txn.ArbitraryData, arb)
		}
	}
	txn.ArbitraryData = append(txn.ArbitraryData, []byte("NonSia: unrelated arbitrary data"))
	blk.Transactions = []types.Transaction{txn}
	if len(b.v2) > 0 {
		var v2txn types.V2Transaction
		for _, a := range b.v2 {
			k := e.otherKey
			if a.host {
				k = e.hostKey
			}
			v2txn.Attestations = append(v2txn.Attestations, chain.V2HostAnnouncement(a.addrs).ToAttestation(e.genesis, k))
		}
		// an attestation of the host key that is not an announcement
		other := types.Attestation{PublicKey: e.hostKey.PublicKey(), Key: "Unrelated", Value: []byte{1}}
		other.Signature = e.hostKey.SignHash(e.genesis.AttestationSigHash(other))
		v2txn.Attestations = append(v2txn.Attestations, other)
		blk.V2 = &types.V2BlockData{Height: b.height, Transactions: []types.V2Transaction{v2txn}}
	}
	b.blk = blk
	b.idx = types.ChainIndex{Height: b.height, ID: blk.ID()}
	e.blockNum(b.idx.ID)
}

// ---- Coq terms ----------------------------------------------------------------------------

func (e *c16Env) coqIdx(i types.ChainIndex) string {
	return fmt.Sprintf("{| ih := %d; ib := %d |}", i.Height, e.blockNum(i.ID))
}

func (e *c16Env) coqOptIdx(i types.ChainIndex) string {
	if i == (types.ChainIndex{}) {
		return "None"
	}
	return "(Some " + e.coqIdx(i) + ")"
}

func c16CoqElem(id uint64, val types.Currency, mat uint64) string {
	return fmt.Sprintf("{| eid := %d; eval := %s; emat := %d |}", id, val.ExactString(), mat)
}

func c16CoqElems(xs []c16Elem) string {
	var s []string
	for _, x := range xs {
		s = append(s, c16CoqElem(x.id, x.val, x.mat))
	}
	return coqList(s)
}

func (e *c16Env) coqEvent(id uint64, idx types.ChainIndex, mat uint64) string {
	return fmt.Sprintf("{| vid := %d; vix := %s; vmat := %d |}", id, e.coqIdx(idx), mat)
}

func (e *c16Env) coqABlock(b *c16Block) string {
	var evs, v1, v2 []string
	for _, ev := range b.events {
		evs = append(evs, e.coqEvent(ev.id, b.idx, ev.mat))
	}
	for _, a := range b.v1 {
		v1 = append(v1, fmt.Sprintf("(%s, %d%%N)", coqBool(a.kind == 0), e.addrNum(a.addr)))
	}
	for _, a := range b.v2 {
		v2 = append(v2, fmt.Sprintf("(%s, %d%%N, %s)", coqBool(a.host), e.hashNum(c16AddrHash(a.addrs)), coqBool(len(a.addrs) > 0)))
	}
	return fmt.Sprintf("{| ab_idx := %s; ab_ts := %d; ab_created := %s; ab_spent := %s; ab_events := %s; ab_v1 := %s; ab_v2 := %s |}",
		e.coqIdx(b.idx), b.ts, c16CoqElems(b.created), c16CoqElems(b.spent), coqList(evs), coqList(v1), coqList(v2))
}

func (e *c16Env) coqRBlock(b *c16Block) string {
	return fmt.Sprintf("{| rb_idx := %s; rb_parent := %s; rb_ts := %d; rb_removed := %s; rb_unspent := %s |}",
		e.coqIdx(b.idx), e.coqIdx(b.parent), b.ts, c16CoqElems(b.created), c16CoqElems(b.spent))
}

// ---- driving the real store ------------------------------------------------------------------

type c16Nop struct{}

func (c16Nop) UpdateElementProof(*types.StateElement) {}

// c16RunBatch replays the body of index.Manager.syncDB's transaction on synthetic updates:
// wallet reverts, wallet applies, ConfigManager.UpdateChainState, SetLastIndex.
func (e *c16Env) runBatch(db *sqlite.Store, reverts, applies []*c16Block) (cls string) {
	defer func() {
		if r := recover(); r != nil {
			cls = "CPanic"
		}
	}()
	var crus []chain.RevertUpdate
	var caus []chain.ApplyUpdate
	for _, b := range reverts {
		crus = append(crus, chain.RevertUpdate{Block: b.blk, State: consensus.State{Network: e.genesis.Network, Index: b.parent}})
	}
	for _, b := range applies {
		caus = append(caus, chain.ApplyUpdate{Block: b.blk, State: consensus.State{Network: e.genesis.Network, Index: b.idx}})
	}
	err := db.UpdateChainState(func(tx index.UpdateTx) error {
		for _, b := range reverts {
			if err := tx.WalletRevertIndex(b.idx, e.sces(b.created), e.sces(b.spent), time.Unix(int64(b.ts), 0)); err != nil {
				return err
			} else if err := tx.UpdateWalletSiacoinElementProofs(c16Nop{}); err != nil {
				return err
			}
		}
		for _, b := range applies {
			if err := tx.UpdateWalletSiacoinElementProofs(c16Nop{}); err != nil {
				return err
			}
			var evs []wallet.Event
			for _, ev := range b.events {
				evs = append(evs, wallet.Event{
					ID: c16EventID(ev.id), Index: b.idx, Type: wallet.EventTypeMinerPayout, MaturityHeight: ev.mat,
					Timestamp: time.Unix(int64(b.ts), 0), Relevant: []types.Address{e.walletAd},
					Data: wallet.EventPayout{SiacoinElement: e.sce(c16Elem{id: ev.id, val: types.Siacoins(1), mat: ev.mat})},
				})
			}
			if err := tx.WalletApplyIndex(b.idx, e.sces(b.created), e.sces(b.spent), evs, time.Unix(int64(b.ts), 0)); err != nil {
				return err
			}
		}
		if err := e.cm.UpdateChainState(tx, crus, caus); err != nil {
			return err
		}
		var last types.ChainIndex
		if len(caus) > 0 {
			last = caus[len(caus)-1].State.Index
		} else {
			last = crus[len(crus)-1].State.Index
		}
		return tx.SetLastIndex(last)
	})
	if err != nil {
		return "CErr"
	}
	return "COk"
}

type c16Seen struct {
	utxos   []c16Elem
	events  []c16Event
	evIdx   map[uint64]types.ChainIndex
	bal     types.Currency
	imm     types.Currency
	annIdx  types.ChainIndex
	annAddr string
	annHash types.Hash256
	tip     types.ChainIndex
	sorted  bool // WalletEvents came back ordered by maturity height, descending
}

func (e *c16Env) observe(db *sqlite.Store, now uint64) (s c16Seen, term string) {
	t := e.t
	us, err := db.UnspentSiacoinElements()
	if err != nil {
		t.Fatal(err)
	}
	for _, u := range us {
		s.utxos = append(s.utxos, c16Elem{id: binary.LittleEndian.Uint64(u.ID[:8]), val: u.SiacoinOutput.Value, mat: u.MaturityHeight})
	}
	sort.Slice(s.utxos, func(i, j int) bool { return s.utxos[i].id < s.utxos[j].id })
	evs, err := db.WalletEvents(0, 100000)
	if err != nil {
		t.Fatal(err)
	}
	cnt, err := db.WalletEventCount()
	if err != nil {
		t.Fatal(err)
	} else if int(cnt) != len(evs) {
		e.em.Monitor("wallet-event-count-differs-from-list", fmt.Sprintf("count %d, list %d", cnt, len(evs)))
	}
	s.evIdx = map[uint64]types.ChainIndex{}
	s.sorted = true
	for i, ev := range evs {
		id := binary.LittleEndian.Uint64(ev.ID[:8])
		s.events = append(s.events, c16Event{id: id, mat: ev.MaturityHeight})
		s.evIdx[id] = ev.Index
		if i > 0 && evs[i-1].MaturityHeight < ev.MaturityHeight {
			s.sorted = false
		}
	}
	sort.Slice(s.events, func(i, j int) bool { return s.events[i].id < s.events[j].id })
	m, err := db.Metrics(time.Unix(int64(now), 0))
	if err != nil {
		t.Fatal(err)
	}
	s.bal, s.imm = m.Wallet.Balance, m.Wallet.ImmatureBalance
	ann, err := db.LastAnnouncement()
	if err != nil {
		t.Fatal(err)
	}
	s.annIdx, s.annAddr = ann.Index, ann.Address
	h, hidx, err := db.LastV2AnnouncementHash()
	if err != nil {
		t.Fatal(err)
	} else if hidx != ann.Index {
		t.Fatalf("v1 and v2 announcement index differ: %v %v", hidx, ann.Index)
	}
	s.annHash = h
	if s.tip, err = db.Tip(); err != nil {
		t.Fatal(err)
	}

	var evTerms []string
	for _, ev := range s.events {
		evTerms = append(evTerms, e.coqEvent(ev.id, s.evIdx[ev.id], ev.mat))
	}
	aa, ah := "None", "None"
	if s.annAddr != "" {
		aa = fmt.Sprintf("(Some %d%%N)", e.addrNum(s.annAddr))
	}
	if s.annHash != (types.Hash256{}) {
		ah = fmt.Sprintf("(Some %d%%N)", e.hashNum(s.annHash))
	}
	term = fmt.Sprintf("OState %s %s %s %s %s %s %s %s", c16CoqElems(s.utxos), coqList(evTerms), s.bal.ExactString(), s.imm.ExactString(),
		e.coqOptIdx(s.annIdx), aa, ah, e.coqOptIdx(s.tip))
	return
}

// ---- one case ------------------------------------------------------------------------------------

type c16Case struct {
	e   *c16Env
	db  *sqlite.Store
	rng *rand.Rand

	chain     []*c16Block // processed best chain, genesis excluded
	genesisIx types.ChainIndex
	maxTS     uint64 // largest timestamp handed to the store so far
	nonce     uint64

	// what happened so far (used only to pick the monitor signature)
	maturityEdge bool // an output was created or spent at its maturity height
	backdated    bool // an update carried a timestamp in an earlier 5-minute bucket than a previous one
	malformed    bool
	dead         bool // a well-formed batch failed: the rest of the history is not meaningful
	applied      int
	reorgs       int
}

func (c *c16Case) tipIdx() types.ChainIndex {
	if len(c.chain) == 0 {
		return c.genesisIx
	}
	return c.chain[len(c.chain)-1].idx
}

func (c *c16Case) tipTS() uint64 {
	if len(c.chain) == 0 {
		return 1_700_000_000
	}
	return c.chain[len(c.chain)-1].ts
}

// liveUtxos recomputes the unspent set from the processed best chain alone.
func (c *c16Case) liveUtxos(chain []*c16Block) map[uint64]c16Elem {
	live := map[uint64]c16Elem{}
	for _, b := range chain {
		for _, x := range b.spent {
			delete(live, x.id)
		}
		for _, x := range b.created {
			live[x.id] = x
		}
	}
	return live
}

var c16Values = []types.Currency{
	types.NewCurrency64(1), types.NewCurrency64(2), types.NewCurrency64(1000), types.Siacoins(1), types.Siacoins(300000),
	types.NewCurrency64(^uint64(0)), types.NewCurrency(0, 1), types.NewCurrency(0, 1<<36),
	types.ZeroCurrency, // a contract resolution can pay the wallet an output of value zero
}

var c16Addrs = []string{"foo.bar:9982", "baz.qux:9982", "host.example:9982"}

// newBlock generates a block on top of (parent, parentTS, prefix) where prefix is the chain below it.
func (c *c16Case) newBlock(prefix []*c16Block, parent types.ChainIndex, parentTS uint64, forceAnn int) *c16Block {
	rng := c.rng
	e := c.e
	h := parent.Height + 1
	b := &c16Block{height: h, parent: parent}
	b.ts = parentTS + []uint64{0, 1, 60, 299, 300, 301, 600, 3000}[rng.Intn(8)]
	// outputs whose maturity heights straddle the block height
	for i, n := 0, rng.Intn(4); i < n; i++ {
		var mat uint64
		switch rng.Intn(8) {
		case 0:
			mat = 0 // transaction output
		case 1:
			if h > 0 {
				mat = h - 1
			}
		case 2:
			mat = h
		case 3, 4:
			mat = h + 1
		case 5:
			mat = h + 2
		default:
			mat = h + uint64(1+rng.Intn(5))
		}
		e.nextEl++
		b.created = append(b.created, c16Elem{id: e.nextEl, val: c16Values[rng.Intn(len(c16Values))], mat: mat})
		if mat == h {
			e.em.Count("created:maturity=height")
		} else if mat < h {
			e.em.Count("created:mature")
		} else {
			e.em.Count("created:immature")
		}
	}
	// spend outputs that consensus allows to be spent in this block (maturity <= height)
	live := c.liveUtxos(prefix)
	var ids []uint64
	for id := range live {
		ids = append(ids, id)
	}
	sort.Slice(ids, func(i, j int) bool { return ids[i] < ids[j] })
	rng.Shuffle(len(ids), func(i, j int) { ids[i], ids[j] = ids[j], ids[i] })
	want := rng.Intn(3)
	for _, id := range ids {
		if len(b.spent) >= want {
			break
		}
		x := live[id]
		if x.mat > h && rng.Intn(20) != 0 {
			continue
		}
		b.spent = append(b.spent, x)
		switch {
		case x.mat == h:
			e.em.Count("spent:maturity=height")
		case x.mat < h:
			e.em.Count("spent:mature")
		default:
			e.em.Count("spent:immature")
		}
	}
	for i, n := 0, rng.Intn(3); i < n; i++ {
		e.nextEv++
		b.events = append(b.events, c16Event{id: e.nextEv, mat: h + uint64(rng.Intn(4))})
	}
	// announcements
	r := rng.Intn(12)
	if forceAnn == 1 {
		r = 0
	} else if forceAnn == 2 {
		r = 3
	} else if forceAnn == -1 {
		r = 11
	}
	switch {
	case r < 3:
		for i, n := 0, 1+rng.Intn(2); i < n; i++ {
			k := 0
			if forceAnn == 0 {
				k = []int{0, 0, 0, 1, 2}[rng.Intn(5)]
			}
			b.v1 = append(b.v1, c16Ann1{kind: k, addr: c16Addrs[rng.Intn(len(c16Addrs))]})
		}
	case r < 6:
		for i, n := 0, 1+rng.Intn(2); i < n; i++ {
			host := forceAnn != 0 || rng.Intn(4) != 0
			var addrs []chain.NetAddress
			na := 1 + rng.Intn(2)
			if forceAnn == 0 && rng.Intn(6) == 0 {
				na = 0
			}
			for j := 0; j < na; j++ {
				addrs = append(addrs, chain.NetAddress{Protocol: "siamux", Address: c16Addrs[rng.Intn(len(c16Addrs))]})
			}
			b.v2 = append(b.v2, c16Ann2{host: host, addrs: addrs})
		}
	case r < 7:
		b.v1 = append(b.v1, c16Ann1{kind: 0, addr: c16Addrs[rng.Intn(len(c16Addrs))]})
		b.v2 = append(b.v2, c16Ann2{host: true, addrs: []chain.NetAddress{{Protocol: "siamux", Address: c16Addrs[rng.Intn(len(c16Addrs))]}}})
	}
	for _, a := range b.v1 {
		e.em.Count(fmt.Sprintf("ann:v1 kind=%d", a.kind))
	}
	for _, a := range b.v2 {
		e.em.Count(fmt.Sprintf("ann:v2 host=%v addrs=%d", a.host, len(a.addrs)))
	}
	c.nonce++
	e.finish(b, c.nonce)
	return b
}

// noteUpdate tracks the flags that select the monitor signature.
func (c *c16Case) noteUpdate(b *c16Block) {
	if b.ts/300 < c.maxTS/300 {
		c.backdated = true
	}
	if b.ts > c.maxTS {
		c.maxTS = b.ts
	}
	for _, x := range b.created {
		if x.mat == b.height {
			c.maturityEdge = true
		}
	}
	for _, x := range b.spent {
		if x.mat == b.height {
			c.maturityEdge = true
		}
	}
}

// doBatch runs one batch on the store, records it, observes and evaluates the monitors.
// reverts are blocks popped from the processed chain (tip first), applies extend it.
func (c *c16Case) doBatch(reverts, applies []*c16Block, wellFormed bool) string {
	e := c.e
	em := e.em
	if c.dead {
		return "dead"
	}
	prev, _ := e.observe(c.db, c.maxTS+100000)

	var rs, as []string
	for _, b := range reverts {
		rs = append(rs, e.coqRBlock(b))
	}
	for _, b := range applies {
		as = append(as, e.coqABlock(b))
	}
	cls := e.runBatch(c.db, reverts, applies)
	em.Step(fmt.Sprintf("Batch %s %s", coqList(rs), coqList(as)), "ODone "+cls)
	em.Count(fmt.Sprintf("batch:reverts=%d,applies=%d,%s", len(reverts), len(applies), cls))

	if cls == "COk" {
		for _, b := range reverts {
			c.noteUpdate(b)
		}
		for _, b := range applies {
			c.noteUpdate(b)
		}
		c.chain = append(c.chain[:len(c.chain)-len(reverts)], applies...)
		c.applied += len(applies)
		if len(reverts) > 0 {
			c.reorgs++
		}
	} else if wellFormed {
		c.dead = true
		if cls == "CPanic" {
			em.Monitor("chain-update-panics-on-wellformed-batch", fmt.Sprintf("reverts %d applies %d", len(reverts), len(applies)))
		} else {
			em.Monitor("chain-update-fails-on-wellformed-batch", fmt.Sprintf("reverts %d applies %d", len(reverts), len(applies)))
		}
	}
	seen := c.observeAndCheck()
	if cls != "COk" {
		return cls
	}

	// "cleared exactly when that block is disconnected"
	recordable := false
	for _, b := range applies {
		if b.recordable() {
			recordable = true
		}
	}
	if prev.annIdx != (types.ChainIndex{}) && !recordable {
		disconnected := false
		for _, b := range reverts {
			if b.idx == prev.annIdx {
				disconnected = true
			}
		}
		if disconnected && seen.annIdx != (types.ChainIndex{}) {
			em.Monitor("announcement-not-cleared-when-its-block-is-disconnected", fmt.Sprintf("record %v, reverted %d block(s)", prev.annIdx, len(reverts)))
		} else if !disconnected && seen.annIdx != prev.annIdx {
			em.Monitor("announcement-cleared-although-its-block-is-still-connected", fmt.Sprintf("record was %v, now %v, reverted %d block(s) none of which is the announcement block", prev.annIdx, seen.annIdx, len(reverts)))
		}
	}
	return cls
}

func (c *c16Case) metricSig(base string) string {
	switch {
	case c.maturityEdge:
		return base + "-after-output-created-or-spent-at-its-maturity-height"
	case c.backdated:
		return base + "-after-update-with-earlier-block-timestamp"
	}
	return base
}

// observeAndCheck records an Observe step and evaluates the state monitors against the
// processed best chain (c.chain).
func (c *c16Case) observeAndCheck() c16Seen {
	e := c.e
	em := e.em
	now := c.maxTS + 100000
	seen, term := e.observe(c.db, now)
	em.Step(fmt.Sprintf("Observe %d", now), term)

	// tip marker
	if seen.tip != c.tipIdx() && !(len(c.chain) == 0 && seen.tip == (types.ChainIndex{})) {
		em.Monitor("tip-marker-differs-from-processed-tip", fmt.Sprintf("marker %v, tip %v", seen.tip, c.tipIdx()))
	}
	// UTXO set = function of the best chain
	live := c.liveUtxos(c.chain)
	ok := len(live) == len(seen.utxos)
	for _, u := range seen.utxos {
		if x, found := live[u.id]; !found || !x.val.Equals(u.val) || x.mat != u.mat {
			ok = false
		}
	}
	if !ok {
		em.Monitor("utxo-set-differs-from-best-chain", fmt.Sprintf("stored %d, derived %d", len(seen.utxos), len(live)))
	}
	// events = those of the best-chain blocks
	wantEv := map[uint64]types.ChainIndex{}
	for _, b := range c.chain {
		for _, ev := range b.events {
			wantEv[ev.id] = b.idx
		}
	}
	ok = len(wantEv) == len(seen.events)
	for _, ev := range seen.events {
		if ix, found := wantEv[ev.id]; !found || ix != seen.evIdx[ev.id] {
			ok = false
		}
	}
	if !ok {
		em.Monitor("event-list-differs-from-best-chain", fmt.Sprintf("stored %d, derived %d", len(seen.events), len(wantEv)))
	}
	if !seen.sorted {
		em.Monitor("event-list-not-ordered-by-maturity-height", "")
	}
	// balances recomputed from what the store itself reports as unspent
	h := c.tipIdx().Height
	var mature, immature types.Currency
	for _, u := range seen.utxos {
		if u.mat <= h {
			mature = mature.Add(u.val)
		} else {
			immature = immature.Add(u.val)
		}
	}
	if !mature.Equals(seen.bal) {
		em.Monitor(c.metricSig("wallet-balance-metric-differs-from-mature-outputs"), fmt.Sprintf("metric %v, sum of outputs with maturity <= %d: %v", seen.bal.ExactString(), h, mature.ExactString()))
	}
	if !immature.Equals(seen.imm) {
		em.Monitor(c.metricSig("wallet-immature-metric-differs-from-immature-outputs"), fmt.Sprintf("metric %v, sum of outputs with maturity > %d: %v", seen.imm.ExactString(), h, immature.ExactString()))
	}
	// announcement record: empty, or a best-chain block that contains an announcement of the host
	if seen.annIdx != (types.ChainIndex{}) {
		var blk *c16Block
		for _, b := range c.chain {
			if b.idx == seen.annIdx {
				blk = b
			}
		}
		if blk == nil {
			em.Monitor("announcement-refers-to-block-not-on-best-chain", fmt.Sprintf("record %v, tip %v", seen.annIdx, c.tipIdx()))
		} else if !blk.hostAnnounced() {
			em.Monitor("announcement-refers-to-block-without-host-announcement", fmt.Sprintf("record %v", seen.annIdx))
		}
	} else if seen.annAddr != "" || seen.annHash != (types.Hash256{}) {
		// the record (index, v1 address, v2 hash) is cleared as a whole
		em.Monitor("announcement-address-or-hash-kept-after-record-cleared", fmt.Sprintf("index empty, address %q hash %v", seen.annAddr, seen.annHash))
	}
	return seen
}

func (c *c16Case) reset() {
	e := c.e
	if err := c.db.ResetChainState(); err != nil {
		e.t.Fatal(err)
	}
	e.em.Step("Reset", "ODone COk")
	e.em.Count("op:Reset")
	saved := c.chain
	c.chain = nil
	seen := c.observeAndCheck()
	if len(seen.utxos) != 0 || len(seen.events) != 0 || !seen.bal.IsZero() || !seen.imm.IsZero() {
		e.em.Monitor("reset-keeps-wallet-state", fmt.Sprintf("utxos %d events %d balance %v immature %v", len(seen.utxos), len(seen.events), seen.bal, seen.imm))
	}
	if seen.annIdx != (types.ChainIndex{}) || seen.annAddr != "" {
		e.em.Monitor("reset-keeps-announcement", fmt.Sprintf("index %v address %q", seen.annIdx, seen.annAddr))
	}
	if seen.annHash != (types.Hash256{}) {
		e.em.Monitor("reset-keeps-v2-announcement-hash", fmt.Sprintf("hash %v", seen.annHash))
	}
	if seen.tip != (types.ChainIndex{}) {
		e.em.Monitor("reset-keeps-tip-marker", fmt.Sprintf("%v", seen.tip))
	}
	// rescan: the same best chain is applied again from the start
	c.maxTS = 0
	c.backdated = false // the series was deleted
	for len(saved) > 0 {
		n := 1 + c.rng.Intn(4)
		if n > len(saved) {
			n = len(saved)
		}
		c.doBatch(nil, saved[:n], true)
		saved = saved[n:]
	}
}

func (c *c16Case) extend(n int, forceAnn int) []*c16Block {
	var out []*c16Block
	prefix := append([]*c16Block(nil), c.chain...)
	parent, pts := c.tipIdx(), c.tipTS()
	for i := 0; i < n; i++ {
		b := c.newBlock(prefix, parent, pts, forceAnn)
		out = append(out, b)
		prefix = append(prefix, b)
		parent, pts = b.idx, b.ts
		if forceAnn > 0 {
			forceAnn = -1
		}
	}
	return out
}

// popped returns the top n blocks of the processed chain, tip first
func (c *c16Case) popped(n int) []*c16Block {
	var out []*c16Block
	for i := 0; i < n; i++ {
		out = append(out, c.chain[len(c.chain)-1-i])
	}
	return out
}

// branch generates n blocks on top of the chain with its top k blocks removed
func (c *c16Case) branch(k, n int, forceAnn int) []*c16Block {
	saved := c.chain
	c.chain = c.chain[:len(c.chain)-k]
	out := c.extend(n, forceAnn)
	c.chain = saved
	return out
}

func (c *c16Case) directed(id int) {
	mk := func(h uint64, parent types.ChainIndex, ts uint64) *c16Block {
		return &c16Block{height: h, parent: parent, ts: ts}
	}
	e := c.e
	fin := func(b *c16Block) *c16Block { c.nonce++; e.finish(b, c.nonce); return b }
	el := func(val types.Currency, mat uint64) c16Elem { e.nextEl++; return c16Elem{id: e.nextEl, val: val, mat: mat} }
	ts0 := uint64(1_700_000_000)
	switch id {
	case 0, 1, 2, 3:
		// announcement (v1: 0,1; v2: 2,3) in block 2.
		// even ids: block 3 is connected and then disconnected, alone: the record must survive;
		// odd ids: block 2 (the tip, holding the announcement) is disconnected, alone: the record must be cleared.
		b1 := fin(mk(1, c.genesisIx, ts0))
		b2 := mk(2, b1.idx, ts0+10)
		if id < 2 {
			b2.v1 = []c16Ann1{{kind: 0, addr: c16Addrs[0]}}
		} else {
			b2.v2 = []c16Ann2{{host: true, addrs: []chain.NetAddress{{Protocol: "siamux", Address: c16Addrs[0]}}}}
		}
		fin(b2)
		c.doBatch(nil, []*c16Block{b1, b2}, true)
		if id%2 == 0 {
			b3 := fin(mk(3, b2.idx, ts0+20))
			c.doBatch(nil, []*c16Block{b3}, true)
			c.doBatch([]*c16Block{b3}, nil, true)
		} else {
			c.doBatch([]*c16Block{b2}, nil, true)
		}
	case 4:
		// ResetChainState after a v2 announcement
		b1 := mk(1, c.genesisIx, ts0)
		b1.v2 = []c16Ann2{{host: true, addrs: []chain.NetAddress{{Protocol: "siamux", Address: c16Addrs[1]}}}}
		b1.created = []c16Elem{el(types.Siacoins(5), 3)}
		fin(b1)
		c.doBatch(nil, []*c16Block{b1}, true)
		c.reset()
	case 5:
		// an output is spent in the block at its maturity height
		x := el(types.Siacoins(7), 3)
		b1 := mk(1, c.genesisIx, ts0)
		b1.created = []c16Elem{x, el(types.Siacoins(2), 0)}
		fin(b1)
		b2 := fin(mk(2, b1.idx, ts0+1))
		b3 := mk(3, b2.idx, ts0+2)
		b3.spent = []c16Elem{x}
		fin(b3)
		c.doBatch(nil, []*c16Block{b1, b2}, true)
		c.doBatch(nil, []*c16Block{b3}, true)
		c.doBatch([]*c16Block{b3}, nil, true)
	case 6:
		// an output is created with a maturity height equal to its block's height
		b1 := fin(mk(1, c.genesisIx, ts0))
		b2 := mk(2, b1.idx, ts0+1)
		b2.created = []c16Elem{el(types.Siacoins(3), 2)}
		fin(b2)
		c.doBatch(nil, []*c16Block{b1, b2}, true)
		c.doBatch([]*c16Block{b2}, nil, true)
	case 7:
		// two blocks, ten minutes apart, both changing the balance, are disconnected
		b1 := mk(1, c.genesisIx, ts0)
		b1.created = []c16Elem{el(types.Siacoins(10), 0)}
		fin(b1)
		b2 := mk(2, b1.idx, ts0+600)
		b2.created = []c16Elem{el(types.Siacoins(20), 0)}
		fin(b2)
		b3 := mk(3, b2.idx, ts0+1200)
		b3.created = []c16Elem{el(types.Siacoins(40), 0)}
		fin(b3)
		c.doBatch(nil, []*c16Block{b1, b2, b3}, true)
		c.doBatch([]*c16Block{b3, b2}, nil, true)
		b2b := mk(2, b1.idx, ts0+700)
		b2b.created = []c16Elem{el(types.Siacoins(1), 0)}
		fin(b2b)
		c.doBatch(nil, []*c16Block{b2b}, true)
	case 8:
		// un-maturing: a payout matures in block 3; block 3 is disconnected and another block 3 connected
		b1 := mk(1, c.genesisIx, ts0)
		b1.created = []c16Elem{el(types.Siacoins(300000), 3)}
		fin(b1)
		b2 := fin(mk(2, b1.idx, ts0+1))
		b3 := fin(mk(3, b2.idx, ts0+2))
		c.doBatch(nil, []*c16Block{b1, b2, b3}, true)
		c.doBatch([]*c16Block{b3}, nil, true)
		b3b := fin(mk(3, b2.idx, ts0+3))
		c.doBatch(nil, []*c16Block{b3b}, true)
		c.doBatch([]*c16Block{b3b, b2}, nil, true)
	}
}

const c16Directed = 9

func TestVerifC16Store(t *testing.T) {
	em := newVerifEmitter(t, "From HostdBase Require Import Base.\nFrom HostdWallet Require Import Model.", "case", "check")
	defer em.Close()

	network, genesisBlock := testutil.V2Network()
	hostKey := types.NewPrivateKeyFromSeed(make([]byte, 32))
	otherKey := types.NewPrivateKeyFromSeed(append(make([]byte, 31), 1))
	genesisState := network.GenesisState()
	_ = genesisBlock

	n := verifN(300)
	for id := 0; id < n+c16Directed; id++ {
		if em.Skip(id) {
			continue
		}
		rng := verifCaseRand(id)
		db, err := sqlite.OpenDatabase(filepath.Join(t.TempDir(), fmt.Sprintf("c16_%d.db", id)), zap.NewNop())
		if err != nil {
			t.Fatal(err)
		}
		e := &c16Env{t: t, em: em, hostKey: hostKey, otherKey: otherKey, genesis: genesisState,
			cm: settings.VerifBareConfigManager(hostKey), walletAd: types.StandardUnlockHash(hostKey.PublicKey()),
			blockNo: map[types.BlockID]int{}, addrNo: map[string]int{}, hashNo: map[types.Hash256]int{}}
		c := &c16Case{e: e, db: db, rng: rng, genesisIx: types.ChainIndex{Height: 0, ID: genesisBlock.ID()}}
		e.blockNum(c.genesisIx.ID) // 0

		if id < c16Directed {
			em.BeginCase(id, "directed wallet/announcement history")
			c.directed(id)
			em.EndCase(true)
			db.Close()
			continue
		}
		em.BeginCase(id, "generated wallet/announcement reorg history")
		steps := 4 + rng.Intn(14)
		for i := 0; i < steps; i++ {
			switch r := rng.Intn(20); {
			case r < 8 || len(c.chain) == 0:
				c.doBatch(nil, c.extend(1+rng.Intn(3), 0), true)
			case r < 10:
				// the tip block only
				c.doBatch(c.popped(1), nil, true)
			case r < 13:
				// revert-only, possibly several blocks
				k := 1 + rng.Intn(min(3, len(c.chain)))
				c.doBatch(c.popped(k), nil, true)
			case r < 17:
				// reorg: k blocks out, j blocks in
				k := 1 + rng.Intn(min(3, len(c.chain)))
				j := 1 + rng.Intn(3)
				c.doBatch(c.popped(k), c.branch(k, j, 0), true)
			case r < 18:
				// announce, extend by one block, then disconnect exactly that one block, then the announcement block
				c.doBatch(nil, c.extend(1, 1+rng.Intn(2)), true)
				c.doBatch(nil, c.extend(1, -1), true)
				c.doBatch(c.popped(1), nil, true)
				if rng.Intn(2) == 0 {
					c.doBatch(c.popped(1), nil, true)
				}
			case r < 19:
				c.reset()
			default:
				// malformed: a block that spends an output the wallet does not have, or overflowing values
				c.malformed = true
				b := &c16Block{height: c.tipIdx().Height + 1, parent: c.tipIdx(), ts: c.tipTS() + 1}
				if rng.Intn(2) == 0 {
					e.nextEl++
					b.spent = []c16Elem{{id: e.nextEl, val: types.Siacoins(1), mat: 0}}
				} else {
					e.nextEl += 2
					b.created = []c16Elem{{id: e.nextEl - 1, val: types.NewCurrency(0, 1<<63), mat: 0}, {id: e.nextEl, val: types.NewCurrency(0, 1<<63), mat: 0}}
				}
				c.nonce++
				e.finish(b, c.nonce)
				c.doBatch(nil, []*c16Block{b}, false)
			}
		}
		em.Count(fmt.Sprintf("case:blocks-applied=%s", c16Bin(c.applied)))
		em.Count(fmt.Sprintf("case:reorg-batches=%s", c16Bin(c.reorgs)))
		em.EndCase(c.applied > 2 && c.reorgs > 0)
		db.Close()
	}
}

func c16Bin(n int) string {
	switch {
	case n == 0:
		return "0"
	case n < 4:
		return "1-3"
	case n < 10:
		return "4-9"
	case n < 20:
		return "10-19"
	}
	return "20+"
}

var _ = strings.Join
