//go:build verif

package contracts

// C03 / C13 (WP-N): a look at the manager's lock table for the harnesses that put a second caller
// in the queue of a contract lock (persist/sqlite/verif_c03_wait_test.go).  Overlaid into
// host/contracts when those harnesses are built; reads only.

import "go.sia.tech/core/types"

// VerifC03LockWaiters returns how many callers are registered as waiters behind the holder of
// id's lock (locker.locks[id].n - 1), or -1 when nobody holds it.
func (cm *Manager) VerifC03LockWaiters(id types.FileContractID) int {
	lr := cm.locks
	lr.mu.Lock()
	defer lr.mu.Unlock()
	l, ok := lr.locks[id]
	if !ok {
		return -1
	}
	return l.n - 1
}
