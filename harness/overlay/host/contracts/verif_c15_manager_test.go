//go:build verif

package contracts_test

// C15 harness, Manager level: the same controlled schedules as the locker harness, but every
// call goes through the real Manager.Lock / Manager.Unlock / Manager.LockV2Contract /
// Manager.CheckIntegrity / Manager.V2CheckIntegrity — every user of the contract lock inside the
// manager — on a real host node (sqlite store, a volume with stored sectors), with contracts
// that exist, are not good for modification, are missing, or whose sector roots do not match
// their revision, so that every path that must release the lock is taken under contention.

import (
	"context"
	"os"
	"path/filepath"
	"sync"
	"testing"

	rhp2 "go.sia.tech/core/rhp/v2"
	proto4 "go.sia.tech/core/rhp/v4"
	"go.sia.tech/core/types"
	rhp4 "go.sia.tech/coreutils/rhp/v4"
	"go.sia.tech/hostd/v2/host/contracts"
	"go.sia.tech/hostd/v2/internal/testutil"
	"go.uber.org/zap"
)

func TestVerifC15Manager(t *testing.T) {
	em := newVerifEmitter(t, "From HostdBase Require Import Base.\nFrom HostdLock Require Import Model.", "case", "check")
	defer em.Close()

	hostKey := types.NewPrivateKeyFromSeed(make([]byte, 32))
	renterKey := types.NewPrivateKeyFromSeed(append(make([]byte, 31), 1))
	network, genesis := testutil.V1Network()
	node := testutil.NewHostNode(t, hostKey, network, genesis, zap.NewNop())
	cm := node.Contracts

	res := make(chan error, 1)
	if _, err := node.Volumes.AddVolume(context.Background(), filepath.Join(t.TempDir(), "storage.dat"), 16, res); err != nil {
		t.Fatal(err)
	} else if err := <-res; err != nil {
		t.Fatal(err)
	}
	storeSectors := func(tag byte, n int) (roots []types.Hash256) {
		for i := 0; i < n; i++ {
			var sector [rhp2.SectorSize]byte
			sector[0], sector[1], sector[2] = 0xc1, tag, byte(i)
			root := rhp2.SectorRoot(&sector)
			if err := node.Volumes.Write(root, &sector); err != nil {
				t.Fatal(err)
			}
			roots = append(roots, root)
		}
		return roots
	}

	uc := types.UnlockConditions{
		PublicKeys:         []types.UnlockKey{renterKey.PublicKey().UnlockKey(), hostKey.PublicKey().UnlockKey()},
		SignaturesRequired: 2,
	}
	addV1 := func(tag byte, windowStart, filesize uint64) (types.FileContractID, contracts.SignedRevision) {
		rev := contracts.SignedRevision{
			Revision: types.FileContractRevision{
				FileContract: types.FileContract{
					UnlockHash:  uc.UnlockHash(),
					WindowStart: windowStart,
					WindowEnd:   windowStart + 100,
					Filesize:    filesize,
				},
				ParentID:         types.FileContractID{0xc1, tag},
				UnlockConditions: uc,
			},
		}
		if err := cm.AddContract(rev, []types.Transaction{}, types.ZeroCurrency, contracts.Usage{}); err != nil {
			t.Fatal(err)
		}
		return rev.Revision.ParentID, rev
	}
	good, goodRev := addV1(1, 1000, 0) // good for modification; gets two sectors below
	tooLate, _ := addV1(2, 2, 0)       // exists, but too close to its proof window: isGoodForModification fails
	// good for modification, but its revision claims one sector and there is no root: the body of
	// CheckIntegrity returns an error (after the release has been deferred)
	badV1, _ := addV1(3, 1000, rhp2.SectorSize)
	// good for modification, one root as the revision says, but the revision's Merkle root (zero)
	// is not the root of that sector: the second error return of the body
	rootV1, _ := addV1(4, 1000, rhp2.SectorSize)
	cm.VerifC15SetRoots(rootV1, storeSectors(3, 1))

	{ // two stored sectors for the good v1 contract, the way the RHP2/3 handlers add them
		updater, err := cm.ReviseContract(good)
		if err != nil {
			t.Fatal(err)
		}
		roots := storeSectors(1, 2)
		for _, root := range roots {
			updater.AppendSector(root)
		}
		goodRev.Revision.RevisionNumber++
		goodRev.Revision.Filesize = uint64(len(roots)) * rhp2.SectorSize
		goodRev.Revision.FileMerkleRoot = rhp2.MetaRoot(roots)
		if err := updater.Commit(goodRev, contracts.Usage{}); err != nil {
			t.Fatal(err)
		}
		updater.Close()
	}

	addV2 := func(proofHeight uint64, filesize uint64) (types.FileContractID, types.V2FileContract) {
		fc := types.V2FileContract{
			ProofHeight:      proofHeight,
			ExpirationHeight: proofHeight + 100,
			RenterPublicKey:  renterKey.PublicKey(),
			HostPublicKey:    hostKey.PublicKey(),
			Filesize:         filesize,
			Capacity:         filesize,
		}
		txn := types.V2Transaction{FileContracts: []types.V2FileContract{fc}}
		if err := cm.AddV2Contract(rhp4.TransactionSet{Transactions: []types.V2Transaction{txn}, Basis: node.Chain.Tip()}, proto4.Usage{}); err != nil {
			t.Fatal(err)
		}
		return txn.V2FileContractID(txn.ID(), 0), fc
	}
	v2id, v2fc := addV2(500, 0)
	badV2, _ := addV2(501, rhp2.SectorSize)  // claims one sector, has no roots
	rootV2, _ := addV2(502, rhp2.SectorSize) // one root, not the one its Merkle root (zero) commits to
	cm.VerifC15SetRoots(rootV2, storeSectors(4, 1))
	{ // two stored sectors for the v2 contract
		roots := storeSectors(2, 2)
		v2fc.RevisionNumber++
		v2fc.Filesize = uint64(len(roots)) * rhp2.SectorSize
		v2fc.Capacity = v2fc.Filesize
		v2fc.FileMerkleRoot = proto4.MetaRoot(roots)
		sigHash := node.Chain.TipState().ContractSigHash(v2fc)
		v2fc.RenterSignature = renterKey.SignHash(sigHash)
		v2fc.HostSignature = hostKey.SignHash(sigHash)
		if err := cm.ReviseV2Contract(v2id, v2fc, roots, proto4.Usage{}); err != nil {
			t.Fatal(err)
		}
	}
	missing := types.FileContractID{0xc1, 0xff}

	// oracle bits for the model, from what the harness created (checked once against the manager
	// below, with nobody else around)
	ids := []types.FileContractID{good, tooLate, v2id, missing, badV1, badV2, rootV1, rootV2}
	isCheck := func(api int) bool { return api >= 2 }
	bad := func(api, id int) bool {
		if api == 0 || api == 2 {
			return id != 0 && id != 4 && id != 6 // Manager.Lock (also inside CheckIntegrity): the good v1 contracts pass
		}
		return id != 2 && id != 5 && id != 7 // LockV2Contract (also inside V2CheckIntegrity): the v2 contracts exist
	}
	checkOK := func(api, id int) bool { return id == 0 || id == 2 }
	if _, err := cm.Contract(good); err != nil {
		t.Fatal(err)
	} else if _, err := cm.Contract(tooLate); err != nil {
		t.Fatal(err)
	} else if _, err := cm.Contract(badV1); err != nil {
		t.Fatal(err)
	} else if _, err := cm.V2Contract(v2id); err != nil {
		t.Fatal(err)
	} else if _, err := cm.V2Contract(badV2); err != nil {
		t.Fatal(err)
	} else if _, err := cm.Contract(missing); err == nil {
		t.Fatal("missing contract exists")
	}

	call := func(ctx context.Context, api, id int) (func(), error) {
		switch api {
		case 0:
			if _, err := cm.Lock(ctx, ids[id]); err != nil {
				return nil, err
			}
			return func() { cm.Unlock(ids[id]) }, nil
		case 1:
			_, unlock, err := cm.LockV2Contract(ids[id])
			return unlock, err
		}
		check := cm.CheckIntegrity
		if api == 3 {
			check = cm.V2CheckIntegrity
		}
		results, _, err := check(ctx, ids[id])
		if err != nil {
			return nil, err
		}
		// the check's goroutine sends one result per sector on a channel of capacity 1
		drained := make(chan struct{})
		go func() {
			for range results {
			}
			close(drained)
		}()
		return func() { <-drained }, nil
	}
	// the oracle bits against the manager, uncontended.  Whether these calls leave the lock table
	// clean is for the cases below to find out and report: here a dirty table is replaced, so that
	// no call of this loop can block behind a leaked entry.
	for api := 0; api < 4; api++ {
		for id := range ids {
			var unlock func()
			var err error
			panicked := func() (p bool) {
				defer func() { p = recover() != nil }() // a panicking call is reported by the cases, with its schedule
				unlock, err = call(context.Background(), api, id)
				return false
			}()
			want := !bad(api, id) && (!isCheck(api) || checkOK(api, id))
			if !panicked && (err == nil) != want {
				t.Fatalf("api %d id %d: err=%v, harness expects success=%v", api, id, err, want)
			}
			if !panicked && err == nil {
				func() {
					defer func() { recover() }()
					unlock()
				}()
			}
			if snap := cm.VerifC15Snapshot(ids); len(snap) != 0 {
				cm.VerifC15Reset()
			}
		}
	}

	thorough := os.Getenv("VERIF_TIER") == "thorough"
	maxThreads := 4
	if thorough {
		maxThreads = 6
	}
	be := &contracts.VerifC15Backend{
		Name: "manager", IDs: len(ids), APIs: 4, MaxThreads: maxThreads,
		Lock:        call,
		IsCheck:     isCheck,
		CheckOK:     checkOK,
		Snapshot:    func() map[int][2]int { return cm.VerifC15Snapshot(ids) },
		Mu:          func() *sync.Mutex { return cm.VerifC15Mu() },
		Bad:         bad,
		Cancellable: func(api int) bool { return api == 0 || api == 2 },
		Reset:       func() { cm.VerifC15Reset() },
	}
	if contracts.VerifC15Drive(t, em, be, verifN(150), verifCaseRand) {
		// goroutines are stuck inside the locker: Manager.Close would wait for them forever
		em.Close()
		os.Exit(3)
	}
}
