//go:build verif

package contracts_test

// C15 harness, Manager level: the same controlled schedules as the locker harness, but every
// call goes through the real Manager.Lock / Manager.Unlock / Manager.LockV2Contract on a real
// host node (sqlite store), with contracts that exist, are not good for modification, or are
// missing, so that every error path that must release the lock is taken under contention.

import (
	"context"
	"os"
	"sync"
	"testing"

	proto4 "go.sia.tech/core/rhp/v4"
	"go.sia.tech/core/types"
	rhp4 "go.sia.tech/coreutils/rhp/v4"
	"go.sia.tech/hostd/v2/host/contracts"
	"go.sia.tech/hostd/v2/internal/testutil"
	"go.uber.org/zap"
)

func TestVerifC15Manager(t *testing.T) {
	em := newVerifEmitter(t, "From HostdBase Require Import Base.\nFrom HostdLock Require Import Model.", "case", "check")
	defer em.Close()

	hostKey := types.NewPrivateKeyFromSeed(make([]byte, 32))
	renterKey := types.NewPrivateKeyFromSeed(append(make([]byte, 31), 1))
	network, genesis := testutil.V1Network()
	node := testutil.NewHostNode(t, hostKey, network, genesis, zap.NewNop())
	cm := node.Contracts

	uc := types.UnlockConditions{
		PublicKeys:         []types.UnlockKey{renterKey.PublicKey().UnlockKey(), hostKey.PublicKey().UnlockKey()},
		SignaturesRequired: 2,
	}
	addV1 := func(tag byte, windowStart uint64) types.FileContractID {
		rev := contracts.SignedRevision{
			Revision: types.FileContractRevision{
				FileContract: types.FileContract{
					UnlockHash:  uc.UnlockHash(),
					WindowStart: windowStart,
					WindowEnd:   windowStart + 100,
				},
				ParentID:         types.FileContractID{0xc1, tag},
				UnlockConditions: uc,
			},
		}
		if err := cm.AddContract(rev, []types.Transaction{}, types.ZeroCurrency, contracts.Usage{}); err != nil {
			t.Fatal(err)
		}
		return rev.Revision.ParentID
	}
	good := addV1(1, 1000) // good for modification
	tooLate := addV1(2, 2) // exists, but too close to its proof window: isGoodForModification fails

	fc := types.V2FileContract{
		ProofHeight:      500,
		ExpirationHeight: 600,
		RenterPublicKey:  renterKey.PublicKey(),
		HostPublicKey:    hostKey.PublicKey(),
	}
	txn := types.V2Transaction{FileContracts: []types.V2FileContract{fc}}
	if err := cm.AddV2Contract(rhp4.TransactionSet{Transactions: []types.V2Transaction{txn}, Basis: node.Chain.Tip()}, proto4.Usage{}); err != nil {
		t.Fatal(err)
	}
	v2id := txn.V2FileContractID(txn.ID(), 0)
	missing := types.FileContractID{0xc1, 0xff}

	// oracle bits for the model, from what the harness created (checked once against the manager)
	ids := []types.FileContractID{good, tooLate, v2id, missing}
	bad := func(api, id int) bool {
		if api == 0 {
			return id != 0 // Manager.Lock: only the good v1 contract passes
		}
		return id != 2 // LockV2Contract: only the v2 contract exists
	}
	if _, err := cm.Contract(good); err != nil {
		t.Fatal(err)
	} else if _, err := cm.Contract(tooLate); err != nil {
		t.Fatal(err)
	} else if _, err := cm.V2Contract(v2id); err != nil {
		t.Fatal(err)
	} else if _, err := cm.Contract(missing); err == nil {
		t.Fatal("missing contract exists")
	}

	thorough := os.Getenv("VERIF_TIER") == "thorough"
	maxThreads := 4
	if thorough {
		maxThreads = 6
	}
	be := &contracts.VerifC15Backend{
		Name: "manager", IDs: len(ids), APIs: 2, MaxThreads: maxThreads,
		Lock: func(ctx context.Context, api, id int) (func(), error) {
			if api == 0 {
				if _, err := cm.Lock(ctx, ids[id]); err != nil {
					return nil, err
				}
				return func() { cm.Unlock(ids[id]) }, nil
			}
			_, unlock, err := cm.LockV2Contract(ids[id])
			return unlock, err
		},
		Snapshot:    func() map[int][2]int { return cm.VerifC15Snapshot(ids) },
		Mu:          func() *sync.Mutex { return cm.VerifC15Mu() },
		Bad:         bad,
		Cancellable: func(api int) bool { return api == 0 },
		Reset:       func() { cm.VerifC15Reset() },
	}
	if contracts.VerifC15Drive(t, em, be, verifN(150), verifCaseRand) {
		// goroutines are stuck inside the locker: Manager.Close would wait for them forever
		em.Close()
		os.Exit(3)
	}
}
