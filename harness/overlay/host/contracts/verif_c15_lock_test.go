//go:build verif

package contracts

// C15 harness, in-package part: drives the real `locker` (and, through the exported helpers,
// the real Manager.Lock / Unlock / LockV2Contract / CheckIntegrity / V2CheckIntegrity from the
// external test package) with controllable actions, waits for quiescence, records what it sees
// for the Coq model (coq/Lock/Model.v, trace inclusion) and evaluates the property's monitors.

import (
	"context"
	"errors"
	"fmt"
	"math/rand"
	"os"
	"runtime"
	"sort"
	"strings"
	"sync"
	"sync/atomic"
	"testing"
	"time"
	"unsafe"

	"go.sia.tech/core/types"
)

// ---- access to the unexported lock table -------------------------------------------------

// verifC15TryLock acquires mu unless it stays held for too long (a stuck critical section).
func verifC15TryLock(mu *sync.Mutex) bool {
	deadline := time.Now().Add(5 * time.Second)
	for i := 0; !mu.TryLock(); i++ {
		if time.Now().After(deadline) {
			return false
		}
		if i < 100 {
			runtime.Gosched()
		} else {
			time.Sleep(10 * time.Microsecond)
		}
	}
	return true
}

// verifC15Snapshot reads the lock table; nil if the locker's mutex is stuck.
func verifC15Snapshot(lr *locker, ids []types.FileContractID) map[int][2]int {
	if !verifC15TryLock(&lr.mu) {
		return nil
	}
	defer lr.mu.Unlock()
	out := make(map[int][2]int, len(lr.locks))
	unknown := 0
	for id, l := range lr.locks {
		k := -1
		for i := range ids {
			if ids[i] == id {
				k = i
			}
		}
		if k < 0 {
			unknown++
			k = 1000 + unknown
		}
		out[k] = [2]int{l.n, len(l.ch)}
	}
	return out
}

// VerifC15Snapshot returns the manager's lock table: index of the id in ids -> {n, len(ch)}.
func (cm *Manager) VerifC15Snapshot(ids []types.FileContractID) map[int][2]int {
	return verifC15Snapshot(cm.locks, ids)
}

// VerifC15Mu exposes the locker's mutex so the harness can steer the cancel/unlock race.
func (cm *Manager) VerifC15Mu() *sync.Mutex { return &cm.locks.mu }

// VerifC15SetRoots sets the cached sector roots of a contract without touching its revision, so
// that the harness can have contracts whose roots do not hash to the revision's Merkle root.
func (cm *Manager) VerifC15SetRoots(id types.FileContractID, roots []types.Hash256) {
	cm.setSectorRoots(id, roots)
}

// VerifC15Reset installs a fresh lock table (only used to continue after a reported failure).
func (cm *Manager) VerifC15Reset() { cm.locks = newLocker() }

// ---- generic driver ----------------------------------------------------------------------

// VerifC15Emitter is the part of the per-package verifEmitter the driver needs.
type VerifC15Emitter interface {
	BeginCase(id int, desc string)
	Step(op, obs string)
	Count(key string)
	Monitor(sig, detail string)
	EndCase(nontrivial bool)
	Skip(id int) bool
}

// VerifC15Backend is the locker under test seen through Lock/Unlock.
type VerifC15Backend struct {
	Name        string
	IDs         int // contract ids 0..IDs-1
	APIs        int // 1: locker.Lock; 4: 0 = Manager.Lock, 1 = Manager.LockV2Contract, 2 = Manager.CheckIntegrity, 3 = Manager.V2CheckIntegrity
	// Lock performs the call.  For a locking API a nil error means the caller now holds the
	// contract and unlock releases it.  For an integrity-check API (IsCheck) a nil error means the
	// check returned normally — it holds nothing — and the returned func, if any, waits until the
	// check's result channel has been drained.
	Lock        func(ctx context.Context, api, id int) (unlock func(), err error)
	IsCheck     func(api int) bool     // the API is an integrity check (nil: none is)
	CheckOK     func(api, id int) bool // the root checks in the body of the integrity check pass
	Snapshot    func() map[int][2]int
	Mu          func() *sync.Mutex
	Bad         func(api, id int) bool // the Manager-level contract check fails for (api, id)
	Cancellable func(api int) bool     // the call takes a context
	Reset       func()
	MaxThreads  int
}

const (
	c15Idle = iota
	c15Calling
	c15Holding
	c15CtxErr
	c15MgrErr
	c15Panicked
)

type c15Thread struct {
	status    atomic.Int32
	id, api   int
	cancel    context.CancelFunc
	cancelled bool
	unlock    func()
	everWait  bool
	parked    atomic.Bool // the pending call was seen parked behind a holder at a quiescent point
	panicMsg  atomic.Value
	gate      *c15GateCtx
}

// c15GateCtx is a context whose Done method — which locker.Lock calls after it has enqueued
// itself and released lr.mu, right before it blocks in its select — stops the caller until the
// harness opens the gate.  It lets the harness hold a caller in the window "counted in n, not
// yet receiving", which the scheduler otherwise leaves open for nanoseconds only.
type c15GateCtx struct {
	context.Context
	atGate chan struct{}
	open   chan struct{}
	once   sync.Once
}

func (g *c15GateCtx) Done() <-chan struct{} {
	g.once.Do(func() {
		close(g.atGate)
		<-g.open
	})
	return g.Context.Done()
}

type c15Run struct {
	be      *VerifC15Backend
	em      VerifC15Emitter
	rng     *rand.Rand
	ths     []*c15Thread
	inCS    []atomic.Int32
	twoHold atomic.Int32 // a caller came back from Lock with the contract while another one was inside
	waitIn  atomic.Int32 // ... and that caller was a parked waiter (admitted without a release)
	countMu sync.Mutex
	counts  []string
	timeout time.Duration
	failed  bool
	fatal   bool // the locker is wedged: no further case can run
	paniced bool // a call of the code under test panicked: what it left behind (goroutines, thread group) is unknown
	parked  int
}

func c15N(id int) string { return fmt.Sprintf("%d%%N", id) }

func (r *c15Run) monitor(sig, detail string) {
	r.em.Monitor(sig, detail)
	r.failed = true
}

// startLock launches the Lock call of session t and returns the model action.
func (r *c15Run) startLock(t, api, id int, predone bool) string {
	return r.startLockCtx(t, api, id, predone, false)
}

// startLockGated starts a raw Lock whose caller is held at the gate (see c15GateCtx) and
// returns once it got there (or the call returned through the fast path).
func (r *c15Run) startLockGated(t, id int) string {
	term := r.startLockCtx(t, 0, id, false, true)
	th := r.ths[t]
	deadline := time.Now().Add(r.timeout)
	for i := 0; ; i++ {
		select {
		case <-th.gate.atGate:
			return term
		default:
		}
		if th.status.Load() != c15Calling || time.Now().After(deadline) {
			return term
		}
		if i < 50 {
			runtime.Gosched()
		} else {
			time.Sleep(10 * time.Microsecond)
		}
	}
}

func (r *c15Run) openGates() {
	for _, th := range r.ths {
		if th.gate != nil {
			close(th.gate.open)
			th.gate = nil
		}
	}
}

func (r *c15Run) startLockCtx(t, api, id int, predone, gated bool) string {
	th := r.ths[t]
	ctx, cancel := context.WithCancel(context.Background())
	th.id, th.api, th.cancel, th.cancelled, th.unlock = id, api, cancel, predone, nil
	if gated {
		th.gate = &c15GateCtx{Context: ctx, atGate: make(chan struct{}), open: make(chan struct{})}
		ctx = th.gate
	}
	if predone {
		cancel()
	}
	th.parked.Store(false)
	th.status.Store(c15Calling)
	bad := r.be.Bad(api, id)
	isCheck := r.isCheck(api)
	go func() {
		defer func() {
			if p := recover(); p != nil {
				th.panicMsg.Store(fmt.Sprint(p))
				th.status.Store(c15Panicked)
			}
		}()
		unlock, err := r.be.Lock(ctx, api, id)
		switch {
		case err == nil && isCheck:
			// the integrity check has returned: whatever it locked it must have released
			if unlock != nil {
				go func() { unlock(); cancel() }()
			}
			th.status.Store(c15Idle)
		case err == nil:
			if r.inCS[id].Add(1) != 1 {
				if th.parked.Load() {
					r.waitIn.Add(1)
				} else {
					r.twoHold.Add(1)
				}
			}
			th.unlock = unlock
			th.status.Store(c15Holding)
		case errors.Is(err, context.Canceled):
			cancel()
			th.status.Store(c15CtxErr)
		default:
			cancel()
			th.status.Store(c15MgrErr)
		}
	}()
	if isCheck {
		held, queued := false, 0
		for u, o := range r.ths {
			if u != t && o.id == id {
				switch o.status.Load() {
				case c15Holding:
					held = true
				case c15Calling:
					queued++
				}
			}
		}
		// actions run on their own goroutines; the emitter is not safe for concurrent use
		r.countMu.Lock()
		r.counts = append(r.counts, fmt.Sprintf("check:arrives,contract-held=%v,others-in-call=%d", held, queued))
		r.countMu.Unlock()
		return fmt.Sprintf("ACheck %d %s %s %s %s", t, c15N(id), coqBool(predone), coqBool(bad), coqBool(r.be.CheckOK(api, id)))
	}
	return fmt.Sprintf("ALock %d %s %s %s", t, c15N(id), coqBool(predone), coqBool(bad))
}

func (r *c15Run) isCheck(api int) bool { return r.be.IsCheck != nil && r.be.IsCheck(api) }

func (r *c15Run) doCancel(t int) string {
	th := r.ths[t]
	th.cancelled = true
	th.cancel()
	return fmt.Sprintf("ACtxDone %d", t)
}

// doUnlock releases the lock held by session t; the caller gives up its claim first.
func (r *c15Run) doUnlock(t int) string {
	th := r.ths[t]
	r.inCS[th.id].Add(-1)
	th.status.Store(c15Idle)
	done := make(chan any, 1)
	unlock := th.unlock
	go func() {
		defer func() { done <- recover() }()
		unlock()
	}()
	select {
	case p := <-done:
		if p != nil {
			r.monitor("unlock-by-holder-panicked", fmt.Sprintf("session %d id %d: %v", t, th.id, p))
		}
	case <-time.After(r.timeout):
		r.monitor("unlock-by-holder-blocked", fmt.Sprintf("session %d id %d", t, th.id))
	}
	th.cancel()
	return fmt.Sprintf("AUnlock %d", t)
}

func c15MutexWaiters(mu *sync.Mutex) int32 {
	return atomic.LoadInt32((*int32)(unsafe.Pointer(mu))) >> 3 // sync.Mutex.state, mutexWaiterShift
}

func c15Spin(n int) {
	for i := 0; i < n; i++ {
		runtime.Gosched()
	}
}

// quiescent evaluates, independently of the model, whether the locker has settled: every
// pending call is parked behind a holder with a live context.  Returns a reason if not, and
// whether that reason is definite: two callers that both came back from Lock with the same
// contract (or a call that panicked) is final; anything about the table may still change — the
// code under test is free to finish a release on a goroutine of its own — and is only reported
// when it persists until the deadline.
func (r *c15Run) quiescent() (ok bool, sig, detail string, definite bool) {
	holders := make([]int, r.be.IDs)
	waiters := make([]int, r.be.IDs)
	for t, th := range r.ths {
		switch th.status.Load() {
		case c15Holding:
			holders[th.id]++
		case c15Calling:
			waiters[th.id]++
			if th.cancelled {
				return false, "cancelled-lock-call-did-not-return", fmt.Sprintf("session %d id %d", t, th.id), false
			}
		case c15Panicked:
			r.paniced = true
			return false, "call-panicked", fmt.Sprintf("session %d api %d id %d: %v", t, th.api, th.id, th.panicMsg.Load()), true
		}
	}
	for id := 0; id < r.be.IDs; id++ {
		if holders[id] > 1 {
			return false, "two-holders", fmt.Sprintf("id %d has %d holders", id, holders[id]), true
		}
	}
	snap := r.be.Snapshot()
	if snap == nil {
		r.fatal = true
		return false, "locker-mutex-stuck", "lr.mu stays held: a critical section does not complete", true
	}
	for k, e := range snap {
		if k >= r.be.IDs {
			return false, "leaked-entry", fmt.Sprintf("entry for an unknown id: n=%d", e[0]), false
		}
	}
	for id := 0; id < r.be.IDs; id++ {
		e, ok := snap[id]
		switch {
		case holders[id]+waiters[id] == 0 && ok:
			return false, "leaked-entry", fmt.Sprintf("id %d: no caller but entry n=%d len(ch)=%d", id, e[0], e[1]), false
		case holders[id]+waiters[id] == 0:
		case !ok:
			return false, "callers-without-entry", fmt.Sprintf("id %d: %d holders %d waiters, no entry", id, holders[id], waiters[id]), false
		case holders[id] == 0:
			return false, "waiter-not-admitted-to-free-lock", fmt.Sprintf("id %d: no holder, %d waiting, n=%d len(ch)=%d", id, waiters[id], e[0], e[1]), false
		case e[1] != 0:
			return false, "token-while-held", fmt.Sprintf("id %d: held, len(ch)=%d", id, e[1]), false
		case e[0] != holders[id]+waiters[id]:
			return false, "count-mismatch", fmt.Sprintf("id %d: n=%d, %d holders + %d waiters", id, e[0], holders[id], waiters[id]), false
		}
	}
	return true, "", "", false
}

// probeHeld is run when the lock table stays in a state that does not account for a caller
// holding a contract (no entry, a token in the channel, a count that is too low).  That is
// bookkeeping, not yet the property; what the property says is that nobody else gets the contract
// while it is held.  So a late caller tries, through the API the holder used: if it comes back
// with the lock although the holder has not released, two callers hold the contract.
func (r *c15Run) probeHeld() {
	for t, th := range r.ths {
		if th.status.Load() != c15Holding {
			continue
		}
		id, api := th.id, th.api
		ctx, cancel := context.WithCancel(context.Background())
		admitted := make(chan struct{})
		release := make(chan struct{})
		go func() {
			defer func() { recover() }()
			unlock, err := r.be.Lock(ctx, api, id)
			if err != nil {
				return
			}
			close(admitted)
			<-release
			unlock()
		}()
		select {
		case <-admitted:
			r.monitor("two-holders", fmt.Sprintf("session %d holds id %d and has not released it, yet a late caller (api %d) was given the same contract", t, id, api))
		case <-time.After(100 * time.Millisecond):
		}
		cancel()
		close(release)
	}
}

// settle waits for quiescence and returns the observation as a Coq term.
func (r *c15Run) settle() string {
	deadline := time.Now().Add(r.timeout)
	stable := 0
	obs := ""
	for spins := 0; ; spins++ {
		ok, sig, detail, definite := r.quiescent()
		if ok {
			stable++
			if stable >= 2 {
				break
			}
		} else {
			stable = 0
			if definite || r.fatal || time.Now().After(deadline) {
				switch sig {
				case "leaked-entry":
					for _, th := range r.ths {
						if th.status.Load() == c15MgrErr {
							sig = "error-path-kept-lock"
						}
					}
				case "two-holders":
					if r.waitIn.Swap(0) != 0 {
						sig = "waiter-admitted-while-held"
					}
					r.twoHold.Store(0)
				case "callers-without-entry", "token-while-held", "count-mismatch":
					if !r.fatal {
						obs = r.observe() // what the probe found, not what it left behind
						r.probeHeld()
					}
				}
				r.monitor(sig, detail)
				break
			}
		}
		if spins < 50 {
			runtime.Gosched()
		} else {
			time.Sleep(20 * time.Microsecond)
		}
	}
	if r.waitIn.Swap(0) != 0 {
		r.monitor("waiter-admitted-while-held", "a parked waiter was given the lock while another caller was inside and had not released it")
	}
	if r.twoHold.Swap(0) != 0 {
		r.monitor("two-holders", "a caller acquired a lock while another caller was inside")
	}
	if obs != "" {
		return obs
	}
	return r.observe()
}

func (r *c15Run) observe() string {
	var st []string
	for _, th := range r.ths {
		switch th.status.Load() {
		case c15Idle:
			st = append(st, "SIdle")
		case c15Calling:
			st = append(st, "SWait "+c15N(th.id))
			th.parked.Store(true)
			if !th.everWait {
				th.everWait = true
				r.parked++
			}
		case c15Holding:
			st = append(st, "SHold "+c15N(th.id))
		case c15CtxErr:
			st = append(st, "SCtxErr")
		case c15MgrErr:
			st = append(st, "SMgrErr")
		case c15Panicked:
			st = append(st, "SPanicked")
		}
	}
	var snap map[int][2]int
	if !r.fatal {
		if snap = r.be.Snapshot(); snap == nil {
			r.fatal = true
			r.monitor("locker-mutex-stuck", "lr.mu stays held: a critical section does not complete")
		}
	}
	keys := make([]int, 0, len(snap))
	for k := range snap {
		keys = append(keys, k)
	}
	sort.Ints(keys)
	var rows []string
	for _, k := range keys {
		rows = append(rows, fmt.Sprintf("(%s, %s, %s)", c15N(k), coqZ(int64(snap[k][0])), coqZ(int64(snap[k][1]))))
	}
	return "(" + coqList(st) + ", " + coqList(rows) + ")"
}

// par performs the given actions concurrently (plain mode), or with lr.mu held while they are
// issued so that they all contend for the mutex at once (held mode).
func (r *c15Run) par(acts []func() string, held bool) { r.parG(nil, acts, held) }

// parG first starts the gated Lock calls (each is held right after it enqueued itself), then
// performs the other actions concurrently, lets the cancellations among them finish, and only
// then opens the gates.  For the model it is the same set of concurrent actions.
func (r *c15Run) parG(gated []func() string, acts []func() string, held bool) {
	var terms []string
	for _, g := range gated {
		terms = append(terms, g())
	}
	ts, ok := r.runActs(acts, held)
	r.countMu.Lock()
	for _, c := range r.counts {
		r.em.Count(c)
	}
	r.counts = r.counts[:0]
	r.countMu.Unlock()
	if len(gated) > 0 {
		if ok {
			deadline := time.Now().Add(5 * time.Millisecond)
			for time.Now().Before(deadline) {
				pending := false
				for _, th := range r.ths {
					if th.status.Load() == c15Calling && th.cancelled {
						pending = true
					}
				}
				if !pending {
					break
				}
				runtime.Gosched()
			}
		}
		r.openGates()
	}
	if !ok {
		return
	}
	terms = append(terms, ts...)
	obs := r.settle()
	r.em.Step("Par "+coqList(terms), obs)
}

func (r *c15Run) runActs(acts []func() string, held bool) ([]string, bool) {
	terms := make([]string, len(acts))
	if len(acts) == 1 {
		terms[0] = acts[0]()
	} else if len(acts) > 1 {
		var mu *sync.Mutex
		if held {
			mu = r.be.Mu()
			if !verifC15TryLock(mu) {
				r.fatal = true
				r.monitor("locker-mutex-stuck", "lr.mu stays held: a critical section does not complete")
				return nil, false
			}
		}
		var wg sync.WaitGroup
		stagger := make([]int, len(acts))
		for i := range acts {
			stagger[i] = r.rng.Intn(3) * r.rng.Intn(40)
		}
		for i := range acts {
			wg.Add(1)
			go func(i int) {
				defer wg.Done()
				c15Spin(stagger[i])
				terms[i] = acts[i]()
			}(i)
		}
		if held {
			// let the actions reach the mutex, then release it
			w0 := c15MutexWaiters(mu)
			for i := 0; i < 200 && int(c15MutexWaiters(mu)-w0) < len(acts); i++ {
				if i < 100 {
					runtime.Gosched()
				} else {
					time.Sleep(5 * time.Microsecond)
				}
			}
			mu.Unlock()
		}
		done := make(chan struct{})
		go func() { wg.Wait(); close(done) }()
		select {
		case <-done:
		case <-time.After(3 * r.timeout):
			r.fatal = true
			r.monitor("action-did-not-return", "a Lock start, cancel or Unlock did not return")
			return nil, false
		}
	}
	return terms, true
}

type c15Act struct {
	kind string // lock, check, cancel, unlock
	t    int
	run  func() string
}

// candidate action of session t in its current state (nil if none)
func (r *c15Run) candidate(t int, preferID int) *c15Act {
	th := r.ths[t]
	switch th.status.Load() {
	case c15Idle, c15CtxErr, c15MgrErr:
		api := r.rng.Intn(r.be.APIs)
		id := r.rng.Intn(r.be.IDs)
		if preferID >= 0 && r.rng.Intn(3) != 0 {
			id = preferID
		}
		if r.be.APIs > 1 && r.rng.Intn(2) == 0 {
			// more often than not call something that can succeed on this contract, so that
			// callers (integrity checks among them) queue up behind a holder
			var good []int
			for a := 0; a < r.be.APIs; a++ {
				if !r.be.Bad(a, id) {
					good = append(good, a)
				}
			}
			if len(good) > 0 {
				api = good[r.rng.Intn(len(good))]
			}
		}
		predone := r.be.Cancellable(api) && r.rng.Intn(8) == 0
		kind := "lock"
		if r.isCheck(api) {
			kind = "check"
		}
		return &c15Act{kind, t, func() string { return r.startLock(t, api, id, predone) }}
	case c15Calling:
		if r.be.Cancellable(th.api) && !th.cancelled {
			return &c15Act{"cancel", t, func() string { return r.doCancel(t) }}
		}
	case c15Holding:
		return &c15Act{"unlock", t, func() string { return r.doUnlock(t) }}
	}
	return nil
}

func (r *c15Run) pickWith(status int32, id int, pred func(*c15Thread) bool) int {
	var c []int
	for t, th := range r.ths {
		if th.status.Load() == status && (id < 0 || th.id == id) && (pred == nil || pred(th)) {
			c = append(c, t)
		}
	}
	if len(c) == 0 {
		return -1
	}
	return c[r.rng.Intn(len(c))]
}

func (r *c15Run) pickIdle() int {
	var c []int
	for t := range r.ths {
		if r.isIdle(t) {
			c = append(c, t)
		}
	}
	if len(c) == 0 {
		return -1
	}
	return c[r.rng.Intn(len(c))]
}

func (r *c15Run) isIdle(t int) bool {
	s := r.ths[t].status.Load()
	return s == c15Idle || s == c15CtxErr || s == c15MgrErr
}

// race: cancel a waiter while the holder of the same contract unlocks.
func (r *c15Run) race(c, u int, held bool, newcomer int) {
	if r.ths[c].status.Load() != c15Calling || r.ths[u].status.Load() != c15Holding {
		return
	}
	r.em.Count(fmt.Sprintf("race:cancel||unlock,held-mutex=%v", held))
	thc := r.ths[c]
	nwait := 0
	for _, th := range r.ths {
		if th.status.Load() == c15Calling && th.id == thc.id {
			nwait++
		}
	}
	var gated []func() string
	if newcomer >= 0 {
		id := thc.id
		gated = append(gated, func() string { return r.startLockGated(newcomer, id) })
		r.em.Count("race:with-gated-newcomer")
	}
	r.parG(gated, []func() string{func() string { return r.doCancel(c) }, func() string { return r.doUnlock(u) }}, held)
	switch thc.status.Load() {
	case c15Holding:
		r.em.Count(fmt.Sprintf("race-outcome:cancelled-waiter-got-the-token,waiters=%d", nwait))
	case c15CtxErr:
		r.em.Count(fmt.Sprintf("race-outcome:cancelled-waiter-returned-error,waiters=%d", nwait))
	case c15MgrErr:
		r.em.Count(fmt.Sprintf("race-outcome:cancelled-waiter-got-the-token-and-released-it-on-its-error-path,waiters=%d", nwait))
	case c15Idle:
		r.em.Count(fmt.Sprintf("race-outcome:cancelled-check-got-the-token-ran-and-released,waiters=%d", nwait))
	default:
		r.em.Count("race-outcome:other")
	}
}

// drain releases everything: cancels waiters, unlocks holders, until all sessions are idle.
func (r *c15Run) drain() {
	for round := 0; round < 6*len(r.ths) && !r.failed; round++ {
		progress := false
		for t, th := range r.ths {
			if r.failed {
				return
			}
			switch th.status.Load() {
			case c15Calling:
				if r.be.Cancellable(th.api) && !th.cancelled {
					r.par([]func() string{func() string { return r.doCancel(t) }}, false)
					progress = true
				}
			case c15Holding:
				r.par([]func() string{func() string { return r.doUnlock(t) }}, false)
				progress = true
			}
		}
		if !progress {
			break
		}
	}
}

// abort stops every goroutine of a failed case as well as it can.
func (r *c15Run) abort() (stuck bool) {
	r.openGates()
	for _, th := range r.ths {
		if th.cancel != nil {
			th.cancel()
		}
	}
	for i := 0; i < 50; i++ {
		held := false
		for _, th := range r.ths {
			if th.status.Load() == c15Holding && th.unlock != nil {
				held = true
				th.status.Store(c15Idle)
				u := th.unlock
				go func() { defer func() { recover() }(); u() }()
			}
		}
		time.Sleep(2 * time.Millisecond)
		calling := false
		for _, th := range r.ths {
			if th.status.Load() == c15Calling {
				calling = true
			}
		}
		stuck = calling
		if !held && !calling {
			break
		}
	}
	r.be.Reset()
	return stuck
}

// finish: the no-leak part of the property, evaluated on the implementation.
func (r *c15Run) finish() {
	r.drain()
	if r.failed {
		return
	}
	for t := range r.ths {
		if !r.isIdle(t) {
			r.monitor("caller-still-pending-after-release-of-everything", fmt.Sprintf("session %d", t))
			return
		}
	}
	if snap := r.be.Snapshot(); snap == nil || len(snap) != 0 {
		r.monitor("leaked-entry", fmt.Sprintf("all callers returned and released, %d entries left: %v", len(snap), snap))
		return
	}
	// every contract can be locked again immediately
	for id := 0; id < r.be.IDs && !r.failed; id++ {
		api := r.rng.Intn(r.be.APIs)
		start := time.Now()
		r.par([]func() string{func() string { return r.startLock(0, api, id, false) }}, false)
		if r.failed {
			return
		}
		th := r.ths[0]
		want := int32(c15Holding)
		if r.be.Bad(api, id) {
			want = c15MgrErr
		} else if r.isCheck(api) {
			// an integrity check of a free contract runs and returns at once, holding nothing
			want = c15Idle
			if !r.be.CheckOK(api, id) {
				want = c15MgrErr
			}
		}
		if got := th.status.Load(); got != want {
			r.monitor("relock-after-full-release-not-immediate", fmt.Sprintf("id %d api %d: status %d after %v", id, api, got, time.Since(start)))
			return
		}
		if want == c15Holding {
			r.par([]func() string{func() string { return r.doUnlock(0) }}, false)
		}
	}
	if snap := r.be.Snapshot(); !r.failed && len(snap) != 0 {
		r.monitor("leaked-entry", fmt.Sprintf("after relock/unlock %d entries left: %v", len(snap), snap))
	}
}

func (r *c15Run) lockStep(t, api, id int, predone bool) {
	r.par([]func() string{func() string { return r.startLock(t, api, id, predone) }}, false)
}
func (r *c15Run) cancelStep(t int) {
	if r.ths[t].status.Load() != c15Calling {
		return
	}
	r.par([]func() string{func() string { return r.doCancel(t) }}, false)
}
func (r *c15Run) unlockStep(t int) {
	if r.ths[t].status.Load() != c15Holding {
		return
	}
	r.par([]func() string{func() string { return r.doUnlock(t) }}, false)
}

// directed cases: known dangerous schedules and boundary cases (case ids 0..c15Directed-1)
const c15Directed = 26

// APIs and contract ids of the Manager backend (the locker backend has one API and maps every
// id into its range, so the same schedules run there with plain Lock calls)
const (
	c15APILock    = 0 // Manager.Lock
	c15APILockV2  = 1 // Manager.LockV2Contract
	c15APICheck   = 2 // Manager.CheckIntegrity
	c15APICheckV2 = 3 // Manager.V2CheckIntegrity

	c15IDGood    = 0 // v1 contract with stored sectors, good for modification
	c15IDTooLate = 1 // v1 contract too close to its proof window
	c15IDV2      = 2 // v2 contract with stored sectors
	c15IDMissing = 3
	c15IDBadV1   = 4 // v1 contract whose revision claims a sector that has no root
	c15IDBadV2   = 5 // v2 contract of the same kind
	c15IDRootV1  = 6 // v1 contract whose one root does not hash to the revision's Merkle root
	c15IDRootV2  = 7 // v2 contract of the same kind
)

func (r *c15Run) mapAPI(api int) int {
	if api >= r.be.APIs {
		return 0
	}
	return api
}

// queueBehindHolder: session 0 takes the contract, sessions 1.. queue up behind it in the given
// order (one API each), the holder releases, and then — whoever was admitted, and whatever it
// did before it returned — a late caller arrives: it must wait.
func (r *c15Run) queueBehindHolder(lockAPI, id int, queued []int, late bool) {
	id = id % r.be.IDs
	lockAPI = r.mapAPI(lockAPI)
	r.lockStep(0, lockAPI, id, false)
	for j, api := range queued {
		r.lockStep(1+j, r.mapAPI(api), id, false)
	}
	r.unlockStep(0)
	if late && !r.failed {
		r.lockStep(len(queued)+1, lockAPI, id, false)
	}
}

func (r *c15Run) directed(id int) {
	switch id {
	case 0: // hand-off chain
		r.lockStep(0, 0, 0, false)
		r.lockStep(1, 0, 0, false)
		r.lockStep(2, 0, 0, false)
		r.unlockStep(0)
	case 1: // cancelled waiter leaves, count goes down, entry removed at zero
		r.lockStep(0, 0, 0, false)
		r.lockStep(1, 0, 0, false)
		r.cancelStep(1)
		r.unlockStep(0)
	case 2: // cancel racing with the hand-off token, single waiter
		r.lockStep(0, 0, 0, false)
		r.lockStep(1, 0, 0, false)
		r.race(1, 0, false, -1)
	case 3: // same, both contending for lr.mu at once (waiter already chose ctx.Done)
		r.lockStep(0, 0, 0, false)
		r.lockStep(1, 0, 0, false)
		r.race(1, 0, true, -1)
	case 4: // two waiters, one cancelled while the holder unlocks: the token must reach the other
		r.lockStep(0, 0, 0, false)
		r.lockStep(1, 0, 0, false)
		r.lockStep(2, 0, 0, false)
		r.race(1, 0, true, -1)
	case 5: // same, unsteered
		r.lockStep(0, 0, 0, false)
		r.lockStep(1, 0, 0, false)
		r.lockStep(2, 0, 0, false)
		r.race(2, 0, false, -1)
	case 6: // context already cancelled: free lock is still taken, held lock returns the error
		r.lockStep(0, 0, 0, true)
		r.lockStep(1, 0, 0, true)
		r.unlockStep(0)
	case 7: // two contracts are independent
		r.lockStep(0, 0, 0, false)
		r.lockStep(1, 0, r.be.IDs-1, false)
		r.lockStep(2, 0, 0, false)
		r.unlockStep(1)
		r.unlockStep(0)
	case 8: // two callers arrive at a free lock together
		r.par([]func() string{
			func() string { return r.startLock(0, 0, 0, false) },
			func() string { return r.startLock(1, 0, 0, false) }}, false)
	case 9: // all waiters cancelled while the holder unlocks
		r.lockStep(0, 0, 0, false)
		r.lockStep(1, 0, 0, false)
		r.lockStep(2, 0, 0, false)
		r.par([]func() string{
			func() string { return r.doCancel(1) },
			func() string { return r.doCancel(2) },
			func() string { return r.doUnlock(0) }}, true)
	case 10:
		if r.be.APIs >= 2 {
			// Manager: a waiter whose contract check fails sits between the holder and another
			// waiter; when it is handed the lock it must release it on its error path
			r.lockStep(0, 1, 2, false) // LockV2Contract on the v2 contract
			r.lockStep(1, 0, 2, false) // Manager.Lock on the same id: no such v1 contract
			r.lockStep(2, 1, 2, false)
			r.unlockStep(0)
		} else {
			r.lockStep(0, 0, 0, false)
			r.lockStep(1, 0, 0, false)
			r.lockStep(2, 0, 0, false)
			r.cancelStep(1)
			r.cancelStep(2)
			r.unlockStep(0)
		}
	case 11:
		if r.be.APIs >= 2 {
			// Manager: error paths on a free lock (missing contract, not good for modification,
			// missing v2 contract), each followed by an immediate relock
			for rep := 0; rep < 2; rep++ {
				r.lockStep(0, 0, 3, false)
				r.lockStep(1, 0, 1, false)
				r.lockStep(2, 1, 3, false)
				r.lockStep(0, 1, 0, false)
			}
		} else {
			r.lockStep(0, 0, 0, false)
			r.lockStep(1, 0, 0, false)
			r.unlockStep(0)
			r.lockStep(0, 0, 0, false)
			r.unlockStep(1)
			r.lockStep(2, 0, 0, true)
		}
	case 12, 13:
		// a newcomer has enqueued itself but is not yet receiving while the only parked waiter
		// is cancelled and the holder unlocks: the token goes into the buffer and must still be
		// there for the newcomer whatever the cancelled waiter does
		r.lockStep(0, 0, 0, false)
		r.lockStep(1, 0, 0, false)
		if r.be.APIs == 1 {
			r.race(1, 0, id == 12, 2)
		} else {
			r.race(1, 0, id == 12, -1)
		}

	// 14..: the other users of the lock inside the manager (integrity.go) under contention: a
	// holder, a queued integrity check, a queued waiter behind it, then a late caller
	case 14: // CheckIntegrity of a contract with sectors, between the holder and a waiter
		r.queueBehindHolder(c15APILock, c15IDGood, []int{c15APICheck, c15APILock}, true)
	case 15: // V2CheckIntegrity, likewise
		r.queueBehindHolder(c15APILockV2, c15IDV2, []int{c15APICheckV2, c15APILockV2}, true)
	case 16: // the check returns an error from its body (root count mismatch): deferred release
		if r.rng.Intn(2) == 0 {
			r.queueBehindHolder(c15APILock, c15IDBadV1, []int{c15APICheck, c15APILock}, true)
		} else {
			r.queueBehindHolder(c15APILockV2, c15IDBadV2, []int{c15APICheckV2, c15APILockV2}, true)
		}
	case 17:
		if r.rng.Intn(2) == 0 { // the other error return of the body: Merkle root mismatch
			r.queueBehindHolder(c15APILock, c15IDRootV1, []int{c15APICheck, c15APILock}, true)
		} else {
			r.queueBehindHolder(c15APILockV2, c15IDRootV2, []int{c15APICheckV2, c15APILockV2}, true)
		}
	case 18: // two waiters behind the check: its release must admit one of them, not both
		r.queueBehindHolder(c15APILock, c15IDGood, []int{c15APICheck, c15APILock, c15APILock}, true)
	case 19: // the check in the middle of the queue
		r.queueBehindHolder(c15APILockV2, c15IDV2, []int{c15APILockV2, c15APICheckV2, c15APILockV2}, true)
	case 20: // a check whose Manager-level lock call fails (v1 check of a v2 contract): error path of Manager.Lock
		r.queueBehindHolder(c15APILockV2, c15IDV2, []int{c15APICheck, c15APILockV2}, true)
	case 21: // two checks and a waiter
		r.queueBehindHolder(c15APILock, c15IDGood, []int{c15APICheck, c15APICheck, c15APILock}, true)
	case 22: // a check and two lockers arrive at a free contract together, then a late caller
		id0 := c15IDGood % r.be.IDs
		r.par([]func() string{
			func() string { return r.startLock(0, r.mapAPI(c15APICheck), id0, false) },
			func() string { return r.startLock(1, r.mapAPI(c15APILock), id0, false) },
			func() string { return r.startLock(2, r.mapAPI(c15APILock), id0, false) }}, true)
		r.lockStep(3, r.mapAPI(c15APILock), id0, false)
	case 23: // the queued check is cancelled while the holder releases, a waiter behind it
		id0 := c15IDGood % r.be.IDs
		r.lockStep(0, r.mapAPI(c15APILock), id0, false)
		r.lockStep(1, r.mapAPI(c15APICheck), id0, false)
		r.lockStep(2, r.mapAPI(c15APILock), id0, false)
		r.race(1, 0, true, -1)
		if !r.failed {
			r.lockStep(3, r.mapAPI(c15APILock), id0, false)
		}
	case 24: // hand-off chain through checks: every release is followed by a late caller
		id0 := c15IDBadV1 % r.be.IDs
		r.lockStep(0, r.mapAPI(c15APILock), id0, false)
		r.lockStep(1, r.mapAPI(c15APICheck), id0, false)
		r.lockStep(2, r.mapAPI(c15APILock), id0, false)
		r.lockStep(3, r.mapAPI(c15APICheck), id0, false)
		r.unlockStep(0)
		r.lockStep(0, r.mapAPI(c15APILock), id0, false)
		for round := 0; round < 4 && !r.failed; round++ {
			if h := r.pickWith(c15Holding, id0, nil); h >= 0 {
				r.unlockStep(h)
				if !r.failed && r.isIdle(h) {
					r.lockStep(h, r.mapAPI(c15APICheck), id0, false)
				}
			}
		}
	case 25: // uncontended round trips: a check of a free contract returns with the contract free
		for _, c := range [][2]int{{c15APICheck, c15IDGood}, {c15APICheckV2, c15IDV2}, {c15APICheck, c15IDBadV1},
			{c15APICheckV2, c15IDBadV2}, {c15APICheck, c15IDRootV1}, {c15APICheckV2, c15IDRootV2},
			{c15APICheck, c15IDTooLate}, {c15APICheckV2, c15IDMissing}} {
			if r.failed {
				break
			}
			api, cid := r.mapAPI(c[0]), c[1]%r.be.IDs
			r.lockStep(0, api, cid, false)
			lockAPI := r.mapAPI(c15APILock)
			if r.be.APIs > 1 && r.be.Bad(lockAPI, cid) {
				lockAPI = r.mapAPI(c15APILockV2)
			}
			if r.ths[0].status.Load() == c15Holding { // locker backend: a plain Lock
				r.unlockStep(0)
			}
			r.lockStep(1, lockAPI, cid, false)
			r.unlockStep(1)
		}
	}
}

func (r *c15Run) generated(steps int) {
	for i := 0; i < steps && !r.failed; i++ {
		x := r.rng.Intn(100)
		switch {
		case x < 30: // cancel || unlock on the same contract
			c := r.pickWith(c15Calling, -1, func(th *c15Thread) bool { return r.be.Cancellable(th.api) && !th.cancelled })
			if c < 0 {
				continue
			}
			u := r.pickWith(c15Holding, r.ths[c].id, nil)
			if u < 0 {
				continue
			}
			newcomer := -1
			if r.be.APIs == 1 && r.rng.Intn(3) == 0 {
				newcomer = r.pickIdle()
			}
			r.race(c, u, r.rng.Intn(2) == 0, newcomer)
		case x < 45: // two or three arbitrary actions at once
			k := 2 + r.rng.Intn(2)
			perm := r.rng.Perm(len(r.ths))
			var acts []func() string
			var kinds []string
			prefer := r.rng.Intn(r.be.IDs)
			for _, t := range perm {
				if len(acts) == k {
					break
				}
				if a := r.candidate(t, prefer); a != nil {
					acts = append(acts, a.run)
					kinds = append(kinds, a.kind)
				}
			}
			if len(acts) < 2 {
				continue
			}
			sort.Strings(kinds)
			held := r.rng.Intn(2) == 0
			r.em.Count("par:" + strings.Join(kinds, "+"))
			r.par(acts, held)
		default:
			t := r.rng.Intn(len(r.ths))
			// bias towards contention: prefer an id that is currently held
			prefer := -1
			if h := r.pickWith(c15Holding, -1, nil); h >= 0 {
				prefer = r.ths[h].id
			}
			a := r.candidate(t, prefer)
			if a == nil {
				continue
			}
			if a.kind == "cancel" && r.rng.Intn(2) == 0 {
				continue // keep waiters around more often
			}
			r.em.Count("op:" + a.kind)
			r.par([]func() string{a.run}, false)
		}
	}
}

// VerifC15Drive runs directed and generated schedules against the backend.
func VerifC15Drive(t *testing.T, em VerifC15Emitter, be *VerifC15Backend, n int, rnd func(int) *rand.Rand) (wedged bool) {
	failures := 0
	for id := 0; id < c15Directed+n; id++ {
		if em.Skip(id) {
			continue
		}
		rng := rnd(id)
		k := 3
		if id >= 14 {
			k = 5
		}
		if id >= c15Directed {
			k = 2 + rng.Intn(be.MaxThreads-1)
		}
		r := &c15Run{be: be, em: em, rng: rng, timeout: 5 * time.Second}
		r.ths = make([]*c15Thread, k)
		for i := range r.ths {
			r.ths[i] = &c15Thread{}
		}
		r.inCS = make([]atomic.Int32, be.IDs)
		em.BeginCase(id, be.Name+" schedule")
		em.Step(fmt.Sprintf("Init %d", k), r.observe())
		if id < c15Directed {
			em.Count("case:directed")
			r.directed(id)
		} else {
			em.Count(fmt.Sprintf("case:generated,callers=%d", k))
			r.generated(8 + rng.Intn(30))
		}
		if !r.failed {
			r.finish()
		}
		em.EndCase(r.parked > 0)
		if r.fatal {
			r.be.Reset()
			t.Logf("locker wedged in case %d, stopping", id)
			return true
		}
		if r.paniced {
			r.abort()
			t.Logf("a call panicked in case %d, stopping", id)
			return true
		}
		if r.failed {
			if r.abort() {
				t.Logf("a Lock call of case %d cannot be ended, stopping", id)
				return true
			}
			failures++
			if failures >= 3 {
				t.Logf("stopping after %d failing cases", failures)
				break
			}
		}
	}
	return false
}

// TestVerifC15Locker drives the bare locker.
func TestVerifC15Locker(t *testing.T) {
	em := newVerifEmitter(t, "From HostdBase Require Import Base.\nFrom HostdLock Require Import Model.", "case", "check")
	defer em.Close()

	thorough := os.Getenv("VERIF_TIER") == "thorough"
	nIDs := 2
	maxThreads := 4
	if thorough {
		nIDs, maxThreads = 3, 6
	}
	ids := make([]types.FileContractID, nIDs)
	for i := range ids {
		ids[i] = types.FileContractID{byte(i + 1)}
	}
	lr := newLocker()
	be := &VerifC15Backend{
		Name: "locker", IDs: nIDs, APIs: 1, MaxThreads: maxThreads,
		Lock: func(ctx context.Context, api, id int) (func(), error) {
			if err := lr.Lock(ctx, ids[id]); err != nil {
				return nil, err
			}
			return func() { lr.Unlock(ids[id]) }, nil
		},
		Snapshot:    func() map[int][2]int { return verifC15Snapshot(lr, ids) },
		Mu:          func() *sync.Mutex { return &lr.mu },
		Bad:         func(api, id int) bool { return false },
		Cancellable: func(api int) bool { return true },
		Reset:       func() { lr = newLocker() },
	}
	if VerifC15Drive(t, em, be, verifN(300), verifCaseRand) {
		// goroutines are stuck inside the locker: the test binary cannot shut down cleanly
		em.Close()
		os.Exit(3)
	}
}
