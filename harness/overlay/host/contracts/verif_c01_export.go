//go:build verif

package contracts

// Exports buildContractState to the store-level C01/C05 driver in persist/sqlite, so that the
// driver can hand the element diffs of a block (merged per contract id, as core's MidState
// produces them) to the real function and feed what it returns to the real store — the path of
// contracts.Manager.UpdateChainState.

import (
	"go.sia.tech/core/consensus"
	"go.uber.org/zap"
)

// VerifBuildContractState is buildContractState.
func VerifBuildContractState(tx UpdateStateTx, fces []consensus.FileContractElementDiff, v2Fces []consensus.V2FileContractElementDiff, revert bool) (StateChanges, error) {
	return buildContractState(tx, fces, v2Fces, revert, zap.NewNop())
}
