//go:build verif

package contracts_test

import (
	"database/sql"
	"encoding/binary"
	"fmt"
	"math/rand"
	"net/http/httptest"
	"os"
	"path/filepath"
	"sort"
	"strings"
	"testing"

	"go.sia.tech/core/types"
	rhp4 "go.sia.tech/coreutils/rhp/v4"
	"go.sia.tech/hostd/v2/api"
	"go.sia.tech/hostd/v2/host/contracts"
	"go.sia.tech/hostd/v2/index"
	"go.sia.tech/hostd/v2/persist/sqlite"
	"go.uber.org/zap"
)

// a stored contract as the tables hold it (read back with plain SQL), for the model and for
// the reference filter
type c19Row struct {
	idx              int // contract number (model id)
	status           int // status code of Query/Model.v
	to, from         int // contract number of the renewal link, -1 = NULL
	renter           int
	neg, exp         uint64
}

func (r c19Row) coq() string {
	opt := func(v int) string {
		if v < 0 {
			return "None"
		}
		return fmt.Sprintf("(Some %d%%N)", v)
	}
	return fmt.Sprintf("{| r_id := %d; r_status := %d; r_to := %s; r_from := %s; r_renter := %d; r_neg := %d; r_exp := %d |}",
		r.idx, r.status, opt(r.to), opt(r.from), r.renter, r.neg, r.exp)
}

// a filter in the harness's own terms (numbers), convertible to both Go filter types
type c19Filter struct {
	statuses                     []int
	ids, from, to, renters       []int
	minNeg, maxNeg, minExp, maxExp uint64
	limit, offset                int
	sortField                    string
	desc                         bool
}

func c19List(l []int) string {
	s := make([]string, len(l))
	for i, v := range l {
		s[i] = fmt.Sprintf("%d%%N", v)
	}
	return "[" + strings.Join(s, "; ") + "]"
}

func (f c19Filter) coq() string {
	sf := "SortExp"
	switch f.sortField {
	case contracts.ContractSortStatus:
		sf = "SortStatus"
	case contracts.ContractSortNegotiationHeight:
		sf = "SortNeg"
	}
	return fmt.Sprintf("{| f_statuses := %s; f_ids := %s; f_from := %s; f_to := %s; f_renters := %s; f_min_neg := %d; f_max_neg := %d; f_min_exp := %d; f_max_exp := %d; f_limit := (%d)%%Z; f_offset := (%d)%%Z; f_sort := %s; f_desc := %v |}",
		c19List(f.statuses), c19List(f.ids), c19List(f.from), c19List(f.to), c19List(f.renters),
		f.minNeg, f.maxNeg, f.minExp, f.maxExp, f.limit, f.offset, sf, f.desc)
}

var c19V1Status = []contracts.ContractStatus{contracts.ContractStatusPending, contracts.ContractStatusRejected, contracts.ContractStatusActive, contracts.ContractStatusSuccessful, contracts.ContractStatusFailed}
var c19V2Status = []contracts.V2ContractStatus{contracts.V2ContractStatusPending, contracts.V2ContractStatusRejected, contracts.V2ContractStatusActive, contracts.V2ContractStatusRenewed, contracts.V2ContractStatusSuccessful, contracts.V2ContractStatusFailed}

const c19Bogus = 9 // a status code no contract has

func c19ID(ver byte, n int) (id types.FileContractID) {
	binary.LittleEndian.PutUint64(id[:], uint64(n))
	id[31] = ver
	return
}

func c19Num(id types.FileContractID) int { return int(binary.LittleEndian.Uint64(id[:8])) }

// what the store answered, in harness terms
type c19Answer struct {
	err    error
	ids    []int
	count  int
	keys   []string // the sort key of each returned contract, as the returned object shows it
	fields []c19Row // the returned objects projected like rows
}

func (a c19Answer) coq() string {
	if a.err != nil {
		if strings.Contains(a.err.Error(), "failed to build where clause") {
			return "(Err EInvalid)"
		}
		return "(Err EOther)"
	}
	return fmt.Sprintf("(Ok (%s, %d%%N))", c19List(a.ids), a.count)
}

// TestVerifC19 fills a real sqlite.Store with v1 and v2 contracts in every status, with
// renewal links and several renter keys, and runs generated filters through
// Store.Contracts / Store.V2Contracts (via the contract manager) and through the HTTP
// handlers; it records tables, filters and answers for the Coq model (Query/Model.v) and
// judges every answer with a reference filter written from the text of C19.
func TestVerifC19(t *testing.T) {
	em := newVerifEmitter(t, "From HostdBase Require Import Base.\nFrom HostdQuery Require Import Model.", "case", "check")
	defer em.Close()

	hostKey := types.NewPrivateKeyFromSeed([]byte(strings.Repeat("h", 32))).PublicKey()
	var renterKeys []types.PublicKey
	for i := 0; i < 4; i++ {
		renterKeys = append(renterKeys, types.NewPrivateKeyFromSeed([]byte(strings.Repeat(string(rune('a'+i)), 32))).PublicKey())
	}
	const unknownRenter = 3 // renterKeys[3] never owns a contract

	n := verifN(60)
	const directed = 2
	for id := 0; id < n+directed; id++ {
		if em.Skip(id) {
			continue
		}
		rng := verifCaseRand(id)
		dbPath := filepath.Join(t.TempDir(), fmt.Sprintf("c19_%d.db", id))
		db, err := sqlite.OpenDatabase(dbPath, zap.NewNop())
		if err != nil {
			t.Fatal(err)
		}
		raw, err := sql.Open("sqlite3", "file:"+dbPath+"?mode=ro&_busy_timeout=5000")
		if err != nil {
			t.Fatal(err)
		}
		cm, err := contracts.NewManager(db, c06Storage{}, c06Chain{}, &c06Syncer{}, c06Wallet{})
		if err != nil {
			t.Fatal(err)
		}
		srv := httptest.NewServer(api.NewServer("verif", hostKey, nil, nil, nil, cm, nil, nil, nil, nil, nil))
		client := api.NewClient(srv.URL, "")

		negs := []uint64{1, 2, 3, 5, 8, 10}
		exps := []uint64{10, 11, 12, 20, 30, 31}

		// ---- population
		nv1, nv2 := 0, 0
		mkV1 := func(num, renter int, ws uint64, rev uint64) contracts.SignedRevision {
			uc := types.UnlockConditions{PublicKeys: []types.UnlockKey{renterKeys[renter].UnlockKey(), hostKey.UnlockKey()}, SignaturesRequired: 2}
			return contracts.SignedRevision{Revision: types.FileContractRevision{ParentID: c19ID(1, num), UnlockConditions: uc,
				FileContract: types.FileContract{WindowStart: ws, WindowEnd: ws + 1 + uint64((num*7)%11), RevisionNumber: rev, UnlockHash: uc.UnlockHash(),
					ValidProofOutputs:  []types.SiacoinOutput{{Value: types.Siacoins(1)}, {Value: types.Siacoins(1)}},
					MissedProofOutputs: []types.SiacoinOutput{{Value: types.Siacoins(1)}, {Value: types.Siacoins(1)}, {}}}}}
		}
		v1Renter := map[int]int{}
		v1WS := map[int]uint64{}
		addV1 := func(renter int, neg, ws uint64) int {
			nv1++
			if err := db.AddContract(mkV1(nv1, renter, ws, 1), []types.Transaction{{}}, types.Siacoins(1), contracts.Usage{}, neg); err != nil {
				t.Fatal(err)
			}
			v1Renter[nv1], v1WS[nv1] = renter, ws
			return nv1
		}
		renewV1 := func(old int, neg, ws uint64) int {
			nv1++
			clearing := mkV1(old, v1Renter[old], v1WS[old], types.MaxRevisionNumber)
			if err := db.RenewContract(mkV1(nv1, v1Renter[old], ws, 1), clearing, []types.Transaction{{}}, types.Siacoins(1), contracts.Usage{}, contracts.Usage{}, neg); err != nil {
				t.Fatal(err)
			}
			v1Renter[nv1], v1WS[nv1] = v1Renter[old], ws
			return nv1
		}
		mkV2 := func(num, renter int, neg, eh uint64) contracts.V2Contract {
			return contracts.V2Contract{ID: c19ID(2, num), NegotiationHeight: neg, Status: contracts.V2ContractStatusPending,
				V2FileContract: types.V2FileContract{ProofHeight: eh - 1 - uint64((num*5)%7), ExpirationHeight: eh, RevisionNumber: 1, RenterPublicKey: renterKeys[renter], HostPublicKey: hostKey,
					HostOutput: types.SiacoinOutput{Value: types.Siacoins(1)}, RenterOutput: types.SiacoinOutput{Value: types.Siacoins(1)}, TotalCollateral: types.Siacoins(1)}}
		}
		v2Renter := map[int]int{}
		addV2 := func(renter int, neg, eh uint64) int {
			nv2++
			if err := db.AddV2Contract(mkV2(nv2, renter, neg, eh), rhp4.TransactionSet{}); err != nil {
				t.Fatal(err)
			}
			v2Renter[nv2] = renter
			return nv2
		}
		renewV2 := func(old int, neg, eh uint64) int {
			nv2++
			if err := db.RenewV2Contract(mkV2(nv2, v2Renter[old], neg, eh), rhp4.TransactionSet{}, c19ID(2, old), nil); err != nil {
				t.Fatal(err)
			}
			v2Renter[nv2] = v2Renter[old]
			return nv2
		}
		chain := func(what string, fn func(tx index.UpdateTx) error) {
			defer func() {
				if r := recover(); r != nil {
					t.Fatalf("%s panicked: %v", what, r)
				}
			}()
			if err := db.UpdateChainState(fn); err != nil {
				t.Fatalf("%s: %v", what, err)
			}
		}
		idx := types.ChainIndex{Height: 9, ID: types.BlockID{9}}
		// drive contract [num] to status code [want]
		setV1 := func(num, want int) {
			fcid := c19ID(1, num)
			if want == 1 {
				// reject by negotiation height: only this contract is older than the bound
				chain("reject", func(tx index.UpdateTx) error { _, _, err := tx.RejectContracts(1); return err })
				return
			}
			if want >= 2 {
				chain("confirm", func(tx index.UpdateTx) error {
					return tx.ApplyContracts(idx, contracts.StateChanges{Confirmed: []types.FileContractElement{{ID: fcid}}})
				})
			}
			if want == 3 {
				chain("successful", func(tx index.UpdateTx) error {
					return tx.ApplyContracts(idx, contracts.StateChanges{Successful: []types.FileContractID{fcid}})
				})
			}
			if want == 4 {
				chain("failed", func(tx index.UpdateTx) error {
					return tx.ApplyContracts(idx, contracts.StateChanges{Failed: []types.FileContractID{fcid}})
				})
			}
		}
		setV2 := func(num, want int) {
			fcid := c19ID(2, num)
			if want == 1 {
				chain("reject", func(tx index.UpdateTx) error { _, _, err := tx.RejectContracts(1); return err })
				return
			}
			if want >= 2 {
				chain("confirm", func(tx index.UpdateTx) error {
					return tx.ApplyContracts(idx, contracts.StateChanges{ConfirmedV2: []types.V2FileContractElement{{ID: fcid}}})
				})
			}
			switch want {
			case 3:
				chain("renewed", func(tx index.UpdateTx) error {
					return tx.ApplyContracts(idx, contracts.StateChanges{RenewedV2: []types.FileContractID{fcid}})
				})
			case 4:
				chain("successful", func(tx index.UpdateTx) error {
					return tx.ApplyContracts(idx, contracts.StateChanges{SuccessfulV2: []types.FileContractID{fcid}})
				})
			case 5:
				chain("failed", func(tx index.UpdateTx) error {
					return tx.ApplyContracts(idx, contracts.StateChanges{FailedV2: []types.FileContractID{fcid}})
				})
			}
		}

		// rejected contracts first: RejectContracts(1) rejects everything negotiated at height
		// 0, and nothing added later (negotiation heights >= 1)
		nRej1, nRej2 := 1+rng.Intn(2), 1+rng.Intn(2)
		if id == 0 {
			nRej1, nRej2 = 1, 1
		}
		for i := 0; i < nRej1; i++ {
			addV1(rng.Intn(3), 0, exps[rng.Intn(len(exps))])
		}
		for i := 0; i < nRej2; i++ {
			addV2(rng.Intn(3), 0, exps[rng.Intn(len(exps))])
		}
		setV1(0, 1) // one RejectContracts call rejects all of them, v1 and v2
		size1, size2 := 5+rng.Intn(8), 5+rng.Intn(8)
		big := id == 1 || (id >= directed && id%25 == 0)
		if big {
			size1, size2 = 115, 108 // more than one full page of 100
		}
		for i := 0; i < size1; i++ {
			var num int
			if i > 0 && rng.Intn(4) == 0 {
				num = renewV1(nRej1+1+rng.Intn(nv1-nRej1), negs[rng.Intn(len(negs))], exps[rng.Intn(len(exps))])
				em.Count("population:v1-renewal")
			} else {
				num = addV1(rng.Intn(3), negs[rng.Intn(len(negs))], exps[rng.Intn(len(exps))])
			}
			st := []int{0, 2, 2, 3, 4}[rng.Intn(5)]
			if i < 5 {
				st = []int{0, 2, 3, 4, 2}[i] // every status present
			}
			setV1(num, st)
		}
		for i := 0; i < size2; i++ {
			var num int
			if i > 0 && rng.Intn(4) == 0 {
				num = renewV2(nRej2+1+rng.Intn(nv2-nRej2), negs[rng.Intn(len(negs))], exps[rng.Intn(len(exps))])
				em.Count("population:v2-renewal")
			} else {
				num = addV2(rng.Intn(3), negs[rng.Intn(len(negs))], exps[rng.Intn(len(exps))])
			}
			st := []int{0, 2, 2, 3, 4, 5}[rng.Intn(6)]
			if i < 6 {
				st = []int{0, 2, 3, 4, 5, 2}[i]
			}
			setV2(num, st)
		}

		// ---- the tables, read back with plain SQL
		readRows := func(ver int) []c19Row {
			table, expCol := "contracts", "window_start"
			if ver == 2 {
				table, expCol = "contracts_v2", "expiration_height"
			}
			renters := map[int64]int{}
			rr, err := raw.Query(`SELECT id, public_key FROM contract_renters`)
			if err != nil {
				t.Fatal(err)
			}
			for rr.Next() {
				var rid int64
				var pk []byte
				if err := rr.Scan(&rid, &pk); err != nil {
					t.Fatal(err)
				}
				for k, key := range renterKeys {
					if string(key[:]) == string(pk) {
						renters[rid] = k
					}
				}
			}
			rr.Close()
			type rawRow struct {
				dbid           int64
				cid            []byte
				status         any
				to, from       sql.NullInt64
				renter         int64
				neg, exp       uint64
			}
			var rws []rawRow
			rs, err := raw.Query(`SELECT id, contract_id, contract_status, renewed_to, renewed_from, renter_id, negotiation_height, ` + expCol + ` FROM ` + table + ` ORDER BY id`)
			if err != nil {
				t.Fatal(err)
			}
			byDB := map[int64]int{}
			for rs.Next() {
				var r rawRow
				if err := rs.Scan(&r.dbid, &r.cid, &r.status, &r.to, &r.from, &r.renter, &r.neg, &r.exp); err != nil {
					t.Fatal(err)
				}
				var fcid types.FileContractID
				copy(fcid[:], r.cid)
				byDB[r.dbid] = c19Num(fcid)
				rws = append(rws, r)
			}
			rs.Close()
			var out []c19Row
			for _, r := range rws {
				row := c19Row{idx: byDB[r.dbid], to: -1, from: -1, renter: renters[r.renter], neg: r.neg, exp: r.exp}
				if r.to.Valid {
					row.to = byDB[r.to.Int64]
				}
				if r.from.Valid {
					row.from = byDB[r.from.Int64]
				}
				switch s := r.status.(type) {
				case int64:
					row.status = int(s)
				case string:
					row.status = -1
					for k, v := range c19V2Status {
						if string(v) == s {
							row.status = k
						}
					}
				case []byte:
					row.status = -1
					for k, v := range c19V2Status {
						if string(v) == string(s) {
							row.status = k
						}
					}
				}
				if row.status < 0 {
					t.Fatalf("unknown stored status %v", r.status)
				}
				out = append(out, row)
			}
			return out
		}
		rows := map[int][]c19Row{1: readRows(1), 2: readRows(2)}
		em.BeginCase(id, "population and filters")
		for ver := 1; ver <= 2; ver++ {
			var s []string
			for _, r := range rows[ver] {
				s = append(s, r.coq())
				em.Count(fmt.Sprintf("row:v%d,status=%d,renewedTo=%v,renewedFrom=%v", ver, r.status, r.to >= 0, r.from >= 0))
			}
			em.Step(fmt.Sprintf("SetRows V%d\n     [%s]", ver, strings.Join(s, ";\n      ")), "ODone")
		}

		// ---- running a filter
		run := func(ver int, f c19Filter, http bool) (a c19Answer) {
			defer func() {
				if r := recover(); r != nil {
					em.Monitor("contract-query-panics", fmt.Sprint(r))
					a.err = fmt.Errorf("panic: %v", r)
				}
			}()
			var cids, from, to []types.FileContractID
			for _, n := range f.ids {
				cids = append(cids, c19ID(byte(ver), n))
			}
			for _, n := range f.from {
				from = append(from, c19ID(byte(ver), n))
			}
			for _, n := range f.to {
				to = append(to, c19ID(byte(ver), n))
			}
			var keys []types.PublicKey
			for _, k := range f.renters {
				keys = append(keys, renterKeys[k])
			}
			if ver == 1 {
				var sts []contracts.ContractStatus
				for _, s := range f.statuses {
					if s == c19Bogus {
						sts = append(sts, contracts.ContractStatus(c19Bogus))
					} else {
						sts = append(sts, c19V1Status[s])
					}
				}
				gf := contracts.ContractFilter{Statuses: sts, ContractIDs: cids, RenewedFrom: from, RenewedTo: to, RenterKey: keys,
					MinNegotiationHeight: f.minNeg, MaxNegotiationHeight: f.maxNeg, MinExpirationHeight: f.minExp, MaxExpirationHeight: f.maxExp,
					Limit: f.limit, Offset: f.offset, SortField: f.sortField, SortDesc: f.desc}
				var cs []contracts.Contract
				if http {
					cs, a.count, a.err = client.Contracts(gf)
				} else {
					cs, a.count, a.err = cm.Contracts(gf)
				}
				for _, c := range cs {
					r := c19Row{idx: c19Num(c.Revision.ParentID), status: int(c.Status), to: -1, from: -1, neg: c.NegotiationHeight, exp: c.Revision.WindowStart, renter: -1}
					if c.RenewedTo != (types.FileContractID{}) {
						r.to = c19Num(c.RenewedTo)
					}
					if c.RenewedFrom != (types.FileContractID{}) {
						r.from = c19Num(c.RenewedFrom)
					}
					for k, key := range renterKeys {
						if key == c.RenterKey() {
							r.renter = k
						}
					}
					a.ids = append(a.ids, r.idx)
					a.fields = append(a.fields, r)
					switch f.sortField {
					case contracts.ContractSortStatus:
						a.keys = append(a.keys, fmt.Sprintf("%020d", int(c.Status)))
					case contracts.ContractSortNegotiationHeight:
						a.keys = append(a.keys, fmt.Sprintf("%020d", c.NegotiationHeight))
					default:
						a.keys = append(a.keys, fmt.Sprintf("%020d", c.Revision.WindowStart))
					}
				}
				return
			}
			var sts []contracts.V2ContractStatus
			for _, s := range f.statuses {
				if s == c19Bogus {
					sts = append(sts, contracts.V2ContractStatus("bogus"))
				} else {
					sts = append(sts, c19V2Status[s])
				}
			}
			gf := contracts.V2ContractFilter{Statuses: sts, ContractIDs: cids, RenewedFrom: from, RenewedTo: to, RenterKey: keys,
				MinNegotiationHeight: f.minNeg, MaxNegotiationHeight: f.maxNeg, MinExpirationHeight: f.minExp, MaxExpirationHeight: f.maxExp,
				Limit: f.limit, Offset: f.offset, SortField: f.sortField, SortDesc: f.desc}
			var cs []contracts.V2Contract
			if http {
				cs, a.count, a.err = client.V2Contracts(gf)
			} else {
				cs, a.count, a.err = cm.V2Contracts(gf)
			}
			for _, c := range cs {
				r := c19Row{idx: c19Num(c.ID), status: -1, to: -1, from: -1, neg: c.NegotiationHeight, exp: c.ExpirationHeight, renter: -1}
				for k, v := range c19V2Status {
					if v == c.Status {
						r.status = k
					}
				}
				if c.RenewedTo != (types.FileContractID{}) {
					r.to = c19Num(c.RenewedTo)
				}
				if c.RenewedFrom != (types.FileContractID{}) {
					r.from = c19Num(c.RenewedFrom)
				}
				for k, key := range renterKeys {
					if key == c.RenterPublicKey {
						r.renter = k
					}
				}
				a.ids = append(a.ids, r.idx)
				a.fields = append(a.fields, r)
				switch f.sortField {
				case contracts.ContractSortStatus:
					a.keys = append(a.keys, string(c.Status)) // a TEXT column sorts bytewise
				case contracts.ContractSortNegotiationHeight:
					a.keys = append(a.keys, fmt.Sprintf("%020d", c.NegotiationHeight))
				default:
					a.keys = append(a.keys, fmt.Sprintf("%020d", c.ExpirationHeight))
				}
			}
			return
		}

		// ---- the reference filter, from the text of the property: a contract matches iff it
		// satisfies every criterion that is given (a non-empty list, a non-zero bound)
		has := func(l []int, v int) bool {
			for _, x := range l {
				if x == v {
					return true
				}
			}
			return false
		}
		matches := func(f c19Filter, r c19Row) bool {
			if len(f.statuses) > 0 && !has(f.statuses, r.status) {
				return false
			}
			if len(f.ids) > 0 && !has(f.ids, r.idx) {
				return false
			}
			if len(f.from) > 0 && (r.from < 0 || !has(f.from, r.from)) {
				return false
			}
			if len(f.to) > 0 && (r.to < 0 || !has(f.to, r.to)) {
				return false
			}
			if len(f.renters) > 0 && !has(f.renters, r.renter) {
				return false
			}
			if f.minNeg > 0 && r.neg < f.minNeg {
				return false
			}
			if f.maxNeg > 0 && r.neg > f.maxNeg {
				return false
			}
			if f.minExp > 0 && r.exp < f.minExp {
				return false
			}
			if f.maxExp > 0 && r.exp > f.maxExp {
				return false
			}
			return true
		}
		contradictory := func(f c19Filter) bool {
			return (f.minNeg > 0 && f.maxNeg > 0 && f.minNeg > f.maxNeg) || (f.minExp > 0 && f.maxExp > 0 && f.minExp > f.maxExp)
		}
		huge := func(f c19Filter) bool {
			return f.minNeg >= 1<<63 || f.maxNeg >= 1<<63 || f.minExp >= 1<<63 || f.maxExp >= 1<<63
		}
		effLimit := func(l int, http bool) int {
			if http && (l <= 0 || l > 500) {
				l = 500
			}
			if l <= 0 || l > 100 {
				return 100
			}
			return l
		}
		judge := func(ver int, f c19Filter, a c19Answer, http bool) (matched map[int]bool) {
			matched = map[int]bool{}
			byID := map[int]c19Row{}
			for _, r := range rows[ver] {
				byID[r.idx] = r
				if matches(f, r) {
					matched[r.idx] = true
				}
			}
			if a.err != nil {
				if strings.HasPrefix(a.err.Error(), "panic") {
					return
				}
				if !contradictory(f) && !huge(f) {
					em.Monitor("filter-rejects-consistent-bounds", fmt.Sprintf("v%d negotiation [%d,%d] expiration [%d,%d]: %v", ver, f.minNeg, f.maxNeg, f.minExp, f.maxExp, a.err))
				}
				return
			}
			if contradictory(f) {
				em.Monitor("filter-accepts-contradictory-bounds", fmt.Sprintf("v%d negotiation [%d,%d] expiration [%d,%d] answered with %d contracts", ver, f.minNeg, f.maxNeg, f.minExp, f.maxExp, a.count))
				return
			}
			if a.count != len(matched) {
				em.Monitor("count-differs-from-matches", fmt.Sprintf("v%d count %d, %d stored contracts match (limit %d offset %d)", ver, a.count, len(matched), f.limit, f.offset))
			}
			seen := map[int]bool{}
			for i, cid := range a.ids {
				if !matched[cid] {
					em.Monitor("returned-non-matching-contract", fmt.Sprintf("v%d contract #%d does not satisfy the filter", ver, cid))
				}
				if seen[cid] {
					em.Monitor("contract-returned-twice", fmt.Sprintf("v%d contract #%d", ver, cid))
				}
				seen[cid] = true
				got, want := a.fields[i], byID[cid]
				if got != want {
					em.Monitor("returned-contract-differs-from-stored", fmt.Sprintf("v%d contract #%d: returned %+v stored %+v", ver, cid, got, want))
				}
				if i > 0 {
					if (!f.desc && a.keys[i-1] > a.keys[i]) || (f.desc && a.keys[i-1] < a.keys[i]) {
						em.Monitor("page-not-ordered-as-requested", fmt.Sprintf("v%d sort %q desc=%v: %q before %q", ver, f.sortField, f.desc, a.keys[i-1], a.keys[i]))
					}
				}
			}
			off := f.offset
			if off < 0 {
				off = 0
			}
			want := len(matched) - off
			if want < 0 {
				want = 0
			}
			if l := effLimit(f.limit, http); want > l {
				want = l
			}
			if len(a.ids) != want {
				em.Monitor("page-size-is-not-the-slice", fmt.Sprintf("v%d %d returned, %d matches, limit %d offset %d", ver, len(a.ids), len(matched), f.limit, f.offset))
			}
			return
		}

		// ---- filters
		pickNums := func(ver, k int, withUnknown bool) []int {
			total := nv1
			if ver == 2 {
				total = nv2
			}
			var l []int
			for i := 0; i < k; i++ {
				if withUnknown && rng.Intn(4) == 0 {
					l = append(l, 900+rng.Intn(3))
				} else {
					l = append(l, 1+rng.Intn(total))
				}
			}
			return l
		}
		bounds := func(vals []uint64) (lo, hi uint64) {
			v := func() uint64 {
				x := vals[rng.Intn(len(vals))]
				switch rng.Intn(4) {
				case 0:
					return x + 1
				case 1:
					if x > 1 {
						return x - 1
					}
				}
				return x
			}
			switch k := rng.Intn(20); {
			case k < 9:
				return 0, 0
			case k < 11:
				return v(), 0
			case k < 13:
				return 0, v()
			case k < 16: // both, ordered
				a, b := v(), v()
				if a > b {
					a, b = b, a
				}
				return a, b
			case k < 18: // equal
				a := v()
				return a, a
			default: // contradictory
				a, b := v(), v()
				if a == b {
					b++
				}
				if a < b {
					a, b = b, a
				}
				return a, b
			}
		}
		genFilter := func(ver int, r *rand.Rand) (f c19Filter) {
			nst := 5
			if ver == 2 {
				nst = 6
			}
			if r.Intn(3) == 0 {
				for k := 1 + r.Intn(3); k > 0; k-- {
					if r.Intn(10) == 0 {
						f.statuses = append(f.statuses, c19Bogus)
					} else {
						f.statuses = append(f.statuses, r.Intn(nst))
					}
				}
			}
			if r.Intn(10) < 2 {
				f.ids = pickNums(ver, 1+r.Intn(4), true)
			}
			if r.Intn(10) < 1 {
				f.from = pickNums(ver, 1+r.Intn(3), true)
				for _, row := range rows[ver] { // make hits likely
					if row.from >= 0 && r.Intn(2) == 0 {
						f.from = append(f.from, row.from)
					}
				}
			}
			if r.Intn(10) < 1 {
				f.to = pickNums(ver, 1+r.Intn(3), true)
				for _, row := range rows[ver] {
					if row.to >= 0 && r.Intn(2) == 0 {
						f.to = append(f.to, row.to)
					}
				}
			}
			if r.Intn(10) < 2 {
				f.renters = append(f.renters, r.Intn(3))
				if r.Intn(3) == 0 {
					f.renters = append(f.renters, unknownRenter)
				}
			}
			f.minNeg, f.maxNeg = bounds(negs)
			f.minExp, f.maxExp = bounds(exps)
			total := len(rows[ver])
			f.limit = []int{0, 0, 1, 2, 3, 5, 100, 101, -1, 500, 501, 1000}[r.Intn(12)]
			f.offset = []int{0, 0, 0, 0, 0, 0, 1, 2, 3, total - 1, total, total + 1, 1000, -1}[r.Intn(14)]
			f.sortField = []string{contracts.ContractSortStatus, contracts.ContractSortNegotiationHeight, contracts.ContractSortExpirationHeight, "", "bogus"}[r.Intn(5)]
			f.desc = r.Intn(2) == 0
			return
		}

		nontrivial := false
		record := func(ver int, f c19Filter, http bool) c19Answer {
			a := run(ver, f, http)
			opn := "Query"
			if http {
				opn = "ApiQuery"
			}
			em.Step(fmt.Sprintf("%s V%d %s %s", opn, ver, f.coq(), a.coq()), "OAnswer true (Err EOther)")
			judge(ver, f, a, http)
			switch {
			case a.err != nil:
				em.Count("answer:error")
			case len(a.ids) == 0:
				em.Count("answer:empty-page")
			case len(a.ids) < a.count:
				em.Count("answer:partial-page")
				nontrivial = true
			default:
				em.Count("answer:whole-result")
				nontrivial = true
			}
			em.Count("sort:" + f.sortField)
			return a
		}

		if id == 0 {
			// directed: the bound pairs of the suspected defect, on both versions and both fields
			for ver := 1; ver <= 2; ver++ {
				for _, b := range [][2]uint64{{0, 0}, {2, 8}, {8, 2}, {5, 5}, {2, 0}, {0, 8}, {1, 1 << 62}, {3, 1 << 63}, {1 << 63, 0}} {
					record(ver, c19Filter{minNeg: b[0], maxNeg: b[1]}, false)
					shift := func(x uint64) uint64 {
						if x == 0 || x >= 1<<62 {
							return x
						}
						return x + 9
					}
					record(ver, c19Filter{minExp: shift(b[0]), maxExp: shift(b[1])}, false)
					if b[1] < 1<<63 && b[0] < 1<<63 {
						record(ver, c19Filter{minNeg: b[0], maxNeg: b[1], minExp: 10, maxExp: 30, sortField: contracts.ContractSortNegotiationHeight}, true)
					}
				}
			}
		}
		nq := 28
		if os.Getenv("VERIF_TIER") == "thorough" && id%2 == 0 {
			nq = 45
		}
		if big {
			nq = 12
		}
		for q := 0; q < nq; q++ {
			for ver := 1; ver <= 2; ver++ {
				f := genFilter(ver, rng)
				if big { // big population: exercise the page limit
					f.ids, f.from, f.to = nil, nil, nil
					if q%2 == 0 { // no criteria at all: more matches than a page holds
						f = c19Filter{sortField: f.sortField, desc: f.desc}
					}
					f.limit = []int{0, 100, 101, 1000, 99, -5}[q%6]
					f.offset = []int{0, 10, 100, 107, 114, 115}[rng.Intn(6)]
				}
				viaHTTP := q%5 == 4 && !has(f.statuses, c19Bogus)
				a := record(ver, f, viaHTTP)
				// paging: consecutive pages tile the full result, the count never changes
				if a.err == nil && q%4 == 0 && !viaHTTP {
					page := 1 + rng.Intn(4)
					if big {
						page = 100
					}
					seen := map[int]bool{}
					var keys []string
					for off := 0; ; off += page {
						pf := f
						pf.limit, pf.offset = page, off
						pa := record(ver, pf, false)
						if pa.err != nil {
							break
						}
						if pa.count != a.count {
							em.Monitor("count-depends-on-paging", fmt.Sprintf("v%d count %d with limit %d offset %d, %d with limit %d offset %d", ver, a.count, f.limit, f.offset, pa.count, page, off))
						}
						for i, cid := range pa.ids {
							if seen[cid] {
								em.Monitor("pages-overlap", fmt.Sprintf("v%d contract #%d on two pages of size %d", ver, cid, page))
							}
							seen[cid] = true
							keys = append(keys, pa.keys[i])
						}
						if len(pa.ids) < page || off > 400 {
							break
						}
					}
					if len(seen) != a.count {
						em.Monitor("pages-do-not-cover-result", fmt.Sprintf("v%d pages of %d hold %d contracts, count %d", ver, page, len(seen), a.count))
					}
					if !sort.SliceIsSorted(keys, func(i, j int) bool {
						if f.desc {
							return keys[i] > keys[j]
						}
						return keys[i] < keys[j]
					}) {
						em.Monitor("pages-not-in-order", fmt.Sprintf("v%d concatenated pages of %d are not sorted", ver, page))
					}
					em.Count("paging-walk")
				}
			}
		}
		// Listings while contracts are being added: count and page of one answer describe one
		// state of the store — with a limit above the number of contracts the page holds exactly
		// `count` contracts, whatever is committed in between.  (Monitor only: the additions are
		// not part of the recorded case, which has ended its queries.)
		if id%8 == 2 || id < directed {
			stop := make(chan struct{})
			done := make(chan struct{})
			go func() {
				defer close(done)
				for i := 0; i < 40; i++ {
					select {
					case <-stop:
						return
					default:
					}
					num := 5000 + i
					if i%2 == 0 {
						db.AddV2Contract(mkV2(num, 0, 3, 40), rhp4.TransactionSet{})
					} else {
						db.AddContract(mkV1(num, 0, 40, 1), []types.Transaction{{}}, types.Siacoins(1), contracts.Usage{}, 3)
					}
				}
			}()
			for q := 0; q < 60; q++ {
				c2, n2, err2 := db.V2Contracts(contracts.V2ContractFilter{Limit: 100})
				c1, n1, err1 := db.Contracts(contracts.ContractFilter{Limit: 100})
				if err2 == nil && n2 <= 100 && len(c2) != n2 {
					em.Monitor("count-and-page-from-different-states", fmt.Sprintf("v2: count %d, page of %d (limit 100) while contracts are being added", n2, len(c2)))
				}
				if err1 == nil && n1 <= 100 && len(c1) != n1 {
					em.Monitor("count-and-page-from-different-states", fmt.Sprintf("v1: count %d, page of %d (limit 100) while contracts are being added", n1, len(c1)))
				}
			}
			close(stop)
			<-done
			em.Count("concurrent-listing-phase")
		}
		em.EndCase(nontrivial)
		srv.Close()
		raw.Close()
		cm.Close()
		db.Close()
	}
}
