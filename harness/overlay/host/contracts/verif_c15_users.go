//go:build verif

package contracts

// C15, the users of the contract lock outside host/contracts (rhp/v2 sessions, rhp/v3 handlers).
// This file is overlaid into host/contracts (tag verif) when the rhp/v2 and rhp/v3 harnesses are
// built; it is the in-package part they share:
//   * a view of the real locker of a Manager (lock table: n and len(ch) per contract, lr.mu);
//   * VerifC15UManager: the Manager handed to the real SessionHandlers, with every Lock / Unlock
//     call of a handler goroutine noted by a tracker (who holds what according to the calls that
//     were made — independent of the lock table and of the Coq model), a recover around Unlock
//     ("unlocking unheld lock") and a gate at which an Unlock by a goroutine that does not hold the
//     contract waits for a moment, so that another caller can be put between a release and a
//     second, stray release;
//   * a listener wrapper that tells which goroutine serves which connection and when the host has
//     closed it (SessionHandler.upgrade closes the transport after its deferred release);
//   * the schedule driver: controlled actions of free callers (Manager.Lock / Unlock through the
//     tracker), RHP2 sessions and RHP3 handlers (performed by callbacks of the rhp packages),
//     quiescence by a model-independent predicate on statuses and the lock table, recording for
//     coq/Lock/Users.v (trace inclusion), monitors.
// Timing: the driver only waits for predicted events (a status change it caused, the table
// catching up with it) with long deadlines; the short waits (gate, quiet period of a probe) only
// look for events that must NOT happen.

import (
	"context"
	"errors"
	"fmt"
	"math/rand"
	"net"
	"runtime"
	"sort"
	"strconv"
	"strings"
	"sync"
	"sync/atomic"
	"time"

	"go.sia.tech/core/types"
)

// ---- view of the real locker --------------------------------------------------------------

func verifC15UTryLock(mu *sync.Mutex) bool {
	deadline := time.Now().Add(5 * time.Second)
	for i := 0; !mu.TryLock(); i++ {
		if time.Now().After(deadline) {
			return false
		}
		if i < 100 {
			runtime.Gosched()
		} else {
			time.Sleep(10 * time.Microsecond)
		}
	}
	return true
}

// VerifC15UTable returns the manager's lock table: index of the id in ids -> {n, len(ch)} (ids not
// in the list get keys >= 1000); nil if the locker's mutex stays held.
func (cm *Manager) VerifC15UTable(ids []types.FileContractID) map[int][2]int {
	lr := cm.locks
	if !verifC15UTryLock(&lr.mu) {
		return nil
	}
	defer lr.mu.Unlock()
	out := make(map[int][2]int, len(lr.locks))
	unknown := 0
	for id, l := range lr.locks {
		k := -1
		for i := range ids {
			if ids[i] == id {
				k = i
			}
		}
		if k < 0 {
			unknown++
			k = 1000 + unknown
		}
		out[k] = [2]int{l.n, len(l.ch)}
	}
	return out
}

// VerifC15UMu exposes the locker's mutex (to make concurrent actions contend for it at once).
func (cm *Manager) VerifC15UMu() *sync.Mutex { return &cm.locks.mu }

// VerifC15UResetLocks installs a fresh lock table (only to continue after a reported failure).
func (cm *Manager) VerifC15UResetLocks() { cm.locks = newLocker() }

// ---- tracker ------------------------------------------------------------------------------

// verifC15UGoids returns the id of the calling goroutine and of the goroutine that created it
// ("created by ... in goroutine N", the last line of the stack; -1 if there is none).
func verifC15UGoids() (self, parent int64) {
	buf := make([]byte, 16<<10)
	n := runtime.Stack(buf, false)
	st := string(buf[:n])
	self, parent = -1, -1
	if f := strings.Fields(st); len(f) >= 2 {
		self, _ = strconv.ParseInt(f[1], 10, 64)
	}
	if i := strings.LastIndex(st, " in goroutine "); i >= 0 {
		rest := st[i+len(" in goroutine "):]
		if j := strings.IndexAny(rest, "\n \t"); j >= 0 {
			rest = rest[:j]
		}
		if p, err := strconv.ParseInt(rest, 10, 64); err == nil {
			parent = p
		}
	}
	return
}

func verifC15UGoid() int64 { g, _ := verifC15UGoids(); return g }

// VerifC15UViolation is something the tracker saw that the property forbids.
type VerifC15UViolation struct {
	Kind   string // "stray-unlock", "two-holders", "unlock-panic"
	Owner  string
	ID     types.FileContractID
	Detail string
}

// VerifC15UTracker notes who holds which contract according to the Lock / Unlock calls made.
type VerifC15UTracker struct {
	mu      sync.Mutex
	holder  map[types.FileContractID]string // owner that came back from Lock with the id and has not called Unlock
	bound   map[int64]string                // goroutine -> owner name
	viol    []VerifC15UViolation
	gate    chan struct{}
	unlocks map[string]int // Unlock calls per owner
	closed  map[string]chan struct{}
	started map[string]int // Lock calls begun, per owner
	inCall  map[string]int // Lock / Unlock calls in progress, per owner
}

func newVerifC15UTracker() *VerifC15UTracker {
	return &VerifC15UTracker{holder: map[types.FileContractID]string{}, bound: map[int64]string{},
		gate: make(chan struct{}), unlocks: map[string]int{}, closed: map[string]chan struct{}{},
		started: map[string]int{}, inCall: map[string]int{}}
}

// owner names the calling goroutine: the connection it serves (RHP2: upgrade runs on the goroutine
// that reads the connection), or the connection whose goroutine started it (RHP3: one goroutine per
// stream, started by the connection's accept loop), or just its number.
func (tr *VerifC15UTracker) owner() string {
	g, parent := verifC15UGoids()
	tr.mu.Lock()
	defer tr.mu.Unlock()
	if o, ok := tr.bound[g]; ok {
		return o
	}
	if o, ok := tr.bound[parent]; ok {
		return o + "/g" + strconv.FormatInt(g, 10)
	}
	return "g" + strconv.FormatInt(g, 10)
}

func (tr *VerifC15UTracker) enter(owner string, lock bool) {
	tr.mu.Lock()
	defer tr.mu.Unlock()
	tr.inCall[owner]++
	if lock {
		tr.started[owner]++
	}
}

func (tr *VerifC15UTracker) leave(owner string) {
	tr.mu.Lock()
	defer tr.mu.Unlock()
	tr.inCall[owner]--
}

// LockCalls is the number of Lock calls begun so far by the goroutines of a connection.
func (tr *VerifC15UTracker) LockCalls(prefix string) (n int) {
	tr.mu.Lock()
	defer tr.mu.Unlock()
	for o, k := range tr.started {
		if strings.HasPrefix(o, prefix) {
			n += k
		}
	}
	return
}

// Quiet reports whether no goroutine of the connection is inside Lock / Unlock or holds a
// contract according to its calls.
func (tr *VerifC15UTracker) Quiet(prefix string) bool {
	tr.mu.Lock()
	defer tr.mu.Unlock()
	return tr.quiet(prefix)
}

// QuietSince reports, in one look, whether the goroutines of the connection have begun more than
// `before` Lock calls (if needLock) and are now outside Lock / Unlock holding nothing.
func (tr *VerifC15UTracker) QuietSince(prefix string, before int, needLock bool) bool {
	tr.mu.Lock()
	defer tr.mu.Unlock()
	if needLock {
		n := 0
		for o, k := range tr.started {
			if strings.HasPrefix(o, prefix) {
				n += k
			}
		}
		if n <= before {
			return false
		}
	}
	return tr.quiet(prefix)
}

func (tr *VerifC15UTracker) quiet(prefix string) bool {
	for o, k := range tr.inCall {
		if k != 0 && strings.HasPrefix(o, prefix) {
			return false
		}
	}
	for _, o := range tr.holder {
		if strings.HasPrefix(o, prefix) {
			return false
		}
	}
	return true
}

func (tr *VerifC15UTracker) acquired(owner string, id types.FileContractID) {
	tr.mu.Lock()
	defer tr.mu.Unlock()
	if h, ok := tr.holder[id]; ok {
		tr.viol = append(tr.viol, VerifC15UViolation{"two-holders", owner, id,
			fmt.Sprintf("%s came back from Lock with a contract that %s holds and has not released", owner, h)})
	}
	tr.holder[id] = owner
}

// releasing notes an Unlock call; it reports whether the caller holds the contract.
func (tr *VerifC15UTracker) releasing(owner string, id types.FileContractID) bool {
	tr.mu.Lock()
	defer tr.mu.Unlock()
	tr.unlocks[owner]++
	if tr.holder[id] == owner {
		delete(tr.holder, id)
		return true
	}
	h, ok := tr.holder[id]
	if !ok {
		h = "nobody"
	}
	tr.viol = append(tr.viol, VerifC15UViolation{"stray-unlock", owner, id,
		fmt.Sprintf("%s calls Unlock for a contract it does not hold (its Unlock call no. %d; held by %s)", owner, tr.unlocks[owner], h)})
	return false
}

func (tr *VerifC15UTracker) panicked(owner string, id types.FileContractID, p any) {
	tr.mu.Lock()
	defer tr.mu.Unlock()
	tr.viol = append(tr.viol, VerifC15UViolation{"unlock-panic", owner, id, fmt.Sprintf("Unlock called by %s panicked: %v", owner, p)})
}

// Drain returns and forgets the violations seen so far.
func (tr *VerifC15UTracker) Drain() []VerifC15UViolation {
	tr.mu.Lock()
	defer tr.mu.Unlock()
	v := tr.viol
	tr.viol = nil
	return v
}

// Holds reports which contracts owner holds according to its calls.
func (tr *VerifC15UTracker) Holds(owner string) (ids []types.FileContractID) {
	tr.mu.Lock()
	defer tr.mu.Unlock()
	for id, o := range tr.holder {
		if o == owner || strings.HasPrefix(o, owner+"/") {
			ids = append(ids, id)
		}
	}
	return
}

// OpenGate lets the stray Unlock calls that wait at the gate proceed.
func (tr *VerifC15UTracker) OpenGate() {
	tr.mu.Lock()
	defer tr.mu.Unlock()
	close(tr.gate)
	tr.gate = make(chan struct{})
}

// Reset forgets who holds what (after the lock table itself was replaced).
func (tr *VerifC15UTracker) Reset() { tr.reset() }

func (tr *VerifC15UTracker) reset() {
	tr.mu.Lock()
	defer tr.mu.Unlock()
	tr.holder = map[types.FileContractID]string{}
	tr.viol = nil
}

func (tr *VerifC15UTracker) closedCh(addr string) chan struct{} {
	tr.mu.Lock()
	defer tr.mu.Unlock()
	c, ok := tr.closed[addr]
	if !ok {
		c = make(chan struct{})
		tr.closed[addr] = c
	}
	return c
}

// ConnClosed is closed when the host has closed the connection whose remote address is addr.
func (tr *VerifC15UTracker) ConnClosed(addr string) <-chan struct{} { return tr.closedCh(addr) }

// VerifC15UManager is the contract manager given to the session handlers.
type VerifC15UManager struct {
	*Manager
	T *VerifC15UTracker
}

// NewVerifC15UManager wraps cm.
func NewVerifC15UManager(cm *Manager) *VerifC15UManager {
	return &VerifC15UManager{Manager: cm, T: newVerifC15UTracker()}
}

// Lock is Manager.Lock, noted.
func (m *VerifC15UManager) Lock(ctx context.Context, id types.FileContractID) (SignedRevision, error) {
	return m.LockAs(m.T.owner(), ctx, id)
}

// LockAs is Manager.Lock on behalf of a named owner (the harness's own callers).
func (m *VerifC15UManager) LockAs(owner string, ctx context.Context, id types.FileContractID) (SignedRevision, error) {
	m.T.enter(owner, true)
	defer m.T.leave(owner)
	rev, err := m.Manager.Lock(ctx, id)
	if err == nil {
		m.T.acquired(owner, id)
	}
	return rev, err
}

// Unlock is Manager.Unlock, noted; a panic of it is recovered and reported.
func (m *VerifC15UManager) Unlock(id types.FileContractID) { m.UnlockAs(m.T.owner(), id) }

// UnlockAs is Manager.Unlock on behalf of a named owner.
func (m *VerifC15UManager) UnlockAs(owner string, id types.FileContractID) {
	m.T.enter(owner, false)
	defer m.T.leave(owner)
	if !m.T.releasing(owner, id) {
		// not the holder: give the harness a moment to put another caller in between
		m.T.mu.Lock()
		gate := m.T.gate
		m.T.mu.Unlock()
		select {
		case <-gate:
		case <-time.After(150 * time.Millisecond):
		}
	}
	defer func() {
		if p := recover(); p != nil {
			m.T.panicked(owner, id, p)
		}
	}()
	m.Manager.Unlock(id)
}

// ---- listener wrapper ---------------------------------------------------------------------

// VerifC15UListener wraps the listener of a session handler: the goroutine that first reads from
// an accepted connection (SessionHandler.upgrade) is bound to the owner name "conn@<remote addr>".
type VerifC15UListener struct {
	net.Listener
	T *VerifC15UTracker
}

type verifC15UConn struct {
	net.Conn
	tr     *VerifC15UTracker
	once   sync.Once
	conce  sync.Once
	closed chan struct{}
}

func (l *VerifC15UListener) Accept() (net.Conn, error) {
	c, err := l.Listener.Accept()
	if err != nil {
		return c, err
	}
	// the remote address names the connection while it lives (the system may hand the port out
	// again later): a fresh "closed" signal per accepted connection
	ch := make(chan struct{})
	l.T.mu.Lock()
	l.T.closed[c.RemoteAddr().String()] = ch
	l.T.mu.Unlock()
	return &verifC15UConn{Conn: c, tr: l.T, closed: ch}, nil
}

func (c *verifC15UConn) Read(b []byte) (int, error) {
	c.once.Do(func() {
		g := verifC15UGoid()
		c.tr.mu.Lock()
		c.tr.bound[g] = "conn@" + c.Conn.RemoteAddr().String()
		c.tr.mu.Unlock()
	})
	return c.Conn.Read(b)
}

func (c *verifC15UConn) Close() error {
	err := c.Conn.Close()
	c.conce.Do(func() { close(c.closed) })
	return err
}

// ---- driver -------------------------------------------------------------------------------

// VerifC15UEmitter is the part of the per-package verifEmitter the driver needs.
type VerifC15UEmitter interface {
	BeginCase(id int, desc string)
	Step(op, obs string)
	Count(key string)
	Monitor(sig, detail string)
	EndCase(nontrivial bool)
	Skip(id int) bool
}

const (
	VerifC15UFree    = 0 // a caller of Manager.Lock / Unlock
	VerifC15USession = 1 // an RHP2 session
	VerifC15UHandler = 2 // an RHP3 stream handler
)

const (
	c15uIdle      = iota // free: not in a call; session: alive between RPCs, nothing locked; handler: not running
	c15uCalling          // Lock call / Lock RPC / handler request sent, no answer yet
	c15uHolding          // free: holds; session: alive, its Lock RPC was acquired; handler: paused in its body
	c15uCtxErr           // free: Lock returned the context's error
	c15uMgrErr           // free: Lock returned another error
	c15uEnding           // session: the host must end it (error response seen / connection closed by the renter)
	c15uEnded            // session: the host has closed the connection
	c15uReturning        // handler: let go, its answer is awaited
	c15uPanicked
)

// VerifC15UOps are the protocol-level actions, performed by the rhp packages on real
// connections.  All of them block until the renter side has seen what it can see.
type VerifC15UOps struct {
	IDs []types.FileContractID
	// Bad: Manager.Lock will refuse the contract (unknown, too close to its proof window, renewed)
	Bad func(id int) bool
	// RHP2 session in slot t
	SessOpen   func(t int) (localAddr string, err error)         // dial + handshake
	SessLock   func(t int, id int, goodSig bool) (acquired bool) // Lock RPC; false: error response / connection lost
	SessUnlock func(t int)                                       // Unlock RPC (no response exists)
	SessOther  func(t int, ok bool) (succeeded bool)             // a harmless RPC / an RPC the host rejects
	SessRenew  func(t int, id int) (succeeded bool)              // renew-and-clear of the locked contract (nil: none)
	SessClose  func(t int)                                       // the renter drops the connection
	CanRenew   func(id int) bool
	// RHP3 handler in slot t: kinds and faults are the harness's; Enter returns held = true when
	// the handler is known to sit in its body, holding the lock, waiting for the renter
	HKinds   int
	HFaults  func(kind int) int
	HPauses  func(kind, fault int) bool
	HNeedsOK func(kind int) bool                       // the kind can only be driven on a contract Manager.Lock accepts
	HAllowed func(kind, id int) bool                   // generated schedules only use these combinations (nil: all)
	HOpen    func(t int) (localAddr string, err error) // the connection of handler slot t (kept across cases)
	HEnter   func(t int, kind, id, fault int) (held bool)
	HRelease func(t int)
	// BeforeCase, if set, runs between cases (nobody holds or wants a lock then)
	BeforeCase func(id int)
}

type c15uThread struct {
	kind      int
	status    atomic.Int32
	id        int
	cancel    context.CancelFunc
	cancelled bool
	addr      string // session: local address of its current connection
	owner     string
	refused   bool // session: its last Lock RPC was refused
	hadLock   int  // session: contract its last accepted Lock RPC was for (-1: none), until released
	everWait  bool
	hkind     int
	hfault    int
	rpcDone   chan struct{} // session: closed when the renter side of its last Lock RPC has its answer
}

type c15uRun struct {
	m       *VerifC15UManager
	ops     *VerifC15UOps
	em      VerifC15UEmitter
	rng     *rand.Rand
	ths     []*c15uThread
	timeout time.Duration
	failed  bool
	fatal   bool
	parked  int
	counts  []string
	cmu     sync.Mutex
}

func c15uN(id int) string { return fmt.Sprintf("%d%%N", id+1) } // contract index k is cid k+1 (0 = no contract)
func c15uBool(b bool) string {
	if b {
		return "true"
	}
	return "false"
}
func c15uList(items []string) string { return "[" + strings.Join(items, "; ") + "]" }

func (r *c15uRun) monitor(sig, detail string) {
	r.em.Monitor(sig, detail)
	r.failed = true
}

func (r *c15uRun) count(k string) {
	r.cmu.Lock()
	r.counts = append(r.counts, k)
	r.cmu.Unlock()
}

// ---- actions: each starts something on the real code and returns the model action

func (r *c15uRun) freeLock(t, id int, predone bool) string {
	th := r.ths[t]
	ctx, cancel := context.WithCancel(context.Background())
	th.id, th.cancel, th.cancelled = id, cancel, predone
	if predone {
		cancel()
	}
	th.status.Store(c15uCalling)
	bad := r.ops.Bad(id)
	go func() {
		_, err := r.m.LockAs(th.owner, ctx, r.ops.IDs[id])
		switch {
		case err == nil:
			th.status.Store(c15uHolding)
		case errors.Is(err, context.Canceled):
			cancel()
			th.status.Store(c15uCtxErr)
		default:
			cancel()
			th.status.Store(c15uMgrErr)
		}
	}()
	return fmt.Sprintf("UBase (ALock %d %s %s %s)", t, c15uN(id), c15uBool(predone), c15uBool(bad))
}

func (r *c15uRun) freeCancel(t int) string {
	th := r.ths[t]
	th.cancelled = true
	th.cancel()
	return fmt.Sprintf("UBase (ACtxDone %d)", t)
}

func (r *c15uRun) freeUnlock(t int) string {
	th := r.ths[t]
	th.status.Store(c15uIdle)
	done := make(chan struct{})
	go func() {
		defer close(done)
		r.m.UnlockAs(th.owner, r.ops.IDs[th.id])
	}()
	select {
	case <-done:
	case <-time.After(r.timeout):
		r.monitor("unlock-by-holder-blocked", fmt.Sprintf("caller %d id %d", t, th.id))
	}
	th.cancel()
	return fmt.Sprintf("UBase (AUnlock %d)", t)
}

func (r *c15uRun) sessOpen(t int) string {
	th := r.ths[t]
	addr, err := r.ops.SessOpen(t)
	if err != nil {
		r.fatal = true
		r.monitor("harness-cannot-connect", err.Error())
		return fmt.Sprintf("UAct %d SNew", t)
	}
	th.addr, th.owner = addr, "conn@"+addr
	th.refused, th.hadLock = false, -1
	th.status.Store(c15uIdle)
	return fmt.Sprintf("UAct %d SNew", t)
}

// awaitEnd: the host must close the connection of session t (after its deferred release).
func (r *c15uRun) awaitEnd(t int) {
	th := r.ths[t]
	th.status.Store(c15uEnding)
	ch := r.m.T.ConnClosed(th.addr)
	go func() {
		<-ch
		th.status.Store(c15uEnded)
	}()
}

func (r *c15uRun) sessLock(t, id int, goodSig bool) string {
	th := r.ths[t]
	holding := th.status.Load() == c15uHolding
	heldID := th.id
	bad := r.ops.Bad(id)
	if !holding {
		th.id = id
	}
	th.status.Store(c15uCalling)
	done := make(chan struct{})
	th.rpcDone = done
	go func() {
		defer close(done)
		if r.ops.SessLock(t, id, goodSig) {
			th.refused, th.hadLock = false, id
			th.status.Store(c15uHolding)
			return
		}
		th.refused = true
		if holding {
			th.id = heldID
		}
		r.awaitEnd(t)
	}()
	r.count(fmt.Sprintf("rhp2:lock-rpc,good-sig=%v,contract-ok=%v,already-locked=%v", goodSig, !bad, holding))
	return fmt.Sprintf("UAct %d (SRpcLock %s %s false %s)", t, c15uN(id), c15uBool(goodSig), c15uBool(bad))
}

func (r *c15uRun) sessUnlock(t int) string {
	th := r.ths[t]
	holding := th.status.Load() == c15uHolding
	r.ops.SessUnlock(t)
	if holding {
		th.hadLock = -1
		th.status.Store(c15uIdle) // the table has to catch up: settle waits for that
	} else {
		r.awaitEnd(t) // ErrNoContractLocked ends the session
	}
	r.count(fmt.Sprintf("rhp2:unlock-rpc,holding=%v", holding))
	return fmt.Sprintf("UAct %d SRpcUnlock", t)
}

func (r *c15uRun) sessOther(t int, ok bool) string {
	th := r.ths[t]
	prev := th.status.Load()
	th.status.Store(c15uCalling + 100) // in an RPC that does not lock: transient
	if r.ops.SessOther(t, ok) {
		th.status.Store(prev)
	} else {
		r.awaitEnd(t)
	}
	r.count(fmt.Sprintf("rhp2:other-rpc,ok=%v,holding=%v", ok, prev == c15uHolding))
	return fmt.Sprintf("UAct %d (SRpcOther %s)", t, c15uBool(ok))
}

func (r *c15uRun) sessRenew(t int) string {
	th := r.ths[t]
	ok := r.ops.SessRenew(t, th.id)
	if !ok {
		r.awaitEnd(t)
	}
	r.count(fmt.Sprintf("rhp2:renew-and-clear,ok=%v", ok))
	return fmt.Sprintf("UAct %d (SRpcOther %s)", t, c15uBool(ok))
}

func (r *c15uRun) sessClose(t int) string {
	th := r.ths[t]
	r.count(fmt.Sprintf("rhp2:connection-dropped,holding=%v", th.status.Load() == c15uHolding))
	r.ops.SessClose(t)
	r.awaitEnd(t)
	return fmt.Sprintf("UAct %d SClose", t)
}

func (r *c15uRun) hEnter(t, kind, id, fault int) string {
	th := r.ths[t]
	th.id, th.hkind, th.hfault = id, kind, fault
	th.status.Store(c15uCalling)
	bad := r.ops.Bad(id)
	pauses := r.ops.HPauses(kind, fault) && !bad
	go func() {
		if r.ops.HEnter(t, kind, id, fault) {
			th.status.Store(c15uHolding)
		} else {
			th.status.Store(c15uIdle)
		}
	}()
	r.count(fmt.Sprintf("rhp3:handler,kind=%d,fault=%d,contract-ok=%v", kind, fault, !bad))
	return fmt.Sprintf("UAct %d (BEnter %s false %s %s)", t, c15uN(id), c15uBool(bad), c15uBool(pauses))
}

func (r *c15uRun) hRelease(t int) string {
	th := r.ths[t]
	th.status.Store(c15uReturning)
	go func() {
		r.ops.HRelease(t)
		th.status.Store(c15uIdle)
	}()
	return fmt.Sprintf("UAct %d BRelease", t)
}

// ---- quiescence, observation ---------------------------------------------------------------

func (r *c15uRun) table() map[int][2]int { return r.m.Manager.VerifC15UTable(r.ops.IDs) }

// quiescent: every pending call is parked behind a holder, everything else has settled, and the
// lock table accounts for exactly the callers the renter side knows of.
func (r *c15uRun) quiescent() (ok bool, sig, detail string, definite bool) {
	n := len(r.ops.IDs)
	holders := make([]int, n)
	waiters := make([]int, n)
	for t, th := range r.ths {
		switch s := th.status.Load(); s {
		case c15uHolding:
			holders[th.id]++
		case c15uCalling:
			waiters[th.id]++
			if th.cancelled {
				return false, "cancelled-lock-call-did-not-return", fmt.Sprintf("caller %d id %d", t, th.id), false
			}
		case c15uEnding:
			return false, "session-did-not-end", fmt.Sprintf("session %d: the host keeps the connection open after an RPC error / after the renter dropped it", t), false
		case c15uReturning:
			return false, "handler-did-not-return", fmt.Sprintf("handler %d kind %d", t, th.hkind), false
		case c15uIdle, c15uCtxErr, c15uMgrErr, c15uEnded:
		default:
			return false, "rpc-did-not-return", fmt.Sprintf("user %d", t), false
		}
	}
	for id := 0; id < n; id++ {
		if holders[id] > 1 {
			return false, "two-holders-session", fmt.Sprintf("contract %d: %d users were told they hold it", id, holders[id]), true
		}
	}
	snap := r.table()
	if snap == nil {
		r.fatal = true
		return false, "locker-mutex-stuck", "lr.mu stays held: a critical section does not complete", true
	}
	for k, e := range snap {
		if k >= n {
			return false, "leaked-entry", fmt.Sprintf("entry for an unknown id: n=%d", e[0]), false
		}
	}
	for id := 0; id < n; id++ {
		e, ok := snap[id]
		switch {
		case holders[id]+waiters[id] == 0 && ok:
			return false, "leaked-entry", fmt.Sprintf("contract %d: no user has or wants it, entry n=%d len(ch)=%d", id, e[0], e[1]), false
		case holders[id]+waiters[id] == 0:
		case !ok:
			return false, "callers-without-entry", fmt.Sprintf("contract %d: %d holders %d waiters, no entry", id, holders[id], waiters[id]), false
		case holders[id] == 0:
			return false, "waiter-not-admitted-to-free-lock", fmt.Sprintf("contract %d: no holder, %d waiting, n=%d len(ch)=%d", id, waiters[id], e[0], e[1]), false
		case e[1] != 0:
			return false, "token-while-held", fmt.Sprintf("contract %d: held, len(ch)=%d", id, e[1]), false
		case e[0] != holders[id]+waiters[id]:
			return false, "count-mismatch", fmt.Sprintf("contract %d: n=%d, %d holders + %d waiters", id, e[0], holders[id], waiters[id]), false
		}
	}
	return true, "", "", false
}

// probeHeld: the table does not account for a user that holds a contract; what the property says
// is that nobody else gets it meanwhile, so a late caller tries.
func (r *c15uRun) probeHeld() {
	for t, th := range r.ths {
		if th.status.Load() != c15uHolding {
			continue
		}
		id := th.id
		ctx, cancel := context.WithCancel(context.Background())
		admitted := make(chan struct{})
		release := make(chan struct{})
		go func() {
			defer func() { recover() }()
			if _, err := r.m.Manager.Lock(ctx, r.ops.IDs[id]); err != nil {
				return
			}
			close(admitted)
			<-release
			r.m.Manager.Unlock(r.ops.IDs[id])
		}()
		select {
		case <-admitted:
			r.monitor("two-holders-session", fmt.Sprintf("user %d (kind %d) holds contract %d and has not released it, yet a late caller was given the same contract", t, th.kind, id))
		case <-time.After(100 * time.Millisecond):
		}
		cancel()
		close(release)
	}
}

// drainTracker turns what the tracker saw into monitor hits.
func (r *c15uRun) drainTracker() {
	for _, v := range r.m.T.Drain() {
		who := -1
		for t, th := range r.ths {
			if th.owner != "" && (th.owner == v.Owner || strings.HasPrefix(v.Owner, th.owner+"/")) {
				who = t
			}
		}
		detail := v.Detail
		if who >= 0 {
			detail = fmt.Sprintf("user %d (kind %d): %s", who, r.ths[who].kind, v.Detail)
		}
		switch v.Kind {
		case "two-holders":
			r.monitor("two-holders-session", detail)
		case "stray-unlock", "unlock-panic":
			if who >= 0 && r.ths[who].kind == VerifC15USession && r.ths[who].refused {
				r.monitor("refused-lock-rpc-kept-or-double-released", detail)
			} else {
				r.monitor("unlock-of-unheld-lock", detail)
			}
		}
	}
}

func (r *c15uRun) settle() string {
	deadline := time.Now().Add(r.timeout)
	stable := 0
	obs := ""
	for spins := 0; ; spins++ {
		ok, sig, detail, definite := r.quiescent()
		if ok {
			stable++
			if stable >= 2 {
				break
			}
		} else {
			stable = 0
			if definite || r.fatal || time.Now().After(deadline) {
				switch sig {
				case "leaked-entry":
					// whose entry?  a session that has ended and was the last to be granted / refused the contract
					for _, th := range r.ths {
						if th.kind == VerifC15USession && th.status.Load() == c15uEnded {
							if th.refused {
								sig = "refused-lock-rpc-kept-or-double-released"
							} else if sig == "leaked-entry" {
								sig = "session-end-kept-lock"
							}
						}
					}
				case "callers-without-entry", "token-while-held", "count-mismatch":
					if !r.fatal {
						obs = r.observe()
						r.probeHeld()
					}
				}
				r.monitor(sig, detail)
				break
			}
		}
		if spins < 50 {
			runtime.Gosched()
		} else {
			time.Sleep(20 * time.Microsecond)
		}
	}
	r.drainTracker()
	// ended sessions must not be holders according to their own calls
	for t, th := range r.ths {
		if th.kind == VerifC15USession && th.status.Load() == c15uEnded {
			if ids := r.m.T.Holds(th.owner); len(ids) > 0 {
				sig := "session-end-kept-lock"
				if th.refused {
					sig = "refused-lock-rpc-kept-or-double-released"
				}
				r.monitor(sig, fmt.Sprintf("session %d has ended; by its calls it still holds %d contract(s)", t, len(ids)))
			}
		}
	}
	if obs != "" {
		return obs
	}
	return r.observe()
}

func (r *c15uRun) observe() string {
	var st []string
	for _, th := range r.ths {
		s := th.status.Load()
		if s == c15uCalling && !th.everWait {
			th.everWait = true
			r.parked++
		}
		switch th.kind {
		case VerifC15UFree:
			switch s {
			case c15uIdle:
				st = append(st, "OF SIdle")
			case c15uCalling:
				st = append(st, "OF (SWait "+c15uN(th.id)+")")
			case c15uHolding:
				st = append(st, "OF (SHold "+c15uN(th.id)+")")
			case c15uCtxErr:
				st = append(st, "OF SCtxErr")
			case c15uMgrErr:
				st = append(st, "OF SMgrErr")
			default:
				st = append(st, "OTransient")
			}
		case VerifC15USession:
			switch s {
			case c15uIdle:
				st = append(st, "OSLoop 0%N")
			case c15uHolding:
				st = append(st, "OSLoop "+c15uN(th.id))
			case c15uCalling:
				st = append(st, "OSWait "+c15uN(th.id))
			case c15uEnded:
				st = append(st, "OSEnded")
			default:
				st = append(st, "OTransient")
			}
		default:
			switch s {
			case c15uIdle:
				st = append(st, "OBIdle")
			case c15uCalling:
				st = append(st, "OBWait "+c15uN(th.id))
			case c15uHolding:
				st = append(st, "OBHeld "+c15uN(th.id))
			default:
				st = append(st, "OTransient")
			}
		}
	}
	var snap map[int][2]int
	if !r.fatal {
		if snap = r.table(); snap == nil {
			r.fatal = true
			r.monitor("locker-mutex-stuck", "lr.mu stays held: a critical section does not complete")
		}
	}
	keys := make([]int, 0, len(snap))
	for k := range snap {
		keys = append(keys, k)
	}
	sort.Ints(keys)
	var rows []string
	for _, k := range keys {
		rows = append(rows, fmt.Sprintf("(%s, (%d)%%Z, (%d)%%Z)", c15uN(k), snap[k][0], snap[k][1]))
	}
	return "(" + c15uList(st) + ", " + c15uList(rows) + ")"
}

// par performs the actions concurrently (with lr.mu held while they are issued when held is
// set, so that they contend for it at once), waits for quiescence and records the step.
func (r *c15uRun) par(acts []func() string, held bool) {
	terms := make([]string, len(acts))
	if len(acts) == 1 {
		terms[0] = acts[0]()
	} else {
		var mu *sync.Mutex
		if held {
			mu = r.m.Manager.VerifC15UMu()
			if !verifC15UTryLock(mu) {
				r.fatal = true
				r.monitor("locker-mutex-stuck", "lr.mu stays held: a critical section does not complete")
				return
			}
		}
		var wg sync.WaitGroup
		for i := range acts {
			wg.Add(1)
			go func(i int) {
				defer wg.Done()
				terms[i] = acts[i]()
			}(i)
		}
		if held {
			time.Sleep(time.Duration(50+r.rng.Intn(200)) * time.Microsecond)
			mu.Unlock()
		}
		done := make(chan struct{})
		go func() { wg.Wait(); close(done) }()
		select {
		case <-done:
		case <-time.After(3 * r.timeout):
			r.fatal = true
			r.monitor("action-did-not-return", "an action of the harness did not return")
			return
		}
	}
	r.cmu.Lock()
	for _, c := range r.counts {
		r.em.Count(c)
	}
	r.counts = r.counts[:0]
	r.cmu.Unlock()
	obs := r.settle()
	r.em.Step("UPar "+c15uList(terms), obs)
}

func (r *c15uRun) one(f func() string) { r.par([]func() string{f}, false) }

// ---- schedules ---------------------------------------------------------------------------

type c15uAct struct {
	kind string
	run  func() string
}

func (r *c15uRun) pickID(prefer int) int {
	if prefer >= 0 && r.rng.Intn(3) != 0 {
		return prefer
	}
	// mostly contracts the manager accepts: only those can be held and waited for
	if r.rng.Intn(10) < 7 {
		var good []int
		for id := range r.ops.IDs {
			if !r.ops.Bad(id) {
				good = append(good, id)
			}
		}
		if len(good) > 0 {
			return good[r.rng.Intn(len(good))]
		}
	}
	return r.rng.Intn(len(r.ops.IDs))
}

// candidate action of user t in its current state (nil if none)
func (r *c15uRun) candidate(t, prefer int) *c15uAct {
	th := r.ths[t]
	s := th.status.Load()
	switch th.kind {
	case VerifC15UFree:
		switch s {
		case c15uIdle, c15uCtxErr, c15uMgrErr:
			id := r.pickID(prefer)
			predone := r.rng.Intn(10) == 0
			return &c15uAct{"free-lock", func() string { return r.freeLock(t, id, predone) }}
		case c15uCalling:
			if !th.cancelled {
				return &c15uAct{"free-cancel", func() string { return r.freeCancel(t) }}
			}
		case c15uHolding:
			return &c15uAct{"free-unlock", func() string { return r.freeUnlock(t) }}
		}
	case VerifC15USession:
		switch s {
		case c15uEnded:
			return &c15uAct{"sess-new", func() string { return r.sessOpen(t) }}
		case c15uIdle, c15uHolding:
			x := r.rng.Intn(100)
			switch {
			case x < 45 && s == c15uIdle, x < 8:
				id := r.pickID(prefer)
				good := r.rng.Intn(3) != 0
				return &c15uAct{"sess-lock", func() string { return r.sessLock(t, id, good) }}
			case x < 60:
				return &c15uAct{"sess-unlock", func() string { return r.sessUnlock(t) }}
			case x < 72:
				return &c15uAct{"sess-other-ok", func() string { return r.sessOther(t, true) }}
			case x < 82:
				return &c15uAct{"sess-other-fail", func() string { return r.sessOther(t, false) }}
			case x < 92:
				return &c15uAct{"sess-close", func() string { return r.sessClose(t) }}
			default:
				// a renewal changes what Manager.Lock says about the contract: only while nobody
				// is queued for it (a queued caller's recorded oracle bit would be stale)
				alone := true
				for u, o := range r.ths {
					if u != t && o.id == th.id && o.status.Load() == c15uCalling {
						alone = false
					}
				}
				if s == c15uHolding && alone && r.ops.SessRenew != nil && r.ops.CanRenew(th.id) {
					return &c15uAct{"sess-renew", func() string { return r.sessRenew(t) }}
				}
				return &c15uAct{"sess-other-ok", func() string { return r.sessOther(t, true) }}
			}
		}
	case VerifC15UHandler:
		switch s {
		case c15uIdle:
			kind := r.rng.Intn(r.ops.HKinds)
			id := r.pickID(prefer)
			if (r.ops.HNeedsOK(kind) && r.ops.Bad(id)) || (r.ops.HAllowed != nil && !r.ops.HAllowed(kind, id)) {
				return nil
			}
			fault := r.rng.Intn(r.ops.HFaults(kind))
			return &c15uAct{"handler-enter", func() string { return r.hEnter(t, kind, id, fault) }}
		case c15uHolding:
			return &c15uAct{"handler-release", func() string { return r.hRelease(t) }}
		}
	}
	return nil
}

func (r *c15uRun) pickWith(status int32, kind int) int {
	var c []int
	for t, th := range r.ths {
		if th.status.Load() == status && (kind < 0 || th.kind == kind) {
			c = append(c, t)
		}
	}
	if len(c) == 0 {
		return -1
	}
	return c[r.rng.Intn(len(c))]
}

func (r *c15uRun) generated(steps int) {
	for i := 0; i < steps && !r.failed; i++ {
		prefer := -1
		if h := r.pickWith(c15uHolding, -1); h >= 0 {
			prefer = r.ths[h].id
		}
		if r.rng.Intn(100) < 25 {
			k := 2 + r.rng.Intn(2)
			var acts []func() string
			var kinds []string
			for _, t := range r.rng.Perm(len(r.ths)) {
				if len(acts) == k {
					break
				}
				if a := r.candidate(t, prefer); a != nil && a.kind != "sess-new" && a.kind != "sess-renew" {
					acts = append(acts, a.run)
					kinds = append(kinds, a.kind)
				}
			}
			if len(acts) < 2 {
				continue
			}
			sort.Strings(kinds)
			r.em.Count("par:" + strings.Join(kinds, "+"))
			r.par(acts, r.rng.Intn(2) == 0)
			continue
		}
		// users that are not free callers act more often
		t := r.rng.Intn(len(r.ths))
		if r.ths[t].kind == VerifC15UFree && r.rng.Intn(3) == 0 {
			t = r.rng.Intn(len(r.ths))
		}
		a := r.candidate(t, prefer)
		if a == nil {
			continue
		}
		if a.kind == "free-cancel" && r.rng.Intn(2) == 0 {
			continue
		}
		r.em.Count("op:" + a.kind)
		r.one(a.run)
	}
}

// drain: everybody lets go.
func (r *c15uRun) drain() {
	for round := 0; round < 6*len(r.ths) && !r.failed; round++ {
		progress := false
		for t, th := range r.ths {
			if r.failed {
				return
			}
			s := th.status.Load()
			switch th.kind {
			case VerifC15UFree:
				if s == c15uCalling && !th.cancelled {
					r.one(func() string { return r.freeCancel(t) })
					progress = true
				} else if s == c15uHolding {
					r.one(func() string { return r.freeUnlock(t) })
					progress = true
				}
			case VerifC15USession:
				if s == c15uHolding {
					if r.rng.Intn(2) == 0 {
						r.one(func() string { return r.sessUnlock(t) })
					} else {
						r.one(func() string { return r.sessClose(t) })
					}
					progress = true
				}
			case VerifC15UHandler:
				if s == c15uHolding {
					r.one(func() string { return r.hRelease(t) })
					progress = true
				}
			}
		}
		if !progress {
			break
		}
	}
}

// finish: the no-leak part of the property on the implementation.
func (r *c15uRun) finish() {
	r.drain()
	if r.failed {
		return
	}
	// sessions that are still alive hold nothing now; end them
	for t, th := range r.ths {
		if th.kind == VerifC15USession && th.status.Load() == c15uIdle && !r.failed {
			r.one(func() string { return r.sessClose(t) })
		}
	}
	if r.failed {
		return
	}
	for t, th := range r.ths {
		switch s := th.status.Load(); s {
		case c15uIdle, c15uCtxErr, c15uMgrErr, c15uEnded:
		default:
			r.monitor("caller-still-pending-after-release-of-everything", fmt.Sprintf("user %d status %d", t, s))
			return
		}
	}
	if snap := r.table(); snap == nil || len(snap) != 0 {
		r.monitor("leaked-entry", fmt.Sprintf("all users returned and released, %d entries left: %v", len(snap), snap))
		return
	}
	// every contract can be locked again at once
	f := -1
	for t, th := range r.ths {
		if th.kind == VerifC15UFree {
			f = t
		}
	}
	if f < 0 {
		return
	}
	for id := 0; id < len(r.ops.IDs) && !r.failed; id++ {
		r.one(func() string { return r.freeLock(f, id, false) })
		if r.failed {
			return
		}
		want := int32(c15uHolding)
		if r.ops.Bad(id) {
			want = c15uMgrErr
		}
		if got := r.ths[f].status.Load(); got != want {
			r.monitor("relock-after-full-release-not-immediate", fmt.Sprintf("contract %d: status %d", id, got))
			return
		}
		if want == c15uHolding {
			r.one(func() string { return r.freeUnlock(f) })
		}
	}
}

// abort stops what a failed case left behind as well as it can.
func (r *c15uRun) abort() {
	r.m.T.OpenGate()
	for t, th := range r.ths {
		if th.cancel != nil {
			th.cancel()
		}
		switch th.kind {
		case VerifC15UFree:
			if th.status.Load() == c15uHolding {
				func() { defer func() { recover() }(); r.m.Manager.Unlock(r.ops.IDs[th.id]) }()
			}
		case VerifC15USession:
			if s := th.status.Load(); s != c15uEnded && th.addr != "" {
				r.ops.SessClose(t)
			}
		case VerifC15UHandler:
			if th.status.Load() == c15uHolding {
				go r.ops.HRelease(t)
			}
		}
	}
	time.Sleep(300 * time.Millisecond)
	r.m.Manager.VerifC15UResetLocks()
	r.m.T.reset()
}

// VerifC15UDirected is a directed schedule: it gets the run's primitive steps.
type VerifC15UDirected func(d *VerifC15UDir)

// VerifC15UCase is a directed case: the kinds of its users and its schedule.
type VerifC15UCase struct {
	Kinds []int
	Run   VerifC15UDirected
}

// VerifC15UDir exposes the primitive steps to directed schedules of the rhp packages.
type VerifC15UDir struct{ r *c15uRun }

func (d *VerifC15UDir) FreeLock(t, id int, predone bool) {
	d.r.one(func() string { return d.r.freeLock(t, id, predone) })
}
func (d *VerifC15UDir) FreeCancel(t int) { d.r.one(func() string { return d.r.freeCancel(t) }) }
func (d *VerifC15UDir) FreeUnlock(t int) {
	if d.r.ths[t].status.Load() == c15uHolding {
		d.r.one(func() string { return d.r.freeUnlock(t) })
	}
}
func (d *VerifC15UDir) SessNew(t int) {
	if d.r.ths[t].status.Load() == c15uEnded {
		d.r.one(func() string { return d.r.sessOpen(t) })
	}
}
func (d *VerifC15UDir) SessLock(t, id int, goodSig bool) {
	d.r.one(func() string { return d.r.sessLock(t, id, goodSig) })
}
func (d *VerifC15UDir) SessUnlock(t int) { d.r.one(func() string { return d.r.sessUnlock(t) }) }
func (d *VerifC15UDir) SessOther(t int, ok bool) {
	d.r.one(func() string { return d.r.sessOther(t, ok) })
}
func (d *VerifC15UDir) SessRenew(t int) { d.r.one(func() string { return d.r.sessRenew(t) }) }
func (d *VerifC15UDir) SessClose(t int) { d.r.one(func() string { return d.r.sessClose(t) }) }
func (d *VerifC15UDir) HEnter(t, kind, id, fault int) {
	d.r.one(func() string { return d.r.hEnter(t, kind, id, fault) })
}
func (d *VerifC15UDir) HRelease(t int) {
	if d.r.ths[t].status.Load() == c15uHolding {
		d.r.one(func() string { return d.r.hRelease(t) })
	}
}

// SessLockThenFreeLock: session t sends a Lock RPC; as soon as the renter has the host's answer
// (when it is a refusal the handler has released by then, and the session is about to end) free
// caller f asks for contract fid; then the gate is opened.  One step of concurrent actions for
// the model.
func (d *VerifC15UDir) SessLockThenFreeLock(t, id int, goodSig bool, f, fid int) {
	r := d.r
	terms := []string{r.sessLock(t, id, goodSig)}
	select {
	case <-r.ths[t].rpcDone:
	case <-time.After(r.timeout):
	}
	terms = append(terms, r.freeLock(f, fid, false))
	deadline := time.Now().Add(r.timeout)
	for r.ths[f].status.Load() == c15uCalling && time.Now().Before(deadline) {
		if e, ok := r.table()[fid]; ok && e[0] >= 2 {
			break // parked behind somebody
		}
		time.Sleep(50 * time.Microsecond)
	}
	r.m.T.OpenGate()
	r.cmu.Lock()
	for _, c := range r.counts {
		r.em.Count(c)
	}
	r.counts = r.counts[:0]
	r.cmu.Unlock()
	obs := r.settle()
	r.em.Step("UPar "+c15uList(terms), obs)
}

// Alive reports whether session t is alive (between RPCs).
func (d *VerifC15UDir) Alive(t int) bool {
	s := d.r.ths[t].status.Load()
	return s == c15uIdle || s == c15uHolding
}
func (d *VerifC15UDir) Holding(t int) bool { return d.r.ths[t].status.Load() == c15uHolding }
func (d *VerifC15UDir) Failed() bool       { return d.r.failed }

// OpenGate releases Unlock calls of non-holders that wait at the tracker's gate.
func (d *VerifC15UDir) OpenGate() { d.r.m.T.OpenGate() }

// Par performs several primitive steps concurrently.
func (d *VerifC15UDir) Par(held bool, acts ...func() string) { d.r.par(acts, held) }
func (d *VerifC15UDir) ActFreeLock(t, id int) func() string {
	return func() string { return d.r.freeLock(t, id, false) }
}
func (d *VerifC15UDir) ActFreeUnlock(t int) func() string {
	return func() string { return d.r.freeUnlock(t) }
}
func (d *VerifC15UDir) ActFreeCancel(t int) func() string {
	return func() string { return d.r.freeCancel(t) }
}
func (d *VerifC15UDir) ActSessLock(t, id int, good bool) func() string {
	return func() string { return d.r.sessLock(t, id, good) }
}
func (d *VerifC15UDir) ActSessUnlock(t int) func() string {
	return func() string { return d.r.sessUnlock(t) }
}
func (d *VerifC15UDir) ActSessClose(t int) func() string {
	return func() string { return d.r.sessClose(t) }
}
func (d *VerifC15UDir) ActHEnter(t, kind, id, fault int) func() string {
	return func() string { return d.r.hEnter(t, kind, id, fault) }
}
func (d *VerifC15UDir) ActHRelease(t int) func() string {
	return func() string { return d.r.hRelease(t) }
}

// VerifC15UDrive runs the directed schedules (case ids 0..len(directed)-1) and n generated ones.
// kinds(k, rng) gives the kinds of the users of a generated case.  Returns true if the locker is
// wedged and no further case can run.
func VerifC15UDrive(logf func(string, ...any), em VerifC15UEmitter, m *VerifC15UManager, ops *VerifC15UOps, name string,
	directed []VerifC15UCase, n int, genKinds func(rng *rand.Rand) []int, rnd func(int) *rand.Rand) (wedged bool) {
	failures := 0
	for id := 0; id < len(directed)+n; id++ {
		if em.Skip(id) {
			continue
		}
		rng := rnd(id)
		var kinds []int
		if id < len(directed) {
			kinds = directed[id].Kinds
		} else {
			kinds = genKinds(rng)
		}
		if ops.BeforeCase != nil {
			ops.BeforeCase(id)
		}
		r := &c15uRun{m: m, ops: ops, em: em, rng: rng, timeout: 8 * time.Second}
		var init []string
		for t, k := range kinds {
			th := &c15uThread{kind: k, hadLock: -1, owner: fmt.Sprintf("free-%d-%d", id, t)}
			switch k {
			case VerifC15UFree:
				init = append(init, "UFree")
			case VerifC15USession:
				init = append(init, "USess 0%N SLoop")
			default:
				init = append(init, "UBr BIdle")
				th.owner = ""
			}
			r.ths = append(r.ths, th)
		}
		// sessions start alive: open their connections before the case begins
		for t, th := range r.ths {
			if th.kind == VerifC15USession {
				addr, err := ops.SessOpen(t)
				if err != nil {
					logf("cannot open session: %v", err)
					return true
				}
				th.addr, th.owner = addr, "conn@"+addr
				th.status.Store(c15uIdle)
			}
			if th.kind == VerifC15UHandler {
				addr, err := ops.HOpen(t)
				if err != nil {
					logf("cannot open an RHP3 connection: %v", err)
					return true
				}
				th.addr, th.owner = addr, "conn@"+addr
			}
		}
		em.BeginCase(id, name+" schedule")
		em.Step("UInit "+c15uList(init), r.observe())
		if id < len(directed) {
			em.Count("case:directed")
			directed[id].Run(&VerifC15UDir{r})
		} else {
			ks := make([]string, len(kinds))
			for i, k := range kinds {
				ks[i] = strconv.Itoa(k)
			}
			em.Count("case:generated,kinds=" + strings.Join(ks, ""))
			r.generated(6 + rng.Intn(18))
		}
		if !r.failed {
			r.finish()
		}
		em.EndCase(r.parked > 0)
		if r.fatal {
			logf("locker wedged in case %d, stopping", id)
			return true
		}
		if r.failed {
			r.abort()
			failures++
			if failures >= 3 {
				logf("stopping after %d failing cases", failures)
				break
			}
		} else {
			// leave no connection behind
			for t, th := range r.ths {
				if th.kind == VerifC15USession && th.status.Load() != c15uEnded && th.addr != "" {
					ops.SessClose(t)
				}
			}
		}
	}
	return false
}
