//go:build verif

package contracts_test

// C13 (WP-N) — the fate of a negotiated RHP4 renewal on a real chain.
//
// A v2 contract that holds data is renewed exactly as the coreutils RHP4 server does it (pool
// validation, Contractor.RenewV2Contract: the roots move to the successor and renewed_to is set at
// RPC time).  Then the chain decides:
//
//   * the renewal is confirmed in the next block (what C13 presumes): the predecessor is resolved
//     as renewed, the successor becomes active, holds the data through every prune and proves it;
//   * the renewal is never confirmed: the next block, mined elsewhere, spends the renewal's funding
//     input (the renter can do that).  The successor is rejected after the reject buffer, its roots
//     expire and are pruned; the predecessor — still active, unrevisable, with a revision that commits
//     to the data — has no roots, misses its proof and ends failed.  Nothing moves the roots back.
//     Monitor unconfirmed-renewal-strands-predecessor (a recorded finding, see known_findings.d/C13.json
//     and c13_unconfirmed_renewal_strands_predecessor_refuted).
//
// Recorded for coq/Roots/Chain.v (the manager model plus contract status, expiry of rejected
// successors' roots, proof at the window).

import (
	"context"
	"fmt"
	"path/filepath"
	"strings"
	"testing"
	"time"

	rhp2 "go.sia.tech/core/rhp/v2"
	proto4 "go.sia.tech/core/rhp/v4"
	"go.sia.tech/core/types"
	rhp4 "go.sia.tech/coreutils/rhp/v4"
	"go.sia.tech/hostd/v2/host/contracts"
	"go.sia.tech/hostd/v2/internal/testutil"
	"go.uber.org/zap"
)

type vuWorld struct {
	t       *testing.T
	em      *verifEmitter
	node    *testutil.HostNode
	rootNum map[types.Hash256]int
	hashNum map[types.Hash256]int
	cidNum  map[types.FileContractID]int
	keyNum  map[types.PublicKey]int
}

func (w *vuWorld) rN(r types.Hash256) int {
	if n, ok := w.rootNum[r]; ok {
		return n
	}
	w.rootNum[r] = len(w.rootNum) + 1
	return w.rootNum[r]
}
func (w *vuWorld) hN(h types.Hash256) int {
	if h == (types.Hash256{}) {
		return 0
	}
	if n, ok := w.hashNum[h]; ok {
		return n
	}
	w.hashNum[h] = len(w.hashNum) + 1
	return w.hashNum[h]
}
func (w *vuWorld) cN(id types.FileContractID) int {
	if n, ok := w.cidNum[id]; ok {
		return n
	}
	w.cidNum[id] = len(w.cidNum) + 1
	return w.cidNum[id]
}
func (w *vuWorld) kN(k types.PublicKey) int {
	if n, ok := w.keyNum[k]; ok {
		return n
	}
	w.keyNum[k] = len(w.keyNum) + 1
	return w.keyNum[k]
}
func (w *vuWorld) roots(l []types.Hash256) string {
	items := make([]string, len(l))
	for i, r := range l {
		items[i] = fmt.Sprint(w.rN(r))
	}
	return "[" + strings.Join(items, "; ") + "]"
}
func (w *vuWorld) opt(id types.FileContractID) string {
	if id == (types.FileContractID{}) {
		return "None"
	}
	return fmt.Sprintf("(Some %d)", w.cN(id))
}
func (w *vuWorld) rv2(fc types.V2FileContract) string {
	return fmt.Sprintf("(mkrv2 %d %d %d %d %d %d %d %d)", fc.RevisionNumber, fc.Filesize, fc.Capacity, w.hN(fc.FileMerkleRoot),
		fc.ProofHeight, fc.ExpirationHeight, w.kN(fc.RenterPublicKey), w.kN(fc.HostPublicKey))
}
func (w *vuWorld) op(op, obs string) { w.em.Step("XOp ("+op+")", "XO ("+obs+")") }

func vuStatus(s contracts.V2ContractStatus) string {
	switch s {
	case contracts.V2ContractStatusPending:
		return "CPending"
	case contracts.V2ContractStatusActive:
		return "CActive"
	case contracts.V2ContractStatusRenewed:
		return "CRenewed"
	case contracts.V2ContractStatusRejected:
		return "CRejected"
	case contracts.V2ContractStatusSuccessful:
		return "CSuccessful"
	}
	return "CFailed"
}

type vuEntry struct {
	c     contracts.V2Contract
	db    []types.Hash256
	cache []types.Hash256
}

// look records status, lists and revision of a contract after the sector expiry of the current tip
func (w *vuWorld) look(id types.FileContractID) vuEntry {
	node := w.node
	c, err := node.Contracts.V2Contract(id)
	if err != nil {
		w.t.Fatal(err)
	}
	all, err := node.Store.V2SectorRoots()
	if err != nil {
		w.t.Fatal(err)
	}
	e := vuEntry{c: c, db: all[id], cache: node.Contracts.SectorRoots(id)}
	w.em.Step(fmt.Sprintf("XExpire %d", node.Chain.Tip().Height), "XO (ORes (Ok tt))")
	w.em.Step(fmt.Sprintf("XStatus %d", w.cN(id)), fmt.Sprintf("XOStatus (Some %s)", vuStatus(c.Status)))
	w.op(fmt.Sprintf("Look2 %d", w.cN(id)), fmt.Sprintf("OLook true %s %s %d %d %d %s %s", w.roots(e.db), w.roots(e.cache), c.RevisionNumber, c.Filesize,
		w.hN(c.FileMerkleRoot), w.opt(c.RenewedTo), w.opt(c.RenewedFrom)))
	return e
}

func (w *vuWorld) readable(r types.Hash256) bool {
	_, err := w.node.Volumes.ReadSector(r)
	_, lerr := w.node.Store.SectorLocation(r)
	w.op(fmt.Sprintf("Located %d", w.rN(r)), "OBool "+coqBool(lerr == nil))
	return err == nil
}

func (w *vuWorld) prune() {
	if err := w.node.Store.PruneSectors(context.Background(), time.Now().Add(time.Hour)); err != nil {
		w.t.Fatal(err)
	}
	w.op("Prune", "ORes (Ok tt)")
}

// vuRun: one contract, nsec sectors, renewed (refresh: same heights) and then confirmed or not
func vuRun(t *testing.T, em *verifEmitter, id int, nsec int, refresh, confirm, pruneEarly bool) {
	log := zap.NewNop()
	seed := func(tag byte) []byte {
		b := make([]byte, 32)
		b[0], b[1], b[2] = tag, byte(id), byte(id>>8)
		return b
	}
	renterKey, hostKey := types.NewPrivateKeyFromSeed(seed(3)), types.NewPrivateKeyFromSeed(seed(4))
	network, genesis := testutil.V2Network()
	node := testutil.NewHostNode(t, hostKey, network, genesis, log)
	other := testutil.NewConsensusNode(t, network, genesis, log) // the rest of the network
	testutil.MineAndSync(t, node, node.Wallet.Address(), int(network.MaturityDelay+5))
	result := make(chan error, 1)
	if _, err := node.Volumes.AddVolume(context.Background(), filepath.Join(t.TempDir(), "v.dat"), 10, result); err != nil {
		t.Fatal(err)
	} else if err := <-result; err != nil {
		t.Fatal(err)
	}
	w := &vuWorld{t: t, em: em, node: node, rootNum: map[types.Hash256]int{}, hashNum: map[types.Hash256]int{}, cidNum: map[types.FileContractID]int{}, keyNum: map[types.PublicKey]int{}}
	cm, com := node.Chain, node.Contracts
	rng := verifCaseRand(id)

	// formation, confirmed
	oldID, fc := formV2Contract(t, cm, com, node.Wallet, node.Syncer, renterKey, hostKey, types.Siacoins(10), types.Siacoins(20), 25, true)
	w.op(fmt.Sprintf("Form2 %d %s", w.cN(oldID), w.rv2(fc)), "ORes (Ok tt)")
	testutil.MineAndSync(t, node, types.VoidAddress, 1)
	w.em.Step(fmt.Sprintf("XConfirm %d", w.cN(oldID)), "XO (ORes (Ok tt))")

	// upload nsec sectors (one revision)
	var roots []types.Hash256
	for i := 0; i < nsec; i++ {
		var sector [rhp2.SectorSize]byte
		rng.Read(sector[:256])
		root := rhp2.SectorRoot(&sector)
		if err := node.Volumes.Write(root, &sector); err != nil {
			t.Fatal(err)
		}
		roots = append(roots, root)
		w.op(fmt.Sprintf("StoreSec %d", w.rN(root)), "ORes (Ok tt)")
	}
	fc.Filesize = proto4.SectorSize * uint64(nsec)
	fc.Capacity, fc.FileMerkleRoot = fc.Filesize, proto4.MetaRoot(roots)
	fc.RevisionNumber++
	cost, collateral := types.Siacoins(1), types.Siacoins(2)
	fc.RenterOutput.Value = fc.RenterOutput.Value.Sub(cost)
	fc.HostOutput.Value = fc.HostOutput.Value.Add(cost)
	fc.MissedHostValue = fc.MissedHostValue.Sub(collateral)
	sigHash := cm.TipState().ContractSigHash(fc)
	fc.HostSignature, fc.RenterSignature = hostKey.SignHash(sigHash), renterKey.SignHash(sigHash)
	if err := com.ReviseV2Contract(oldID, fc, roots, proto4.Usage{Storage: cost, RiskedCollateral: collateral}); err != nil {
		t.Fatal(err)
	}
	w.op(fmt.Sprintf("Revise2 %d %s %s %d true true None", w.cN(oldID), w.rv2(fc), w.roots(roots), w.hN(proto4.MetaRoot(roots))), "ORes (Ok tt)")
	if err := node.Volumes.Sync(); err != nil {
		t.Fatal(err)
	}
	w.look(oldID)

	// the other node follows the same chain
	var shared []types.Block
	for h := uint64(1); h <= cm.Tip().Height; h++ {
		index, _ := cm.BestIndex(h)
		b, _ := cm.Block(index.ID)
		shared = append(shared, b)
	}
	if err := other.Chain.AddBlocks(shared); err != nil {
		t.Fatal(err)
	}

	// RPCRenewContract / RPCRefreshContract as coreutils' server does it: the renewal set (a setup
	// transaction funding an ephemeral output, the renewal), pool validation, RenewV2Contract
	cs := cm.TipState()
	_, fce, err := com.V2FileContractElement(oldID)
	if err != nil {
		t.Fatal(err)
	}
	additional := types.Siacoins(2)
	shift := uint64(20)
	if refresh {
		shift = 0
	}
	renewal := types.V2FileContractRenewal{
		NewContract: types.V2FileContract{
			Filesize: fc.Filesize, Capacity: fc.Capacity, FileMerkleRoot: fc.FileMerkleRoot,
			ProofHeight: fc.ProofHeight + shift, ExpirationHeight: fc.ExpirationHeight + shift,
			RenterOutput:    fc.RenterOutput,
			HostOutput:      types.SiacoinOutput{Address: fc.HostOutput.Address, Value: fc.HostOutput.Value.Add(additional)},
			MissedHostValue: fc.MissedHostValue.Add(additional), TotalCollateral: fc.TotalCollateral.Add(additional),
			RenterPublicKey: renterKey.PublicKey(), HostPublicKey: hostKey.PublicKey(),
		},
		HostRollover: fc.HostOutput.Value, RenterRollover: fc.RenterOutput.Value,
	}
	rsh := cs.RenewalSigHash(renewal)
	renewal.HostSignature, renewal.RenterSignature = hostKey.SignHash(rsh), renterKey.SignHash(rsh)
	csh := cs.ContractSigHash(renewal.NewContract)
	renewal.NewContract.HostSignature, renewal.NewContract.RenterSignature = hostKey.SignHash(csh), renterKey.SignHash(csh)
	fundAmount := cs.V2FileContractTax(renewal.NewContract).Add(additional)
	// (in a real renewal this input is the renter's; whose key signs it makes no difference to consensus)
	setupTxn := types.V2Transaction{SiacoinOutputs: []types.SiacoinOutput{{Value: fundAmount, Address: fc.HostOutput.Address}}}
	basis, toSign, err := node.Wallet.FundV2Transaction(&setupTxn, fundAmount, false)
	if err != nil {
		t.Fatal(err)
	}
	node.Wallet.SignV2Inputs(&setupTxn, toSign)
	renewalTxn := types.V2Transaction{
		SiacoinInputs:           []types.V2SiacoinInput{{Parent: setupTxn.EphemeralSiacoinOutput(0)}},
		FileContractResolutions: []types.V2FileContractResolution{{Parent: fce.Copy(), Resolution: &renewal}},
	}
	node.Wallet.SignV2Inputs(&renewalTxn, []int{0})
	set := rhp4.TransactionSet{Basis: basis, Transactions: []types.V2Transaction{setupTxn, renewalTxn}}
	if _, err := cm.AddV2PoolTransactions(set.Basis, set.Transactions); err != nil {
		t.Fatal("renewal refused by the pool:", err)
	}
	mold := proto4.MetaRoot(com.SectorRoots(oldID))
	if err := com.RenewV2Contract(set, proto4.Usage{RiskedCollateral: renewal.NewContract.TotalCollateral.Sub(renewal.NewContract.MissedHostValue)}); err != nil {
		t.Fatal(err)
	}
	newID := oldID.V2RenewalID()
	w.op(fmt.Sprintf("Renew2 %d %d %s %d true None", w.cN(oldID), w.cN(newID), w.rv2(renewal.NewContract), w.hN(mold)), "ORes (Ok tt)")
	em.Count(fmt.Sprintf("renewal:sectors=%d:refresh=%v:confirmed=%v", nsec, refresh, confirm))
	o := w.look(oldID)
	n := w.look(newID)
	// C13 at the moment of acceptance
	if !vuEq(n.db, roots) || !vuEq(n.cache, roots) || n.c.Filesize != fc.Filesize || n.c.FileMerkleRoot != fc.FileMerkleRoot {
		em.Monitor("successor-list-differs-from-predecessor", fmt.Sprintf("predecessor held %s; successor: store %s, manager %s, size %d", w.roots(roots), w.roots(n.db), w.roots(n.cache), n.c.Filesize))
	}
	if o.c.RenewedTo != newID || n.c.RenewedFrom != oldID {
		em.Monitor("renewal-links-not-mutual", fmt.Sprintf("predecessor -> %s, successor <- %s", w.opt(o.c.RenewedTo), w.opt(n.c.RenewedFrom)))
	}
	if st, unlock, err := com.LockV2Contract(oldID); err == nil {
		unlock()
		if !st.Renewed || st.Revisable {
			em.Monitor("renewed-predecessor-reports-revisable", fmt.Sprintf("Renewed=%v Revisable=%v", st.Renewed, st.Revisable))
		}
	}

	if confirm {
		// the renewal is mined with the next block
		testutil.MineAndSync(t, node, types.VoidAddress, 1)
		w.em.Step(fmt.Sprintf("XConfirm %d", w.cN(newID)), "XO (ORes (Ok tt))")
		o, n = w.look(oldID), w.look(newID)
		if o.c.Status != contracts.V2ContractStatusRenewed || n.c.Status != contracts.V2ContractStatusActive {
			em.Monitor("confirmed-renewal-has-wrong-status", fmt.Sprintf("predecessor %v, successor %v", o.c.Status, n.c.Status))
		}
		if pruneEarly {
			w.prune()
		}
		testutil.MineAndSync(t, node, types.VoidAddress, 12) // past the reject buffer: nothing is rejected
		w.prune()
		n = w.look(newID)
		for _, r := range roots {
			if !w.readable(r) {
				em.Monitor("confirmed-renewal-loses-data", fmt.Sprintf("sector %d of the active successor is not readable after the prune (height %d)", w.rN(r), cm.Tip().Height))
			}
		}
		if !vuEq(n.db, roots) || !vuEq(n.cache, roots) {
			em.Monitor("confirmed-renewal-loses-data", fmt.Sprintf("successor: store %s, manager %s, handed over %s", w.roots(n.db), w.roots(n.cache), w.roots(roots)))
		}
		// through the successor's proof window and past its expiration
		mc := proto4.MetaRoot(com.SectorRoots(newID))
		for cm.Tip().Height <= renewal.NewContract.ExpirationHeight+1 {
			testutil.MineAndSync(t, node, types.VoidAddress, 1)
		}
		nc, err := com.V2Contract(newID)
		if err != nil {
			t.Fatal(err)
		}
		w.em.Step(fmt.Sprintf("XProve %d %d", w.cN(newID), w.hN(mc)), "XO (OBool "+coqBool(nc.Status == contracts.V2ContractStatusSuccessful)+")")
		w.em.Step(fmt.Sprintf("XStatus %d", w.cN(newID)), fmt.Sprintf("XOStatus (Some %s)", vuStatus(nc.Status)))
		w.em.Step(fmt.Sprintf("XStatus %d", w.cN(oldID)), fmt.Sprintf("XOStatus (Some %s)", vuStatus(func() contracts.V2ContractStatus { c, _ := com.V2Contract(oldID); return c.Status }())))
		if nc.Status != contracts.V2ContractStatusSuccessful {
			em.Monitor("confirmed-renewal-loses-data", fmt.Sprintf("the confirmed successor ends %v", nc.Status))
		}
		return
	}

	// the double spend of the funding input wins the next block (mined elsewhere)
	conflict := types.V2Transaction{
		SiacoinInputs:  []types.V2SiacoinInput{{Parent: setupTxn.SiacoinInputs[0].Parent.Copy()}},
		SiacoinOutputs: []types.SiacoinOutput{{Address: types.VoidAddress, Value: setupTxn.SiacoinInputs[0].Parent.SiacoinOutput.Value}},
	}
	conflict.SiacoinInputs[0].SatisfiedPolicy = setupTxn.SiacoinInputs[0].SatisfiedPolicy
	conflict.SiacoinInputs[0].SatisfiedPolicy.Signatures = []types.Signature{hostKey.SignHash(cs.InputSigHash(conflict))}
	if _, err := other.Chain.AddV2PoolTransactions(basis, []types.V2Transaction{conflict}); err != nil {
		t.Fatal("conflicting spend refused:", err)
	}
	testutil.MineBlocks(t, other, types.VoidAddress, 1)
	tb, _ := other.Chain.Block(other.Chain.Tip().ID)
	if len(tb.V2Transactions()) != 1 {
		t.Fatal("setup: conflict not mined")
	}
	if err := cm.AddBlocks([]types.Block{tb}); err != nil {
		t.Fatal(err)
	}
	testutil.WaitForSync(t, cm, node.Indexer)
	w.look(oldID)
	n = w.look(newID)
	// the successor is still waiting for its confirmation: it holds the data
	if n.c.Status == contracts.V2ContractStatusPending && (!vuEq(n.db, roots) || !vuEq(n.cache, roots)) {
		em.Monitor("successor-list-differs-from-predecessor", fmt.Sprintf("one block after the renewal the pending successor holds: store %s, manager %s; handed over %s", w.roots(n.db), w.roots(n.cache), w.roots(roots)))
	}
	if pruneEarly {
		w.prune() // the successor still references the sectors
		for _, r := range roots {
			if !w.readable(r) {
				em.Monitor("referenced-sector-pruned", fmt.Sprintf("sector %d while the pending successor references it", w.rN(r)))
			}
		}
	}
	// past the reject buffer of the successor
	testutil.MineAndSync(t, node, types.VoidAddress, 12)
	nc, err := com.V2Contract(newID)
	if err != nil {
		t.Fatal(err)
	}
	if nc.Status == contracts.V2ContractStatusRejected {
		w.em.Step(fmt.Sprintf("XReject %d", w.cN(newID)), "XO (ORes (Ok tt))")
	}
	// whatever became of the successor, the renewed predecessor refuses further revisions (C13): its
	// roots were handed over when the renewal was negotiated.  Monitor only (nothing is recorded: the
	// refusal changes no state).
	if oc0, err := com.V2Contract(oldID); err == nil && oc0.RenewedTo == newID {
		probe := oc0.V2FileContract
		probe.RevisionNumber++
		sh := cm.TipState().ContractSigHash(probe)
		probe.HostSignature, probe.RenterSignature = hostKey.SignHash(sh), renterKey.SignHash(sh)
		if err := com.ReviseV2Contract(oldID, probe, com.SectorRoots(oldID), proto4.Usage{}); err == nil {
			em.Monitor("renewed-predecessor-accepts-revision", fmt.Sprintf("predecessor %d (renewed to %d, successor %v) accepted revision %d after the hand-over of its roots", w.cN(oldID), w.cN(newID), nc.Status, probe.RevisionNumber))
		}
		if st, unlock, err := com.LockV2Contract(oldID); err == nil {
			if st.Revisable || !st.Renewed {
				em.Monitor("renewed-predecessor-reports-revisable", fmt.Sprintf("after the successor became %v: Renewed=%v Revisable=%v", nc.Status, st.Renewed, st.Revisable))
			}
			unlock()
		}
	}
	o, n = w.look(oldID), w.look(newID)
	w.prune()
	lost := 0
	for _, r := range roots {
		if !w.readable(r) {
			lost++
		}
	}
	stranded := o.c.Status == contracts.V2ContractStatusActive && o.c.RenewedTo == newID && n.c.Status == contracts.V2ContractStatusRejected &&
		(proto4.MetaRoot(o.db) != o.c.FileMerkleRoot || lost > 0)
	// through the predecessor's proof window and past its expiration
	mc := proto4.MetaRoot(com.SectorRoots(oldID))
	for cm.Tip().Height <= fc.ExpirationHeight+1 {
		testutil.MineAndSync(t, node, types.VoidAddress, 1)
	}
	oc, err := com.V2Contract(oldID)
	if err != nil {
		t.Fatal(err)
	}
	w.em.Step(fmt.Sprintf("XProve %d %d", w.cN(oldID), w.hN(mc)), "XO (OBool "+coqBool(oc.Status == contracts.V2ContractStatusSuccessful)+")")
	w.em.Step(fmt.Sprintf("XStatus %d", w.cN(oldID)), fmt.Sprintf("XOStatus (Some %s)", vuStatus(oc.Status)))
	if stranded || oc.Status == contracts.V2ContractStatusFailed {
		em.Monitor("unconfirmed-renewal-strands-predecessor", fmt.Sprintf("renewal of a contract with %d sector(s) negotiated at height %d, its funding input double-spent in the next block: successor %v with %d persisted roots; predecessor %v at height %d, renewed_to set, %d persisted roots for a revision that commits to %d, %d of its sectors unreadable after the prune; the predecessor ends %v (the host forfeits %v)",
			nsec, cs.Index.Height, n.c.Status, len(n.db), o.c.Status, cm.Tip().Height, len(o.db), nsec, lost, oc.Status, fc.HostOutput.Value.Sub(fc.MissedHostValue)))
	}
}

func vuEq(a, b []types.Hash256) bool {
	if len(a) != len(b) {
		return false
	}
	for i := range a {
		if a[i] != b[i] {
			return false
		}
	}
	return true
}

func TestVerifC13Unconfirmed(t *testing.T) {
	em := newVerifEmitter(t, "From HostdBase Require Import Base.\nFrom HostdRoots Require Import Model Chain.\nOpen Scope N_scope.", "xcase", "xcheck")
	defer em.Close()
	n := verifN(4)
	for id := 0; id < 2+n; id++ {
		if em.Skip(id) {
			continue
		}
		rng := verifCaseRand(id)
		nsec, refresh, confirm, early := 1+rng.Intn(3), rng.Intn(2) == 0, rng.Intn(3) > 0, rng.Intn(2) == 0
		desc := "generated"
		switch id {
		case 0:
			nsec, refresh, confirm, early, desc = 1, false, false, false, "directed: the renewal's funding input is double-spent in the next block"
		case 1:
			nsec, refresh, confirm, early, desc = 2, false, true, true, "directed: the renewal is confirmed in the next block"
		}
		em.BeginCase(id, fmt.Sprintf("%s (%d sectors, refresh %v, confirmed %v)", desc, nsec, refresh, confirm))
		t.Run(fmt.Sprintf("case-%d", id), func(t *testing.T) { vuRun(t, em, id, nsec, refresh, confirm, early) })
		em.EndCase(true)
	}
}
