//go:build verif

package contracts

// Driver for buildContractState (C01): the function that maps the file-contract element diffs of a
// consensus update to contracts.StateChanges, in particular that a REVERTED revision records the
// previous revision and that a diff into which core merged several changes of one contract
// (created with folded revisions; revised and resolved) yields all of them.  Generated diffs (all
// flag combinations, relevant and irrelevant contracts) are run through the real function and
// recorded for the Coq model Contracts/Build.v.

import (
	"fmt"
	"testing"

	"go.sia.tech/core/consensus"
	"go.sia.tech/core/types"
	"go.sia.tech/coreutils/wallet"
	"go.uber.org/zap"
)

type vfBuildTx struct {
	rel1, rel2 map[types.FileContractID]bool
}

func (tx *vfBuildTx) UpdateContractElementProofs(wallet.ProofUpdater) error { return nil }
func (tx *vfBuildTx) ContractRelevant(id types.FileContractID) (bool, error) {
	return tx.rel1[id], nil
}
func (tx *vfBuildTx) V2ContractRelevant(id types.FileContractID) (bool, error) {
	return tx.rel2[id], nil
}
func (tx *vfBuildTx) ApplyContracts(types.ChainIndex, StateChanges) error  { return nil }
func (tx *vfBuildTx) RevertContracts(types.ChainIndex, StateChanges) error { return nil }
func (tx *vfBuildTx) RejectContracts(uint64) (v1, v2 []types.FileContractID, err error) {
	return nil, nil, nil
}
func (tx *vfBuildTx) AddContractChainIndexElement(types.ChainIndexElement) error { return nil }
func (tx *vfBuildTx) RevertContractChainIndexElement(types.ChainIndex) error     { return nil }
func (tx *vfBuildTx) UpdateChainIndexElementProofs(wallet.ProofUpdater) error    { return nil }
func (tx *vfBuildTx) DeleteExpiredChainIndexElements(uint64) error               { return nil }

func vfBuildID(v2 bool, n int) (id types.FileContractID) {
	id[0] = 1
	if v2 {
		id[0] = 2
	}
	id[1] = byte(n)
	return
}

func vfOpt(v *uint64) string {
	if v == nil {
		return "None"
	}
	return fmt.Sprintf("(Some %d)", *v)
}

func TestVerifC01Build(t *testing.T) {
	em := newVerifEmitter(t, "From HostdBase Require Import Base.\nFrom HostdContracts Require Import Model Build.\nLocal Open Scope N_scope.", "bcase", "check_build")
	defer em.Close()
	n := verifN(1500)
	for id := 0; id < n; id++ {
		if em.Skip(id) {
			continue
		}
		rng := verifCaseRand(id)
		tx := &vfBuildTx{rel1: map[types.FileContractID]bool{}, rel2: map[types.FileContractID]bool{}}
		revert := rng.Intn(2) == 0
		var d1 []consensus.FileContractElementDiff
		var d2 []consensus.V2FileContractElementDiff
		var t1, t2 []string
		malformed := rng.Intn(6) == 0 // diffs with several or no flags
		type want struct {
			v2   bool
			id   types.FileContractID
			kind string
			rev  uint64
		}
		var wants []want
		sameBlock := false                                   // some relevant v2 contract is revised and resolved by this update
		sameBlockV1 := map[types.FileContractID]bool{}       // relevant v1 contracts revised and proven by this update
		foldedV1 := map[types.FileContractID]bool{}          // relevant v1 contracts created by this update
		createdResolvedV1 := map[types.FileContractID]bool{} // relevant v1 contracts created and resolved by this update
		for i, k := 0, rng.Intn(5); i < k; i++ {
			cid := vfBuildID(false, i+1)
			relevant := rng.Intn(5) != 0
			tx.rel1[cid] = relevant
			cur := uint64(rng.Intn(4))
			fc := types.FileContract{RevisionNumber: cur,
				ValidProofOutputs:  []types.SiacoinOutput{{}, {Value: types.NewCurrency64(10)}},
				MissedProofOutputs: []types.SiacoinOutput{{}, {Value: types.NewCurrency64(uint64(8 + rng.Intn(5)))}}}
			missedGE := fc.MissedHostPayout().Cmp(fc.ValidHostPayout()) >= 0
			d := consensus.FileContractElementDiff{FileContractElement: types.FileContractElement{ID: cid, FileContract: fc}}
			var rev *uint64
			pick := rng.Intn(6)
			if malformed {
				d.Created = rng.Intn(2) == 0
				if rng.Intn(2) == 0 {
					r := cur + 1 + uint64(rng.Intn(3))
					rev = &r
				}
				d.Resolved = rng.Intn(2) == 0
				d.Valid = rng.Intn(2) == 0
			} else {
				switch pick {
				case 0:
					// created: revisions confirmed in the same block are folded into the created
					// element (cur is its revision number), so it is also the confirmed revision;
					// reverting restores revision 0
					d.Created = true
					wants = append(wants, want{false, cid, "confirmed", 0})
					w := cur
					if revert {
						w = 0
					}
					wants = append(wants, want{false, cid, "revised", w})
					if relevant {
						foldedV1[cid] = true
					}
				case 1:
					r := cur + 1 + uint64(rng.Intn(3))
					rev = &r
					w := r
					if revert {
						w = cur
					}
					wants = append(wants, want{false, cid, "revised", w})
				case 2:
					d.Resolved, d.Valid = true, true
					wants = append(wants, want{false, cid, "successful", 0})
				case 5:
					// created and resolved in the same block (consensus-valid when the formation is
					// confirmed in the block at its window start, together with a storage proof;
					// the missed resolution for completeness): formation, the created element's
					// revision and the resolution must all be recorded
					d.Created, d.Resolved = true, true
					d.Valid = rng.Intn(3) != 0
					wants = append(wants, want{false, cid, "confirmed", 0})
					w := cur
					if revert {
						w = 0
					}
					wants = append(wants, want{false, cid, "revised", w})
					if d.Valid || missedGE {
						wants = append(wants, want{false, cid, "successful", 0})
					} else {
						wants = append(wants, want{false, cid, "failed", 0})
					}
					if relevant {
						foldedV1[cid] = true
						createdResolvedV1[cid] = true
					}
				case 4:
					// revised and proven in the same block (consensus-valid in the block at the
					// height of the window start): both changes must be recorded
					r := cur + 1 + uint64(rng.Intn(3))
					rev = &r
					w := r
					if revert {
						w = cur
					}
					d.Resolved, d.Valid = true, true
					wants = append(wants, want{false, cid, "revised", w})
					wants = append(wants, want{false, cid, "successful", 0})
					if relevant {
						sameBlockV1[cid] = true
					}
				default:
					d.Resolved = true
					if missedGE {
						wants = append(wants, want{false, cid, "successful", 0})
					} else {
						wants = append(wants, want{false, cid, "failed", 0})
					}
				}
			}
			if rev != nil {
				rfc := fc
				rfc.RevisionNumber = *rev
				d.Revision = &rfc
			}
			for !relevant && len(wants) > 0 && wants[len(wants)-1].id == cid && !wants[len(wants)-1].v2 {
				wants = wants[:len(wants)-1]
			}
			d1 = append(d1, d)
			t1 = append(t1, fmt.Sprintf("mkFD %d %v %v %d %s %v %v %v", i+1, relevant, d.Created, cur, vfOpt(rev), d.Resolved, d.Valid, missedGE))
			em.Count(fmt.Sprintf("v1-diff:created=%v,revised=%v,resolved=%v,valid=%v,relevant=%v", d.Created, rev != nil, d.Resolved, d.Valid, relevant))
		}
		for i, k := 0, rng.Intn(5); i < k; i++ {
			cid := vfBuildID(true, i+1)
			relevant := rng.Intn(5) != 0
			tx.rel2[cid] = relevant
			cur := uint64(rng.Intn(4))
			fc := types.V2FileContract{RevisionNumber: cur, HostOutput: types.SiacoinOutput{Value: types.NewCurrency64(10)},
				MissedHostValue: types.NewCurrency64(uint64(8 + rng.Intn(5)))}
			d := consensus.V2FileContractElementDiff{V2FileContractElement: types.V2FileContractElement{ID: cid, V2FileContract: fc}}
			var rev *uint64
			both := false
			res := "None"
			setRes := func(k int) string {
				switch k {
				case 0:
					d.Resolution = &types.V2FileContractRenewal{}
					return "renewed"
				case 1:
					d.Resolution = &types.V2StorageProof{}
					return "successful"
				default:
					d.Resolution = &types.V2FileContractExpiration{}
					if fc.MissedHostValue.Cmp(fc.HostOutput.Value) >= 0 {
						return "successful"
					}
					return "failed"
				}
			}
			resTerm := func() string {
				switch r := d.Resolution.(type) {
				case *types.V2FileContractRenewal:
					return "(Some KRenewal)"
				case *types.V2StorageProof:
					return "(Some KProof)"
				case *types.V2FileContractExpiration:
					_ = r
					return fmt.Sprintf("(Some (KExpiration %v))", fc.MissedHostValue.Cmp(fc.HostOutput.Value) >= 0)
				}
				return "None"
			}
			if malformed {
				d.Created = rng.Intn(2) == 0
				if rng.Intn(2) == 0 {
					r := cur + 1 + uint64(rng.Intn(3))
					rev = &r
				}
				if rng.Intn(2) == 0 {
					setRes(rng.Intn(3))
				}
			} else {
				switch rng.Intn(4) {
				case 0:
					d.Created = true
					wants = append(wants, want{true, cid, "confirmed", cur})
				case 1:
					r := cur + 1 + uint64(rng.Intn(3))
					rev = &r
					w := r
					if revert {
						w = cur
					}
					wants = append(wants, want{true, cid, "revised", w})
				case 2:
					wants = append(wants, want{true, cid, setRes(rng.Intn(3)), 0})
				default:
					// revised and resolved in the same block (consensus-valid: a revision and a
					// renewal of one contract can be mined together; core's MidState then merges
					// both into one diff): both changes must be recorded
					r := cur + 1 + uint64(rng.Intn(3))
					rev = &r
					w := r
					if revert {
						w = cur
					}
					wants = append(wants, want{true, cid, "revised", w})
					wants = append(wants, want{true, cid, setRes(rng.Intn(3)), 0})
					both = true
				}
			}
			res = resTerm()
			if rev != nil {
				rfc := fc
				rfc.RevisionNumber = *rev
				d.Revision = &rfc
			}
			for !relevant && len(wants) > 0 && wants[len(wants)-1].id == cid && wants[len(wants)-1].v2 {
				wants = wants[:len(wants)-1]
			}
			d2 = append(d2, d)
			t2 = append(t2, fmt.Sprintf("mkFD2 %d %v %v %d %s %s", i+1, relevant, d.Created, cur, vfOpt(rev), res))
			em.Count(fmt.Sprintf("v2-diff:created=%v,revised=%v,resolution=%s,relevant=%v", d.Created, rev != nil, res, relevant))
			if both && relevant {
				sameBlock = true
			}
		}

		state, err := buildContractState(tx, d1, d2, revert, zap.NewNop())
		out := "None"
		if err == nil {
			num := func(id types.FileContractID) string { return fmt.Sprint(int(id[1])) }
			var c1, r1, s1, f1, c2, r2, s2, n2, f2 []string
			for _, e := range state.Confirmed {
				c1 = append(c1, num(e.ID))
			}
			for _, e := range state.Revised {
				r1 = append(r1, fmt.Sprintf("(%s, %d)", num(e.ID), e.RevisionNumber))
			}
			for _, e := range state.Successful {
				s1 = append(s1, num(e))
			}
			for _, e := range state.Failed {
				f1 = append(f1, num(e))
			}
			for _, e := range state.ConfirmedV2 {
				c2 = append(c2, fmt.Sprintf("(%s, %d)", num(e.ID), e.V2FileContract.RevisionNumber))
			}
			for _, e := range state.RevisedV2 {
				r2 = append(r2, fmt.Sprintf("(%s, %d)", num(e.ID), e.RevisionNumber))
			}
			for _, e := range state.SuccessfulV2 {
				s2 = append(s2, num(e))
			}
			for _, e := range state.RenewedV2 {
				n2 = append(n2, num(e))
			}
			for _, e := range state.FailedV2 {
				f2 = append(f2, num(e))
			}
			out = fmt.Sprintf("(Some (mkCh %s %s %s %s %s %s %s %s %s))", coqList(c1), coqList(r1), coqList(s1), coqList(f1), coqList(c2), coqList(r2), coqList(s2), coqList(n2), coqList(f2))
		}
		em.curDesc = "buildContractState"
		em.FunCase(id, fmt.Sprintf("(%v, %s, %s)", revert, coqList(t1), coqList(t2)), out, len(d1)+len(d2) > 0)
		em.Count(fmt.Sprintf("case:revert=%v,malformed=%v,error=%v", revert, malformed, err != nil))

		// property monitor (well-formed diffs only: exactly one flag per diff): every relevant diff
		// yields exactly its change, and a reverted revision records the PREVIOUS revision number
		if !malformed {
			if err != nil {
				em.Monitor("build-contract-state-fails-on-well-formed-diffs", err.Error())
				continue
			}
			got := map[string]bool{}
			add := func(v2 bool, id types.FileContractID, kind string, rev uint64) {
				got[fmt.Sprintf("%v/%d/%s/%d", v2, id[1], kind, rev)] = true
			}
			for _, e := range state.Confirmed {
				add(false, e.ID, "confirmed", 0)
			}
			for _, e := range state.Revised {
				add(false, e.ID, "revised", e.RevisionNumber)
			}
			for _, e := range state.Successful {
				add(false, e, "successful", 0)
			}
			for _, e := range state.Failed {
				add(false, e, "failed", 0)
			}
			for _, e := range state.ConfirmedV2 {
				add(true, e.ID, "confirmed", e.V2FileContract.RevisionNumber)
			}
			for _, e := range state.RevisedV2 {
				add(true, e.ID, "revised", e.RevisionNumber)
			}
			for _, e := range state.SuccessfulV2 {
				add(true, e, "successful", 0)
			}
			for _, e := range state.RenewedV2 {
				add(true, e, "renewed", 0)
			}
			for _, e := range state.FailedV2 {
				add(true, e, "failed", 0)
			}
			for _, w := range wants {
				k := fmt.Sprintf("%v/%d/%s/%d", w.v2, w.id[1], w.kind, w.rev)
				if !got[k] {
					sig := "state-change-missing-or-wrong"
					if sameBlock && w.v2 {
						sig = "same-block-revision-and-resolution-not-both-recorded"
					} else if !w.v2 && createdResolvedV1[w.id] && (w.kind == "successful" || w.kind == "failed") {
						sig = "same-block-v1-formation-and-resolution-not-both-recorded"
					} else if !w.v2 && foldedV1[w.id] && w.kind == "revised" {
						sig = "same-block-formation-and-revision-not-both-recorded"
					} else if !w.v2 && sameBlockV1[w.id] && w.kind == "successful" {
						sig = "same-block-v1-revision-and-proof-not-both-recorded"
					} else if w.kind == "revised" && revert {
						sig = "reverted-revision-does-not-record-previous-revision"
					}
					em.Monitor(sig, fmt.Sprintf("revert=%v: expected %s, got %v", revert, k, got))
					break
				}
				delete(got, k)
			}
			if len(got) != 0 {
				em.Monitor("unexpected-state-change", fmt.Sprintf("revert=%v: extra %v", revert, got))
			}
		}
	}
}
