//go:build verif

package contracts_test

// C06 (WP-U) — "every selected action reaches the pool": the funding step of ProcessActions on a
// real node with a real wallet.
//
// ProcessActions funds every v2 revision, storage proof and expiration with
// wallet.FundV2Transaction(..., useUnconfirmed = false) (host/contracts/update.go:345,391,421,
// "// TODO: true"): the change of a transaction funded earlier in the same pass — or in the
// previous block while that is unconfirmed — cannot be spent, so a wallet with k confirmed
// outputs gets at most k of the selected v2 actions of one pass into the pool, however rich it
// is.  A host funded by one deposit has ONE output until payouts mature.  With more contracts
// sharing a proof window than the window has blocks (x outputs) the rest miss it: they end
// failed although the host holds the data (C06, last sentence).
//
// Each case is a real host node (testutil.NewHostNode: chain manager, wallet, volume manager,
// contract manager, settings manager, index manager with batch size 1) whose wallet is paid by
// k blocks (k outputs), n v2 contracts WITH data (sectors in a real volume, revision 1 commits
// to them) and one shared proof window of w blocks; every block is mined with the pool's
// transactions (fair miner), no reorg.  Recorded per step for coq/Actions/Funding.v (fcase /
// fcheck): every use of the wallet (formations, the host's announcements, the passes), and
// after every block the spendable confirmed outputs, the contract transactions in the pool and
// the contract statuses.
//
// Monitors (independent of the model):
//   v2-resolutions-starved-by-single-confirmed-output   a contract with held data ended failed;
//       at every tip of its window all confirmed outputs (exactly one) were used up by other
//       resolutions although the balance covered every fee  — the recorded finding
//   v2-resolutions-starved-by-too-few-confirmed-outputs  the same with k > 1 outputs
//   contract-with-held-data-failed                       it failed for any other reason
//   v2-inputs-stay-reserved-after-pool-refusal           the pool refused a set of the pass (a revision due at
//       the proof height) and its inputs were not released: the output is out of play for the
//       reservation time (3 h) — recorded finding, directed case 5
//   selected-v2-action-missing-from-pool                 a selected action did not reach the pool
//       although a confirmed, unreserved output was left for it
//   contract-with-held-data-not-successful-after-window  still active long after the window

import (
	"context"
	"fmt"
	"os"
	"path/filepath"
	"sort"
	"testing"

	rhp2 "go.sia.tech/core/rhp/v2"
	proto4 "go.sia.tech/core/rhp/v4"
	"go.sia.tech/core/types"
	rhp4 "go.sia.tech/coreutils/rhp/v4"
	"go.sia.tech/hostd/v2/host/contracts"
	"go.sia.tech/hostd/v2/internal/testutil"
	"go.uber.org/zap"
)

var c06fSt2 = map[contracts.V2ContractStatus]string{
	contracts.V2ContractStatusPending: "Pending2", contracts.V2ContractStatusRejected: "Rejected2",
	contracts.V2ContractStatusActive: "Active2", contracts.V2ContractStatusRenewed: "Renewed2",
	contracts.V2ContractStatusSuccessful: "Successful2", contracts.V2ContractStatusFailed: "Failed2",
}

type c06fCase struct {
	desc    string
	n       int    // contracts
	w       uint64 // blocks of the shared proof window
	k       int    // confirmed outputs of the wallet
	hostRev []bool // contract i leaves the broadcast of its revision to the host
	benefit []bool // host output exceeds the missed host value (an expiration means failed)
	sectors []int
}

func c06fDirected(id int) (c06fCase, bool) {
	all := func(n int, v bool) []bool {
		l := make([]bool, n)
		for i := range l {
			l[i] = v
		}
		return l
	}
	ones := func(n int) []int {
		l := make([]int, n)
		for i := range l {
			l[i] = 1
		}
		return l
	}
	switch id {
	case 0: // the audit's execution (A2-report 2.3), with data
		return c06fCase{desc: "FINDING: 4 v2 contracts with data, shared 3-block window, balance in ONE output", n: 4, w: 3, k: 1, hostRev: all(4, false), benefit: all(4, true), sectors: []int{1, 2, 1, 1}}, true
	case 1: // the control
		return c06fCase{desc: "control: the same with FOUR outputs", n: 4, w: 3, k: 4, hostRev: all(4, false), benefit: all(4, true), sectors: []int{1, 2, 1, 1}}, true
	case 2: // one output is enough when the window has a block per contract
		return c06fCase{desc: "one output, window of 3 blocks, 3 contracts", n: 3, w: 3, k: 1, hostRev: all(3, false), benefit: all(3, true), sectors: ones(3)}, true
	case 3: // k*w < n
		return c06fCase{desc: "FINDING: 5 contracts, window of 2 blocks, two outputs", n: 5, w: 2, k: 2, hostRev: all(5, false), benefit: all(5, true), sectors: ones(5)}, true
	case 4: // the host broadcasts the revisions itself, one per block and output, then the proofs
		return c06fCase{desc: "one output, 3 contracts, revisions left to the host", n: 3, w: 3, k: 1, hostRev: all(3, true), benefit: []bool{true, false, true}, sectors: ones(3)}, true
	case 5: // a revision the pool refuses keeps its inputs reserved (update.go:353-355 has no ReleaseInputs)
		return c06fCase{desc: "FINDING: one output, 6 contracts, revisions left to the host: the sixth revision is due at the proof height", n: 6, w: 2, k: 1, hostRev: all(6, true), benefit: all(6, true), sectors: ones(6)}, true
	}
	return c06fCase{}, false
}

const c06fDirectedN = 6

func TestVerifC06Funding(t *testing.T) {
	em := newVerifEmitter(t, "From HostdBase Require Import Base.\nFrom HostdActions Require Import Rows Funding.", "fcase", "fcheck")
	defer em.Close()

	// VERIF_C06_FUND_UNCONFIRMED=1: the code under test has the TODO applied (useUnconfirmed = true)
	todo := os.Getenv("VERIF_C06_FUND_UNCONFIRMED") == "1"

	n := verifN(8) + c06fDirectedN
	for id := 0; id < n; id++ {
		if em.Skip(id) {
			continue
		}
		id := id
		t.Run(fmt.Sprintf("funding-%d", id), func(t *testing.T) {
			rng := verifCaseRand(id)
			cse, directed := c06fDirected(id)
			if !directed {
				cse.n = 1 + rng.Intn(6)
				cse.w = uint64(1 + rng.Intn(4))
				cse.k = 1 + rng.Intn(3)
				hostRevs := 0
				for i := 0; i < cse.n; i++ {
					// a revision left to the host must be confirmable before the window: at most 5 per output
					hr := rng.Intn(3) == 0 && hostRevs < 4*cse.k
					if hr {
						hostRevs++
					}
					cse.hostRev = append(cse.hostRev, hr)
					cse.benefit = append(cse.benefit, rng.Intn(5) != 0)
					cse.sectors = append(cse.sectors, 1+rng.Intn(2))
				}
				cse.desc = fmt.Sprintf("generated: %d contracts, window %d, %d output(s), host revisions %v, benefit %v", cse.n, cse.w, cse.k, cse.hostRev, cse.benefit)
			}
			em.BeginCase(id, cse.desc)
			em.Count(fmt.Sprintf("n=%d", cse.n))
			em.Count(fmt.Sprintf("w=%d", cse.w))
			em.Count(fmt.Sprintf("k=%d", cse.k))
			switch {
			case uint64(cse.k)*cse.w >= uint64(cse.n):
				em.Count("shape:k*w>=n")
			default:
				em.Count("shape:k*w<n")
			}

			seed := func(tag byte) []byte {
				b := make([]byte, 32)
				b[0], b[1], b[2], b[3] = tag, byte(id), byte(id>>8), byte(verifSeed())
				return b
			}
			hostKey, renterKey, payoutKey := types.NewPrivateKeyFromSeed(seed(1)), types.NewPrivateKeyFromSeed(seed(2)), types.NewPrivateKeyFromSeed(seed(3))
			// payouts go to another address: a payout matures MaturityDelay blocks after the resolution
			// (144 on mainnet, the length of an RHP4 proof window; 5 here) and would hand the wallet
			// fresh outputs in the middle of a 3-block experiment
			payoutAddr := types.StandardUnlockHash(payoutKey.PublicKey())
			network, genesis := testutil.V2Network()
			node := testutil.NewHostNode(t, hostKey, network, genesis, zap.NewNop())
			cm, com, w := node.Chain, node.Contracts, node.Wallet
			result := make(chan error, 1)
			if _, err := node.Volumes.AddVolume(context.Background(), filepath.Join(t.TempDir(), "data.dat"), 16, result); err != nil {
				t.Fatal(err)
			} else if err := <-result; err != nil {
				t.Fatal(err)
			}

			// k blocks pay the host: k outputs
			testutil.MineAndSync(t, node, w.Address(), cse.k)
			testutil.MineAndSync(t, node, types.VoidAddress, int(network.MaturityDelay)+1)
			// the first announcement happens as soon as the wallet can pay for it: let it confirm
			for i := 0; len(cm.V2PoolTransactions()) > 0; i++ {
				if i > 5 {
					t.Fatal("pool does not drain")
				}
				testutil.MineAndSync(t, node, types.VoidAddress, 1)
			}

			// ---- observation --------------------------------------------------------------------
			type contract struct {
				id      types.FileContractID
				num     int
				fc      types.V2FileContract
				roots   []types.Hash256
				hostRev bool
				benefit bool
				// monitors
				proofInPool     bool // its storage proof was in the pool at some tip
				starvedAllTips  bool // at every tip of the window at which it was active, the confirmed outputs were used up by others
				tipsInWindow    int
				reportedFailure bool
			}
			var cs []*contract
			byID := map[types.FileContractID]*contract{}
			byNum := map[int]*contract{}
			spentInPool := func() map[types.SiacoinOutputID]bool {
				m := map[types.SiacoinOutputID]bool{}
				for _, txn := range cm.V2PoolTransactions() {
					for _, in := range txn.SiacoinInputs {
						m[in.Parent.ID] = true
					}
				}
				return m
			}
			confirmedValues := func() []types.Currency {
				outs, err := w.SpendableOutputs() // unspent, mature, not reserved, not spent by a v1 pool transaction
				if err != nil {
					t.Fatal(err)
				}
				spent := spentInPool()
				var vals []types.Currency
				for _, o := range outs {
					if !spent[o.ID] {
						vals = append(vals, o.SiacoinOutput.Value)
					}
				}
				sort.Slice(vals, func(i, j int) bool { return vals[i].Cmp(vals[j]) > 0 })
				return vals
			}
			type poolEntry struct{ num, kind int }
			poolEntries := func() (l []poolEntry, ann *types.Currency) {
				for _, txn := range cm.V2PoolTransactions() {
					for _, rev := range txn.FileContractRevisions {
						if c := byID[rev.Parent.ID]; c != nil {
							l = append(l, poolEntry{c.num, 0})
						}
					}
					for _, res := range txn.FileContractResolutions {
						c := byID[res.Parent.ID]
						if c == nil {
							continue
						}
						switch res.Resolution.(type) {
						case *types.V2StorageProof:
							l = append(l, poolEntry{c.num, 1})
						case *types.V2FileContractExpiration:
							l = append(l, poolEntry{c.num, 2})
						default:
							t.Fatalf("unexpected resolution %T", res.Resolution)
						}
					}
					if len(txn.Attestations) > 0 {
						fee := txn.MinerFee
						ann = &fee
					}
				}
				sort.Slice(l, func(i, j int) bool {
					if l[i].num != l[j].num {
						return l[i].num < l[j].num
					}
					return l[i].kind < l[j].kind
				})
				return
			}
			status := func(c *contract) contracts.V2ContractStatus {
				x, err := com.V2Contract(c.id)
				if err != nil {
					t.Fatal(err)
				}
				return x.Status
			}
			observe := func() string {
				var vals, pool, sts []string
				for _, v := range confirmedValues() {
					vals = append(vals, v.ExactString()+"%N")
				}
				pe, _ := poolEntries()
				for _, e := range pe {
					pool = append(pool, fmt.Sprintf("(%d%%N, %d%%N)", e.num, e.kind))
				}
				for _, c := range cs {
					sts = append(sts, fmt.Sprintf("(%d%%N, %s)", c.num, c06fSt2[status(c)]))
				}
				return fmt.Sprintf("FOState %s %s %s", coqList(vals), coqList(pool), coqList(sts))
			}
			fees := func() string {
				r := cm.RecommendedFee()
				return fmt.Sprintf("{| fe_rev := %s%%N; fe_proof := %s%%N; fe_exp := %s%%N |}", r.Mul64(1000).ExactString(), r.Mul64(2000).ExactString(), r.Mul64(1000).ExactString())
			}
			var announced map[types.TransactionID]bool = map[types.TransactionID]bool{}
			var ph, eh, reservedSince uint64
			// one block with the pool's transactions, the index manager's pass at its tip, the monitors
			block := func() {
				// what the pass will find: confirmed outputs are those of the store after the block
				testutil.MineAndSync(t, node, types.VoidAddress, 1)
				tip := cm.Tip().Height
				annTerm := "None"
				for _, txn := range cm.V2PoolTransactions() {
					if len(txn.Attestations) > 0 && !announced[txn.ID()] {
						announced[txn.ID()] = true
						annTerm = fmt.Sprintf("(Some %s%%N)", txn.MinerFee.ExactString())
						em.Count("announcement-inside-the-run")
					}
				}
				em.Step(fmt.Sprintf("FBlock %s %s", fees(), annTerm), observe())

				// ---- monitors at this tip
				stored, err := node.Store.UnspentSiacoinElements()
				if err != nil {
					t.Fatal(err)
				}
				kBefore := 0 // confirmed, mature outputs the pass found
				var balance types.Currency
				spentNow := spentInPool()
				unspentNow := 0
				for _, o := range stored {
					if o.MaturityHeight <= tip {
						kBefore++
						balance = balance.Add(o.SiacoinOutput.Value)
						if !spentNow[o.ID] {
							unspentNow++
						}
					}
				}
				// outputs that are neither spent by a pool transaction nor spendable: reserved by a set the pool refused
				reserved := unspentNow - len(confirmedValues())
				if reserved > 0 {
					kBefore -= reserved
					if reservedSince == 0 {
						reservedSince = tip
						em.Count("inputs-reserved-by-refused-set")
						em.Monitor("v2-inputs-stay-reserved-after-pool-refusal", fmt.Sprintf("tip %d (proof height %d): %d confirmed output(s) of the wallet are reserved by a transaction set the pool refused and that was not released; %d output(s) left for %d contract(s) in their window", tip, ph, reserved, kBefore, len(cs)))
					}
				}
				pe, _ := poolEntries()
				inPool := map[poolEntry]bool{}
				hostTxns := 0 // transactions the pass funded: proofs, expirations, the host's own revisions
				for _, e := range pe {
					inPool[e] = true
					if e.kind != 0 || byNum[e.num].hostRev {
						hostTxns++
					}
				}
				selected := 0
				var missing []string
				for _, c := range cs {
					st := status(c)
					if st != contracts.V2ContractStatusActive {
						continue
					}
					switch {
					case ph <= tip && tip < eh:
						selected++
						c.tipsInWindow++
						if inPool[poolEntry{c.num, 1}] {
							c.proofInPool = true
						} else {
							missing = append(missing, fmt.Sprintf("proof of contract %d", c.num))
							if hostTxns < kBefore {
								c.starvedAllTips = false
							}
						}
					case eh <= tip:
						selected++
						if !inPool[poolEntry{c.num, 2}] {
							missing = append(missing, fmt.Sprintf("expiration of contract %d", c.num))
						}
					}
				}
				if len(missing) > 0 && hostTxns < kBefore && hostTxns < selected {
					em.Monitor("selected-v2-action-missing-from-pool", fmt.Sprintf("tip %d: %v not in the pool although the pass funded %d transaction(s) and found %d confirmed output(s)", tip, missing, hostTxns, kBefore))
				}
				fee := cm.RecommendedFee().Mul64(2000)
				for _, c := range cs {
					if c.reportedFailure || status(c) != contracts.V2ContractStatusFailed || !c.benefit {
						continue
					}
					c.reportedFailure = true
					em.Count("contract-failed")
					detail := fmt.Sprintf("tip %d: contract %d (%d sector(s) held, window [%d,%d), %d contracts share it) ended failed; its proof was never in the pool; wallet: %d confirmed output(s), balance %v, fee per proof %v", tip, c.num, len(c.roots), ph, eh, len(cs), kBefore, balance, fee)
					switch {
					case !c.proofInPool && c.starvedAllTips && c.tipsInWindow > 0 && balance.Cmp(fee.Mul64(uint64(2*len(cs)))) > 0 && cse.k == 1:
						em.Monitor("v2-resolutions-starved-by-single-confirmed-output", detail)
					case !c.proofInPool && c.starvedAllTips && c.tipsInWindow > 0 && balance.Cmp(fee.Mul64(uint64(2*len(cs)))) > 0:
						em.Monitor("v2-resolutions-starved-by-too-few-confirmed-outputs", detail)
					case !c.proofInPool && reservedSince != 0 && reservedSince <= eh:
						// attributed to v2-inputs-stay-reserved-after-pool-refusal, reported at that tip
						em.Count("contract-failed-after-reservation")
					default:
						em.Monitor("contract-with-held-data-failed", detail)
					}
				}
			}

			// ---- the run ------------------------------------------------------------------------
			initVals := confirmedValues()
			if len(initVals) != cse.k {
				t.Fatalf("wallet has %d spendable outputs, want %d", len(initVals), cse.k)
			}
			var ivs []string
			for _, v := range initVals {
				ivs = append(ivs, v.ExactString()+"%N")
			}
			em.Step(fmt.Sprintf("FInit {| g_threshold := 30; g_max_inputs := 30; g_max_defrag := 10 |} %v 5%%N %d%%N %s", todo, cm.Tip().Height, coqList(ivs)), observe())

			ph = cm.Tip().Height + uint64(cse.n) + 9
			eh = ph + cse.w
			for i := 0; i < cse.n; i++ {
				state := cm.TipState()
				hostFunds := types.Siacoins(20)
				fc := types.V2FileContract{
					ProofHeight: ph, ExpirationHeight: eh,
					RenterOutput:    types.SiacoinOutput{Value: types.Siacoins(10), Address: types.VoidAddress},
					HostOutput:      types.SiacoinOutput{Value: hostFunds, Address: payoutAddr},
					MissedHostValue: hostFunds, TotalCollateral: hostFunds,
					RenterPublicKey: renterKey.PublicKey(), HostPublicKey: hostKey.PublicKey(),
				}
				sigHash := state.ContractSigHash(fc)
				fc.HostSignature, fc.RenterSignature = hostKey.SignHash(sigHash), renterKey.SignHash(sigHash)
				txn := types.V2Transaction{FileContracts: []types.V2FileContract{fc}}
				amount := state.V2FileContractTax(fc).Add(hostFunds).Add(types.Siacoins(10))
				basis, toSign, err := w.FundV2Transaction(&txn, amount, false)
				if err != nil {
					t.Fatal(err)
				}
				w.SignV2Inputs(&txn, toSign)
				set := rhp4.TransactionSet{Transactions: []types.V2Transaction{txn}, Basis: basis}
				if _, err := cm.AddV2PoolTransactions(set.Basis, set.Transactions); err != nil {
					t.Fatal(err)
				} else if err := com.AddV2Contract(set, proto4.Usage{}); err != nil {
					t.Fatal(err)
				}
				em.Step(fmt.Sprintf("FSpend false %s%%N", amount.ExactString()), observe())
				neg := cm.Tip().Height
				c := &contract{id: txn.V2FileContractID(txn.ID(), 0), num: i, fc: fc, hostRev: cse.hostRev[i], benefit: cse.benefit[i], starvedAllTips: true}
				byID[c.id], byNum[c.num] = c, c
				block()
				cs = append(cs, c)
				if st := status(c); st != contracts.V2ContractStatusActive {
					t.Fatalf("contract %d is %v after its formation block", i, st)
				}
				em.Step(fmt.Sprintf("FForm %d%%N %d%%N %d%%N %d%%N %v", i, neg, ph, eh, c.benefit), observe())
			}

			// upload: revision 1 commits to the sectors and risks 5 SC of collateral
			for i, c := range cs {
				for s := 0; s < cse.sectors[i]; s++ {
					var sector [rhp2.SectorSize]byte
					rng.Read(sector[:256])
					root := rhp2.SectorRoot(&sector)
					if err := node.Volumes.Write(root, &sector); err != nil {
						t.Fatal(err)
					}
					c.roots = append(c.roots, root)
				}
				fc := c.fc
				fc.Filesize = proto4.SectorSize * uint64(len(c.roots))
				fc.Capacity, fc.FileMerkleRoot = fc.Filesize, proto4.MetaRoot(c.roots)
				fc.RevisionNumber = 1
				if c.benefit {
					fc.MissedHostValue = fc.HostOutput.Value.Sub(types.Siacoins(5))
				}
				sigHash := cm.TipState().ContractSigHash(fc)
				fc.HostSignature, fc.RenterSignature = hostKey.SignHash(sigHash), renterKey.SignHash(sigHash)
				usage := proto4.Usage{}
				if c.benefit {
					usage.RiskedCollateral = types.Siacoins(5)
				}
				if err := com.ReviseV2Contract(c.id, fc, c.roots, usage); err != nil {
					t.Fatal(err)
				}
				c.fc = fc
				em.Step(fmt.Sprintf("FRevise %d%%N 1%%N", c.num), "FONone")
				em.Count(fmt.Sprintf("revision-broadcast-by-host=%v", c.hostRev))
				if !c.hostRev {
					basis, fce, err := com.V2FileContractElement(c.id)
					if err != nil {
						t.Fatal(err)
					}
					rtxn := types.V2Transaction{FileContractRevisions: []types.V2FileContractRevision{{Parent: fce, Revision: fc}}}
					if _, err := cm.AddV2PoolTransactions(basis, []types.V2Transaction{rtxn}); err != nil {
						t.Fatal("renter's revision refused by the pool:", err)
					}
					em.Step(fmt.Sprintf("FRenterRev %d%%N 1%%N", c.num), observe())
				}
			}
			if err := node.Volumes.Sync(); err != nil {
				t.Fatal(err)
			}
			if cm.Tip().Height+6 >= ph {
				t.Fatalf("tip %d too close to the proof height %d", cm.Tip().Height, ph)
			}

			// through the window and until every expiration had its turn
			for cm.Tip().Height < eh+uint64(cse.n)+2 {
				block()
			}

			// the property's own claim
			nFailed, nSucc := 0, 0
			for _, c := range cs {
				switch status(c) {
				case contracts.V2ContractStatusSuccessful:
					nSucc++
				case contracts.V2ContractStatusFailed:
					nFailed++
				default:
					if reservedSince != 0 && reservedSince <= eh {
						em.Count("contract-unresolved-after-reservation") // see v2-inputs-stay-reserved-after-pool-refusal
						break
					}
					em.Monitor("contract-with-held-data-not-successful-after-window", fmt.Sprintf("contract %d is %v at tip %d (window [%d,%d))", c.num, status(c), cm.Tip().Height, ph, eh))
				}
				if len(com.SectorRoots(c.id)) != len(c.roots) && status(c) == contracts.V2ContractStatusActive {
					t.Fatalf("contract %d lost its roots", c.num)
				}
			}
			em.Count(fmt.Sprintf("outcome:failed=%d", nFailed))
			t.Logf("case %d (%s): window [%d,%d): %d successful, %d failed", id, cse.desc, ph, eh, nSucc, nFailed)
			em.EndCase(true)
		})
	}
}
