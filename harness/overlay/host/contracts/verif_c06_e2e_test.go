//go:build verif

package contracts_test

import (
	"context"
	"fmt"
	"path/filepath"
	"strings"
	"testing"
	"time"

	rhp2 "go.sia.tech/core/rhp/v2"
	"go.sia.tech/core/types"
	"go.sia.tech/coreutils"
	"go.sia.tech/hostd/v2/host/contracts"
	"go.sia.tech/hostd/v2/internal/testutil"
	"go.uber.org/zap"
)

// TestVerifC06E2E runs a real host node (chain manager, wallet, volume manager, contract
// manager, index manager with batch size 1) through the whole life of a v1 contract that
// holds data, with reorganisations inside the proof window that drop the block holding the
// storage proof, every block mined with the pool's transactions (the fairness hypothesis of
// c06_v1_ends_successful_partial made real).  It records, per block of the best chain, what the
// block contains about the contract and, after every mined block, the host's row, for the
// lifecycle model (Actions/Liveness.v through LivenessCorr.v), and it monitors the property's
// own claim: never failed, successful once the window has passed.
func TestVerifC06E2E(t *testing.T) {
	em := newVerifEmitter(t, "From HostdBase Require Import Base.\nFrom HostdActions Require Import Rows Liveness LivenessCorr.", "lcase", "lcheck")
	defer em.Close()

	n := verifN(2)
	for id := 0; id < n; id++ {
		if em.Skip(id) {
			continue
		}
		id := id
		t.Run(fmt.Sprintf("schedule-%d", id), func(t *testing.T) {
			rng := verifCaseRand(id)
			// monitors fire while the schedule runs: name the case first, record the steps at the end
			em.BeginCase(id, fmt.Sprintf("real host node, v1 contract with data, reorgs (revision block dropped: %v)", id%2 == 0))
			seed := func(tag byte) []byte {
				b := make([]byte, 32)
				b[0], b[1], b[2] = tag, byte(id), byte(id>>8)
				return b
			}
			hostKey, renterKey := types.NewPrivateKeyFromSeed(seed(1)), types.NewPrivateKeyFromSeed(seed(2))
			network, genesis := testutil.V1Network()
			node := testutil.NewHostNode(t, hostKey, network, genesis, zap.NewNop())
			fork := testutil.NewConsensusNode(t, network, genesis, zap.NewNop()) // builds competing branches

			result := make(chan error, 1)
			if _, err := node.Volumes.AddVolume(context.Background(), filepath.Join(t.TempDir(), "data.dat"), 10, result); err != nil {
				t.Fatal(err)
			} else if err := <-result; err != nil {
				t.Fatal(err)
			}

			// ---- recording: the best chain as the model sees it
			type blockInfo struct {
				id                     types.BlockID
				form, proof, missed    bool
				rev                    *uint64
			}
			var best []blockInfo // best[h-1] = block at height h
			var fcid types.FileContractID
			var ws, we, latestRev uint64
			haveContract := false
			var ops, obs []string
			formedOn := func() bool {
				for _, b := range best {
					if b.form {
						return true
					}
				}
				return false
			}
			resolvedOn := func() bool {
				for _, b := range best {
					if b.proof || b.missed {
						return true
					}
				}
				return false
			}
			observe := func() string {
				if !haveContract {
					return "LNone"
				}
				c, err := node.Contracts.Contract(fcid)
				if err != nil {
					t.Fatal(err)
				}
				if c.Status == contracts.ContractStatusFailed {
					em.Monitor("contract-with-held-data-failed", fmt.Sprintf("tip %v: status failed (window %d-%d)", node.Chain.Tip(), ws, we))
				}
				// the latest revision counts as confirmed iff the best chain holds it
				onChain := uint64(0) // the formation transaction carries revision 0
				for _, b := range best {
					if b.rev != nil {
						onChain = *b.rev
					}
				}
				if c.FormationConfirmed && c.RevisionConfirmed && onChain != latestRev {
					em.Monitor("revision-reported-confirmed-but-not-on-best-chain", fmt.Sprintf("tip %v: latest revision %d, best chain holds %d", node.Chain.Tip(), latestRev, onChain))
				}
				if c.FormationConfirmed && !c.RevisionConfirmed && onChain == latestRev {
					em.Monitor("revision-on-best-chain-reported-unconfirmed", fmt.Sprintf("tip %v: revision %d", node.Chain.Tip(), latestRev))
				}
				return fmt.Sprintf("LRow %s %v %v", c06St1[c.Status], c.FormationConfirmed, c.ResolutionHeight != 0)
			}
			// bring the recorded chain in line with the node's best chain; the host's row is
			// observed after the last step only (the index manager has caught up by then)
			record := func() {
				testutil.WaitForSync(t, node.Chain, node.Indexer)
				tip := node.Chain.Tip()
				// common ancestor
				for len(best) > 0 {
					h := uint64(len(best))
					ci, ok := node.Chain.BestIndex(h)
					if ok && h <= tip.Height && ci.ID == best[h-1].id {
						break
					}
					best = best[:len(best)-1]
					ops, obs = append(ops, "LRevert"), append(obs, "LNone")
					em.Count("step:revert")
				}
				for h := uint64(len(best)) + 1; h <= tip.Height; h++ {
					ci, ok := node.Chain.BestIndex(h)
					if !ok {
						t.Fatalf("no best index at %d", h)
					}
					b, ok := node.Chain.Block(ci.ID)
					if !ok {
						t.Fatalf("no block at %d", h)
					}
					info := blockInfo{id: ci.ID}
					if haveContract {
						for _, txn := range b.Transactions {
							for i := range txn.FileContracts {
								if txn.FileContractID(i) == fcid {
									info.form = true
								}
							}
							for _, r := range txn.FileContractRevisions {
								if r.ParentID == fcid {
									n := r.RevisionNumber
									info.rev = &n
								}
							}
							for _, sp := range txn.StorageProofs {
								if sp.ParentID == fcid {
									info.proof = true
								}
							}
						}
						// consensus expires an unresolved contract in the block at window_end
						if h == we && formedOn() && !resolvedOn() && !info.proof {
							info.missed = true
						}
					}
					best = append(best, info)
					rv := "None"
					if info.rev != nil {
						rv = fmt.Sprintf("(Some %d%%N)", *info.rev)
					}
					ops = append(ops, fmt.Sprintf("LMine {| b_form := %v; b_rev := %s; b_proof := %v; b_missed := %v |}", info.form, rv, info.proof, info.missed))
					obs = append(obs, "LNone")
					switch {
					case info.form:
						em.Count("block:formation")
					case info.proof:
						em.Count("block:proof")
					case info.missed:
						em.Count("block:missed")
					case info.rev != nil:
						em.Count("block:revision")
					default:
						em.Count("block:other")
					}
				}
				if len(obs) > 0 {
					obs[len(obs)-1] = observe()
				}
			}
			mine := func(k int) {
				for i := 0; i < k; i++ {
					testutil.MineAndSync(t, node, types.VoidAddress, 1)
					record()
				}
			}
			// replace the last [depth] blocks of the best chain by depth+1 empty blocks
			reorg := func(depth int) {
				tip := node.Chain.Tip().Height
				forkHeight := tip - uint64(depth)
				// give the fork node the common prefix it does not have yet
				for h := fork.Chain.Tip().Height + 1; h <= forkHeight; h++ {
					ci, _ := node.Chain.BestIndex(h)
					b, _ := node.Chain.Block(ci.ID)
					if err := fork.Chain.AddBlocks([]types.Block{b}); err != nil {
						t.Fatal(err)
					}
				}
				if fork.Chain.Tip().Height != forkHeight {
					t.Fatalf("fork node at %v, want height %d", fork.Chain.Tip(), forkHeight)
				}
				var blocks []types.Block
				for i := 0; i < depth+1; i++ {
					b, ok := coreutils.MineBlock(fork.Chain, types.VoidAddress, 5*time.Second)
					if !ok {
						t.Fatal("failed to mine fork block")
					} else if err := fork.Chain.AddBlocks([]types.Block{b}); err != nil {
						t.Fatal(err)
					}
					blocks = append(blocks, b)
				}
				if err := node.Chain.AddBlocks(blocks); err != nil {
					t.Fatal(err)
				}
				if node.Chain.Tip().Height != tip+1 {
					t.Fatalf("reorg did not happen: tip %v", node.Chain.Tip())
				}
				em.Count(fmt.Sprintf("reorg:depth-%d", depth))
				record()
			}

			// ---- the contract's life
			testutil.MineAndSync(t, node, node.Wallet.Address(), int(network.MaturityDelay+5))
			record()

			// even schedules reorganise the block confirming the host's final revision away (before
			// the proof window, inside the submission buffer); all schedules may reorganise the
			// proof away inside the window
			dropRevision := id%2 == 0
			duration := uint64(7 + rng.Intn(5))
			if dropRevision {
				duration = uint64(11 + rng.Intn(3))
			}
			settings, err := node.Settings.RHP2Settings()
			if err != nil {
				t.Fatal(err)
			}
			renterFunds, hostCollateral := types.Siacoins(500), types.Siacoins(1000)
			fc := rhp2.PrepareContractFormation(renterKey.PublicKey(), hostKey.PublicKey(), renterFunds, hostCollateral, node.Chain.Tip().Height+duration, settings, node.Wallet.Address())
			formationCost := rhp2.ContractFormationCost(node.Chain.TipState(), fc, settings.ContractPrice)
			uc := types.UnlockConditions{PublicKeys: []types.UnlockKey{renterKey.PublicKey().UnlockKey(), hostKey.PublicKey().UnlockKey()}, SignaturesRequired: 2}
			txn := types.Transaction{FileContracts: []types.FileContract{fc}}
			toSign, err := node.Wallet.FundTransaction(&txn, formationCost.Add(hostCollateral), true)
			if err != nil {
				t.Fatal(err)
			}
			node.Wallet.SignTransaction(&txn, toSign, types.CoveredFields{WholeTransaction: true})
			formationSet := append(node.Chain.UnconfirmedParents(txn), txn)
			if _, err := node.Chain.AddPoolTransactions(formationSet); err != nil {
				t.Fatal(err)
			}
			sign := func(rev *contracts.SignedRevision) {
				var h types.Hash256
				{
					hh := types.NewHasher()
					rev.Revision.EncodeTo(hh.E)
					h = hh.Sum()
				}
				rev.HostSignature, rev.RenterSignature = hostKey.SignHash(h), renterKey.SignHash(h)
			}
			rev := contracts.SignedRevision{Revision: types.FileContractRevision{ParentID: txn.FileContractID(0), UnlockConditions: uc, FileContract: txn.FileContracts[0]}}
			rev.Revision.RevisionNumber = 1
			sign(&rev)
			negHeight := node.Chain.Tip().Height
			if err := node.Contracts.AddContract(rev, formationSet, hostCollateral, contracts.Usage{RPCRevenue: settings.ContractPrice}); err != nil {
				t.Fatal(err)
			}
			fcid, ws, we, haveContract = rev.Revision.ParentID, rev.Revision.WindowStart, rev.Revision.WindowEnd, true
			latestRev = rev.Revision.RevisionNumber

			mine(1) // formation confirmed

			// the renter uploads data: the host now risks collateral and holds the sectors
			var roots []types.Hash256
			upload := func(sectors int) {
				var added []types.Hash256
				for i := 0; i < sectors; i++ {
					var sector [rhp2.SectorSize]byte
					rng.Read(sector[:256])
					root := rhp2.SectorRoot(&sector)
					if err := node.Volumes.Write(root, &sector); err != nil {
						t.Fatal(err)
					}
					added = append(added, root)
				}
				roots = append(roots, added...)
				amount, collateral := types.NewCurrency64(100), types.NewCurrency64(200)
				rev.Revision.RevisionNumber += uint64(1 + rng.Intn(3))
				rev.Revision.Filesize = rhp2.SectorSize * uint64(len(roots))
				rev.Revision.FileMerkleRoot = rhp2.MetaRoot(roots)
				rev.Revision.ValidProofOutputs[0].Value = rev.Revision.ValidProofOutputs[0].Value.Sub(amount)
				rev.Revision.ValidProofOutputs[1].Value = rev.Revision.ValidProofOutputs[1].Value.Add(amount)
				rev.Revision.MissedProofOutputs[0].Value = rev.Revision.MissedProofOutputs[0].Value.Sub(amount)
				rev.Revision.MissedProofOutputs[1].Value = rev.Revision.MissedProofOutputs[1].Value.Sub(collateral)
				rev.Revision.MissedProofOutputs[2].Value = rev.Revision.MissedProofOutputs[2].Value.Add(collateral.Add(amount))
				sign(&rev)
				updater, err := node.Contracts.ReviseContract(fcid)
				if err != nil {
					t.Fatal(err)
				}
				for _, root := range added {
					updater.AppendSector(root)
				}
				if err := updater.Commit(rev, contracts.Usage{StorageRevenue: amount, RiskedCollateral: collateral}); err != nil {
					t.Fatal(err)
				}
				updater.Close()
				latestRev = rev.Revision.RevisionNumber
			}
			upload(1 + rng.Intn(3))

			if dropRevision {
				// the renter puts this revision on chain right away (an earlier, non-empty revision)
				revTxn := types.Transaction{
					FileContractRevisions: []types.FileContractRevision{rev.Revision},
					Signatures: []types.TransactionSignature{
						{ParentID: types.Hash256(fcid), CoveredFields: types.CoveredFields{FileContractRevisions: []uint64{0}}, Signature: rev.RenterSignature[:]},
						{ParentID: types.Hash256(fcid), CoveredFields: types.CoveredFields{FileContractRevisions: []uint64{0}}, Signature: rev.HostSignature[:], PublicKeyIndex: 1},
					},
				}
				fee := node.Chain.RecommendedFee().Mul64(1000)
				revTxn.MinerFees = append(revTxn.MinerFees, fee)
				toSign, err := node.Wallet.FundTransaction(&revTxn, fee, true)
				if err != nil {
					t.Fatal(err)
				}
				node.Wallet.SignTransaction(&revTxn, toSign, types.CoveredFields{WholeTransaction: true})
				if _, err := node.Chain.AddPoolTransactions(append(node.Chain.UnconfirmedParents(revTxn), revTxn)); err != nil {
					t.Fatal(err)
				}
				mine(1)
				if n := len(best); best[n-1].rev == nil || *best[n-1].rev != latestRev {
					t.Fatalf("early revision %d was not mined", latestRev)
				}
				em.Count("early-revision-confirmed")
				// the final revision is made one block before the submission buffer opens; the host
				// broadcasts it at tip window_start-5 and it is mined at window_start-4
				mine(int(ws - 6 - node.Chain.Tip().Height))
				upload(1)
				mine(2)
				if n := len(best); best[n-1].rev == nil || *best[n-1].rev != latestRev {
					em.Count("final-revision-not-mined-at-start-minus-4")
				} else {
					// bury it under 1-2 blocks, then replace it and them by a longer empty branch:
					// the revision is no longer on the best chain and not in the top reverted block
					extra := 1 + rng.Intn(2)
					mine(extra)
					reorg(extra + 1)
					em.Count(fmt.Sprintf("revision-reorged-out:depth-%d", extra+1))
				}
			}

			// up to the block before the window: the final revision is broadcast and confirmed
			mine(int(ws - 1 - node.Chain.Tip().Height))
			// inside the window: blocks and reorganisations that keep block window_start-1
			reorgs := rng.Intn(3)
			if id == 0 {
				reorgs = 1
			}
			for r := 0; r < reorgs; r++ {
				ahead := 2 + rng.Intn(2)
				if node.Chain.Tip().Height+uint64(ahead)+2 >= we {
					break
				}
				mine(ahead) // the proof is mined in the second block after window_start-1
				// keep block window_start-1 (the proof's seed) and the block confirming the final
				// revision: a revision cannot be confirmed again once the window has opened, so a
				// reorganisation dropping it then is outside what any host can survive
				keep := ws - 1
				for h, b := range best {
					if b.rev != nil && *b.rev == latestRev && uint64(h+1) > keep {
						keep = uint64(h + 1)
					}
				}
				depth := 1 + rng.Intn(ahead)
				if node.Chain.Tip().Height-uint64(depth) < keep {
					depth = int(node.Chain.Tip().Height - keep)
				}
				if depth < 1 {
					continue
				}
				reorg(depth)
			}
			// past the window
			mine(int(we + 2 - node.Chain.Tip().Height))

			c, err := node.Contracts.Contract(fcid)
			if err != nil {
				t.Fatal(err)
			}
			if c.Status != contracts.ContractStatusSuccessful {
				em.Monitor("contract-with-held-data-not-successful", fmt.Sprintf("tip %v past window end %d: status %v", node.Chain.Tip(), we, c.Status))
			}
			em.Count("final:" + c.Status.String())

			benefit := rev.Revision.MissedHostPayout().Cmp(rev.Revision.ValidHostPayout()) < 0
			em.Step(fmt.Sprintf("LStart {| p_ws := %d; p_we := %d; p_neg := %d; p_rev0 := 1; p_rb := 10; p_benefit := %v; p_held := true |}", ws, we, negHeight, benefit), "LNone")
			for i := range ops {
				em.Step(ops[i], obs[i])
			}
			em.EndCase(strings.Contains(strings.Join(ops, " "), "b_proof := true"))
		})
	}
}
