//go:build verif

package contracts_test

import (
	"errors"
	"fmt"
	"math/rand"
	"os"
	"sort"
	"strings"
	"testing"
	"time"

	"go.sia.tech/core/consensus"
	proto4 "go.sia.tech/core/rhp/v4"
	"go.sia.tech/core/types"
	"go.sia.tech/coreutils"
	"go.sia.tech/coreutils/chain"
	rhp4 "go.sia.tech/coreutils/rhp/v4"
	"go.sia.tech/coreutils/wallet"
	"go.sia.tech/hostd/v2/host/contracts"
	"go.sia.tech/hostd/v2/host/storage"
	"go.sia.tech/hostd/v2/index"
	"go.sia.tech/hostd/v2/internal/testutil"
	"go.sia.tech/hostd/v2/persist/sqlite"
	"go.uber.org/zap"
	"go.uber.org/zap/zapcore"
	"go.uber.org/zap/zaptest/observer"
)

// ---- reference: element proofs derived from the best chain alone -------------------------------

// c17Ref is what a chain of blocks ending in one particular block determines: the chain index
// elements of its last blocks and the elements of the tracked contracts, with proofs valid for
// the state after that block.  It is computed from the parent's c17Ref and the block's apply
// update only (never from revert updates, never from what the host did).
type c17RefContract struct {
	elem     types.V2FileContractElement
	formedAt types.ChainIndex
	resolved bool
	// the block that resolved the contract also revised it (one diff with Revision and Resolution);
	// preRev is the revision number the chain held before that block
	sameBlock bool
	preRev    uint64
	renewed   bool
}

type c17Ref struct {
	index     types.ChainIndex
	cies      []types.ChainIndexElement // ascending height, at most 160
	contracts map[types.FileContractID]c17RefContract
}

func c17CopySE(se types.StateElement) types.StateElement {
	return types.StateElement{LeafIndex: se.LeafIndex, MerkleProof: append([]types.Hash256(nil), se.MerkleProof...)}
}

func (r *c17Ref) extend(cau chain.ApplyUpdate) *c17Ref {
	n := &c17Ref{index: cau.State.Index, contracts: map[types.FileContractID]c17RefContract{}}
	if r != nil {
		for _, cie := range r.cies {
			c := types.ChainIndexElement{ID: cie.ID, ChainIndex: cie.ChainIndex, StateElement: c17CopySE(cie.StateElement)}
			cau.UpdateElementProof(&c.StateElement)
			n.cies = append(n.cies, c)
		}
		for id, rc := range r.contracts {
			c := rc
			c.elem = types.V2FileContractElement{ID: rc.elem.ID, StateElement: c17CopySE(rc.elem.StateElement), V2FileContract: rc.elem.V2FileContract}
			cau.UpdateElementProof(&c.elem.StateElement)
			n.contracts[id] = c
		}
	}
	cie := cau.ChainIndexElement()
	n.cies = append(n.cies, types.ChainIndexElement{ID: cie.ID, ChainIndex: cie.ChainIndex, StateElement: c17CopySE(cie.StateElement)})
	if len(n.cies) > 160 {
		n.cies = n.cies[len(n.cies)-160:]
	}
	for _, diff := range cau.V2FileContractElementDiffs() {
		id := types.FileContractID(diff.V2FileContractElement.ID)
		switch {
		case diff.Created:
			e := diff.V2FileContractElement
			n.contracts[id] = c17RefContract{
				elem:     types.V2FileContractElement{ID: e.ID, StateElement: c17CopySE(e.StateElement), V2FileContract: e.V2FileContract},
				formedAt: cau.State.Index,
			}
			if diff.Revision != nil {
				c := n.contracts[id]
				c.elem.V2FileContract = *diff.Revision
				n.contracts[id] = c
			}
		default:
			c, ok := n.contracts[id]
			if !ok {
				continue
			}
			if diff.Resolution != nil {
				c.resolved = true
				c.sameBlock = diff.Revision != nil
				c.preRev = c.elem.V2FileContract.RevisionNumber
				_, c.renewed = diff.Resolution.(*types.V2FileContractRenewal)
			}
			if diff.Revision != nil {
				c.elem.V2FileContract = *diff.Revision
			}
			n.contracts[id] = c
		}
	}
	return n
}

func c17SameProof(a, b types.StateElement) bool {
	if a.LeafIndex != b.LeafIndex || len(a.MerkleProof) != len(b.MerkleProof) {
		return false
	}
	for i := range a.MerkleProof {
		if a.MerkleProof[i] != b.MerkleProof[i] {
			return false
		}
	}
	return true
}

// ---- node ------------------------------------------------------------------------------------------

type c17Contract struct {
	id  types.FileContractID
	num int
	fc  types.V2FileContract // latest revision the harness signed

	renewedTo   *c17Contract // a renewal was negotiated with the host (RenewV2Contract), confirmed or not
	renewedFrom *c17Contract
}

// c17Renewal is a renewal that was negotiated with the host but whose transaction the renter
// holds back: broadcast after `after` more processed batches, or never (after < 0).
type c17Renewal struct {
	old, new *c17Contract
	renewal  types.V2FileContractRenewal
	after    int
	done     bool
}

type c17Node struct {
	t   *testing.T
	em  *verifEmitter
	rng *rand.Rand

	network *consensus.Network
	genesis types.Block
	cn      *testutil.ConsensusNode
	db      *sqlite.Store
	cm      *chain.Manager
	w       *wallet.SingleAddressWallet
	cman    *contracts.Manager
	logs    *observer.ObservedLogs

	hostKey, renterKey types.PrivateKey

	tip       types.ChainIndex // processed tip
	batchSize int

	blockNo        map[types.BlockID]int
	heights        map[types.BlockID]uint64
	refs           map[types.BlockID]*c17Ref
	known          []*c17Contract
	byID           map[types.FileContractID]*c17Contract
	held           []*c17Renewal
	dead           bool
	lastRevertOnly bool
	sinceScan      uint64 // lowest height processed since the last reset (0 = from genesis)
	everReset      bool   // ResetChainState was called in this case (findings of the rescan family get their own sigs)
	hmax           uint64 // highest height processed since the last reset

	nBatches, nReorgBatches, nRevised, nFormed, maxDepth int
	nRenewed, nStaleRenewalBatches                       int
	nSameBlock, nRejectedConfirmed, nMidResets           int
	wasRejected                                          map[types.FileContractID]bool
	sameSeen                                             map[types.FileContractID]uint64 // contract -> revision before the block that revised and resolved it
	stopAt                                               uint64                          // sync stops once the processed tip has reached this height (0 = no limit)
	rescanning                                           bool                            // between ResetChainState and the end of the rescan the rows carry statuses of blocks not processed again yet
}

func c17NewNode(t *testing.T, em *verifEmitter, rng *rand.Rand, batchSize int) *c17Node {
	network, genesis := testutil.V2Network()
	core, logs := observer.New(zapcore.WarnLevel)
	log := zap.New(core)
	cn := testutil.NewConsensusNode(t, network, genesis, zap.NewNop())
	hostKey := types.NewPrivateKeyFromSeed(frandSeed(rng))
	renterKey := types.NewPrivateKeyFromSeed(frandSeed(rng))
	wm, err := wallet.NewSingleAddressWallet(hostKey, cn.Chain, cn.Store)
	if err != nil {
		t.Fatal(err)
	}
	t.Cleanup(func() { wm.Close() })
	vm, err := storage.NewVolumeManager(cn.Store)
	if err != nil {
		t.Fatal(err)
	}
	t.Cleanup(func() { vm.Close() })
	cman, err := contracts.NewManager(cn.Store, vm, cn.Chain, cn.Syncer, wm, contracts.WithRejectAfter(10), contracts.WithRevisionSubmissionBuffer(5), contracts.WithLog(log))
	if err != nil {
		t.Fatal(err)
	}
	t.Cleanup(func() { cman.Close() })
	n := &c17Node{t: t, em: em, rng: rng, network: network, genesis: genesis, cn: cn, db: cn.Store, cm: cn.Chain, w: wm, cman: cman, logs: logs,
		hostKey: hostKey, renterKey: renterKey, batchSize: batchSize,
		blockNo: map[types.BlockID]int{}, heights: map[types.BlockID]uint64{}, refs: map[types.BlockID]*c17Ref{}, byID: map[types.FileContractID]*c17Contract{},
		wasRejected: map[types.FileContractID]bool{}, sameSeen: map[types.FileContractID]uint64{}}
	n.blockNo[types.BlockID{}] = 0
	return n
}

func frandSeed(rng *rand.Rand) []byte {
	b := make([]byte, 32)
	rng.Read(b)
	return b
}

func (n *c17Node) blockNum(id types.BlockID) int {
	if v, ok := n.blockNo[id]; ok {
		return v
	}
	v := len(n.blockNo)
	n.blockNo[id] = v
	return v
}

func (n *c17Node) coqIdx(i types.ChainIndex) string {
	return fmt.Sprintf("{| ih := %d; ib := %d |}", i.Height, n.blockNum(i.ID))
}

func (n *c17Node) coqOptIdx(i types.ChainIndex) string {
	if i == (types.ChainIndex{}) {
		return "None"
	}
	return "(Some " + n.coqIdx(i) + ")"
}

// events of one consensus update as buildContractState classifies them
func (n *c17Node) coqEvents(diffs []consensus.V2FileContractElementDiff, dir string) string {
	var evs []string
	for _, d := range diffs {
		c, ok := n.byID[types.FileContractID(d.V2FileContractElement.ID)]
		if !ok {
			continue // not a contract of this host
		}
		fc := d.V2FileContractElement.V2FileContract
		switch {
		case d.Created:
			evs = append(evs, fmt.Sprintf("EFormed %d %d", c.num, fc.RevisionNumber))
			n.em.Count("event:" + dir + " formation")
		default:
			// buildContractState: `case rev != nil: ...; fallthrough; case res != nil:` — a diff with
			// Revision and Resolution is recorded as revised AND resolved
			if d.Revision != nil {
				if d.Resolution != nil {
					n.em.Count("event:" + dir + " revised-and-resolved-in-one-block")
					n.nSameBlock++
				}
				evs = append(evs, fmt.Sprintf("ERevised %d %d %d", c.num, fc.RevisionNumber, d.Revision.RevisionNumber))
				n.em.Count("event:" + dir + " revision")
			}
			if d.Resolution != nil {
				k := "KSuccessful"
				switch d.Resolution.(type) {
				case *types.V2FileContractRenewal:
					k = "KRenewed"
				case *types.V2FileContractExpiration:
					if fc.MissedHostValue.Cmp(fc.HostOutput.Value) < 0 {
						k = "KFailed"
					}
				}
				evs = append(evs, fmt.Sprintf("EResolved %d %s", c.num, k))
				n.em.Count("event:" + dir + " resolution " + k)
			}
		}
	}
	return coqList(evs)
}

func (n *c17Node) recordBlocks(bs []types.Block, parentHeight uint64) {
	for i, b := range bs {
		n.blockNum(b.ID())
		n.heights[b.ID()] = parentHeight + uint64(i) + 1
	}
}

// computeRefs extends the reference along the current best chain up to the chain manager's tip.
func (n *c17Node) computeRefs() {
	tip := n.cm.Tip()
	if _, ok := n.refs[tip.ID]; ok {
		return
	}
	// walk back to the last best-chain block that has a reference
	h := tip.Height
	var from types.ChainIndex
	var base *c17Ref
	for {
		idx, ok := n.cm.BestIndex(h)
		if !ok {
			n.t.Fatalf("missing best index %d", h)
		}
		if r, ok := n.refs[idx.ID]; ok {
			from, base = idx, r
			break
		}
		if h == 0 {
			break
		}
		h--
	}
	for from != tip {
		_, applied, err := n.cm.UpdatesSince(from, 200)
		if err != nil {
			n.t.Fatal(err)
		}
		for _, cau := range applied {
			base = base.extend(cau)
			n.refs[cau.State.Index.ID] = base
			n.blockNum(cau.State.Index.ID)
			n.heights[cau.State.Index.ID] = cau.State.Index.Height
			from = cau.State.Index
		}
	}
}

// runBatch is the body of index.Manager.syncDB's transaction (wallet, contracts, marker).
func (n *c17Node) runBatch(reverted []chain.RevertUpdate, applied []chain.ApplyUpdate) (cls string, next types.ChainIndex, failure string) {
	defer func() {
		if r := recover(); r != nil {
			cls, failure = "CPanic", fmt.Sprint(r)
		}
	}()
	err := n.db.UpdateChainState(func(tx index.UpdateTx) error {
		if err := n.w.UpdateChainState(tx, reverted, applied); err != nil {
			return fmt.Errorf("wallet: %w", err)
		} else if err := n.cman.UpdateChainState(tx, reverted, applied); err != nil {
			return fmt.Errorf("contracts: %w", err)
		}
		if len(applied) > 0 {
			next = applied[len(applied)-1].State.Index
		} else {
			next = reverted[len(reverted)-1].State.Index
		}
		return tx.SetLastIndex(next)
	})
	if err != nil {
		return "CErr", next, err.Error()
	}
	return "COk", next, ""
}

// sync processes the chain manager's updates in batches, like index.Manager.syncDB.
func (n *c17Node) sync() {
	n.computeRefs()
	for n.tip != n.cm.Tip() && !n.dead && (n.stopAt == 0 || n.tip.Height < n.stopAt) {
		reverted, applied, err := n.cm.UpdatesSince(n.tip, n.batchSize)
		if err != nil {
			n.t.Fatal(err)
		} else if len(reverted)+len(applied) == 0 {
			return
		}
		var rs, as []string
		for _, cru := range reverted {
			idx := types.ChainIndex{Height: cru.State.Index.Height + 1, ID: cru.Block.ID()}
			rs = append(rs, fmt.Sprintf("{| b_idx := %s; b_parent := %s; b_events := %s |}", n.coqIdx(idx), n.coqIdx(cru.State.Index), n.coqEvents(cru.V2FileContractElementDiffs(), "revert")))
		}
		for _, cau := range applied {
			parent := types.ChainIndex{Height: cau.State.Index.Height - 1, ID: cau.Block.ParentID}
			if cau.State.Index.Height == 0 {
				parent = types.ChainIndex{}
			}
			as = append(as, fmt.Sprintf("{| b_idx := %s; b_parent := %s; b_events := %s |}", n.coqIdx(cau.State.Index), n.coqIdx(parent), n.coqEvents(cau.V2FileContractElementDiffs(), "apply")))
			if n.sinceScan > cau.State.Index.Height {
				n.sinceScan = cau.State.Index.Height
			}
			if cau.State.Index.Height > n.hmax {
				n.hmax = cau.State.Index.Height
			}
		}
		cls, next, failure := n.runBatch(reverted, applied)
		n.lastRevertOnly = len(applied) == 0
		n.em.Step(fmt.Sprintf("Batch %s %s", coqList(rs), coqList(as)), "ODone "+cls)
		n.em.Count(fmt.Sprintf("batch:%s", cls))
		n.em.Count(fmt.Sprintf("batch:reverts=%s,applies=%s", c17Bin(len(reverted)), c17Bin(len(applied))))
		n.nBatches++
		if len(reverted) > 0 {
			n.nReorgBatches++
		}
		if cls != "COk" {
			n.dead = true
			if cls == "CPanic" && n.rescanning && len(reverted) > 0 {
				// a reorg reached below the position of a rescan in progress: the rows still carry the
				// statuses of blocks that have not been processed again (known finding)
				n.em.Monitor("reorg-below-rescan-position-panics", failure)
			} else if cls == "CPanic" {
				n.em.Monitor("contract-chain-update-panics", failure)
			} else {
				n.em.Monitor("contract-chain-update-fails", failure)
			}
			n.observe()
			return
		}
		n.tip = next
		if n.tip == n.cm.Tip() {
			n.rescanning = false
		}
		n.countRenewalStates()
		n.observe()
		// lifecycle actions, as syncDB triggers them after every batch
		func() {
			defer func() {
				if r := recover(); r != nil {
					n.em.Monitor("contract-actions-panic", fmt.Sprint(r))
				}
			}()
			if err := n.cman.ProcessActions(n.tip); err != nil {
				n.em.Monitor("contract-actions-fail", err.Error())
			}
		}()
		n.checkHostLogs()
	}
}

// checkHostLogs: a transaction the host built from its stored elements must not be refused
// by the pool because of its Merkle proofs.
func (n *c17Node) checkHostLogs() {
	for _, e := range n.logs.TakeAll() {
		if os.Getenv("VERIF_C17_DEBUG") != "" {
			f, _ := os.OpenFile(os.Getenv("VERIF_OUT")+"/debug.txt", os.O_APPEND|os.O_CREATE|os.O_WRONLY, 0o644)
			fmt.Fprintf(f, "LOG tip %v [%s] %s %v\n", n.tip, e.LoggerName, e.Message, e.ContextMap())
			f.Close()
		}
		msg := e.Message
		for _, f := range e.Context {
			if f.Key == "error" {
				if f.Interface != nil {
					msg += ": " + fmt.Sprint(f.Interface)
				} else {
					msg += ": " + f.String
				}
			}
		}
		if (strings.Contains(msg, "invalid history proof") || strings.Contains(msg, "not present in the accumulator")) && os.Getenv("VERIF_C17_DEBUG") != "" {
			n.debugProof()
			n.debugContracts(msg)
		}
		if strings.Contains(msg, "not present in the accumulator") || strings.Contains(msg, "invalid history proof") {
			// Not a verdict on the stored proofs: coreutils' pool (a) stops moving a transaction's
			// proofs from the host's basis to its tip at the first ephemeral input, which every
			// [setup, resolution] set of the host has, and (b) remembers a refused set by its
			// transaction ids, which do not cover proofs.  The stored elements are judged directly
			// in checkActions instead.
			if n.tip == n.cm.Tip() {
				n.em.Count("hostlog:proof-refusal-at-chain-tip(pool remembers refused set)")
			} else {
				n.em.Count("hostlog:proof-refusal-while-behind-chain-tip(pool-side proof update)")
			}
		} else if strings.Contains(msg, "failed to get proof index element") {
			// judged precisely (with the proof height at hand) in checkActions
			n.em.Count("hostlog:proof-index-element-missing")
		} else if strings.Contains(msg, "to pool") {
			n.em.Count("hostlog:pool-refusal-not-proof-related")
		}
	}
}

// observe compares what the host stores with the reference of the processed tip.
func (n *c17Node) observe() {
	em := n.em
	storeTip, err := n.db.Tip()
	if err != nil {
		n.t.Fatal(err)
	}
	if storeTip != n.tip {
		em.Monitor("tip-marker-differs-from-processed-tip", fmt.Sprintf("marker %v, processed %v", storeTip, n.tip))
	}
	ref := n.refs[n.tip.ID]
	best, _ := n.cm.BestIndex(n.tip.Height)
	if ref == nil || best != n.tip || ref.index != n.tip {
		// the processed tip is a block of an abandoned branch (middle of a reorg): its state is
		// not derivable from the best chain; nothing is compared
		em.Step("Observe", "OSkip")
		em.Count("observe:skipped-off-best-chain")
		return
	}
	cs, ok := n.cm.State(n.tip.ID)
	if !ok {
		n.t.Fatal("missing state")
	}

	// contract elements
	var ces []string
	for _, c := range n.known {
		basis, elem, err := n.cman.V2FileContractElement(c.id)
		rc, onChain := ref.contracts[c.id]
		if errors.Is(err, contracts.ErrNotFound) {
			if onChain {
				em.Monitor("contract-element-missing-for-confirmed-contract", fmt.Sprintf("contract %d formed at %v", c.num, rc.formedAt))
			}
			continue
		} else if err != nil {
			n.t.Fatal(err)
		}
		if !onChain {
			em.Monitor("contract-element-kept-after-formation-reverted", fmt.Sprintf("contract %d, tip %v", c.num, n.tip))
		}
		if basis != n.tip {
			em.Monitor("contract-element-basis-differs-from-processed-tip", fmt.Sprintf("basis %v tip %v", basis, n.tip))
		}
		valid := onChain && c17SameProof(elem.StateElement, rc.elem.StateElement)
		if onChain && !valid {
			em.Monitor("contract-element-proof-invalid-at-processed-tip", fmt.Sprintf("contract %d leaf %d (reference leaf %d) tip %v", c.num, elem.StateElement.LeafIndex, rc.elem.StateElement.LeafIndex, n.tip))
		}
		if onChain && elem.V2FileContract.RevisionNumber != rc.elem.V2FileContract.RevisionNumber {
			em.Monitor("contract-element-revision-differs-from-best-chain", fmt.Sprintf("contract %d stored %d chain %d", c.num, elem.V2FileContract.RevisionNumber, rc.elem.V2FileContract.RevisionNumber))
		}
		// consensus itself must accept a revision built from the stored element
		if onChain && !rc.resolved && cs.Index.Height+1 < elem.V2FileContract.ProofHeight {
			rev := elem.V2FileContract
			rev.RevisionNumber++
			sh := cs.ContractSigHash(rev)
			rev.HostSignature, rev.RenterSignature = n.hostKey.SignHash(sh), n.renterKey.SignHash(sh)
			txn := types.V2Transaction{FileContractRevisions: []types.V2FileContractRevision{{
				Parent:   types.V2FileContractElement{ID: elem.ID, StateElement: c17CopySE(elem.StateElement), V2FileContract: elem.V2FileContract},
				Revision: rev,
			}}}
			if err := consensus.ValidateV2Transaction(consensus.NewMidState(cs), txn); err != nil {
				em.Monitor("revision-built-from-stored-element-rejected-by-consensus", fmt.Sprintf("contract %d at %v: %v", c.num, n.tip, err))
			} else {
				em.Count("check:revision-from-stored-element-accepted")
			}
		}
		ces = append(ces, fmt.Sprintf("(%d%%N, %s, %d%%N)", c.num, coqBool(valid), elem.V2FileContract.RevisionNumber))
	}

	// chain index elements: every block the harness has ever seen is probed
	type row struct {
		idx   types.ChainIndex
		valid bool
	}
	var rows []row
	refCIE := map[types.BlockID]types.ChainIndexElement{}
	for _, cie := range ref.cies {
		refCIE[cie.ChainIndex.ID] = cie
	}
	for id, h := range n.heights {
		idx := types.ChainIndex{Height: h, ID: id}
		cie, err := n.db.ContractChainIndexElement(idx)
		if err != nil {
			continue // not stored
		}
		bi, ok := n.cm.BestIndex(h)
		onBest := ok && bi == idx && h <= n.tip.Height
		if !onBest {
			em.Monitor("chain-index-element-of-disconnected-block-kept", fmt.Sprintf("element %v, tip %v", idx, n.tip))
		}
		if h+144 <= n.tip.Height {
			em.Monitor("chain-index-element-outside-144-block-window-kept", fmt.Sprintf("element %v, tip %v", idx, n.tip))
		}
		rcie, haveRef := refCIE[id]
		valid := onBest && haveRef && c17SameProof(cie.StateElement, rcie.StateElement)
		if onBest && haveRef && !valid {
			em.Monitor("chain-index-element-proof-invalid-at-processed-tip", fmt.Sprintf("element %v leaf %d (reference %d), tip %v", idx, cie.StateElement.LeafIndex, rcie.StateElement.LeafIndex, n.tip))
		}
		rows = append(rows, row{idx, valid})
	}
	sort.Slice(rows, func(i, j int) bool { return rows[i].idx.Height < rows[j].idx.Height })
	var ies []string
	for _, r := range rows {
		ies = append(ies, fmt.Sprintf("(%s, %s)", n.coqIdx(r.idx), coqBool(r.valid)))
	}
	em.Count(fmt.Sprintf("observe:index-elements=%s", c17Bin(len(rows))))
	// the element of the proof height of every contract in its proof window must be there
	for _, c := range n.known {
		rc, onChain := ref.contracts[c.id]
		if !onChain || rc.resolved {
			continue
		}
		ph := rc.elem.V2FileContract.ProofHeight
		if ph <= n.tip.Height && n.tip.Height < rc.elem.V2FileContract.ExpirationHeight && ph+144 > n.hmax && ph >= n.sinceScan {
			pi, _ := n.cm.BestIndex(ph)
			found := false
			for _, r := range rows {
				if r.idx == pi {
					found = true
				}
			}
			if !found {
				em.Monitor("proof-height-index-element-missing-in-proof-window", fmt.Sprintf("contract %d proof height %d tip %v", c.num, ph, n.tip))
			}
		}
	}
	n.checkActions(cs)
	n.checkRows(ref)
	em.Step("Observe", fmt.Sprintf("OState %s %s %s %s %s", coqList(ces), coqList(ies), n.coqOptIdx(storeTip), n.coqRenewed(), n.coqStatuses()))
}

func c17CoqStatus(st contracts.V2ContractStatus) string {
	switch st {
	case contracts.V2ContractStatusPending:
		return "SUnconfirmed"
	case contracts.V2ContractStatusRejected:
		return "SRejected"
	case contracts.V2ContractStatusActive:
		return "SActive"
	case contracts.V2ContractStatusSuccessful:
		return "SSuccessful"
	case contracts.V2ContractStatusRenewed:
		return "SRenewed"
	case contracts.V2ContractStatusFailed:
		return "SFailed"
	}
	return "SUnknown_" + string(st)
}

// coqStatuses is the contract_status column of the host's contract rows, by contract number.
func (n *c17Node) coqStatuses() string {
	var st []string
	for _, c := range n.known {
		hc, err := n.cman.V2Contract(c.id)
		if err != nil {
			n.t.Fatal(err)
		}
		st = append(st, fmt.Sprintf("(%d%%N, %s)", c.num, c17CoqStatus(hc.Status)))
	}
	return coqList(st)
}

// checkRows: monitors on the contract rows and the elements kept for them that do not go through
// the model (reference = what the best chain up to the processed tip says).
//   - a contract whose formation is on the processed chain must not be pending or rejected, whatever
//     happened to its row before (rejected, then confirmed late);
//   - a block that revised AND resolved a contract (one diff with Revision and Resolution): the row
//     has the resolution and the stored element carries the REVISED contract; once that block is
//     disconnected the row is active again and the stored element carries the contract as it was
//     BEFORE the block.  (Not judged in the middle of a rescan: the rows then carry the statuses of
//     blocks that have not been processed again yet.)
func (n *c17Node) checkRows(ref *c17Ref) {
	for _, c := range n.known {
		hc, err := n.cman.V2Contract(c.id)
		if err != nil {
			n.t.Fatal(err)
		}
		rc, onChain := ref.contracts[c.id]
		if hc.Status == contracts.V2ContractStatusRejected {
			n.wasRejected[c.id] = true
			n.em.Count("rows:rejected row seen")
		}
		if onChain && (hc.Status == contracts.V2ContractStatusPending || hc.Status == contracts.V2ContractStatusRejected) {
			n.em.Monitor("contract-row-unconfirmed-although-formation-on-processed-chain", fmt.Sprintf("contract %d status %s formed at %v tip %v", c.num, hc.Status, rc.formedAt, n.tip))
		}
		if onChain && n.wasRejected[c.id] {
			n.nRejectedConfirmed++
			n.em.Count("rows:rejected-then-confirmed contract on the processed chain")
		}
		if !onChain || n.rescanning {
			continue
		}
		_, elem, eerr := n.cman.V2FileContractElement(c.id)
		pre, seen := n.sameSeen[c.id]
		switch {
		case rc.resolved && rc.sameBlock:
			n.sameSeen[c.id] = rc.preRev
			n.em.Count("same-block:revision and resolution of one contract on the processed chain")
			if rc.renewed && hc.Status != contracts.V2ContractStatusRenewed {
				n.em.Monitor("same-block-revised-and-renewed-row-not-renewed", fmt.Sprintf("contract %d status %s tip %v", c.num, hc.Status, n.tip))
			}
			if eerr != nil || elem.V2FileContract.RevisionNumber != rc.elem.V2FileContract.RevisionNumber {
				n.em.Monitor("same-block-revised-and-resolved-element-not-the-revised-contract", fmt.Sprintf("contract %d stored revision %d want %d (%v) tip %v", c.num, elem.V2FileContract.RevisionNumber, rc.elem.V2FileContract.RevisionNumber, eerr, n.tip))
			}
		case seen && !rc.resolved && rc.elem.V2FileContract.RevisionNumber == pre:
			n.em.Count("same-block:block with revision and resolution disconnected, contract unresolved at the earlier revision")
			if hc.Status != contracts.V2ContractStatusActive {
				n.em.Monitor("same-block-revert-row-not-active-again", fmt.Sprintf("contract %d status %s tip %v", c.num, hc.Status, n.tip))
			}
			if eerr != nil || elem.V2FileContract.RevisionNumber != pre {
				n.em.Monitor("same-block-revert-element-not-the-pre-revision-contract", fmt.Sprintf("contract %d stored revision %d want %d (%v) tip %v", c.num, elem.V2FileContract.RevisionNumber, pre, eerr, n.tip))
			}
		}
	}
}

// coqRenewed is the renewed_to column of the host's contract rows, by contract number.
func (n *c17Node) coqRenewed() string {
	var rn []string
	for _, c := range n.known {
		hc, err := n.cman.V2Contract(c.id)
		if err != nil {
			n.t.Fatal(err)
		}
		if hc.RenewedTo == (types.FileContractID{}) {
			continue
		}
		num := 0
		if r, ok := n.byID[hc.RenewedTo]; ok {
			num = r.num
		}
		rn = append(rn, fmt.Sprintf("(%d%%N, %d%%N)", c.num, num))
	}
	return coqList(rn)
}

// countRenewalStates: how often a batch was processed while the host stores the element of a
// contract that has a renewal negotiated (renewed_to set) but is unresolved on the processed chain.
func (n *c17Node) countRenewalStates() {
	ref := n.refs[n.tip.ID]
	if ref == nil {
		return
	}
	for _, c := range n.known {
		rc, ok := ref.contracts[c.id]
		if !ok {
			continue
		}
		hc, err := n.cman.V2Contract(c.id)
		if err != nil {
			continue
		}
		switch {
		case c.renewedTo != nil && !rc.resolved:
			n.nStaleRenewalBatches++
			n.em.Count("batch:with element of unresolved contract whose renewal is negotiated (renewed_to set)")
		case c.renewedTo != nil && rc.resolved:
			n.em.Count("batch:with element of contract resolved by its renewal")
		}
		if hc.Status == contracts.V2ContractStatusRejected {
			n.em.Count("batch:with element of a rejected contract row")
		}
	}
}

// checkActions: every revision, storage proof and expiration the host would broadcast now,
// built from the elements it stores, must be acceptable to consensus at the processed tip.
func (n *c17Node) checkActions(cs consensus.State) {
	acts, err := n.db.ContractActions(n.tip, n.tip.Height+5)
	if err != nil {
		n.t.Fatal(err)
	}
	judge := func(kind string, id types.FileContractID, txn types.V2Transaction) {
		err := consensus.ValidateV2Transaction(consensus.NewMidState(cs), txn)
		switch {
		case err == nil:
			n.em.Count("check:host " + kind + " accepted by consensus")
		case strings.Contains(err.Error(), "not present in the accumulator") || strings.Contains(err.Error(), "invalid history proof"):
			n.em.Monitor("host-"+kind+"-built-from-stored-elements-rejected-for-its-proof", fmt.Sprintf("contract %v at %v: %v", id, n.tip, err))
		default:
			n.em.Count("check:host " + kind + " rejected for another reason")
		}
	}
	for _, rev := range acts.BroadcastV2Revision {
		judge("revision", rev.Parent.ID, types.V2Transaction{FileContractRevisions: []types.V2FileContractRevision{rev}})
	}
	for _, fce := range acts.BroadcastV2Proof {
		if fce.V2FileContract.Filesize != 0 {
			continue
		}
		pi, ok := n.cm.BestIndex(fce.V2FileContract.ProofHeight)
		if !ok {
			continue
		}
		cie, err := n.db.ContractChainIndexElement(pi)
		if err != nil {
			if fce.V2FileContract.ProofHeight+144 > n.hmax && fce.V2FileContract.ProofHeight >= n.sinceScan {
				n.em.Monitor("host-misses-proof-height-index-element", fmt.Sprintf("contract %v proof height %d tip %v", fce.ID, fce.V2FileContract.ProofHeight, n.tip))
			}
			continue
		}
		judge("storage-proof", fce.ID, types.V2Transaction{FileContractResolutions: []types.V2FileContractResolution{{Parent: fce, Resolution: &types.V2StorageProof{ProofIndex: cie}}}})
	}
	for _, fce := range acts.BroadcastV2Expiration {
		judge("expiration", fce.ID, types.V2Transaction{FileContractResolutions: []types.V2FileContractResolution{{Parent: fce, Resolution: &types.V2FileContractExpiration{}}}})
	}
}

// ---- actions ------------------------------------------------------------------------------------------

func (n *c17Node) mine(count int, addr types.Address) {
	for i := 0; i < count; i++ {
		b, ok := coreutils.MineBlock(n.cm, addr, 5*time.Second)
		if !ok {
			n.t.Fatal("failed to mine")
		}
		if err := n.cm.AddBlocks([]types.Block{b}); err != nil {
			n.t.Fatal(err)
		}
	}
}

func (n *c17Node) formContract(duration uint64) {
	cs := n.cm.TipState()
	hostFunds, renterFunds := types.Siacoins(20), types.Siacoins(10)
	fc := types.V2FileContract{
		ProofHeight:      cs.Index.Height + duration,
		ExpirationHeight: cs.Index.Height + duration + 6,
		RenterOutput:     types.SiacoinOutput{Value: renterFunds, Address: n.w.Address()},
		HostOutput:       types.SiacoinOutput{Value: hostFunds, Address: n.w.Address()},
		MissedHostValue:  hostFunds,
		TotalCollateral:  hostFunds,
		RenterPublicKey:  n.renterKey.PublicKey(),
		HostPublicKey:    n.hostKey.PublicKey(),
	}
	if n.rng.Intn(4) == 0 {
		fc.MissedHostValue = hostFunds.Sub(types.Siacoins(1)) // expiring it makes the contract "failed"
	}
	fundAmount := cs.V2FileContractTax(fc).Add(hostFunds).Add(renterFunds)
	sigHash := cs.ContractSigHash(fc)
	fc.HostSignature, fc.RenterSignature = n.hostKey.SignHash(sigHash), n.renterKey.SignHash(sigHash)
	txn := types.V2Transaction{FileContracts: []types.V2FileContract{fc}}
	basis, toSign, err := n.w.FundV2Transaction(&txn, fundAmount, false)
	if err != nil {
		n.em.Count("form:wallet-cannot-fund")
		return
	}
	n.w.SignV2Inputs(&txn, toSign)
	set := rhp4.TransactionSet{Transactions: []types.V2Transaction{txn}, Basis: basis}
	if _, err := n.cm.AddV2PoolTransactions(set.Basis, set.Transactions); err != nil {
		n.w.ReleaseInputs(nil, set.Transactions)
		n.em.Count("form:pool-refused")
		return
	}
	if err := n.cman.AddV2Contract(set, proto4.Usage{}); err != nil {
		n.t.Fatal(err)
	}
	c := &c17Contract{id: txn.V2FileContractID(txn.ID(), 0), num: len(n.known) + 1, fc: fc}
	n.known = append(n.known, c)
	n.byID[c.id] = c
	n.em.Step(fmt.Sprintf("AddContract %d %d", c.num, n.negotiationHeight(c.id)), "ODone COk")
	n.em.Count("op:form-contract")
	n.nFormed++
}

// negotiationHeight is the negotiation_height the host stored for the contract row
// (contracts.Manager: cm.chain.Tip().Height when the contract was added).
func (n *c17Node) negotiationHeight(id types.FileContractID) uint64 {
	hc, err := n.cman.V2Contract(id)
	if err != nil {
		n.t.Fatal(err)
	}
	if hc.NegotiationHeight != n.cm.Tip().Height {
		n.em.Monitor("negotiation-height-differs-from-chain-tip", fmt.Sprintf("stored %d chain tip %v", hc.NegotiationHeight, n.cm.Tip()))
	}
	return hc.NegotiationHeight
}

// revise signs a new revision, tells the host about it and (mostly) broadcasts it in a
// transaction built from the element the host stores.
func (n *c17Node) revise() {
	ref := n.refs[n.tip.ID]
	if ref == nil || n.tip != n.cm.Tip() {
		return
	}
	var cands []*c17Contract
	for _, c := range n.known {
		rc, ok := ref.contracts[c.id]
		if ok && !rc.resolved && n.tip.Height+2 < rc.elem.V2FileContract.ProofHeight {
			cands = append(cands, c)
		}
	}
	if len(cands) == 0 {
		return
	}
	n.reviseC(cands[n.rng.Intn(len(cands))], n.rng.Intn(4) != 0)
}

// reviseC revises contract c; broadcast: the revision goes to the pool in a transaction built from
// the element the host stores.  It reports (revision number of the stored element, new number, ok).
func (n *c17Node) reviseC(c *c17Contract, broadcast bool) (uint64, uint64, bool) {
	basis, elem, err := n.cman.V2FileContractElement(c.id)
	if err != nil {
		n.em.Monitor("contract-element-missing-for-confirmed-contract", fmt.Sprintf("contract %d: %v", c.num, err))
		return 0, 0, false
	}
	cs := n.cm.TipState()
	rev := c.fc
	if rev.RevisionNumber < elem.V2FileContract.RevisionNumber {
		rev = elem.V2FileContract
	}
	rev.RevisionNumber += uint64(1 + n.rng.Intn(3))
	sh := cs.ContractSigHash(rev)
	rev.HostSignature, rev.RenterSignature = n.hostKey.SignHash(sh), n.renterKey.SignHash(sh)
	if err := n.cman.ReviseV2Contract(c.id, rev, nil, proto4.Usage{}); err != nil {
		n.em.Count("revise:host-refused")
		return 0, 0, false
	}
	c.fc = rev
	if !broadcast {
		n.em.Count("op:revise-host-only") // the host broadcasts it itself before the proof window
		return 0, 0, false
	}
	txn := types.V2Transaction{FileContractRevisions: []types.V2FileContractRevision{{Parent: elem, Revision: rev}}}
	if _, err := n.cm.AddV2PoolTransactions(basis, []types.V2Transaction{txn}); err != nil {
		if strings.Contains(err.Error(), "not present in the accumulator") {
			n.em.Monitor("revision-built-from-stored-element-refused-by-pool", fmt.Sprintf("contract %d basis %v: %v", c.num, basis, err))
		} else {
			n.em.Count("revise:pool-refused-other")
		}
		return 0, 0, false
	}
	n.em.Count("op:revise-broadcast")
	n.nRevised++
	return elem.V2FileContract.RevisionNumber, rev.RevisionNumber, true
}

// renewable: confirmed, unresolved contracts without a negotiated renewal, far enough from their proof height
func (n *c17Node) renewable() (cands []*c17Contract) {
	ref := n.refs[n.tip.ID]
	if ref == nil || n.tip != n.cm.Tip() {
		return nil
	}
	for _, c := range n.known {
		rc, ok := ref.contracts[c.id]
		if ok && !rc.resolved && c.renewedTo == nil && n.tip.Height+3 < rc.elem.V2FileContract.ProofHeight {
			cands = append(cands, c)
		}
	}
	return
}

// reviseAndRenew hands a revision of a contract AND its renewal to the pool, both built from the
// element the host stores now (the renewal's parent is the contract before the revision): the next
// block mined from the pool carries both, core merges them into one diff with Revision and Resolution.
func (n *c17Node) reviseAndRenew() bool {
	cands := n.renewable()
	if len(cands) == 0 {
		return false
	}
	c := cands[n.rng.Intn(len(cands))]
	if _, _, ok := n.reviseC(c, true); !ok {
		return false
	}
	if !n.renewC(c, 0) {
		return false
	}
	n.em.Count("op:revision and renewal of one contract handed to the pool together")
	return true
}

// renewalTxn builds the renewal transaction of p from the element the host stores NOW for the old
// contract (as the host's RPC handler does) and funds it from the wallet (no ephemeral setup
// transaction: the pool moves all proofs of such a set from its basis to the chain tip).
func (n *c17Node) renewalTxn(p *c17Renewal) (types.ChainIndex, types.V2Transaction, bool) {
	basis, elem, err := n.cman.V2FileContractElement(p.old.id)
	if err != nil {
		n.em.Monitor("contract-element-missing-for-confirmed-contract", fmt.Sprintf("contract %d (renewal being built): %v", p.old.num, err))
		return types.ChainIndex{}, types.V2Transaction{}, false
	}
	cs := n.cm.TipState()
	txn := types.V2Transaction{FileContractResolutions: []types.V2FileContractResolution{{Parent: elem, Resolution: &p.renewal}}}
	wbasis, toSign, err := n.w.FundV2Transaction(&txn, cs.V2FileContractTax(p.renewal.NewContract), false)
	if err != nil {
		n.em.Count("renew:wallet-cannot-fund")
		return types.ChainIndex{}, types.V2Transaction{}, false
	}
	n.w.SignV2Inputs(&txn, toSign)
	if wbasis != basis {
		n.w.ReleaseInputs(nil, []types.V2Transaction{txn})
		n.em.Count("renew:wallet-basis-differs-from-element-basis")
		return types.ChainIndex{}, types.V2Transaction{}, false
	}
	return basis, txn, true
}

// poolRenewal hands the renewal transaction to the pool; a refusal because of the parent's proof
// is a verdict on the stored element (the transaction has no ephemeral input).
func (n *c17Node) poolRenewal(p *c17Renewal, basis types.ChainIndex, txn types.V2Transaction, when string) {
	if _, err := n.cm.AddV2PoolTransactions(basis, []types.V2Transaction{txn}); err != nil {
		n.w.ReleaseInputs(nil, []types.V2Transaction{txn})
		if strings.Contains(err.Error(), "not present in the accumulator") {
			sig := "renewal-built-from-stored-element-refused-by-pool"
			if n.everReset {
				sig += "-after-rescan" // a history with ResetChainState + rescan: the rescan family of findings
			}
			n.em.Monitor(sig, fmt.Sprintf("contract %d basis %v (%s): %v", p.old.num, basis, when, err))
		} else {
			n.em.Count("renew:pool-refused-other(" + when + ")")
		}
		return
	}
	n.em.Count("op:renewal-broadcast " + when)
}

// renew negotiates a renewal of a confirmed, unresolved contract with the host
// (contracts.Manager.RenewV2Contract: renewed_to is set now, with no chain event).  after == 0:
// the renewal transaction goes to the pool at once; after > 0: it is held back for that many
// processed syncs; after < 0: it is never broadcast and its inputs are released (the wallet
// will spend them otherwise).
func (n *c17Node) renew(after int) bool {
	cands := n.renewable()
	if len(cands) == 0 {
		return false
	}
	return n.renewC(cands[n.rng.Intn(len(cands))], after)
}

func (n *c17Node) renewC(c *c17Contract, after int) bool {
	_, elem, err := n.cman.V2FileContractElement(c.id)
	if err != nil {
		n.em.Monitor("contract-element-missing-for-confirmed-contract", fmt.Sprintf("contract %d: %v", c.num, err))
		return false
	}
	cs := n.cm.TipState()
	old := elem.V2FileContract
	ext := uint64(6 + n.rng.Intn(8))
	nfc := types.V2FileContract{
		Capacity: c.fc.Capacity, Filesize: c.fc.Filesize, FileMerkleRoot: c.fc.FileMerkleRoot,
		ProofHeight: old.ProofHeight + ext, ExpirationHeight: old.ExpirationHeight + ext,
		RenterOutput: old.RenterOutput, HostOutput: old.HostOutput,
		MissedHostValue: old.MissedHostValue, TotalCollateral: old.TotalCollateral,
		RenterPublicKey: n.renterKey.PublicKey(), HostPublicKey: n.hostKey.PublicKey(),
	}
	sh := cs.ContractSigHash(nfc)
	nfc.HostSignature, nfc.RenterSignature = n.hostKey.SignHash(sh), n.renterKey.SignHash(sh)
	renewal := types.V2FileContractRenewal{NewContract: nfc, HostRollover: old.HostOutput.Value, RenterRollover: old.RenterOutput.Value}
	rsh := cs.RenewalSigHash(renewal)
	renewal.HostSignature, renewal.RenterSignature = n.hostKey.SignHash(rsh), n.renterKey.SignHash(rsh)

	p := &c17Renewal{old: c, renewal: renewal, after: after}
	basis, txn, ok := n.renewalTxn(p)
	if !ok {
		return false
	}
	set := rhp4.TransactionSet{Transactions: []types.V2Transaction{txn}, Basis: basis}
	nc := &c17Contract{id: c.id.V2RenewalID(), num: len(n.known) + 1, fc: nfc, renewedFrom: c}
	if err := n.cman.RenewV2Contract(set, proto4.Usage{}); err != nil {
		n.w.ReleaseInputs(nil, []types.V2Transaction{txn})
		n.em.Step(fmt.Sprintf("Renew %d %d %d", c.num, nc.num, n.cm.Tip().Height), "ODone CErr")
		n.em.Count("op:renew-refused-by-host")
		return false
	}
	p.new = nc
	c.renewedTo = nc
	n.known = append(n.known, nc)
	n.byID[nc.id] = nc
	n.em.Step(fmt.Sprintf("Renew %d %d %d", c.num, nc.num, n.negotiationHeight(nc.id)), "ODone COk")
	n.nRenewed++
	// negotiating the same renewal again must fail (the renewal's contract id exists) and change nothing
	if n.rng.Intn(3) == 0 {
		cls := "COk"
		if err := n.cman.RenewV2Contract(set, proto4.Usage{}); err != nil {
			cls = "CErr"
		}
		n.em.Step(fmt.Sprintf("Renew %d %d %d", c.num, nc.num, n.cm.Tip().Height), "ODone "+cls)
		n.em.Count("op:renew-again " + cls)
	}
	switch {
	case after == 0:
		n.em.Count("op:renew, renewal broadcast at once")
		n.poolRenewal(p, basis, txn, "at once")
		p.done = true
	case after > 0:
		n.em.Count("op:renew, renewal held back")
		n.w.ReleaseInputs(nil, []types.V2Transaction{txn})
		n.held = append(n.held, p)
	default:
		n.em.Count("op:renew, renewal never broadcast")
		n.w.ReleaseInputs(nil, []types.V2Transaction{txn})
		p.done = true
	}
	return true
}

// releaseHeld broadcasts the held-back renewals whose time has come, rebuilt from the element the
// host stores at that moment.
func (n *c17Node) releaseHeld() {
	if n.tip != n.cm.Tip() || n.dead {
		return
	}
	ref := n.refs[n.tip.ID]
	for _, p := range n.held {
		if p.done {
			continue
		}
		if p.after > 0 {
			p.after--
			continue
		}
		p.done = true
		rc, ok := ref.contracts[p.old.id]
		if !ok || rc.resolved || n.tip.Height+1 >= rc.elem.V2FileContract.ProofHeight {
			n.em.Count("renew:held renewal no longer possible")
			continue
		}
		if basis, txn, ok := n.renewalTxn(p); ok {
			n.poolRenewal(p, basis, txn, "late")
		}
	}
}

// mineEmpty extends the best chain by blocks that contain no transactions (mined on a scratch
// chain manager whose pool is empty): what is in the node's pool stays unconfirmed.
func (n *c17Node) mineEmpty(count int) {
	tip := n.cm.Tip()
	store, tipState, err := chain.NewDBStore(chain.NewMemDB(), n.network, n.genesis, nil)
	if err != nil {
		n.t.Fatal(err)
	}
	scratch := chain.NewManager(store, tipState)
	var prefix []types.Block
	for h := uint64(1); h <= tip.Height; h++ {
		idx, _ := n.cm.BestIndex(h)
		b, ok := n.cm.Block(idx.ID)
		if !ok {
			n.t.Fatal("missing block")
		}
		prefix = append(prefix, b)
	}
	if err := scratch.AddBlocks(prefix); err != nil {
		n.t.Fatal(err)
	}
	var branch []types.Block
	for i := 0; i < count; i++ {
		b, ok := coreutils.MineBlock(scratch, types.VoidAddress, 5*time.Second)
		if !ok {
			n.t.Fatal("failed to mine")
		}
		if err := scratch.AddBlocks([]types.Block{b}); err != nil {
			n.t.Fatal(err)
		}
		branch = append(branch, b)
	}
	if err := n.cm.AddBlocks(branch); err != nil {
		n.t.Fatal(err)
	}
	n.em.Count("op:mine-empty-blocks")
}

// countStatus records which contract statuses the host reports (input distribution).
func (n *c17Node) countStatus(when string) {
	for _, c := range n.known {
		if hc, err := n.cman.V2Contract(c.id); err == nil {
			n.em.Count(fmt.Sprintf("status:%s %s", when, hc.Status))
		}
	}
}

// reorg replaces the top `depth` blocks by a branch of depth+extra empty blocks mined on a
// scratch chain manager and handed to the node's chain manager in one piece.
func (n *c17Node) reorg(depth, extra int) {
	tip := n.cm.Tip()
	if uint64(depth) >= tip.Height {
		depth = int(tip.Height) - 1
	}
	if depth < 1 {
		return
	}
	forkHeight := tip.Height - uint64(depth)
	store, tipState, err := chain.NewDBStore(chain.NewMemDB(), n.network, n.genesis, nil)
	if err != nil {
		n.t.Fatal(err)
	}
	scratch := chain.NewManager(store, tipState)
	var prefix []types.Block
	for h := uint64(1); h <= forkHeight; h++ {
		idx, _ := n.cm.BestIndex(h)
		b, ok := n.cm.Block(idx.ID)
		if !ok {
			n.t.Fatal("missing block")
		}
		prefix = append(prefix, b)
	}
	if err := scratch.AddBlocks(prefix); err != nil {
		n.t.Fatal(err)
	}
	addr := types.VoidAddress
	if n.rng.Intn(2) == 0 {
		addr = n.w.Address()
	}
	var branch []types.Block
	for i := 0; i < depth+extra; i++ {
		b, ok := coreutils.MineBlock(scratch, addr, 5*time.Second)
		if !ok {
			n.t.Fatal("failed to mine")
		}
		if err := scratch.AddBlocks([]types.Block{b}); err != nil {
			n.t.Fatal(err)
		}
		branch = append(branch, b)
	}
	if err := n.cm.AddBlocks(branch); err != nil {
		n.t.Fatal(err)
	}
	if n.cm.Tip() == tip {
		n.em.Count("reorg:branch-not-heavier")
		return
	}
	n.em.Count(fmt.Sprintf("op:reorg depth=%s", c17Bin(depth)))
	if depth > n.maxDepth {
		n.maxDepth = depth
	}
}

func (n *c17Node) reset() {
	if err := n.db.ResetChainState(); err != nil {
		n.t.Fatal(err)
	}
	n.em.Step("Reset", "ODone COk")
	n.em.Count("op:reset")
	n.tip = types.ChainIndex{}
	n.sinceScan = 0
	n.hmax = 0
	n.rescanning = true
	n.everReset = true
}

func c17Bin(n int) string {
	switch {
	case n == 0:
		return "0"
	case n == 1:
		return "1"
	case n < 5:
		return "2-4"
	case n < 20:
		return "5-19"
	case n < 100:
		return "20-99"
	case n < 145:
		return "100-144"
	}
	return "145+"
}

// ---- cases ------------------------------------------------------------------------------------------------

func (n *c17Node) fund() {
	n.mine(int(n.network.MaturityDelay)+4, n.w.Address())
	n.sync()
}

func (n *c17Node) randomSteps(steps int, maxReorg int) {
	for i := 0; i < steps && !n.dead; i++ {
		n.releaseHeld()
		switch r := n.rng.Intn(28); {
		case r >= 27:
			// ResetChainState in the middle of the history, then the rescan of the best chain
			if n.nMidResets < 2 {
				n.nMidResets++
				n.em.Count("op:reset in the middle of a history")
				n.reset()
				n.sync()
			}
		case r >= 24:
			// one block revises AND renews a contract; mostly it is reorged out soon after
			if len(n.known) < 9 && n.reviseAndRenew() {
				n.mine(1, types.VoidAddress)
				n.sync()
				if n.rng.Intn(3) != 0 {
					n.mine(n.rng.Intn(2), types.VoidAddress)
					n.sync()
					n.reorg(1+n.rng.Intn(3), 1+n.rng.Intn(2))
					n.sync()
				}
			} else {
				n.mine(1, types.VoidAddress)
				n.sync()
			}
		case r < 7:
			addr := types.VoidAddress
			if n.rng.Intn(3) == 0 {
				addr = n.w.Address()
			}
			n.mine(1+n.rng.Intn(3), addr)
			n.sync()
		case r < 11:
			if len(n.known) < 6 {
				n.formContract(uint64(4 + n.rng.Intn(10)))
			}
			n.mine(1, types.VoidAddress)
			n.sync()
		case r < 15:
			n.revise()
			n.mine(1, types.VoidAddress)
			n.sync()
		case r < 19:
			n.reorg(1+n.rng.Intn(maxReorg), 1+n.rng.Intn(2))
			n.sync()
		case r < 22:
			// a renewal negotiated with the host: confirmed in the next block, later, or never
			if len(n.known) < 9 {
				n.renew([]int{0, 0, 1, 2, 3, -1, -1}[n.rng.Intn(7)])
			}
			n.mine(1, types.VoidAddress)
			n.sync()
		case r < 23:
			// blocks that confirm nothing of what is in the pool (resolutions, renewals stay pending)
			n.mineEmpty(1 + n.rng.Intn(3))
			n.sync()
		default:
			// several blocks at once, processed in batches
			n.mine(2+n.rng.Intn(6), types.VoidAddress)
			n.sync()
		}
	}
}

func (n *c17Node) finish() {
	n.em.Count(fmt.Sprintf("case:batches=%s", c17Bin(n.nBatches)))
	n.em.Count(fmt.Sprintf("case:max-reorg-depth=%s", c17Bin(n.maxDepth)))
	n.em.Count(fmt.Sprintf("case:renewals-negotiated=%s", c17Bin(n.nRenewed)))
	n.em.Count(fmt.Sprintf("case:batches-with-unconfirmed-renewal=%s", c17Bin(n.nStaleRenewalBatches)))
	n.em.Count(fmt.Sprintf("case:same-block-revision-and-resolution-events=%s", c17Bin(n.nSameBlock)))
	n.em.Count(fmt.Sprintf("case:observations-of-rejected-then-confirmed-contracts=%s", c17Bin(n.nRejectedConfirmed)))
	n.em.EndCase(n.nFormed > 0 && n.nReorgBatches > 0)
}

func TestVerifC17Chain(t *testing.T) {
	em := newVerifEmitter(t, "From HostdBase Require Import Base.\nFrom HostdElements Require Import Model.", "case", "check")
	defer em.Close()
	thorough := os.Getenv("VERIF_TIER") == "thorough"

	cases := verifN(6)
	id := 0
	run := func(desc string, batchSize int, body func(n *c17Node)) {
		defer func() { id++ }()
		if em.Skip(id) {
			return
		}
		n := c17NewNode(t, em, verifCaseRand(id), batchSize)
		em.BeginCase(id, desc)
		em.Step("Configure 10", "ODone COk") // contracts.WithRejectAfter(10) in c17NewNode
		body(n)
		n.finish()
	}

	// cases that reproduce a known finding of C17 run only when C17 itself is checked (its props entry
	// sets VERIF_C17_OWN); a property that borrows this test keeps every monitor hit a violation
	runOwn := func(desc string, batchSize int, body func(n *c17Node)) {
		if os.Getenv("VERIF_C17_OWN") == "" {
			id++
			return
		}
		run(desc, batchSize, body)
	}

	// directed 0: form, revise on chain, reorg below the revision, reorg below the formation
	run("directed: reorgs across a revision and across the formation", 1, func(n *c17Node) {
		n.fund()
		n.formContract(12)
		n.mine(1, types.VoidAddress)
		n.sync()
		n.revise()
		n.mine(2, types.VoidAddress)
		n.sync()
		n.reorg(2, 1) // drops the revision
		n.sync()
		n.mine(1, types.VoidAddress) // the revision returns from the pool
		n.sync()
		n.reorg(5, 1) // drops the formation as well
		n.sync()
		n.mine(2, types.VoidAddress)
		n.sync()
	})
	// directed 1: resolution by the host, then a reorg across the resolution, batch size 3
	run("directed: reorg across the host's resolution", 3, func(n *c17Node) {
		n.fund()
		n.formContract(4)
		n.formContract(5)
		n.mine(1, types.VoidAddress)
		n.sync()
		for i := 0; i < 12; i++ { // through proof window and expiration, one block at a time
			n.mine(1, types.VoidAddress)
			n.sync()
		}
		n.reorg(8, 2)
		n.sync()
		for i := 0; i < 10; i++ {
			n.mine(1, types.VoidAddress)
			n.sync()
		}
	})
	// directed 2: reset and rescan, then a reorg
	run("directed: reset, rescan, reorg", 5, func(n *c17Node) {
		n.fund()
		n.formContract(10)
		n.mine(2, types.VoidAddress)
		n.sync()
		n.revise()
		n.mine(2, types.VoidAddress)
		n.sync()
		n.reset()
		n.sync()
		n.reorg(3, 1)
		n.sync()
		n.mine(2, types.VoidAddress)
		n.sync()
	})
	// directed 3: a chain longer than the retention window, processed in batches of 100 and 7
	run("directed: 150 blocks, retention window boundary", 100, func(n *c17Node) {
		n.fund()
		n.formContract(160)
		n.mine(139, types.VoidAddress)
		n.sync()
		n.batchSize = 7
		n.mine(9, types.VoidAddress) // tip 157: indices up to 13 expire one by one
		n.sync()
		n.reorg(4, 1)
		n.sync()
		n.revise()
		n.mine(2, types.VoidAddress)
		n.sync()
	})
	// directed 4 (a)+(d): renewal confirmed in the next block, then reorged out; empty blocks keep it
	// out for a while, then it confirms again
	run("directed: renewal confirmed in the next block, reorged out, confirmed again", 1, func(n *c17Node) {
		n.fund()
		n.formContract(16)
		n.mine(1, types.VoidAddress)
		n.sync()
		n.renew(0)
		n.mine(1, types.VoidAddress) // renewal confirmed: old contract renewed, new one active
		n.sync()
		n.countStatus("renewal confirmed:")
		n.mine(2, types.VoidAddress)
		n.sync()
		n.reorg(3, 1) // the renewal block is disconnected: old contract active again
		n.sync()
		n.countStatus("renewal reorged out:")
		n.mineEmpty(2)
		n.sync()
		n.mine(1, types.VoidAddress)
		n.sync()
		n.mine(2, types.VoidAddress)
		n.sync()
	})
	// directed 5 (b): renewal confirmed only after several more blocks (batch size 2)
	run("directed: renewal confirmed after several more blocks", 2, func(n *c17Node) {
		n.fund()
		n.formContract(18)
		n.formContract(12)
		n.mine(1, types.VoidAddress)
		n.sync()
		n.renew(3)
		for i := 0; i < 5; i++ {
			n.mine(1+i%2, types.VoidAddress)
			n.sync()
			n.releaseHeld()
		}
		n.mine(1, types.VoidAddress)
		n.sync()
		n.countStatus("late renewal confirmed:")
		n.reorg(2, 1)
		n.sync()
		n.mine(2, types.VoidAddress)
		n.sync()
	})
	// directed 6 (c): renewal never confirmed; the old contract runs into its proof window and the
	// host resolves it from the stored element; reorg across that resolution (batch size 3)
	run("directed: renewal never confirmed, the host resolves the old contract itself", 3, func(n *c17Node) {
		n.fund()
		n.formContract(6)
		n.mine(1, types.VoidAddress)
		n.sync()
		n.renew(-1)
		for i := 0; i < 15; i++ {
			n.mine(1, types.VoidAddress)
			n.sync()
		}
		n.countStatus("renewal never confirmed:")
		n.reorg(7, 2)
		n.sync()
		for i := 0; i < 6; i++ {
			n.mine(1, types.VoidAddress)
			n.sync()
		}
	})
	// directed 7: the host's own resolution stays unconfirmed for several blocks (empty blocks), a
	// reorg happens while it is pending, then it confirms, then a reorg across it
	run("directed: resolution pending for several blocks", 1, func(n *c17Node) {
		n.fund()
		n.formContract(4)
		n.mine(1, types.VoidAddress)
		n.sync()
		n.mineEmpty(3) // proof height reached, the host broadcasts its storage proof
		n.sync()
		for i := 0; i < 3; i++ {
			n.mineEmpty(1) // ... which is not mined
			n.sync()
		}
		n.reorg(2, 1)
		n.sync()
		n.mine(1, types.VoidAddress)
		n.sync()
		n.mine(2, types.VoidAddress)
		n.sync()
		n.reorg(2, 1)
		n.sync()
		n.mine(3, types.VoidAddress)
		n.sync()
	})
	// directed 8: the formation confirms only after the contract was rejected (reject buffer 10);
	// then a renewal that never confirms, and a reorg below the formation
	run("directed: formation confirmed after the contract was rejected", 2, func(n *c17Node) {
		n.fund()
		n.formContract(30)
		n.mineEmpty(6)
		n.sync()
		n.mineEmpty(7)
		n.sync()
		n.countStatus("unconfirmed after reject buffer:")
		n.mine(1, types.VoidAddress)
		n.sync()
		n.countStatus("late formation confirmed:")
		n.mine(2, types.VoidAddress)
		n.sync()
		n.renew(-1)
		n.mine(2, types.VoidAddress)
		n.sync()
		n.reorg(6, 1)
		n.sync()
		n.mine(2, types.VoidAddress)
		n.sync()
	})
	// directed 9: one block revises AND renews a contract (the revision and the renewal are handed to
	// the pool together, both built from the element the host stores); the block is reorged out; the
	// stored element must be usable again (revision through the pool); both confirm again
	run("directed: revision and renewal of one contract in one block, reorged out, confirmed again", 1, func(n *c17Node) {
		n.fund()
		n.formContract(20)
		n.mine(1, types.VoidAddress)
		n.sync()
		if !n.reviseAndRenew() {
			n.em.Monitor("directed-same-block-setup-failed", "revision and renewal were not accepted together")
			return
		}
		n.mine(1, types.VoidAddress) // the block carries both
		n.sync()
		n.countStatus("revised and renewed in one block:")
		n.revise() // the renewal (contract 2) is revised from its stored element
		n.mine(1, types.VoidAddress)
		n.sync()
		n.reorg(2, 1) // the block with both changes is disconnected
		n.sync()
		n.countStatus("same-block block reorged out:")
		n.mineEmpty(1)
		n.sync()
		n.reviseC(n.known[0], true) // a revision built from the stored (pre-revision) element must be accepted by the pool
		n.mine(1, types.VoidAddress)
		n.sync()
		n.mine(2, types.VoidAddress)
		n.sync()
		n.reorg(3, 1)
		n.sync()
		n.mine(2, types.VoidAddress)
		n.sync()
	})
	// directed 10: the same with batch size 3 and a reset + rescan while the block with both changes
	// is on the chain, then the reorg across it
	run("directed: revision and renewal in one block, reset and rescan, reorg across it", 3, func(n *c17Node) {
		n.fund()
		n.formContract(24)
		n.formContract(9)
		n.mine(1, types.VoidAddress)
		n.sync()
		if !n.reviseAndRenew() {
			n.em.Monitor("directed-same-block-setup-failed", "revision and renewal were not accepted together")
			return
		}
		n.mine(2, types.VoidAddress)
		n.sync()
		n.reset()
		n.sync()
		n.countStatus("rescanned across same-block block:")
		n.mine(1, types.VoidAddress)
		n.sync()
		n.reorg(4, 1)
		n.sync()
		n.mine(2, types.VoidAddress)
		n.sync()
		n.reset()
		n.sync()
		n.mine(1, types.VoidAddress)
		n.sync()
	})
	// directed 11: two contracts are rejected (reject buffer 10); one formation confirms late, is
	// reorged out (pending again, rejected again after the buffer), confirms again; reset + rescan in
	// between; the host must be able to revise the late contract from its stored element
	run("directed: rejected, confirmed late, reorged out, rejected again, confirmed, rescans", 2, func(n *c17Node) {
		n.fund()
		n.formContract(60)
		n.mineEmpty(12) // rejected
		n.sync()
		n.countStatus("after reject buffer:")
		n.mine(1, types.VoidAddress) // formation confirms late
		n.sync()
		n.countStatus("late formation confirmed:")
		n.revise()
		n.mine(1, types.VoidAddress)
		n.sync()
		n.reset()
		n.sync()
		n.countStatus("rescanned:")
		n.reorg(3, 1) // formation reorged out; the formation transaction is back in the pool
		n.sync()
		n.countStatus("late formation reorged out:")
		n.mineEmpty(12)
		n.sync()
		n.countStatus("rejected again:")
		n.mine(1, types.VoidAddress)
		n.sync()
		n.countStatus("confirmed again:")
		n.revise()
		n.mine(2, types.VoidAddress)
		n.sync()
		n.reset()
		n.sync()
		n.mine(1, types.VoidAddress)
		n.sync()
	})
	// directed 12 (only in C17's own run, VERIF_C17_OWN): KNOWN FINDING.  A contract is formed and later
	// renewed; ResetChainState; the rescan has passed the formation but not the renewal when a reorg
	// reaches below the formation: the row still says "renewed" (ResetChainState keeps the statuses,
	// the rescan's formation branch skipped the transition) and revertV2ContractFormation panics.
	runOwn("directed: reorg below the position of a rescan in progress (known finding)", 1, func(n *c17Node) {
		n.fund()
		n.formContract(30)
		n.mine(1, types.VoidAddress) // formation
		n.sync()
		formedAt := n.tip.Height
		n.mine(3, types.VoidAddress)
		n.sync()
		n.renew(0)
		n.mine(1, types.VoidAddress) // renewal: the contract is resolved
		n.sync()
		n.mine(2, types.VoidAddress)
		n.sync()
		n.countStatus("before the reset:")
		n.reset()
		n.stopAt = formedAt + 2 // the rescan stops between the formation and the renewal
		n.sync()
		n.stopAt = 0
		n.reorg(int(n.cm.Tip().Height-formedAt)+1, 1) // the reorg disconnects the formation block
		n.sync()
		if !n.dead {
			n.em.Count("known-finding-not-reproduced: reorg below the rescan position did not panic")
		}
	})
	if thorough {
		// reorg deeper than the batch size and across the 144-block retention boundary
		run("directed: 150-block reorg on a 300-block chain, batch size 100", 100, func(n *c17Node) {
			n.fund()
			n.formContract(8)
			n.mine(160, types.VoidAddress)
			n.sync()
			n.formContract(170)
			n.mine(130, types.VoidAddress)
			n.sync()
			n.revise()
			n.mine(2, types.VoidAddress)
			n.sync()
			n.reorg(150, 2)
			n.sync()
			n.mine(3, types.VoidAddress)
			n.sync()
		})
		run("directed: reorg of exactly 144 and 145 blocks, batch size 7", 7, func(n *c17Node) {
			n.fund()
			n.formContract(200)
			n.mine(200, types.VoidAddress)
			n.sync()
			n.reorg(144, 1)
			n.sync()
			n.revise()
			n.mine(1, types.VoidAddress)
			n.sync()
			n.reorg(145, 1)
			n.sync()
			n.mine(2, types.VoidAddress)
			n.sync()
		})
	}
	for i := 0; i < cases; i++ {
		bs := []int{1, 1, 2, 3, 5, 100}[i%6]
		run("generated v2 contract lifecycle with reorgs", bs, func(n *c17Node) {
			n.fund()
			maxReorg := 8
			steps := 25
			if thorough {
				steps = 60
				if n.rng.Intn(3) == 0 {
					maxReorg = 30
				}
			}
			n.randomSteps(steps, maxReorg)
			if n.rng.Intn(4) == 0 && !n.dead {
				n.reset()
				n.sync()
				n.randomSteps(5, maxReorg)
			}
		})
	}
}

func (n *c17Node) debugProof() {
	csP, _ := n.cm.State(n.tip.ID)
	for _, c := range n.known {
		_, elem, err := n.cman.V2FileContractElement(c.id)
		if err != nil {
			continue
		}
		ph := elem.V2FileContract.ProofHeight
		if ph > n.tip.Height {
			continue
		}
		pi, _ := n.cm.BestIndex(ph)
		cie, err := n.db.ContractChainIndexElement(pi)
		if err != nil {
			fmt.Println("DEBUG no index element", pi, err)
			continue
		}
		txn := types.V2Transaction{FileContractResolutions: []types.V2FileContractResolution{{Parent: elem, Resolution: &types.V2StorageProof{ProofIndex: cie}}}}
		err1 := consensus.ValidateV2Transaction(consensus.NewMidState(csP), txn)
		upd, err2 := n.cm.UpdateV2TransactionSet([]types.V2Transaction{txn}, n.tip, n.cm.Tip())
		var err3 error
		if err2 == nil && len(upd) == 1 {
			err3 = consensus.ValidateV2Transaction(consensus.NewMidState(n.cm.TipState()), upd[0])
		}
		f, _ := os.OpenFile(os.Getenv("VERIF_OUT")+"/debug.txt", os.O_APPEND|os.O_CREATE|os.O_WRONLY, 0o644)
		defer f.Close()
		fmt.Fprintf(f, "DEBUG contract %d ph %d pi %v leaf %d prooflen %d: at processed tip %v: %v | update err %v | at chain tip %v: %v\n", c.num, ph, pi, cie.StateElement.LeafIndex, len(cie.StateElement.MerkleProof), n.tip, err1, err2, n.cm.Tip(), err3)
	}
}

func (n *c17Node) debugContracts(msg string) {
	f, _ := os.OpenFile(os.Getenv("VERIF_OUT")+"/debug.txt", os.O_APPEND|os.O_CREATE|os.O_WRONLY, 0o644)
	defer f.Close()
	fmt.Fprintf(f, "MSG %s tip %v cmtip %v wallet tip %v\n", msg, n.tip, n.cm.Tip(), n.w.Tip())
	if acts, err := n.db.ContractActions(n.tip, n.tip.Height+5); err == nil {
		csT, _ := n.cm.State(n.tip.ID)
		for _, fce := range acts.BroadcastV2Expiration {
			txn := types.V2Transaction{FileContractResolutions: []types.V2FileContractResolution{{Parent: fce, Resolution: &types.V2FileContractExpiration{}}}}
			fmt.Fprintf(f, "  ACTION expire %v leaf %d rev %d: %v\n", fce.ID, fce.StateElement.LeafIndex, fce.V2FileContract.RevisionNumber, consensus.ValidateV2Transaction(consensus.NewMidState(csT), txn))
			// the host's own construction
			fee := n.cm.RecommendedFee().Mul64(1000)
			setupTxn := types.V2Transaction{SiacoinOutputs: []types.SiacoinOutput{{Address: n.w.Address(), Value: fee}}}
			basis, toSign, err := n.w.FundV2Transaction(&setupTxn, fee, false)
			if err != nil {
				fmt.Fprintf(f, "    fund: %v\n", err)
				continue
			}
			n.w.SignV2Inputs(&setupTxn, toSign)
			resTxn := types.V2Transaction{MinerFee: fee, SiacoinInputs: []types.V2SiacoinInput{{Parent: setupTxn.EphemeralSiacoinOutput(0)}},
				FileContractResolutions: []types.V2FileContractResolution{{Parent: fce, Resolution: &types.V2FileContractExpiration{}}}}
			n.w.SignV2Inputs(&resTxn, []int{0})
			ms := consensus.NewMidState(csT)
			e1 := consensus.ValidateV2Transaction(ms, setupTxn)
			ms.ApplyV2Transaction(setupTxn)
			e2 := consensus.ValidateV2Transaction(ms, resTxn)
			upd, e3 := n.cm.UpdateV2TransactionSet([]types.V2Transaction{setupTxn, resTxn}, basis, n.cm.Tip())
			var e4 error
			if e3 == nil && len(upd) == 2 {
				ms2 := consensus.NewMidState(n.cm.TipState())
				e4 = consensus.ValidateV2Transaction(ms2, upd[0])
				ms2.ApplyV2Transaction(upd[0])
				if e4 == nil {
					e4 = consensus.ValidateV2Transaction(ms2, upd[1])
				}
			}
			_, e5 := n.cm.AddV2PoolTransactions(basis, []types.V2Transaction{setupTxn, resTxn})
			n.w.ReleaseInputs(nil, []types.V2Transaction{setupTxn})
			fmt.Fprintf(f, "    basis %v setup %v | res %v | update %v (%d) | after update %v | pool add: %v | pool v2 txns %d\n", basis, e1, e2, e3, len(upd), e4, e5, len(n.cm.V2PoolTransactions()))
		}
	}
	ref := n.refs[n.tip.ID]
	cs, _ := n.cm.State(n.tip.ID)
	for _, c := range n.known {
		hc, err := n.cman.V2Contract(c.id)
		_, elem, err2 := n.cman.V2FileContractElement(c.id)
		var rc c17RefContract
		var on bool
		if ref != nil {
			rc, on = ref.contracts[c.id]
		}
		txn := types.V2Transaction{FileContractResolutions: []types.V2FileContractResolution{{Parent: elem, Resolution: &types.V2FileContractExpiration{}}}}
		verr := consensus.ValidateV2Transaction(consensus.NewMidState(cs), txn)
		fmt.Fprintf(f, "  contract %d id %v status %v err %v elemErr %v storedRev %d ph %d exp %d | ref on=%v resolved=%v rev %d sameproof=%v | expire-valid: %v\n", c.num, c.id, hc.Status, err, err2, elem.V2FileContract.RevisionNumber, elem.V2FileContract.ProofHeight, elem.V2FileContract.ExpirationHeight, on, rc.resolved, rc.elem.V2FileContract.RevisionNumber, c17SameProof(elem.StateElement, rc.elem.StateElement), verr)
	}
}
