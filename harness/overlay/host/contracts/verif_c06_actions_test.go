//go:build verif

package contracts_test

import (
	"database/sql"
	"encoding/binary"
	"fmt"
	"math/rand"
	"os"
	"path/filepath"
	"sort"
	"strings"
	"testing"

	"go.sia.tech/core/consensus"
	rhp2 "go.sia.tech/core/rhp/v2"
	proto4 "go.sia.tech/core/rhp/v4"
	"go.sia.tech/core/types"
	rhp4 "go.sia.tech/coreutils/rhp/v4"
	"go.sia.tech/hostd/v2/host/contracts"
	"go.sia.tech/hostd/v2/index"
	"go.sia.tech/hostd/v2/persist/sqlite"
	"go.uber.org/zap"
)

// ---- stubs for the manager's collaborators: every pool submission and funding succeeds,
// every broadcast is recorded.

type c06Chain struct{}

func c06BlockID(h uint64) (id types.BlockID) {
	binary.LittleEndian.PutUint64(id[:], h+1)
	id[31] = 0xb1
	return
}

func (c06Chain) Tip() types.ChainIndex          { return types.ChainIndex{} }
func (c06Chain) TipState() consensus.State       { return consensus.State{} }
func (c06Chain) RecommendedFee() types.Currency  { return types.NewCurrency64(1) }
func (c06Chain) UnconfirmedParents(types.Transaction) []types.Transaction { return nil }
func (c06Chain) BestIndex(h uint64) (types.ChainIndex, bool) {
	return types.ChainIndex{Height: h, ID: c06BlockID(h)}, true
}
func (c06Chain) AddPoolTransactions([]types.Transaction) (bool, error) { return false, nil }
func (c06Chain) AddV2PoolTransactions(types.ChainIndex, []types.V2Transaction) (bool, error) {
	return false, nil
}

type c06Syncer struct {
	v1 [][]types.Transaction
	v2 [][]types.V2Transaction
}

func (s *c06Syncer) BroadcastTransactionSet(t []types.Transaction) { s.v1 = append(s.v1, t) }
func (s *c06Syncer) BroadcastV2TransactionSet(_ types.ChainIndex, t []types.V2Transaction) {
	s.v2 = append(s.v2, t)
}

type c06Wallet struct{}

func (c06Wallet) Address() types.Address                                 { return types.Address{1} }
func (c06Wallet) UnlockConditions() types.UnlockConditions               { return types.UnlockConditions{} }
func (c06Wallet) ReleaseInputs([]types.Transaction, []types.V2Transaction) {}
func (c06Wallet) FundTransaction(*types.Transaction, types.Currency, bool) ([]types.Hash256, error) {
	return nil, nil
}
func (c06Wallet) SignTransaction(*types.Transaction, []types.Hash256, types.CoveredFields) {}
func (c06Wallet) FundV2Transaction(*types.V2Transaction, types.Currency, bool) (types.ChainIndex, []int, error) {
	return types.ChainIndex{}, nil, nil
}
func (c06Wallet) SignV2Inputs(*types.V2Transaction, []int) {}

type c06Storage struct{}

func (c06Storage) ReadSector(types.Hash256) (*[rhp2.SectorSize]byte, error) {
	return nil, fmt.Errorf("no sectors in this harness")
}

// ---- raw rows (what the selection queries read), for the model

type c06V1Row struct {
	idx                int
	formed             bool
	status             contracts.ContractStatus
	rev                uint64
	confRev            *uint64
	res                *uint64
	neg, ws, we        uint64
	benefit            bool
}

type c06V2Row struct {
	idx          int
	conf, res    *uint64
	status       contracts.V2ContractStatus
	rev          uint64
	neg, ph, eh  uint64
	elemRev      *uint64
}

func c06OptN(p *uint64) string {
	if p == nil {
		return "None"
	}
	return fmt.Sprintf("(Some %d%%N)", *p)
}

var c06St1 = map[contracts.ContractStatus]string{
	contracts.ContractStatusPending: "Pending1", contracts.ContractStatusRejected: "Rejected1",
	contracts.ContractStatusActive: "Active1", contracts.ContractStatusSuccessful: "Successful1",
	contracts.ContractStatusFailed: "Failed1",
}

var c06St2 = map[contracts.V2ContractStatus]string{
	contracts.V2ContractStatusPending: "Pending2", contracts.V2ContractStatusRejected: "Rejected2",
	contracts.V2ContractStatusActive: "Active2", contracts.V2ContractStatusRenewed: "Renewed2",
	contracts.V2ContractStatusSuccessful: "Successful2", contracts.V2ContractStatusFailed: "Failed2",
}

func (r c06V1Row) coq() string {
	return fmt.Sprintf("{| c1_contract_id := %d; c1_formation_confirmed := %v; c1_contract_status := %s; c1_revision_number := %d; c1_confirmed_revision_number := %s; c1_resolution_height := %s; c1_negotiation_height := %d; c1_window_start := %d; c1_window_end := %d; c1_proof_benefit := %v |}",
		r.idx, r.formed, c06St1[r.status], r.rev, c06OptN(r.confRev), c06OptN(r.res), r.neg, r.ws, r.we, r.benefit)
}

func (r c06V2Row) coq() string {
	elem := "None"
	if r.elemRev != nil {
		elem = fmt.Sprintf("(Some {| e2_revision_number := %d |})", *r.elemRev)
	}
	return fmt.Sprintf("{| c2_contract_id := %d; c2_confirmation_index := %s; c2_resolution_index := %s; c2_contract_status := %s; c2_revision_number := %d; c2_negotiation_height := %d; c2_proof_height := %d; c2_expiration_height := %d; c2_elem := %s |}",
		r.idx, c06OptN(r.conf), c06OptN(r.res), c06St2[r.status], r.rev, r.neg, r.ph, r.eh, elem)
}

func c06U64(b []byte) *uint64 {
	if b == nil {
		return nil
	}
	v := binary.LittleEndian.Uint64(b[:8])
	return &v
}

type c06Acts struct{ l [7][]int }

func (a *c06Acts) coq() string {
	f := func(l []int) string {
		s := make([]string, len(l))
		sort.Ints(l)
		for i, v := range l {
			s[i] = fmt.Sprintf("%d%%N", v)
		}
		return "[" + strings.Join(s, "; ") + "]"
	}
	return fmt.Sprintf("{| aRebroadcast := %s; aRevision := %s; aProof := %s; aRebroadcast2 := %s; aRevision2 := %s; aProof2 := %s; aExpire2 := %s |}",
		f(a.l[0]), f(a.l[1]), f(a.l[2]), f(a.l[3]), f(a.l[4]), f(a.l[5]), f(a.l[6]))
}

func (a *c06Acts) nonEmpty() bool {
	for _, l := range a.l {
		if len(l) > 0 {
			return true
		}
	}
	return false
}

// revision numbers are stored as 8-byte little-endian BLOBs and compared bytewise by SQLite:
// values around byte boundaries, where bytewise order and numeric order disagree
var c06RevLadder = []uint64{1, 2, 3, 255, 256, 257, 258, 511, 512, 513, 65535, 65536, 65537, 1 << 24, 1<<32 - 1, 1 << 32, 1<<32 + 1, 1<<40 + 5, 1 << 56, 1<<63 + 1}

// a later revision number: the successor or a step up the ladder
func c06NextRev(rng *rand.Rand, cur uint64) uint64 {
	if rng.Intn(3) == 0 || cur >= c06RevLadder[len(c06RevLadder)-1] {
		return cur + 1 + uint64(rng.Intn(2))
	}
	var up []uint64
	for _, v := range c06RevLadder {
		if v > cur {
			up = append(up, v)
		}
	}
	if len(up) > 4 {
		up = up[:4]
	}
	return up[rng.Intn(len(up))]
}

// an earlier revision number (0 = the formation's)
func c06OlderRev(rng *rand.Rand, cur uint64) uint64 {
	down := []uint64{0}
	for _, v := range c06RevLadder {
		if v < cur {
			down = append(down, v)
		}
	}
	if cur > 0 && rng.Intn(3) == 0 {
		return cur - 1
	}
	return down[rng.Intn(len(down))]
}

var c06Kinds = [7]string{"rebroadcast", "revision", "proof", "v2-rebroadcast", "v2-revision", "v2-proof", "v2-expire"}

// TestVerifC06 populates a real sqlite.Store with v1 and v2 contracts driven through the
// store API into every status/flag combination, then asks Store.ContractActions and
// Manager.ProcessActions at every boundary height and records rows, arguments and the id
// sets for the Coq model (Actions/Model.v); property monitors written from the text of C06
// judge the id sets independently of the model.
func TestVerifC06(t *testing.T) {
	em := newVerifEmitter(t, "From HostdBase Require Import Base.\nFrom HostdActions Require Import Rows Model.", "case", "check")
	defer em.Close()

	renterKey := types.NewPrivateKeyFromSeed(make([]byte, 32)).PublicKey()
	hostKey := types.NewPrivateKeyFromSeed([]byte(strings.Repeat("h", 32))).PublicKey()
	uc := types.UnlockConditions{PublicKeys: []types.UnlockKey{renterKey.UnlockKey(), hostKey.UnlockKey()}, SignaturesRequired: 2}

	n := verifN(150)
	const directed = 4
	thorough := os.Getenv("VERIF_TIER") == "thorough"
	for id := 0; id < n+directed; id++ {
		if em.Skip(id) {
			continue
		}
		rng := verifCaseRand(id)
		dbPath := filepath.Join(t.TempDir(), fmt.Sprintf("c06_%d.db", id))
		db, err := sqlite.OpenDatabase(dbPath, zap.NewNop())
		if err != nil {
			t.Fatal(err)
		}
		raw, err := sql.Open("sqlite3", "file:"+dbPath+"?mode=ro&_busy_timeout=5000")
		if err != nil {
			t.Fatal(err)
		}

		buf := uint64(rng.Intn(5))
		if id < directed {
			buf = 3
		}
		syncer := &c06Syncer{}
		cm, err := contracts.NewManager(db, c06Storage{}, c06Chain{}, syncer, c06Wallet{},
			contracts.WithRevisionSubmissionBuffer(buf), contracts.WithRejectAfter(2))
		if err != nil {
			t.Fatal(err)
		}

		v1IDs := map[types.FileContractID]int{}
		v2IDs := map[types.FileContractID]int{}
		var v1List, v2List []types.FileContractID
		v1Revs := map[int]types.FileContractRevision{}
		v2Revs := map[int]types.V2FileContract{}

		addV1 := func(neg, ws, we, rev uint64, benefit bool) int {
			i := len(v1List)
			valid, missed := types.Siacoins(2), types.Siacoins(1)
			if !benefit {
				missed = types.Siacoins(uint32(2 + rng.Intn(2))) // missed >= valid: no benefit
			}
			fc := types.FileContract{
				WindowStart: ws, WindowEnd: we, RevisionNumber: rev, UnlockHash: uc.UnlockHash(),
				ValidProofOutputs:  []types.SiacoinOutput{{Value: types.Siacoins(5)}, {Value: valid}},
				MissedProofOutputs: []types.SiacoinOutput{{Value: types.Siacoins(5)}, {Value: missed}, {Value: types.ZeroCurrency}},
			}
			formation := types.Transaction{FileContracts: []types.FileContract{fc}, ArbitraryData: [][]byte{[]byte(fmt.Sprintf("v1-%d-%d", id, i))}}
			fcid := formation.FileContractID(0)
			sr := contracts.SignedRevision{Revision: types.FileContractRevision{ParentID: fcid, UnlockConditions: uc, FileContract: fc}}
			if err := db.AddContract(sr, []types.Transaction{{ArbitraryData: [][]byte{{1}}}, formation}, types.Siacoins(1), contracts.Usage{}, neg); err != nil {
				t.Fatal(err)
			}
			v1IDs[fcid] = i
			v1List = append(v1List, fcid)
			v1Revs[i] = sr.Revision
			return i
		}
		addV2 := func(neg, ph, eh, rev uint64) int {
			i := len(v2List)
			fc := types.V2FileContract{ProofHeight: ph, ExpirationHeight: eh, RevisionNumber: rev,
				RenterPublicKey: renterKey, HostPublicKey: hostKey,
				RenterOutput: types.SiacoinOutput{Value: types.Siacoins(5)}, HostOutput: types.SiacoinOutput{Value: types.Siacoins(2)},
				MissedHostValue: types.Siacoins(1), TotalCollateral: types.Siacoins(1)}
			formation := types.V2Transaction{FileContracts: []types.V2FileContract{fc}, ArbitraryData: []byte(fmt.Sprintf("v2-%d-%d", id, i))}
			fcid := formation.V2FileContractID(formation.ID(), 0)
			c := contracts.V2Contract{V2FileContract: fc, ID: fcid, NegotiationHeight: neg, Status: contracts.V2ContractStatusPending}
			if err := db.AddV2Contract(c, rhp4.TransactionSet{Transactions: []types.V2Transaction{formation}}); err != nil {
				t.Fatal(err)
			}
			v2IDs[fcid] = i
			v2List = append(v2List, fcid)
			v2Revs[i] = fc
			return i
		}

		// chain index elements for every height the v2 proofs may ask for
		if err := db.UpdateChainState(func(tx index.UpdateTx) error {
			for h := uint64(0); h < 140; h++ {
				ci := types.ChainIndex{Height: h, ID: c06BlockID(h)}
				if err := tx.AddContractChainIndexElement(types.ChainIndexElement{ID: ci.ID, ChainIndex: ci, StateElement: types.StateElement{LeafIndex: h}}); err != nil {
					return err
				}
			}
			return nil
		}); err != nil {
			t.Fatal(err)
		}

		// chain events through the store's UpdateTx; an error or a panic of the store (the
		// revert paths of resolutions are C01's subject) leaves the rows as they are — the
		// rows are read back afterwards, so the model needs no opinion on it.
		chainOp := func(what string, fn func(tx index.UpdateTx) error) {
			defer func() {
				if r := recover(); r != nil {
					em.Count("event-panicked:" + what)
				}
			}()
			if err := db.UpdateChainState(fn); err != nil {
				em.Count("event-error:" + what)
			} else {
				em.Count("event:" + what)
			}
		}
		idxAt := func(h uint64) types.ChainIndex { return types.ChainIndex{Height: h, ID: c06BlockID(h)} }

		readRows := func() ([]c06V1Row, []c06V2Row) {
			var r1 []c06V1Row
			rows, err := raw.Query(`SELECT contract_id, formation_confirmed, contract_status, revision_number, confirmed_revision_number, resolution_height, negotiation_height, window_start, window_end, raw_revision FROM contracts`)
			if err != nil {
				t.Fatal(err)
			}
			for rows.Next() {
				var cid, rev, conf, rawRev []byte
				var formed bool
				var status int64
				var res sql.NullInt64
				var r c06V1Row
				if err := rows.Scan(&cid, &formed, &status, &rev, &conf, &res, &r.neg, &r.ws, &r.we, &rawRev); err != nil {
					t.Fatal(err)
				}
				var fcid types.FileContractID
				copy(fcid[:], cid)
				i, ok := v1IDs[fcid]
				if !ok {
					t.Fatalf("unknown v1 contract %v", fcid)
				}
				r.idx, r.formed, r.status = i, formed, contracts.ContractStatus(status)
				if _, ok := c06St1[r.status]; !ok {
					t.Fatalf("unknown stored v1 status %d", status)
				}
				r.rev = *c06U64(rev)
				r.confRev = c06U64(conf)
				if res.Valid {
					v := uint64(res.Int64)
					r.res = &v
				}
				var fcr types.FileContractRevision
				dec := types.NewBufDecoder(rawRev)
				fcr.DecodeFrom(dec)
				if dec.Err() != nil {
					t.Fatal(dec.Err())
				}
				r.benefit = fcr.MissedHostPayout().Cmp(fcr.ValidHostPayout()) < 0
				r1 = append(r1, r)
			}
			rows.Close()
			sort.Slice(r1, func(a, b int) bool { return r1[a].idx < r1[b].idx })

			var r2 []c06V2Row
			rows, err = raw.Query(`SELECT c.contract_id, c.confirmation_index, c.resolution_index, c.contract_status, c.revision_number, c.negotiation_height, c.proof_height, c.expiration_height, cs.revision_number FROM contracts_v2 c LEFT JOIN contract_v2_state_elements cs ON (cs.contract_id = c.id)`)
			if err != nil {
				t.Fatal(err)
			}
			for rows.Next() {
				var cid, conf, res, rev, erev []byte
				var status string
				var r c06V2Row
				if err := rows.Scan(&cid, &conf, &res, &status, &rev, &r.neg, &r.ph, &r.eh, &erev); err != nil {
					t.Fatal(err)
				}
				var fcid types.FileContractID
				copy(fcid[:], cid)
				i, ok := v2IDs[fcid]
				if !ok {
					t.Fatalf("unknown v2 contract %v", fcid)
				}
				r.idx, r.status = i, contracts.V2ContractStatus(status)
				if _, ok := c06St2[r.status]; !ok {
					t.Fatalf("unknown stored v2 status %q", status)
				}
				r.conf, r.res, r.rev, r.elemRev = c06U64(conf), c06U64(res), *c06U64(rev), c06U64(erev)
				r2 = append(r2, r)
			}
			rows.Close()
			sort.Slice(r2, func(a, b int) bool { return r2[a].idx < r2[b].idx })
			return r1, r2
		}

		// one legal chain/renter event on v1 contract i, chosen by its current row
		stepV1 := func(r c06V1Row, h uint64) {
			fcid := v1List[r.idx]
			revise := func() {
				rv := v1Revs[r.idx]
				rv.RevisionNumber = c06NextRev(rng, r.rev)
				if err := db.ReviseContract(contracts.SignedRevision{Revision: rv}, nil, contracts.Usage{}, nil); err != nil {
					t.Fatal(err)
				}
				v1Revs[r.idx] = rv
				em.Count("event:v1-revise")
			}
			confirmRev := func(n uint64) {
				chainOp("v1-revision-confirmed", func(tx index.UpdateTx) error {
					return tx.ApplyContracts(idxAt(h), contracts.StateChanges{Revised: []contracts.RevisedContract{{ID: fcid, FileContract: types.FileContract{RevisionNumber: n}}}})
				})
			}
			switch r.status {
			case contracts.ContractStatusPending, contracts.ContractStatusRejected:
				switch k := rng.Intn(6); {
				case k < 3:
					chainOp("v1-formed", func(tx index.UpdateTx) error {
						return tx.ApplyContracts(idxAt(h), contracts.StateChanges{Confirmed: []types.FileContractElement{{ID: fcid}}})
					})
				case k < 4:
					revise()
				default:
					chainOp("reject", func(tx index.UpdateTx) error {
						_, _, err := tx.RejectContracts(r.neg + 1)
						return err
					})
				}
			case contracts.ContractStatusActive:
				switch k := rng.Intn(10); {
				case k < 2:
					revise()
				case k < 4:
					confirmRev(r.rev)
				case k < 5:
					confirmRev(c06OlderRev(rng, r.rev))
				case k < 7:
					chainOp("v1-successful", func(tx index.UpdateTx) error {
						return tx.ApplyContracts(idxAt(h), contracts.StateChanges{Successful: []types.FileContractID{fcid}})
					})
				case k < 8:
					chainOp("v1-failed", func(tx index.UpdateTx) error {
						return tx.ApplyContracts(idxAt(h), contracts.StateChanges{Failed: []types.FileContractID{fcid}})
					})
				default:
					chainOp("v1-formation-reverted", func(tx index.UpdateTx) error {
						return tx.RevertContracts(idxAt(h), contracts.StateChanges{Confirmed: []types.FileContractElement{{ID: fcid}}})
					})
				}
			case contracts.ContractStatusSuccessful:
				if rng.Intn(2) == 0 {
					chainOp("v1-successful-reverted", func(tx index.UpdateTx) error {
						return tx.RevertContracts(idxAt(h), contracts.StateChanges{Successful: []types.FileContractID{fcid}})
					})
				}
			case contracts.ContractStatusFailed:
				if rng.Intn(2) == 0 {
					chainOp("v1-failed-reverted", func(tx index.UpdateTx) error {
						return tx.RevertContracts(idxAt(h), contracts.StateChanges{Failed: []types.FileContractID{fcid}})
					})
				}
			}
		}
		stepV2 := func(r c06V2Row, h uint64) {
			fcid := v2List[r.idx]
			revise := func() {
				fc := v2Revs[r.idx]
				fc.RevisionNumber = c06NextRev(rng, r.rev)
				if err := db.ReviseV2Contract(fcid, fc, nil, nil, proto4.Usage{}); err != nil {
					t.Fatal(err)
				}
				v2Revs[r.idx] = fc
				em.Count("event:v2-revise")
			}
			onChain := func(n uint64) types.V2FileContract {
				fc := v2Revs[r.idx]
				fc.RevisionNumber = n
				return fc
			}
			switch r.status {
			case contracts.V2ContractStatusPending, contracts.V2ContractStatusRejected:
				switch k := rng.Intn(6); {
				case k < 3:
					n := r.rev
					if rng.Intn(3) == 0 && n > 0 {
						n = c06OlderRev(rng, r.rev) // formed at an older revision than the host's latest
					}
					chainOp("v2-formed", func(tx index.UpdateTx) error {
						return tx.ApplyContracts(idxAt(h), contracts.StateChanges{ConfirmedV2: []types.V2FileContractElement{{ID: fcid, StateElement: types.StateElement{LeafIndex: uint64(r.idx)}, V2FileContract: onChain(n)}}})
					})
				case k < 4:
					revise()
				default:
					chainOp("reject", func(tx index.UpdateTx) error {
						_, _, err := tx.RejectContracts(r.neg + 1)
						return err
					})
				}
			case contracts.V2ContractStatusActive:
				switch k := rng.Intn(12); {
				case k < 2:
					revise()
				case k < 4:
					chainOp("v2-revision-confirmed", func(tx index.UpdateTx) error {
						return tx.ApplyContracts(idxAt(h), contracts.StateChanges{RevisedV2: []contracts.RevisedV2Contract{{ID: fcid, V2FileContract: onChain(r.rev)}}})
					})
				case k < 5:
					chainOp("v2-revision-confirmed-older", func(tx index.UpdateTx) error {
						return tx.ApplyContracts(idxAt(h), contracts.StateChanges{RevisedV2: []contracts.RevisedV2Contract{{ID: fcid, V2FileContract: onChain(c06OlderRev(rng, r.rev))}}})
					})
				case k < 7:
					chainOp("v2-successful", func(tx index.UpdateTx) error {
						return tx.ApplyContracts(idxAt(h), contracts.StateChanges{SuccessfulV2: []types.FileContractID{fcid}})
					})
				case k < 8:
					chainOp("v2-renewed", func(tx index.UpdateTx) error {
						return tx.ApplyContracts(idxAt(h), contracts.StateChanges{RenewedV2: []types.FileContractID{fcid}})
					})
				case k < 9:
					chainOp("v2-failed", func(tx index.UpdateTx) error {
						return tx.ApplyContracts(idxAt(h), contracts.StateChanges{FailedV2: []types.FileContractID{fcid}})
					})
				default:
					chainOp("v2-formation-reverted", func(tx index.UpdateTx) error {
						return tx.RevertContracts(idxAt(h), contracts.StateChanges{ConfirmedV2: []types.V2FileContractElement{{ID: fcid}}})
					})
				}
			case contracts.V2ContractStatusSuccessful:
				if rng.Intn(2) == 0 {
					chainOp("v2-successful-reverted", func(tx index.UpdateTx) error {
						return tx.RevertContracts(idxAt(h), contracts.StateChanges{SuccessfulV2: []types.FileContractID{fcid}})
					})
				}
			case contracts.V2ContractStatusRenewed:
				if rng.Intn(2) == 0 {
					chainOp("v2-renewed-reverted", func(tx index.UpdateTx) error {
						return tx.RevertContracts(idxAt(h), contracts.StateChanges{RenewedV2: []types.FileContractID{fcid}})
					})
				}
			case contracts.V2ContractStatusFailed:
				if rng.Intn(2) == 0 {
					chainOp("v2-failed-reverted", func(tx index.UpdateTx) error {
						return tx.RevertContracts(idxAt(h), contracts.StateChanges{FailedV2: []types.FileContractID{fcid}})
					})
				}
			}
		}

		desc := "generated population"
		switch id {
		case 0:
			desc = "directed: rejected v2 contract must not be re-broadcast; v1/v2 windows probed at every boundary"
			addV2(1, 50, 53, 1)
			addV2(1, 50, 53, 1)
			addV1(1, 50, 53, 1, true)
			addV1(1, 50, 53, 1, true)
			chainOp("reject", func(tx index.UpdateTx) error { _, _, err := tx.RejectContracts(5); return err })
			addV2(40, 50, 53, 1) // pending, not rejected
			addV1(40, 50, 53, 1, true)
		case 1:
			desc = "directed: confirmed contracts with unconfirmed revisions, proof window boundaries, no-benefit proof"
			a := addV1(1, 50, 53, 2, true)
			b := addV1(1, 51, 52, 2, false)
			c := addV2(1, 50, 53, 2)
			d := addV2(1, 52, 53, 2)
			chainOp("v1-formed", func(tx index.UpdateTx) error {
				return tx.ApplyContracts(idxAt(10), contracts.StateChanges{
					Confirmed: []types.FileContractElement{{ID: v1List[a]}, {ID: v1List[b]}},
					ConfirmedV2: []types.V2FileContractElement{
						{ID: v2List[c], StateElement: types.StateElement{LeafIndex: 1}, V2FileContract: types.V2FileContract{RevisionNumber: 1}},
						{ID: v2List[d], StateElement: types.StateElement{LeafIndex: 2}, V2FileContract: types.V2FileContract{RevisionNumber: 2}}}})
			})
			// latest revision not on chain, with numbers whose little-endian bytes order the other
			// way round than the numbers: (on chain, latest) = (2, 256), (255, 65536), (257, 2^32)
			for k, pair := range [][2]uint64{{2, 256}, {255, 65536}, {257, 1 << 32}} {
				e := addV1(1, 50, 53, pair[0], true)
				g := addV2(1, 50, 53, pair[0])
				chainOp("formed", func(tx index.UpdateTx) error {
					return tx.ApplyContracts(idxAt(10), contracts.StateChanges{
						Confirmed:   []types.FileContractElement{{ID: v1List[e]}},
						Revised:     []contracts.RevisedContract{{ID: v1List[e], FileContract: types.FileContract{RevisionNumber: pair[0]}}},
						ConfirmedV2: []types.V2FileContractElement{{ID: v2List[g], StateElement: types.StateElement{LeafIndex: uint64(3 + k)}, V2FileContract: types.V2FileContract{RevisionNumber: pair[0]}}}})
				})
				rv := v1Revs[e]
				rv.RevisionNumber = pair[1]
				if err := db.ReviseContract(contracts.SignedRevision{Revision: rv}, nil, contracts.Usage{}, nil); err != nil {
					t.Fatal(err)
				}
				v1Revs[e] = rv
				fc := v2Revs[g]
				fc.RevisionNumber = pair[1]
				if err := db.ReviseV2Contract(v2List[g], fc, nil, nil, proto4.Usage{}); err != nil {
					t.Fatal(err)
				}
				v2Revs[g] = fc
			}
			// the latest revision (7) was confirmed together with the formation: core folds it into
			// the created element and buildContractState records that element as confirmed AND as
			// the confirmed revision (fixes/C01-formation-carries-revision.patch) — the
			// broadcastRevision selection must not contain the contract at any height
			f := addV1(1, 50, 53, 7, true)
			chainOp("v1-formed-with-folded-revision", func(tx index.UpdateTx) error {
				return tx.ApplyContracts(idxAt(10), contracts.StateChanges{
					Confirmed: []types.FileContractElement{{ID: v1List[f], FileContract: types.FileContract{RevisionNumber: 7}}},
					Revised:   []contracts.RevisedContract{{ID: v1List[f], FileContract: types.FileContract{RevisionNumber: 7}}}})
			})
		case 2:
			desc = "directed: resolved and proof-reverted contracts inside their windows"
			a := addV1(1, 50, 53, 1, true)
			b := addV1(1, 50, 53, 1, true)
			c := addV2(1, 50, 53, 1)
			d := addV2(1, 50, 53, 1)
			chainOp("formed", func(tx index.UpdateTx) error {
				return tx.ApplyContracts(idxAt(10), contracts.StateChanges{
					Confirmed: []types.FileContractElement{{ID: v1List[a]}, {ID: v1List[b]}},
					ConfirmedV2: []types.V2FileContractElement{
						{ID: v2List[c], V2FileContract: types.V2FileContract{RevisionNumber: 1}},
						{ID: v2List[d], V2FileContract: types.V2FileContract{RevisionNumber: 1}}}})
			})
			chainOp("resolved", func(tx index.UpdateTx) error {
				return tx.ApplyContracts(idxAt(51), contracts.StateChanges{
					Successful: []types.FileContractID{v1List[a], v1List[b]}, SuccessfulV2: []types.FileContractID{v2List[c], v2List[d]}})
			})
			chainOp("v1-successful-reverted", func(tx index.UpdateTx) error {
				return tx.RevertContracts(idxAt(51), contracts.StateChanges{Successful: []types.FileContractID{v1List[b]}})
			})
			chainOp("v2-successful-reverted", func(tx index.UpdateTx) error {
				return tx.RevertContracts(idxAt(51), contracts.StateChanges{SuccessfulV2: []types.FileContractID{v2List[d]}})
			})
		case 3:
			desc = "directed: heights database/sql cannot bind"
			addV1(1, 50, 53, 1, true)
			addV2(1, 50, 53, 1)
		default:
			nv1, nv2 := 2+rng.Intn(5), 2+rng.Intn(5)
			if thorough && id%3 == 0 { // deeper: larger populations, longer histories
				nv1, nv2 = 4+rng.Intn(7), 4+rng.Intn(7)
			}
			for i := 0; i < nv1; i++ {
				ws := uint64(40 + rng.Intn(12))
				addV1(uint64(1+rng.Intn(30)), ws, ws+1+uint64(rng.Intn(4)), c06RevLadder[rng.Intn(7)], rng.Intn(4) != 0)
			}
			for i := 0; i < nv2; i++ {
				ph := uint64(40 + rng.Intn(12))
				addV2(uint64(1+rng.Intn(30)), ph, ph+1+uint64(rng.Intn(4)), c06RevLadder[rng.Intn(7)])
			}
			if rng.Intn(20) == 0 { // a cleared (renewed) v1 contract carries the maximum revision number
				i := rng.Intn(nv1)
				rv := v1Revs[i]
				rv.RevisionNumber = types.MaxRevisionNumber
				if err := db.ReviseContract(contracts.SignedRevision{Revision: rv}, nil, contracts.Usage{}, nil); err != nil {
					t.Fatal(err)
				}
				v1Revs[i] = rv
			}
			rounds := rng.Intn(5)
			if thorough && id%3 == 0 {
				rounds = 2 + rng.Intn(7)
			}
			for k := 0; k < rounds; k++ {
				r1, r2 := readRows()
				h := uint64(30 + rng.Intn(30))
				for _, r := range r1 {
					if rng.Intn(3) != 0 {
						stepV1(r, h)
					}
				}
				for _, r := range r2 {
					if rng.Intn(3) != 0 {
						stepV2(r, h)
					}
				}
			}
		}

		em.BeginCase(id, desc)
		r1, r2 := readRows()
		var s1, s2 []string
		for _, r := range r1 {
			s1 = append(s1, r.coq())
			em.Count(fmt.Sprintf("v1row:%s,formed=%v,revOnChain=%v,resolved=%v", c06St1[r.status], r.formed, r.confRev != nil && *r.confRev == r.rev, r.res != nil))
			if r.confRev == nil {
				em.Count("v1row:confirmed_revision_number-NULL")
			}
		}
		for _, r := range r2 {
			s2 = append(s2, r.coq())
			em.Count(fmt.Sprintf("v2row:%s,formed=%v,elem=%v,revOnChain=%v,resolved=%v", c06St2[r.status], r.conf != nil, r.elemRev != nil, r.elemRev != nil && *r.elemRev == r.rev, r.res != nil))
		}
		em.Step(fmt.Sprintf("SetRows\n     [%s]\n     [%s]", strings.Join(s1, ";\n      "), strings.Join(s2, ";\n      ")), "ODone")

		// the store's own view of the contracts, for the monitors
		api1 := make([]contracts.Contract, len(v1List))
		api2 := make([]contracts.V2Contract, len(v2List))
		for i, fcid := range v1List {
			if api1[i], err = db.Contract(fcid); err != nil {
				t.Fatal(err)
			}
		}
		for i, fcid := range v2List {
			if api2[i], err = db.V2Contract(fcid); err != nil {
				t.Fatal(err)
			}
		}
		// expected id sets, from the text of the property
		expect := func(h, hb uint64) (e c06Acts) {
			for i, c := range api1 {
				ws, we := c.Revision.WindowStart, c.Revision.WindowEnd
				if !c.FormationConfirmed && c.Status != contracts.ContractStatusRejected {
					e.l[0] = append(e.l[0], i)
				}
				if c.FormationConfirmed && !c.RevisionConfirmed && h <= ws && ws <= hb {
					e.l[1] = append(e.l[1], i)
				}
				if c.FormationConfirmed && c.ResolutionHeight == 0 && ws <= h && h < we {
					e.l[2] = append(e.l[2], i)
				}
			}
			for i, c := range api2 {
				formed, resolved := c.FormationIndex != (types.ChainIndex{}), c.ResolutionIndex != (types.ChainIndex{})
				if !formed && c.Status != contracts.V2ContractStatusRejected {
					e.l[3] = append(e.l[3], i)
				}
				if formed && !resolved && !c.RevisionConfirmed && h <= c.ProofHeight && c.ProofHeight <= hb {
					e.l[4] = append(e.l[4], i)
				}
				if formed && !resolved && c.ProofHeight <= h && h < c.ExpirationHeight {
					e.l[5] = append(e.l[5], i)
				}
				if formed && !resolved && c.ExpirationHeight <= h {
					e.l[6] = append(e.l[6], i)
				}
			}
			return
		}
		// [allowed]: contracts that may be acted on without being required (nil = none)
		judge := func(what string, got, want c06Acts, allowed map[int]bool, h, hb uint64) {
			for k := 0; k < 7; k++ {
				g, w := map[int]bool{}, map[int]bool{}
				for _, i := range got.l[k] {
					g[i] = true
				}
				for _, i := range want.l[k] {
					w[i] = true
				}
				for i := range g {
					if !w[i] && !(k == 2 && allowed[i]) {
						sig := what + c06Kinds[k] + "-unrequired-contract"
						if k == 3 && api2[i].Status == contracts.V2ContractStatusRejected {
							sig = what + "rejected-v2-contract-rebroadcast"
						}
						em.Monitor(sig, fmt.Sprintf("height %d horizon %d: contract #%d selected for %s but the property does not require it", h, hb, i, c06Kinds[k]))
					}
				}
				for i := range w {
					if !g[i] {
						em.Monitor(what+c06Kinds[k]+"-missing-contract", fmt.Sprintf("height %d horizon %d: contract #%d requires %s but was not selected", h, hb, i, c06Kinds[k]))
					}
				}
				if len(got.l[k]) != len(g) {
					em.Monitor(what+c06Kinds[k]+"-duplicate", fmt.Sprintf("height %d: a contract is listed twice", h))
				}
			}
		}

		callActions := func(h, hb uint64) (c06Acts, error) {
			var a c06Acts
			acts, err := db.ContractActions(types.ChainIndex{Height: h, ID: c06BlockID(h)}, hb)
			if err != nil {
				return a, err
			}
			lookup1 := func(fcid types.FileContractID) int {
				i, ok := v1IDs[fcid]
				if !ok {
					t.Fatalf("action for unknown v1 contract %v", fcid)
				}
				return i
			}
			lookup2 := func(fcid types.FileContractID) int {
				i, ok := v2IDs[fcid]
				if !ok {
					t.Fatalf("action for unknown v2 contract %v", fcid)
				}
				return i
			}
			for _, set := range acts.RebroadcastFormation {
				a.l[0] = append(a.l[0], lookup1(set[len(set)-1].FileContractID(0)))
			}
			for _, r := range acts.BroadcastRevision {
				a.l[1] = append(a.l[1], lookup1(r.Revision.ParentID))
			}
			for _, r := range acts.BroadcastProof {
				a.l[2] = append(a.l[2], lookup1(r.Revision.ParentID))
			}
			for _, set := range acts.RebroadcastV2Formation {
				txn := set.Transactions[len(set.Transactions)-1]
				a.l[3] = append(a.l[3], lookup2(txn.V2FileContractID(txn.ID(), 0)))
			}
			for _, r := range acts.BroadcastV2Revision {
				a.l[4] = append(a.l[4], lookup2(r.Parent.ID))
			}
			for _, e := range acts.BroadcastV2Proof {
				a.l[5] = append(a.l[5], lookup2(e.ID))
			}
			for _, e := range acts.BroadcastV2Expiration {
				a.l[6] = append(a.l[6], lookup2(e.ID))
			}
			return a, nil
		}
		callProcess := func(h uint64) (a c06Acts, err error) {
			syncer.v1, syncer.v2 = nil, nil
			defer func() {
				if r := recover(); r != nil {
					em.Monitor("process-actions-panics", fmt.Sprint(r))
					err = fmt.Errorf("panic: %v", r)
				}
			}()
			if err = cm.ProcessActions(types.ChainIndex{Height: h, ID: c06BlockID(h)}); err != nil {
				return
			}
			for _, set := range syncer.v1 {
				last := set[len(set)-1]
				switch {
				case len(last.FileContracts) > 0:
					a.l[0] = append(a.l[0], v1IDs[last.FileContractID(0)])
				case len(last.FileContractRevisions) > 0:
					a.l[1] = append(a.l[1], v1IDs[last.FileContractRevisions[0].ParentID])
				case len(last.StorageProofs) > 0:
					a.l[2] = append(a.l[2], v1IDs[last.StorageProofs[0].ParentID])
				default:
					t.Fatalf("unclassified broadcast %v", last)
				}
			}
			for _, set := range syncer.v2 {
				last := set[len(set)-1]
				switch {
				case len(last.FileContracts) > 0:
					a.l[3] = append(a.l[3], v2IDs[last.V2FileContractID(last.ID(), 0)])
				case len(last.FileContractRevisions) > 0:
					a.l[4] = append(a.l[4], v2IDs[last.FileContractRevisions[0].Parent.ID])
				case len(last.FileContractResolutions) > 0:
					res := last.FileContractResolutions[0]
					switch res.Resolution.(type) {
					case *types.V2StorageProof:
						a.l[5] = append(a.l[5], v2IDs[res.Parent.ID])
					case *types.V2FileContractExpiration:
						a.l[6] = append(a.l[6], v2IDs[res.Parent.ID])
					default:
						t.Fatalf("unclassified resolution %T", res.Resolution)
					}
				default:
					t.Fatalf("unclassified v2 broadcast")
				}
			}
			return
		}

		// probe heights: every boundary of every contract, with and without the buffer
		hs := map[uint64]bool{0: true, 1: true}
		addAround := func(x uint64) {
			for d := uint64(0); d <= 2; d++ {
				hs[x+d] = true
				if x >= d {
					hs[x-d] = true
				}
				if x >= buf+d {
					hs[x-buf-d] = true
				}
				if x+d >= buf {
					hs[x+d-buf] = true
				}
			}
		}
		for _, r := range r1 {
			addAround(r.ws)
			addAround(r.we)
		}
		for _, r := range r2 {
			addAround(r.ph)
			addAround(r.eh)
		}
		var heights []uint64
		for h := range hs {
			heights = append(heights, h)
		}
		sort.Slice(heights, func(a, b int) bool { return heights[a] < heights[b] })
		if id >= directed && len(heights) > 24 {
			rng.Shuffle(len(heights), func(a, b int) { heights[a], heights[b] = heights[b], heights[a] })
			heights = heights[:24]
			sort.Slice(heights, func(a, b int) bool { return heights[a] < heights[b] })
		}
		if id == 3 {
			heights = []uint64{50, 1<<63 - 1 - buf, 1<<63 - buf, 1<<63 - 1, 1 << 63, ^uint64(0) - buf, ^uint64(0) - buf + 1, ^uint64(0)}
		}
		nontrivial := false
		for pi, h := range heights {
			hb := h + buf // as host/contracts/update.go computes it
			if id >= directed && rng.Intn(8) == 0 {
				hb = uint64(rng.Intn(70)) // any horizon, also below h
			}
			got, err := callActions(h, hb)
			if err != nil {
				em.Step(fmt.Sprintf("Actions %d %d", h, hb), "OActs (Err EOther)")
				em.Count("actions:error")
				if h < 1<<62 && hb < 1<<62 {
					em.Monitor("contract-actions-fails", fmt.Sprintf("height %d horizon %d: %v", h, hb, err))
				}
			} else {
				em.Step(fmt.Sprintf("Actions %d %d", h, hb), "OActs (Ok "+got.coq()+")")
				em.Count("actions:ok")
				judge("", got, expect(h, hb), nil, h, hb)
				nontrivial = nontrivial || got.nonEmpty()
				for k := 0; k < 7; k++ {
					if len(got.l[k]) > 0 {
						em.Count("selected:" + c06Kinds[k])
					}
				}
			}
			if id < directed || pi%3 == 0 {
				pg, perr := callProcess(h)
				if perr != nil {
					em.Step(fmt.Sprintf("Process %d %d", buf, h), "OActs (Err EOther)")
					em.Count("process:error")
				} else {
					em.Step(fmt.Sprintf("Process %d %d", buf, h), "OActs (Ok "+pg.coq()+")")
					em.Count("process:ok")
					// ProcessActions must act on exactly what the property requires at h with the
					// configured buffer; a v1 proof that does not benefit the host may be skipped
					want := expect(h, h+buf)
					var w2 []int
					optional := map[int]bool{}
					for _, i := range want.l[2] {
						c := api1[i]
						if c.Revision.MissedHostPayout().Cmp(c.Revision.ValidHostPayout()) < 0 {
							w2 = append(w2, i)
						} else {
							optional[i] = true // the property asks for it, the host may save the fee
							em.Count("process:no-benefit-proof")
						}
					}
					want.l[2] = w2
					judge("process-", pg, want, optional, h, h+buf)
				}
			}
		}
		em.EndCase(nontrivial)
		raw.Close()
		cm.Close()
		db.Close()
	}
}
