//go:build verif

package contracts_test

import (
	"context"
	"fmt"
	"math/big"
	"path/filepath"
	"runtime"
	"strings"
	"testing"

	rhp2 "go.sia.tech/core/rhp/v2"
	proto4 "go.sia.tech/core/rhp/v4"
	"go.sia.tech/core/types"
	rhp4 "go.sia.tech/coreutils/rhp/v4"
	"go.sia.tech/hostd/v2/internal/testutil"
	"go.uber.org/zap"
)

func c14Site() string {
	pcs := make([]uintptr, 64)
	n := runtime.Callers(3, pcs)
	frames := runtime.CallersFrames(pcs[:n])
	first := ""
	for {
		f, more := frames.Next()
		fn := f.Function
		if fn != "" && !strings.HasPrefix(fn, "runtime.") && !strings.Contains(fn, "verif") && !strings.Contains(fn, "Verif") && !strings.Contains(fn, "c14") && !strings.HasPrefix(fn, "testing.") {
			short := fn
			if i := strings.LastIndex(short, "/"); i >= 0 {
				short = short[i+1:]
			}
			if first == "" {
				first = short
			}
			if strings.Contains(fn, "go.sia.tech/hostd/") {
				return short
			}
		}
		if !more {
			break
		}
	}
	if first == "" {
		return "unknown"
	}
	return first
}

func c14Num(h types.Hash256) string {
	r := make([]byte, 32)
	for i := range h {
		r[31-i] = h[i]
	}
	return new(big.Int).SetBytes(r).String() + "%N"
}

func c14NumList(hs []types.Hash256) string {
	items := make([]string, len(hs))
	for i := range hs {
		items[i] = c14Num(hs[i])
	}
	return coqList(items)
}

// TestVerifC14RHP4 calls the methods coreutils' RHP4 server invokes on the contract
// manager and the volume manager (the Contractor and Sectors interfaces) with arguments of
// any shape under recover, and records AddV2Contract / RenewV2Contract / ReviseV2Contract
// for MDM/Rpc.v.
func TestVerifC14RHP4(t *testing.T) {
	em := newVerifEmitter(t, "From HostdBase Require Import Base.\nFrom HostdMDM Require Import Model Rpc.", "rcase", "check_rpc")
	defer em.Close()
	log := zap.NewNop()
	hostKey := types.NewPrivateKeyFromSeed(make([]byte, 32))
	renterKey := types.NewPrivateKeyFromSeed([]byte(strings.Repeat("r", 32)))
	network, genesis := testutil.V2Network()
	node := testutil.NewHostNode(t, hostKey, network, genesis, log)
	res := make(chan error, 1)
	if _, err := node.Volumes.AddVolume(context.Background(), filepath.Join(t.TempDir(), "storage.dat"), 64, res); err != nil {
		t.Fatal(err)
	} else if err := <-res; err != nil {
		t.Fatal(err)
	}
	var base []types.Hash256
	for i := 0; i < 4; i++ {
		var sector [rhp2.SectorSize]byte
		sector[0], sector[300] = byte(i+1), 0x44
		root := rhp2.SectorRoot(&sector)
		if err := node.Volumes.StoreSector(root, &sector, node.Chain.Tip().Height+100000); err != nil {
			t.Fatal(err)
		}
		base = append(base, root)
	}
	cs := node.Chain.TipState()
	sign := func(fc *types.V2FileContract) {
		sigHash := node.Chain.TipState().ContractSigHash(*fc)
		fc.HostSignature = hostKey.SignHash(sigHash)
		fc.RenterSignature = renterKey.SignHash(sigHash)
	}
	newFC := func(salt int) types.V2FileContract {
		fc := types.V2FileContract{
			ProofHeight: cs.Index.Height + 1000, ExpirationHeight: cs.Index.Height + 1010,
			RenterOutput:    types.SiacoinOutput{Value: types.Siacoins(uint32(100 + salt)), Address: types.Address{1}},
			HostOutput:      types.SiacoinOutput{Value: types.Siacoins(100), Address: node.Wallet.Address()},
			MissedHostValue: types.Siacoins(100), TotalCollateral: types.Siacoins(100),
			RenterPublicKey: renterKey.PublicKey(), HostPublicKey: hostKey.PublicKey(),
		}
		sign(&fc)
		return fc
	}
	addContract := func(salt int) types.FileContractID {
		txn := types.V2Transaction{FileContracts: []types.V2FileContract{newFC(salt)}}
		if err := node.Contracts.AddV2Contract(rhp4.TransactionSet{Transactions: []types.V2Transaction{txn}, Basis: cs.Index}, proto4.Usage{}); err != nil {
			t.Fatal(err)
		}
		return txn.V2FileContractID(txn.ID(), 0)
	}
	guard := func(what string, f func() error) (err error, panicked bool) {
		defer func() {
			if r := recover(); r != nil {
				em.Monitor("panic-"+c14Site(), fmt.Sprintf("%s: %v", what, r))
				panicked = true
			}
		}()
		return f(), false
	}
	class := func(err error, panicked bool) string {
		switch {
		case panicked:
			return "Panic"
		case err != nil:
			return "(Err EInvalid)"
		}
		return "(Ok [])"
	}

	n := verifN(200)
	for id := 0; id < n; id++ {
		if em.Skip(id) {
			continue
		}
		rng := verifCaseRand(id)
		cid := addContract(1000 + id)
		em.BeginCase(id, "RHP4 contractor / sectors interface")
		// start the contract with some roots
		start := rng.Intn(3)
		existing, err := node.Contracts.V2Contract(cid)
		if err != nil {
			t.Fatal(err)
		}
		if start > 0 {
			fc := existing.V2FileContract
			fc.RevisionNumber++
			fc.Filesize, fc.Capacity = uint64(start)*rhp2.SectorSize, uint64(start)*rhp2.SectorSize
			fc.FileMerkleRoot = rhp2.MetaRoot(base[:start])
			sign(&fc)
			if err := node.Contracts.ReviseV2Contract(cid, fc, base[:start], proto4.Usage{}); err != nil {
				t.Fatal(err)
			}
			existing, _ = node.Contracts.V2Contract(cid)
		}
		roots := node.Contracts.SectorRoots(cid)
		em.Step(fmt.Sprintf("RSetContract %d %s", existing.RevisionNumber, c14NumList(roots)), "RDone")

		kind := rng.Intn(10)
		if id < 4 {
			kind = []int{7, 8, 0, 9}[id]
		}
		nontrivial := false
		switch {
		case kind < 7: // ------------------------------------------------ ReviseV2Contract
			fc := existing.V2FileContract
			fc.RevisionNumber += uint64(1 + rng.Intn(3))
			k := rng.Intn(5)
			var newRoots []types.Hash256
			for i := 0; i < k; i++ {
				if rng.Intn(8) == 0 {
					var r types.Hash256
					rng.Read(r[:])
					newRoots = append(newRoots, r) // a root the host does not store
				} else {
					newRoots = append(newRoots, base[rng.Intn(4)])
				}
			}
			fc.Filesize = uint64(k) * rhp2.SectorSize
			fc.Capacity = fc.Filesize
			fc.FileMerkleRoot = rhp2.MetaRoot(newRoots)
			found, keysOk, heightsOk, sigsOk, rootOk := true, true, true, true, true
			target := cid
			switch rng.Intn(12) {
			case 0:
				rng.Read(target[:])
				found = false
			case 1:
				fc.RenterPublicKey = hostKey.PublicKey()
				keysOk = false
			case 2:
				fc.ProofHeight++
				heightsOk = false
			case 3:
				fc.ExpirationHeight--
				heightsOk = false
			case 4:
				fc.Filesize = []uint64{fc.Filesize + 1, fc.Filesize + rhp2.SectorSize, ^uint64(0), 0}[rng.Intn(4)]
				if fc.Capacity < fc.Filesize {
					fc.Capacity = fc.Filesize
				}
			case 5:
				fc.Capacity = []uint64{0, fc.Filesize - 1, fc.Filesize / 2}[rng.Intn(3)]
			case 6:
				fc.FileMerkleRoot[3] ^= 1
				rootOk = false
			}
			sign(&fc)
			if rng.Intn(10) == 0 {
				fc.RenterSignature[0] ^= 1
				sigsOk = false
			}
			err, panicked := guard("ReviseV2Contract", func() error { return node.Contracts.ReviseV2Contract(target, fc, newRoots, proto4.Usage{}) })
			storeOk := !(err != nil && (strings.Contains(err.Error(), "failed to revise contract") || strings.Contains(err.Error(), "failed to update contract sectors") || strings.Contains(err.Error(), "transaction failed")))
			after, _ := node.Contracts.V2Contract(cid)
			rootsAfter := node.Contracts.SectorRoots(cid)
			op := fmt.Sprintf("RReviseV2 {| r4Found := %s; r4Renewed := false; r4KeysOk := %s; r4HeightsOk := %s; r4Filesize := %d; r4Capacity := %d; r4Roots := %s; r4SigsOk := %s; r4RootOk := %s; r4StoreOk := %s; r4Rev := %d |}",
				coqBool(found), coqBool(keysOk), coqBool(heightsOk), fc.Filesize, fc.Capacity, c14NumList(newRoots), coqBool(sigsOk), coqBool(rootOk), coqBool(storeOk), fc.RevisionNumber)
			em.Step(op, fmt.Sprintf("RRes %s %d %s", class(err, panicked), after.RevisionNumber, c14NumList(rootsAfter)))
			if err != nil && (after.RevisionNumber != existing.RevisionNumber || fmt.Sprint(rootsAfter) != fmt.Sprint(roots)) {
				em.Monitor("rejected-v2-revision-changed-contract", fmt.Sprintf("%v: revision %d -> %d", err, existing.RevisionNumber, after.RevisionNumber))
			}
			em.Count(fmt.Sprintf("revise:%v", err == nil))
			nontrivial = err == nil
		case kind == 7: // ------------------------------------------------ AddV2Contract
			ntx := rng.Intn(4)
			nfc := rng.Intn(4)
			if id == 0 {
				ntx, nfc = 0, 0
			}
			var txns []types.V2Transaction
			for i := 0; i < ntx; i++ {
				txn := types.V2Transaction{ArbitraryData: []byte{byte(i)}}
				if i == ntx-1 {
					for j := 0; j < nfc; j++ {
						txn.FileContracts = append(txn.FileContracts, newFC(5000+id*10+j))
					}
				}
				txns = append(txns, txn)
			}
			err, panicked := guard("AddV2Contract", func() error {
				return node.Contracts.AddV2Contract(rhp4.TransactionSet{Transactions: txns, Basis: cs.Index}, proto4.Usage{})
			})
			shapeOk := ntx > 0 && nfc == 1
			em.Step(fmt.Sprintf("RAddV2 %d %d %s", ntx, nfc, coqBool(!(shapeOk && err != nil))),
				fmt.Sprintf("RRes %s %d %s", class(err, panicked), existing.RevisionNumber, c14NumList(roots)))
			em.Count(fmt.Sprintf("add:%v", err == nil))
			nontrivial = err == nil
		case kind == 8: // ------------------------------------------------ RenewV2Contract
			ntx := rng.Intn(3)
			nres := rng.Intn(3)
			if id == 1 {
				ntx, nres = 1, 0
			}
			isRenewal := rng.Intn(4) != 0
			found := rng.Intn(5) != 0
			fieldsOk := rng.Intn(4) != 0
			parent := cid
			if !found {
				rng.Read(parent[:])
			}
			nc := existing.V2FileContract
			nc.RevisionNumber = 0
			nc.ProofHeight += 100
			nc.ExpirationHeight += 100
			if !fieldsOk {
				switch rng.Intn(3) {
				case 0:
					nc.Filesize += rhp2.SectorSize
				case 1:
					nc.Capacity += rhp2.SectorSize
				default:
					nc.FileMerkleRoot[0] ^= 1
				}
			}
			sign(&nc)
			var txns []types.V2Transaction
			for i := 0; i < ntx; i++ {
				txn := types.V2Transaction{ArbitraryData: []byte{byte(i), 9}}
				if i == ntx-1 {
					for j := 0; j < nres; j++ {
						r := types.V2FileContractResolution{Parent: types.V2FileContractElement{ID: parent, V2FileContract: existing.V2FileContract}}
						if isRenewal {
							r.Resolution = &types.V2FileContractRenewal{NewContract: nc, FinalRenterOutput: existing.RenterOutput, FinalHostOutput: existing.HostOutput}
						} else {
							r.Resolution = &types.V2FileContractExpiration{}
						}
						txn.FileContractResolutions = append(txn.FileContractResolutions, r)
					}
				}
				txns = append(txns, txn)
			}
			err, panicked := guard("RenewV2Contract", func() error {
				return node.Contracts.RenewV2Contract(rhp4.TransactionSet{Transactions: txns, Basis: cs.Index}, proto4.Usage{})
			})
			reached := ntx > 0 && nres == 1 && isRenewal && found && fieldsOk
			if reached && err != nil {
				t.Logf("case %d: renewal refused by the store: %v", id, err)
			}
			em.Step(fmt.Sprintf("RRenewV2 %d %d %s %s %s true %s", ntx, nres, coqBool(isRenewal), coqBool(found), coqBool(fieldsOk), coqBool(!(reached && err != nil))),
				fmt.Sprintf("RRes %s %d %s", class(err, panicked), existing.RevisionNumber, c14NumList(roots)))
			em.Count(fmt.Sprintf("renew:%v", err == nil))
			nontrivial = err == nil
		default: // ------------------------------------------------------- everything else, monitors only
			var rid types.FileContractID
			rng.Read(rid[:])
			var acct proto4.Account
			rng.Read(acct[:])
			var root types.Hash256
			rng.Read(root[:])
			big := types.NewCurrency(^uint64(0), 1<<62)
			guard("LockV2Contract", func() error {
				_, unlock, err := node.Contracts.LockV2Contract(rid)
				if err == nil {
					unlock()
				}
				return err
			})
			guard("V2FileContractElement", func() error { _, _, err := node.Contracts.V2FileContractElement(rid); return err })
			guard("AccountBalance", func() error { _, err := node.Contracts.AccountBalance(acct); return err })
			guard("AccountBalances", func() error {
				b, err := node.Contracts.AccountBalances(make([]proto4.Account, rng.Intn(4)))
				_ = b
				return err
			})
			guard("DebitAccount", func() error {
				return node.Contracts.DebitAccount(acct, proto4.Usage{RPC: big, Storage: types.NewCurrency64(uint64(rng.Intn(3)))})
			})
			balBefore, _ := node.Contracts.AccountBalance(acct)
			err, _ := guard("CreditAccountsWithContract", func() error {
				fc := existing.V2FileContract
				fc.RevisionNumber++
				var deps []proto4.AccountDeposit
				for i := 0; i < rng.Intn(3); i++ {
					deps = append(deps, proto4.AccountDeposit{Account: acct, Amount: types.Siacoins(uint32(rng.Intn(3)))})
				}
				target := cid
				if rng.Intn(2) == 0 {
					target = rid
				}
				_, err := node.Contracts.CreditAccountsWithContract(deps, target, fc, proto4.Usage{})
				return err
			})
			if balAfter, _ := node.Contracts.AccountBalance(acct); err != nil && !balAfter.Equals(balBefore) {
				em.Monitor("rejected-v2-credit-changed-balance", fmt.Sprintf("%v -> %v", balBefore, balAfter))
			}
			guard("HasSector", func() error { _, err := node.Volumes.HasSector(root); return err })
			guard("ReadSector", func() error { _, err := node.Volumes.ReadSector(root); return err })
			guard("StoreSector", func() error {
				var sector [rhp2.SectorSize]byte
				sector[1] = byte(id)
				return node.Volumes.StoreSector(rhp2.SectorRoot(&sector), &sector, []uint64{0, 1, 1 << 63, ^uint64(0)}[rng.Intn(4)])
			})
			em.Count("other-interface-calls")
		}
		em.EndCase(nontrivial)
	}
}
