//go:build verif

package contracts

// Driver for Manager.UpdateChainState (C01): real chain.RevertUpdate / chain.ApplyUpdate values
// produced by a real chain.Manager that is reorganised between two branches are handed to the
// real method together with a recording UpdateStateTx; the sequence of RevertContracts /
// ApplyContracts / RejectContracts calls (heights only) is recorded for Contracts/Build.v
// (manager_calls) and checked against the property's own reading: reverts first, newest first;
// then per applied block apply and, when height >= rejectBuffer, reject(height - rejectBuffer).

import (
	"fmt"
	"testing"
	"time"

	"go.sia.tech/core/types"
	"go.sia.tech/coreutils"
	"go.sia.tech/coreutils/chain"
	ctestutil "go.sia.tech/coreutils/testutil"
	"go.uber.org/zap"
)

type vfOrderTx struct {
	vfBuildTx
	calls []string
	kinds []byte
	hs    []uint64
}

func (tx *vfOrderTx) ApplyContracts(i types.ChainIndex, _ StateChanges) error {
	tx.calls = append(tx.calls, fmt.Sprintf("CApply %d", i.Height))
	tx.kinds, tx.hs = append(tx.kinds, 'a'), append(tx.hs, i.Height)
	return nil
}
func (tx *vfOrderTx) RevertContracts(i types.ChainIndex, _ StateChanges) error {
	tx.calls = append(tx.calls, fmt.Sprintf("CRevert %d", i.Height))
	tx.kinds, tx.hs = append(tx.kinds, 'r'), append(tx.hs, i.Height)
	return nil
}
func (tx *vfOrderTx) RejectContracts(h uint64) (v1, v2 []types.FileContractID, err error) {
	tx.calls = append(tx.calls, fmt.Sprintf("CReject %d", h))
	tx.kinds, tx.hs = append(tx.kinds, 'j'), append(tx.hs, h)
	return nil, nil, nil
}

func vfNewChain(t *testing.T) *chain.Manager {
	n, genesis := ctestutil.Network()
	store, state, err := chain.NewDBStore(chain.NewMemDB(), n, genesis, nil)
	if err != nil {
		t.Fatal(err)
	}
	return chain.NewManager(store, state)
}

func vfMine(t *testing.T, cm *chain.Manager, addr types.Address, n int) (blocks []types.Block) {
	for i := 0; i < n; i++ {
		b, ok := coreutils.MineBlock(cm, addr, 5*time.Second)
		if !ok {
			t.Fatal("failed to mine block")
		}
		if err := cm.AddBlocks([]types.Block{b}); err != nil {
			t.Fatal(err)
		}
		blocks = append(blocks, b)
	}
	return
}

func TestVerifC01Order(t *testing.T) {
	em := newVerifEmitter(t, "From HostdBase Require Import Base.\nFrom HostdContracts Require Import Model Build.\nLocal Open Scope N_scope.", "mcase", "check_manager")
	defer em.Close()
	n := verifN(60)
	for id := 0; id < n; id++ {
		if em.Skip(id) {
			continue
		}
		rng := verifCaseRand(id)
		main, side := vfNewChain(t), vfNewChain(t)
		common := rng.Intn(4)
		shared := vfMine(t, main, types.Address{1}, common)
		if err := side.AddBlocks(shared); err != nil {
			t.Fatal(err)
		}
		oldLen := rng.Intn(4)
		vfMine(t, main, types.Address{2}, oldLen)
		tipBefore := main.Tip()
		// the heavier branch; sometimes a plain extension (no reorg)
		var newBlocks []types.Block
		if rng.Intn(3) == 0 || oldLen == 0 {
			newBlocks = vfMine(t, main, types.Address{3}, 1+rng.Intn(4))
		} else {
			newBlocks = vfMine(t, side, types.Address{3}, oldLen+1+rng.Intn(3))
			if err := main.AddBlocks(newBlocks); err != nil {
				t.Fatal(err)
			}
		}
		buffer := uint64(rng.Intn(int(main.Tip().Height) + 3))
		max := 1 + rng.Intn(12) // batch size: a batch may stop in the middle of the reverts or applies
		reverted, applied, err := main.UpdatesSince(tipBefore, max)
		if err != nil {
			t.Fatal(err)
		}
		cm := &Manager{rejectBuffer: buffer, log: zap.NewNop()}
		tx := &vfOrderTx{vfBuildTx: vfBuildTx{rel1: map[types.FileContractID]bool{}, rel2: map[types.FileContractID]bool{}}}
		if err := cm.UpdateChainState(tx, reverted, applied); err != nil {
			t.Fatal(err)
		}
		var rh, ah []string
		for _, r := range reverted {
			rh = append(rh, fmt.Sprint(r.State.Index.Height+1))
		}
		for _, a := range applied {
			ah = append(ah, fmt.Sprint(a.State.Index.Height))
		}
		em.curDesc = "Manager.UpdateChainState call order"
		em.FunCase(id, fmt.Sprintf("(%d, %s, %s)", buffer, coqList(rh), coqList(ah)), coqList(tx.calls), len(reverted)+len(applied) > 0)
		em.Count(fmt.Sprintf("batch:reverts=%d,applies=%d", vfCapI(len(reverted), 3), vfCapI(len(applied), 4)))
		em.Count(fmt.Sprintf("buffer-vs-tip:%s", map[bool]string{true: "below-or-equal", false: "above"}[buffer <= main.Tip().Height]))

		// monitors
		i := 0
		for k, r := range reverted {
			want := r.State.Index.Height + 1
			if i >= len(tx.kinds) || tx.kinds[i] != 'r' || tx.hs[i] != want {
				em.Monitor("reverts-not-processed-first-in-order", fmt.Sprintf("revert %d (height %d): calls %v", k, want, tx.calls))
				break
			}
			i++
		}
		for _, a := range applied {
			h := a.State.Index.Height
			if i >= len(tx.kinds) || tx.kinds[i] != 'a' || tx.hs[i] != h {
				em.Monitor("apply-out-of-order", fmt.Sprintf("apply height %d: calls %v", h, tx.calls))
				break
			}
			i++
			if h >= buffer {
				if i >= len(tx.kinds) || tx.kinds[i] != 'j' || tx.hs[i] != h-buffer {
					em.Monitor("reject-not-run-with-height-minus-buffer", fmt.Sprintf("apply height %d buffer %d: calls %v", h, buffer, tx.calls))
					break
				}
				i++
			} else if i < len(tx.kinds) && tx.kinds[i] == 'j' {
				em.Monitor("reject-run-below-buffer", fmt.Sprintf("apply height %d buffer %d: calls %v", h, buffer, tx.calls))
				break
			}
		}
	}
}

func vfCapI(n, c int) int {
	if n > c {
		return c
	}
	return n
}
